(* C14 -- proofs about Model/Tree.v, part 3: the tree invariant WF and the refinement of the forest specification,
   operation by operation. *)
From Coq Require Import NArith List Bool Arith Lia PeanoNat.
From TV Require Import Model.Tree Proofs.TreeLists Proofs.TreeSlotMap.
Import ListNotations.

(* ------------------------------------------------------------------ the invariant *)

Record WF (t : tree) : Prop := mkWF {
  wf_inv_n : sm_inv (t_nodes t);
  wf_inv_c : sm_inv (t_children t);
  wf_inv_p : sm_inv (t_parents t);
  (* the three maps have identical key sets: same slots occupied, same versions, same free list *)
  wf_shape_c : shape (t_children t) = shape (t_nodes t);
  wf_shape_p : shape (t_parents t) = shape (t_nodes t);
  (* child lists are duplicate free and every listed node points back *)
  wf_down : forall p l, sm_get (t_children t) p = Some l ->
                        NoDup l /\ forall c, In c l -> sm_get (t_parents t) c = Some (Some p);
  (* every parent pointer is matched by a child-list entry *)
  wf_up : forall c p, sm_get (t_parents t) c = Some (Some p) ->
                      exists l, sm_get (t_children t) p = Some l /\ In c l
}.

Definition tlive (t : tree) (k : key) : Prop := sm_get (t_nodes t) k <> None.

Lemma abs_live t k : In k (live (abs t)) <-> tlive t k.
Proof. unfold abs, tlive. simpl. apply sm_keys_In'. Qed.

Lemma live_children t k : WF t -> tlive t k -> exists l, sm_get (t_children t) k = Some l.
Proof.
  intros W H. apply (shape_live (t_children t) (t_nodes t) k (wf_shape_c t W)) in H.
  destruct (sm_get (t_children t) k); [eauto | congruence].
Qed.

Lemma live_parents t k : WF t -> tlive t k -> exists pp, sm_get (t_parents t) k = Some pp.
Proof.
  intros W H. apply (shape_live (t_parents t) (t_nodes t) k (wf_shape_p t W)) in H.
  destruct (sm_get (t_parents t) k); [eauto | congruence].
Qed.

Lemma children_live t k l : WF t -> sm_get (t_children t) k = Some l -> tlive t k.
Proof. intros W H. apply (shape_live (t_children t) (t_nodes t) k (wf_shape_c t W)). congruence. Qed.

Lemma parents_live t k pp : WF t -> sm_get (t_parents t) k = Some pp -> tlive t k.
Proof. intros W H. apply (shape_live (t_parents t) (t_nodes t) k (wf_shape_p t W)). congruence. Qed.

Lemma kids_abs t k l : sm_get (t_children t) k = Some l -> kids (abs t) k = l.
Proof. intros H. unfold abs. simpl. rewrite H. reflexivity. Qed.

Lemma live_mark_dirty t k : tlive t k -> mark_dirty t k = Ok tt.
Proof.
  unfold tlive, mark_dirty. destruct (sm_get (t_nodes t) k) eqn:E; [|congruence]. intros _.
  rewrite (sm_contains_get E). reflexivity.
Qed.

(* listed nodes are live; a node is listed by at most one parent *)
Lemma WF_listed_live t p l c : WF t -> sm_get (t_children t) p = Some l -> In c l -> tlive t c.
Proof. intros W H Hc. destruct (wf_down t W p l H) as [_ Hd]. eapply parents_live; eauto. Qed.

Lemma WF_disjoint t p q lp lq c : WF t ->
  sm_get (t_children t) p = Some lp -> sm_get (t_children t) q = Some lq -> In c lp -> In c lq -> p = q.
Proof.
  intros W Hp Hq Hcp Hcq. destruct (wf_down t W p lp Hp) as [_ H1]. destruct (wf_down t W q lq Hq) as [_ H2].
  specialize (H1 c Hcp). specialize (H2 c Hcq). congruence.
Qed.

(* the derived parent of the specification is the stored parent pointer *)
Lemma abs_parent t c pp : WF t -> sm_get (t_parents t) c = Some pp -> spec_parent (abs t) c = pp.
Proof.
  intros W H. unfold spec_parent. destruct (find (fun p => mem c (kids (abs t) p)) (live (abs t))) as [p'|] eqn:F.
  - apply find_some in F. destruct F as [Hl Hm]. apply mem_In in Hm.
    apply abs_live in Hl. destruct (live_children t p' W Hl) as [l' Hl'].
    rewrite (kids_abs t p' l' Hl') in Hm. destruct (wf_down t W p' l' Hl') as [_ Hd].
    specialize (Hd c Hm). congruence.
  - destruct pp as [p|]; [|reflexivity]. exfalso.
    destruct (wf_up t W c p H) as [l [Hl Hc]].
    assert (Hp : In p (live (abs t))) by (apply abs_live; eapply children_live; eauto).
    pose proof (find_none _ _ F p Hp) as Hn. cbv beta in Hn. rewrite (kids_abs t p l Hl) in Hn.
    apply mem_false in Hn. tauto.
Qed.

Lemma detached_parents t c : WF t -> spec_live (abs t) c -> detached (abs t) c -> sm_get (t_parents t) c = Some None.
Proof.
  intros W Hl Hd. apply abs_live in Hl. destruct (live_parents t c W Hl) as [pp Hp].
  unfold detached in Hd. rewrite (abs_parent t c pp W Hp) in Hd. congruence.
Qed.

(* ------------------------------------------------------------------ generic steps for operations that allocate nothing *)

(* rebuilding WF after the children / parents maps were updated in place *)
Lemma WF_update t cm pm cx :
  WF t ->
  shape cm = shape (t_children t) -> sm_inv cm ->
  shape pm = shape (t_parents t) -> sm_inv pm ->
  (forall p l, sm_get cm p = Some l -> NoDup l /\ forall c, In c l -> sm_get pm c = Some (Some p)) ->
  (forall c p, sm_get pm c = Some (Some p) -> exists l, sm_get cm p = Some l /\ In c l) ->
  WF (mkTree (t_nodes t) cx cm pm).
Proof.
  intros W Hsc Hic Hsp Hip Hd Hu. constructor; simpl; auto.
  - apply (wf_inv_n t W).
  - rewrite Hsc. apply (wf_shape_c t W).
  - rewrite Hsp. apply (wf_shape_p t W).
Qed.

Lemma equiv_update t cm pm cx (kids' : key -> list key) :
  (forall k l, tlive t k -> sm_get cm k = Some l -> kids' k = l) ->
  (forall k, tlive t k -> sm_get cm k <> None) ->
  spec_equiv (abs (mkTree (t_nodes t) cx cm pm)) (mkSpec (live (abs t)) kids').
Proof.
  intros Hk Hl. unfold spec_equiv. simpl. split; [tauto|]. split; [reflexivity|].
  intros k Hin. apply sm_keys_In' in Hin. specialize (Hl k Hin).
  destruct (sm_get cm k) as [l|] eqn:E; [|congruence]. symmetry. apply Hk; auto.
Qed.

Lemma spec_equiv_refl s : spec_equiv s s.
Proof. unfold spec_equiv. repeat split; tauto. Qed.

(* attach a detached live node c under p: p's list becomes l' = l with c inserted somewhere *)
Lemma attach_WF t p c l l' c1 p1 :
  WF t -> sm_get (t_children t) p = Some l -> sm_get (t_parents t) c = Some None ->
  sm_set (t_parents t) c (Some p) = Ok p1 -> sm_set (t_children t) p l' = Ok c1 ->
  NoDup l' -> (forall x, In x l' <-> x = c \/ In x l) ->
  WF (mkTree (t_nodes t) (t_ctx t) c1 p1).
Proof.
  intros W Hl Hc Hp1 Hc1 Hnd Hin.
  assert (Hcl : ~ In c l).
  { intros Hcl. destruct (wf_down t W p l Hl) as [_ Hd]. specialize (Hd c Hcl). congruence. }
  apply WF_update; auto.
  - apply (shape_set Hc1). - apply (sm_set_preserves_inv Hc1), (wf_inv_c t W).
  - apply (shape_set Hp1). - apply (sm_set_preserves_inv Hp1), (wf_inv_p t W).
  - intros q lq Hq. rewrite (sm_get_set q Hc1) in Hq. destruct (key_eqb_spec p q) as [<-|Hne].
    + inversion Hq; subst lq. split; [exact Hnd|]. intros x Hx. rewrite (sm_get_set x Hp1).
      destruct (key_eqb_spec c x) as [<-|Hcx]; [reflexivity|].
      apply Hin in Hx. destruct Hx as [->|Hx]; [congruence|].
      destruct (wf_down t W p l Hl) as [_ Hd]. apply Hd. exact Hx.
    + destruct (wf_down t W q lq Hq) as [Hn Hd]. split; [exact Hn|]. intros x Hx. rewrite (sm_get_set x Hp1).
      destruct (key_eqb_spec c x) as [<-|Hcx]; [|apply Hd; exact Hx].
      specialize (Hd c Hx). congruence.
  - intros x q Hx. rewrite (sm_get_set x Hp1) in Hx. destruct (key_eqb_spec c x) as [<-|Hcx].
    + inversion Hx; subst q. exists l'. split; [apply (sm_get_set_same Hc1)|]. apply Hin. left. reflexivity.
    + destruct (wf_up t W x q Hx) as [lq [Hq Hxq]]. rewrite (sm_get_set q Hc1).
      destruct (key_eqb_spec p q) as [<-|Hne].
      * exists l'. split; [reflexivity|]. apply Hin. right. congruence.
      * exists lq. split; assumption.
Qed.

(* kids after replacing p's list *)
Lemma equiv_set_list t p l' c1 pm cx :
  WF t -> sm_set (t_children t) p l' = Ok c1 ->
  spec_equiv (abs (mkTree (t_nodes t) cx c1 pm)) (mkSpec (live (abs t)) (kupd (kids (abs t)) p l')).
Proof.
  intros W Hc1. apply equiv_update.
  - intros k l Hk Hg. rewrite (sm_get_set k Hc1) in Hg. unfold kupd. rewrite (key_eqb_sym k p).
    destruct (key_eqb p k); [congruence|]. apply kids_abs. exact Hg.
  - intros k Hk. rewrite (sm_get_set k Hc1). destruct (key_eqb p k); [congruence|].
    destruct (live_children t k W Hk) as [l Hl]. congruence.
Qed.

(* ------------------------------------------------------------------ add_child / insert_child_at_index *)

Definition refines (t : tree) (o : op) : Prop :=
  exists t' out, step t o = Ok (t', out) /\ WF t' /\
                 spec_equiv (abs t') (fst (spec_step (abs t) o (next_key t))) /\
                 out = snd (spec_step (abs t) o (next_key t)).

Lemma add_child_refines t p c : WF t -> pre (abs t) (OAddChild p c) -> refines t (OAddChild p c).
Proof.
  intros W [Hp [Hc Hd]]. pose proof (detached_parents t c W Hc Hd) as Hpc.
  apply abs_live in Hp. destruct (live_children t p W Hp) as [l Hl].
  destruct (sm_set_Ok (t_parents t) c (Some p)) as [p1 Hp1]; [congruence|].
  destruct (sm_set_Ok (t_children t) p (l ++ [c])) as [c1 Hc1]; [congruence|].
  assert (Hcl : ~ In c l).
  { intros Hcl. destruct (wf_down t W p l Hl) as [_ Hdn]. specialize (Hdn c Hcl). congruence. }
  exists (mkTree (t_nodes t) (t_ctx t) c1 p1), RUnit. split; [|split; [|split]].
  - simpl. unfold add_child, sm_index. rewrite Hp1, Hl. simpl. rewrite Hc1. simpl.
    rewrite (live_mark_dirty t p Hp). reflexivity.
  - eapply attach_WF; eauto.
    + apply NoDup_insert_mid with (b := []); rewrite app_nil_r; [apply (wf_down t W p l Hl) | exact Hcl].
    + intros x. rewrite in_app_iff. simpl. intuition.
  - cbn [spec_step fst]. rewrite (kids_abs t p l Hl). apply equiv_set_list; auto.
  - reflexivity.
Qed.

Lemma insert_child_refines t p i c : WF t -> pre (abs t) (OInsertChild p i c) -> refines t (OInsertChild p i c).
Proof.
  intros W [Hp [Hc Hd]]. pose proof (detached_parents t c W Hc Hd) as Hpc.
  apply abs_live in Hp. destruct (live_children t p W Hp) as [l Hl].
  unfold refines. cbn [step spec_step]. unfold insert_child_at_index, sm_index. rewrite Hl. cbn [of_opt bind].
  rewrite (kids_abs t p l Hl).
  destruct (N.ltb (N.of_nat (length l)) i) eqn:Ei.
  - exists t, (RErr p i (N.of_nat (length l))). cbn [fst snd].
    split; [reflexivity|]. split; [exact W|]. split; [apply spec_equiv_refl | reflexivity].
  - destruct (sm_set_Ok (t_parents t) c (Some p)) as [p1 Hp1]; [congruence|].
    destruct (sm_set_Ok (t_children t) p (vec_insert l (N.to_nat i) c)) as [c1 Hc1]; [congruence|].
    assert (Hcl : ~ In c l).
    { intros Hcl. destruct (wf_down t W p l Hl) as [_ Hdn]. specialize (Hdn c Hcl). congruence. }
    exists (mkTree (t_nodes t) (t_ctx t) c1 p1), RUnit. split; [|split; [|split]].
    + rewrite Hp1. simpl. rewrite Hc1. simpl. rewrite (live_mark_dirty t p Hp). reflexivity.
    + eapply attach_WF; eauto.
      * apply NoDup_vec_insert; [apply (wf_down t W p l Hl) | exact Hcl].
      * intros x. apply In_vec_insert.
    + simpl. apply equiv_set_list; auto.
    + reflexivity.
Qed.

(* ------------------------------------------------------------------ detaching: remove_child_at_index / remove_child / remove_children_range *)

(* p's list shrinks from l to l' and the nodes D that left it get a None parent *)
Lemma detach_WF t p l l' D c1 p1 :
  WF t -> sm_get (t_children t) p = Some l ->
  sm_set (t_children t) p l' = Ok c1 ->
  shape p1 = shape (t_parents t) -> sm_inv p1 ->
  (forall k, sm_get p1 k = if mem k D then Some None else sm_get (t_parents t) k) ->
  NoDup l' -> (forall x, In x l <-> In x l' \/ In x D) -> (forall x, In x l' -> ~ In x D) ->
  WF (mkTree (t_nodes t) (t_ctx t) c1 p1).
Proof.
  intros W Hl Hc1 Hsp Hip Hg Hnd Hin Hdis.
  apply WF_update; auto.
  - apply (shape_set Hc1).
  - apply (sm_set_preserves_inv Hc1), (wf_inv_c t W).
  - intros q lq Hq. rewrite (sm_get_set q Hc1) in Hq. destruct (key_eqb_spec p q) as [<-|Hne].
    + inversion Hq; subst lq. split; [exact Hnd|]. intros x Hx. rewrite Hg.
      destruct (mem x D) eqn:Em; [apply mem_In in Em; exfalso; eapply Hdis; eauto|].
      destruct (wf_down t W p l Hl) as [_ Hd]. apply Hd. apply Hin. left. exact Hx.
    + destruct (wf_down t W q lq Hq) as [Hn Hd]. split; [exact Hn|]. intros x Hx. rewrite Hg.
      destruct (mem x D) eqn:Em; [|apply Hd; exact Hx].
      apply mem_In in Em. exfalso. apply Hne. eapply (WF_disjoint t p q l lq x); eauto. apply Hin. right. exact Em.
  - intros x q Hx. rewrite Hg in Hx. destruct (mem x D) eqn:Em; [discriminate|]. apply mem_false in Em.
    destruct (wf_up t W x q Hx) as [lq [Hq Hxq]]. rewrite (sm_get_set q Hc1).
    destruct (key_eqb_spec p q) as [<-|Hne].
    + exists l'. split; [reflexivity|]. assert (lq = l) by congruence. subst lq. apply Hin in Hxq. tauto.
    + exists lq. split; assumption.
Qed.

Lemma sm_set_as_mem {V} (m m' : slotmap V) k v : sm_set m k v = Ok m' ->
  forall k', sm_get m' k' = if mem k' [k] then Some v else sm_get m k'.
Proof.
  intros H k'. rewrite (sm_get_set k' H). unfold mem. simpl. rewrite (key_eqb_sym k' k), orb_false_r. reflexivity.
Qed.

Lemma N_index_lt (l : list key) (i : N) : N.leb (N.of_nat (length l)) i = false -> N.to_nat i < length l.
Proof. intros H. apply N.leb_gt in H. lia. Qed.

Lemma remove_child_at_refines t p i : WF t -> pre (abs t) (ORemoveChildAt p i) -> refines t (ORemoveChildAt p i).
Proof.
  intros W Hp. cbn [pre] in Hp. apply abs_live in Hp. destruct (live_children t p W Hp) as [l Hl].
  unfold refines. cbn [step spec_step]. unfold remove_child_at_index, sm_index. rewrite Hl. cbn [of_opt bind].
  rewrite (kids_abs t p l Hl).
  destruct (N.leb (N.of_nat (length l)) i) eqn:Ei.
  - exists t, (RErr p i (N.of_nat (length l))). cbn [fst snd].
    split; [reflexivity|]. split; [exact W|]. split; [apply spec_equiv_refl | reflexivity].
  - pose proof (N_index_lt l i Ei) as Hlt.
    destruct (nth_error l (N.to_nat i)) as [c|] eqn:En; [|apply nth_error_None in En; lia].
    cbn [of_opt bind].
    destruct (wf_down t W p l Hl) as [Hnd Hdn].
    assert (Hcl : In c l) by (eapply nth_error_In; eauto).
    destruct (sm_set_Ok (t_children t) p (vec_remove l (N.to_nat i))) as [c1 Hc1]; [congruence|].
    destruct (sm_set_Ok (t_parents t) c None) as [p1 Hp1]; [rewrite (Hdn c Hcl); congruence|].
    exists (mkTree (t_nodes t) (t_ctx t) c1 p1), (RKey c). split; [|split; [|split]].
    + rewrite Hc1. cbn [bind]. rewrite Hp1. cbn [bind]. rewrite (live_mark_dirty t p Hp). reflexivity.
    + eapply (detach_WF t p l (vec_remove l (N.to_nat i)) [c]); eauto.
      * apply (shape_set Hp1).
      * apply (sm_set_preserves_inv Hp1), (wf_inv_p t W).
      * apply (sm_set_as_mem _ _ _ _ Hp1).
      * apply NoDup_vec_remove. exact Hnd.
      * intros x. rewrite (In_vec_remove_iff l _ c x Hnd En). simpl.
        destruct (key_eq_dec x c) as [->|Hx]; intuition congruence.
      * intros x Hx. rewrite (In_vec_remove_iff l _ c x Hnd En) in Hx. simpl. intuition congruence.
    + cbn [fst]. apply equiv_set_list; auto.
    + reflexivity.
Qed.

Lemma remove_child_refines t p c : WF t -> pre (abs t) (ORemoveChild p c) -> refines t (ORemoveChild p c).
Proof.
  intros W [Hp Hc]. pose proof Hp as Hp'. apply abs_live in Hp'. destruct (live_children t p W Hp') as [l Hl].
  rewrite (kids_abs t p l Hl) in Hc.
  destruct (In_position c l Hc) as [i Hi]. pose proof (position_Some c l i Hi) as Hn.
  destruct (wf_down t W p l Hl) as [Hnd _].
  destruct (remove_child_at_refines t p (N.of_nat i) W Hp) as [t' [out [Hs [W' [He Ho]]]]].
  exists t', out. split; [|split; [exact W'|]].
  - cbn [step] in *. unfold remove_child, sm_index. rewrite Hl. cbn [of_opt bind]. rewrite Hi. cbn [of_opt bind]. exact Hs.
  - cbn [spec_step] in *. rewrite (kids_abs t p l Hl) in *. rewrite Nat2N.id in *.
    assert (Elt : N.leb (N.of_nat (length l)) (N.of_nat i) = false).
    { apply N.leb_gt. pose proof (nth_error_Some_lt Hn). lia. }
    rewrite Elt, Hn in *. cbn [fst snd] in *. rewrite <- (vec_remove_retain l i c Hnd Hn). split; assumption.
Qed.

Lemma remove_range_refines t p a b : WF t -> pre (abs t) (ORemoveRange p a b) -> refines t (ORemoveRange p a b).
Proof.
  intros W [Hp [Hab Hb]]. apply abs_live in Hp. destruct (live_children t p W Hp) as [l Hl].
  rewrite (kids_abs t p l Hl) in Hb.
  unfold refines. cbn [step spec_step]. unfold remove_children_range, sm_index. rewrite Hl. cbn [of_opt bind].
  rewrite (kids_abs t p l Hl).
  assert (E : (N.ltb b a || N.ltb (N.of_nat (length l)) b)%bool = false).
  { apply orb_false_iff. split; apply N.ltb_ge; assumption. }
  rewrite E.
  assert (Hab' : N.to_nat a <= N.to_nat b) by lia.
  destruct (wf_down t W p l Hl) as [Hnd Hdn].
  destruct (drain_facts l (N.to_nat a) (N.to_nat b) Hab' Hnd) as [F1 [F2 F3]].
  destruct (sm_set_Ok (t_children t) p (vec_drain_rest l (N.to_nat a) (N.to_nat b))) as [c1 Hc1]; [congruence|].
  destruct (sm_set_all_spec (vec_drained l (N.to_nat a) (N.to_nat b)) (t_parents t) None) as [p1 [Hp1 [Hg [_ Hi]]]].
  { intros k Hk. rewrite (Hdn k); [congruence|]. apply F2. right. exact Hk. }
  exists (mkTree (t_nodes t) (t_ctx t) c1 p1), RUnit. split; [|split; [|split]].
  - rewrite Hc1. cbn [bind]. rewrite Hp1. cbn [bind]. rewrite (live_mark_dirty t p Hp). reflexivity.
  - eapply (detach_WF t p l _ (vec_drained l (N.to_nat a) (N.to_nat b))); eauto.
    + apply (shape_set_all _ _ _ _ Hp1).
    + apply Hi, (wf_inv_p t W).
  - cbn [fst]. apply equiv_set_list; auto.
  - reflexivity.
Qed.

(* ------------------------------------------------------------------ replace_child_at_index *)

Lemma replace_child_refines t p i c : WF t -> pre (abs t) (OReplaceChildAt p i c) -> refines t (OReplaceChildAt p i c).
Proof.
  intros W [Hp [Hc Hd]]. pose proof (detached_parents t c W Hc Hd) as Hpc.
  apply abs_live in Hp. destruct (live_children t p W Hp) as [l Hl].
  unfold refines. cbn [step spec_step]. unfold replace_child_at_index, sm_index. rewrite Hl. cbn [of_opt bind].
  rewrite (kids_abs t p l Hl).
  destruct (N.leb (N.of_nat (length l)) i) eqn:Ei.
  - exists t, (RErr p i (N.of_nat (length l))). cbn [fst snd].
    split; [reflexivity|]. split; [exact W|]. split; [apply spec_equiv_refl | reflexivity].
  - pose proof (N_index_lt l i Ei) as Hlt.
    destruct (nth_error l (N.to_nat i)) as [old|] eqn:En; [|apply nth_error_None in En; lia].
    destruct (wf_down t W p l Hl) as [Hnd Hdn].
    assert (Hol : In old l) by (eapply nth_error_In; eauto).
    assert (Hcl : ~ In c l) by (intros Hcl; specialize (Hdn c Hcl); congruence).
    assert (Hco : c <> old) by congruence.
    destruct (sm_set_Ok (t_parents t) c (Some p)) as [p1 Hp1]; [congruence|].
    destruct (sm_set_Ok (t_children t) p (upd l (N.to_nat i) c)) as [c1 Hc1]; [congruence|].
    destruct (sm_set_Ok p1 old None) as [p2 Hp2].
    { rewrite (sm_get_set old Hp1). destruct (key_eqb c old); [congruence|]. rewrite (Hdn old Hol). congruence. }
    exists (mkTree (t_nodes t) (t_ctx t) c1 p2), (RKey old). split; [|split; [|split]].
    + rewrite Hp1. cbn [bind of_opt]. rewrite Hc1. cbn [bind]. rewrite Hp2. cbn [bind].
      rewrite (live_mark_dirty t p Hp). reflexivity.
    + assert (Hg : forall x, sm_get p2 x = if key_eqb old x then Some None else if key_eqb c x then Some (Some p) else sm_get (t_parents t) x).
      { intros x. rewrite (sm_get_set x Hp2), (sm_get_set x Hp1). reflexivity. }
      apply WF_update; auto.
      * apply (shape_set Hc1).
      * apply (sm_set_preserves_inv Hc1), (wf_inv_c t W).
      * rewrite (shape_set Hp2). apply (shape_set Hp1).
      * apply (sm_set_preserves_inv Hp2), (sm_set_preserves_inv Hp1), (wf_inv_p t W).
      * intros q lq Hq. rewrite (sm_get_set q Hc1) in Hq. destruct (key_eqb_spec p q) as [<-|Hne].
        -- inversion Hq; subst lq. split; [eapply NoDup_upd; eauto|]. intros x Hx. rewrite Hg.
           apply (In_upd_iff l _ old c x Hnd En) in Hx.
           destruct (key_eqb_spec old x) as [<-|Hox]; [intuition congruence|].
           destruct (key_eqb_spec c x) as [<-|Hcx]; [reflexivity|]. apply Hdn. intuition congruence.
        -- destruct (wf_down t W q lq Hq) as [Hn Hd']. split; [exact Hn|]. intros x Hx. rewrite Hg.
           destruct (key_eqb_spec old x) as [<-|Hox].
           { exfalso. apply Hne. eapply (WF_disjoint t p q l lq old); eauto. }
           destruct (key_eqb_spec c x) as [<-|Hcx]; [specialize (Hd' c Hx); congruence|]. apply Hd'. exact Hx.
      * intros x q Hx. rewrite Hg in Hx. destruct (key_eqb_spec old x) as [<-|Hox]; [discriminate|].
        rewrite (sm_get_set q Hc1). destruct (key_eqb_spec c x) as [<-|Hcx].
        -- inversion Hx; subst q. rewrite key_eqb_refl. exists (upd l (N.to_nat i) c). split; [reflexivity|].
           apply (In_upd_iff l _ old c c Hnd En). left. reflexivity.
        -- destruct (wf_up t W x q Hx) as [lq [Hq Hxq]]. destruct (key_eqb_spec p q) as [<-|Hne].
           ++ exists (upd l (N.to_nat i) c). split; [reflexivity|]. assert (lq = l) by congruence. subst lq.
              apply (In_upd_iff l _ old c x Hnd En). right. split; [exact Hxq | congruence].
           ++ exists lq. split; assumption.
    + cbn [fst]. apply equiv_set_list; auto.
    + reflexivity.
Qed.

(* ------------------------------------------------------------------ creation: new_leaf / new_leaf_with_context / new_with_children *)

Lemma NoDup_snoc {A} (l : list A) x : NoDup l -> ~ In x l -> NoDup (l ++ [x]).
Proof. intros Hn Hx. apply NoDup_insert_mid; rewrite app_nil_r; assumption. Qed.

Lemma next_key_fresh t : WF t -> ~ In (next_key t) (live (abs t)).
Proof.
  intros W H. apply abs_live in H. unfold tlive, next_key in *.
  destruct (sm_insert_spec (t_nodes t) false (wf_inv_n t W)) as [Hn _]. congruence.
Qed.

(* the three inserts return the same key and keep the maps in lockstep; pm is the parents map after the
   children cs (all detached, duplicate free) were pointed at the new key *)
Lemma alloc_refines t b cs pm cx :
  WF t ->
  shape pm = shape (t_parents t) -> sm_inv pm ->
  (forall x, sm_get pm x = if mem x cs then Some (Some (snd (sm_insert (t_nodes t) b))) else sm_get (t_parents t) x) ->
  NoDup cs -> (forall c, In c cs -> sm_get (t_parents t) c = Some None) ->
  let t' := mkTree (fst (sm_insert (t_nodes t) b)) cx (fst (sm_insert (t_children t) cs)) (fst (sm_insert pm None)) in
  WF t' /\
  spec_equiv (abs t') (mkSpec (live (abs t) ++ [snd (sm_insert (t_nodes t) b)]) (kupd (kids (abs t)) (snd (sm_insert (t_nodes t) b)) cs)).
Proof.
  intros W Hsp Hip Hg Hnd Hdet t'.
  destruct (sm_insert_spec (t_nodes t) b (wf_inv_n t W)) as [Hn0 [Hn1 Hn2]].
  destruct (sm_insert_spec (t_children t) cs (wf_inv_c t W)) as [Hc0 [Hc1 Hc2]].
  destruct (sm_insert_spec pm None Hip) as [Hp0 [Hp1 Hp2]].
  destruct (shape_insert_congr (t_children t) (t_nodes t) cs b (wf_shape_c t W)) as [Sc Kc].
  assert (Hspn : shape pm = shape (t_nodes t)) by (rewrite Hsp; apply (wf_shape_p t W)).
  destruct (shape_insert_congr pm (t_nodes t) None b Hspn) as [Sp Kp].
  set (k := snd (sm_insert (t_nodes t) b)) in *.
  rewrite Kc in Hc0, Hc1. rewrite Kp in Hp0, Hp1.
  assert (Hkp : sm_get (t_parents t) k = None).
  { destruct (sm_get (t_parents t) k) eqn:E; [|reflexivity]. exfalso.
    assert (Hl : sm_get (t_parents t) k <> None) by congruence.
    apply (shape_live (t_parents t) (t_nodes t) k (wf_shape_p t W)) in Hl. congruence. }
  assert (Hkcs : ~ In k cs) by (intros H; specialize (Hdet k H); congruence).
  assert (W' : WF t').
  { constructor; simpl; auto.
    - intros q lq Hq. rewrite Hc1 in Hq. destruct (key_eqb_spec k q) as [<-|Hne].
      + inversion Hq; subst lq. split; [exact Hnd|]. intros x Hx. rewrite Hp1.
        destruct (key_eqb_spec k x) as [<-|Hkx]; [tauto|]. rewrite Hg.
        destruct (mem x cs) eqn:Em; [reflexivity|]. apply mem_false in Em. tauto.
      + destruct (wf_down t W q lq Hq) as [Hn Hd]. split; [exact Hn|]. intros x Hx. rewrite Hp1.
        specialize (Hd x Hx). destruct (key_eqb_spec k x) as [<-|Hkx]; [congruence|]. rewrite Hg.
        destruct (mem x cs) eqn:Em; [|exact Hd]. apply mem_In in Em. specialize (Hdet x Em). congruence.
    - intros x q Hx. rewrite Hp1 in Hx. destruct (key_eqb_spec k x) as [<-|Hkx]; [discriminate|].
      rewrite Hg in Hx. rewrite Hc1. destruct (mem x cs) eqn:Em.
      + inversion Hx; subst q. rewrite key_eqb_refl. exists cs. split; [reflexivity|]. apply mem_In. exact Em.
      + destruct (wf_up t W x q Hx) as [lq [Hq Hxq]]. destruct (key_eqb_spec k q) as [<-|Hne]; [congruence|].
        exists lq. split; assumption. }
  split; [exact W'|].
  unfold spec_equiv. cbn [live kids].
  assert (Hmem : forall x, In x (live (abs t')) <-> In x (live (abs t) ++ [k])).
  { intros x. rewrite in_app_iff. cbn [In]. rewrite !abs_live. unfold tlive, t'. cbn [t_nodes]. rewrite Hn1.
    destruct (key_eqb_spec k x); split; intros; try congruence; intuition congruence. }
  split; [exact Hmem|]. split.
  - apply NoDup_same_length; [apply sm_keys_NoDup | | exact Hmem].
    apply NoDup_snoc; [apply sm_keys_NoDup|]. intros Hk. apply abs_live in Hk. unfold tlive in Hk. congruence.
  - intros x _. unfold abs, t', kupd. simpl. rewrite Hc1, (key_eqb_sym x k).
    destruct (key_eqb k x); reflexivity.
Qed.

Lemma new_leaf_refines t : WF t -> refines t ONewLeaf.
Proof.
  intros W. unfold refines. cbn [step spec_step fst snd]. unfold new_leaf.
  eexists _, _. split; [reflexivity|].
  destruct (alloc_refines t false [] (t_parents t) (t_ctx t) W eq_refl (wf_inv_p t W)) as [W' E].
  - intros x. reflexivity.
  - constructor.
  - intros c [].
  - split; [exact W'|]. split; [exact E | reflexivity].
Qed.

Lemma shape_key_bool t b1 b2 : snd (sm_insert (t_nodes t) b1) = snd (sm_insert (t_nodes t) b2).
Proof. apply (shape_insert_congr (t_nodes t) (t_nodes t) b1 b2 eq_refl). Qed.

Lemma abs_nodes_irrelevant n1 n2 cx1 cx2 cm pm :
  sm_keys n1 = sm_keys n2 -> abs (mkTree n1 cx1 cm pm) = abs (mkTree n2 cx2 cm pm).
Proof. intros H. unfold abs. simpl. rewrite H. reflexivity. Qed.

Lemma new_leaf_ctx_refines t c : WF t -> refines t (ONewLeafCtx c).
Proof.
  intros W. unfold refines. cbn [step spec_step fst snd]. unfold new_leaf_with_context.
  eexists _, _. split; [reflexivity|].
  destruct (alloc_refines t true [] (t_parents t) (sec_insert (t_ctx t) (snd (sm_insert (t_nodes t) true)) c) W eq_refl (wf_inv_p t W)) as [W' E].
  - intros x. reflexivity.
  - constructor.
  - intros x [].
  - unfold next_key. rewrite (shape_key_bool t false true).
    split; [exact W'|]. split; [exact E | reflexivity].
Qed.

Lemma new_with_children_refines t cs : WF t -> pre (abs t) (ONewWithChildren cs) -> refines t (ONewWithChildren cs).
Proof.
  intros W [Hnd Hcs]. unfold refines. cbn [step spec_step fst snd]. unfold new_with_children.
  assert (Hdet : forall c, In c cs -> sm_get (t_parents t) c = Some None).
  { intros c Hc. destruct (Hcs c Hc) as [Hl Hd]. apply detached_parents; auto. }
  destruct (sm_set_all_spec cs (t_parents t) (Some (snd (sm_insert (t_nodes t) false)))) as [p1 [Hp1 [Hg [_ Hi]]]].
  { intros k Hk. rewrite (Hdet k Hk). congruence. }
  rewrite Hp1. cbn [bind].
  eexists _, _. split; [reflexivity|].
  destruct (alloc_refines t false cs p1 (t_ctx t) W (shape_set_all _ _ _ _ Hp1) (Hi (wf_inv_p t W)) Hg Hnd Hdet) as [W' E].
  split; [exact W'|]. split; [exact E | reflexivity].
Qed.

(* ------------------------------------------------------------------ set_node_context *)

Lemma set_ctx_refines t n c : WF t -> pre (abs t) (OSetCtx n c) -> refines t (OSetCtx n c).
Proof.
  intros W Hn. cbn [pre] in Hn. apply abs_live in Hn. unfold refines. cbn [step spec_step fst snd]. unfold set_node_context.
  assert (Hgen : forall b cx, exists n1, sm_set (t_nodes t) n b = Ok n1 /\
             WF (mkTree n1 cx (t_children t) (t_parents t)) /\
             spec_equiv (abs (mkTree n1 cx (t_children t) (t_parents t))) (abs t)).
  { intros b cx. destruct (sm_set_Ok (t_nodes t) n b Hn) as [n1 H1]. exists n1. split; [exact H1|]. split.
    - constructor; simpl; try apply W.
      + apply (sm_set_preserves_inv H1), W.
      + rewrite (shape_set H1). apply W.
      + rewrite (shape_set H1). apply W.
    - rewrite (abs_nodes_irrelevant n1 (t_nodes t) cx (t_ctx t) _ _ (sm_set_keys H1)).
      destruct t; apply spec_equiv_refl. }
  destruct c as [v|].
  - destruct (Hgen true (sec_insert (t_ctx t) n v)) as [n1 [H1 [W' E]]]. rewrite H1. cbn [bind].
    eexists _, _. split; [reflexivity|]. split; [exact W'|]. split; [exact E | reflexivity].
  - destruct (Hgen false (sec_remove (t_ctx t) n)) as [n1 [H1 [W' E]]]. rewrite H1. cbn [bind].
    eexists _, _. split; [reflexivity|]. split; [exact W'|]. split; [exact E | reflexivity].
Qed.

(* ------------------------------------------------------------------ remove *)

Lemma remove_refines t n : WF t -> pre (abs t) (ORemove n) -> refines t (ORemove n).
Proof.
  intros W Hn. cbn [pre] in Hn. apply abs_live in Hn.
  destruct (live_parents t n W Hn) as [pp Hpp]. destruct (live_children t n W Hn) as [ln Hln].
  assert (Hnb : exists b, sm_get (t_nodes t) n = Some b) by (unfold tlive in Hn; destruct (sm_get (t_nodes t) n); [eauto|congruence]).
  destruct Hnb as [b Hnb].
  (* step 1: the parent's list loses n; uniformly: every list loses n *)
  assert (H1 : exists ch1,
             match pp with
             | Some parent =>
                 ch <- match sm_get (t_children t) parent with
                       | Some l => sm_set (t_children t) parent (retain_ne n l)
                       | None => Ok (t_children t)
                       end ;;
                 _ <- mark_dirty t parent ;; Ok ch
             | None => Ok (t_children t)
             end = Ok ch1 /\ shape ch1 = shape (t_children t) /\ sm_inv ch1 /\
             forall q, sm_get ch1 q = option_map (retain_ne n) (sm_get (t_children t) q)).
  { destruct pp as [par|].
    - destruct (wf_up t W n par Hpp) as [lp [Hlp Hnlp]]. rewrite Hlp.
      destruct (sm_set_Ok (t_children t) par (retain_ne n lp)) as [ch1 Hch1]; [congruence|].
      exists ch1. rewrite Hch1. cbn [bind]. rewrite (live_mark_dirty t par (children_live t par lp W Hlp)). cbn [bind].
      split; [reflexivity|]. split; [apply (shape_set Hch1)|]. split; [apply (sm_set_preserves_inv Hch1), W|].
      intros q. rewrite (sm_get_set q Hch1). destruct (key_eqb_spec par q) as [<-|Hne].
      + rewrite Hlp. reflexivity.
      + destruct (sm_get (t_children t) q) as [lq|] eqn:Hq; [|reflexivity]. simpl. f_equal. symmetry.
        apply retain_ne_notin. intros Hin. apply Hne. eapply (WF_disjoint t par q lp lq n); eauto.
    - exists (t_children t). split; [reflexivity|]. split; [reflexivity|]. split; [apply W|].
      intros q. destruct (sm_get (t_children t) q) as [lq|] eqn:Hq; [|reflexivity]. simpl. f_equal. symmetry.
      apply retain_ne_notin. intros Hin. destruct (wf_down t W q lq Hq) as [_ Hd]. specialize (Hd n Hin). congruence. }
  destruct H1 as [ch1 [E1 [S1 [I1 G1]]]].
  (* step 2: orphan n's children *)
  assert (Hch1n : sm_get ch1 n = Some (retain_ne n ln)) by (rewrite G1, Hln; reflexivity).
  destruct (sm_set_all_spec (retain_ne n ln) (t_parents t) None) as [p1 [E2 [G2 [_ I2]]]].
  { intros k Hk. apply In_retain_ne in Hk. destruct (wf_down t W n ln Hln) as [_ Hd]. rewrite (Hd k); [congruence|tauto]. }
  pose proof (shape_set_all _ _ _ _ E2) as S2. specialize (I2 (wf_inv_p t W)).
  (* step 3: the three removals *)
  assert (Hp1n : exists v, sm_get p1 n = Some v).
  { rewrite G2. destruct (mem n (retain_ne n ln)); eauto. }
  destruct Hp1n as [v1 Hp1n].
  destruct (sm_remove_spec ch1 n _ I1 Hch1n) as [Gc [Ic _]].
  destruct (sm_remove_spec p1 n _ I2 Hp1n) as [Gp [Ip _]].
  destruct (sm_remove_spec (t_nodes t) n _ (wf_inv_n t W) Hnb) as [Gn [In' _]].
  unfold refines. cbn [step spec_step fst snd]. unfold remove, sm_index. rewrite Hpp. cbn [of_opt bind].
  rewrite E1. cbn [bind]. rewrite Hch1n, E2. cbn [bind].
  eexists _, _. split; [reflexivity|].
  assert (Hdn : forall x, In x ln -> sm_get (t_parents t) x = Some (Some n)) by (apply (wf_down t W n ln Hln)).
  split; [|split; [|reflexivity]].
  - constructor; cbn [t_nodes t_children t_parents]; auto.
    + apply shape_remove_congr. rewrite S1. apply W.
    + apply shape_remove_congr. rewrite S2. apply W.
    + intros q lq Hq. rewrite Gc in Hq. destruct (key_eqb_spec n q) as [<-|Hnq]; [discriminate|].
      rewrite G1 in Hq. destruct (sm_get (t_children t) q) as [lq0|] eqn:Hq0; [|discriminate]. inversion Hq; subst lq.
      destruct (wf_down t W q lq0 Hq0) as [Hnd Hd]. split; [apply NoDup_retain_ne; exact Hnd|].
      intros x Hx. apply In_retain_ne in Hx. destruct Hx as [Hx Hxn]. rewrite Gp.
      destruct (key_eqb_spec n x) as [<-|_]; [congruence|]. rewrite G2.
      destruct (mem x (retain_ne n ln)) eqn:Em; [|apply Hd; exact Hx].
      apply mem_In, In_retain_ne in Em. exfalso. apply Hnq. eapply (WF_disjoint t n q ln lq0 x); eauto. tauto.
    + intros x q Hx. rewrite Gp in Hx. destruct (key_eqb_spec n x) as [<-|Hnx]; [discriminate|].
      rewrite G2 in Hx. destruct (mem x (retain_ne n ln)) eqn:Em; [discriminate|]. apply mem_false in Em.
      destruct (wf_up t W x q Hx) as [lq0 [Hq0 Hxq]].
      assert (Hqn : n <> q).
      { intros <-. assert (lq0 = ln) by congruence. subst lq0. apply Em. apply In_retain_ne. split; [exact Hxq|congruence]. }
      rewrite Gc. destruct (key_eqb_spec n q); [congruence|]. rewrite G1, Hq0. simpl.
      exists (retain_ne n lq0). split; [reflexivity|]. apply In_retain_ne. split; [exact Hxq|congruence].
  - unfold spec_equiv. cbn [live kids].
    assert (Hmem : forall k, In k (live (abs (mkTree (fst (sm_remove (t_nodes t) n)) (t_ctx t) (fst (sm_remove ch1 n)) (fst (sm_remove p1 n))))) <->
                             In k (filter (fun x => negb (key_eqb x n)) (live (abs t)))).
    { intros k. rewrite filter_In, !abs_live. unfold tlive. cbn [t_nodes]. rewrite Gn, (key_eqb_sym k n).
      destruct (key_eqb_spec n k); simpl; intuition congruence. }
    split; [exact Hmem|]. split.
    + apply NoDup_same_length; [apply sm_keys_NoDup | apply NoDup_filter; apply sm_keys_NoDup | exact Hmem].
    + intros k Hk. apply Hmem in Hk. apply filter_In in Hk. destruct Hk as [_ Hkn].
      unfold abs. cbn [kids t_children]. rewrite Gc, (key_eqb_sym n k).
      destruct (key_eqb k n); [discriminate|]. rewrite G1.
      destruct (sm_get (t_children t) k); reflexivity.
Qed.

(* ------------------------------------------------------------------ clear *)

Lemma clear_refines t : WF t -> refines t OClear.
Proof.
  intros W. unfold refines. cbn [step spec_step fst snd]. unfold clear.
  eexists _, _. split; [reflexivity|].
  destruct (sm_clear_spec (t_nodes t) (wf_inv_n t W)) as [In' Gn].
  destruct (sm_clear_spec (t_children t) (wf_inv_c t W)) as [Ic Gc].
  destruct (sm_clear_spec (t_parents t) (wf_inv_p t W)) as [Ip Gp].
  split; [|split; [|reflexivity]].
  - constructor; cbn [t_nodes t_children t_parents]; auto.
    + rewrite !shape_clear. rewrite (wf_shape_c t W). reflexivity.
    + rewrite !shape_clear. rewrite (wf_shape_p t W). reflexivity.
    + intros p l H. rewrite Gc in H. discriminate.
    + intros c p H. rewrite Gp in H. discriminate.
  - unfold spec_equiv, abs. cbn [live kids t_nodes]. rewrite (sm_keys_nil _ Gn). simpl. repeat split; tauto.
Qed.

(* ------------------------------------------------------------------ set_children *)

Definition notin (D : list key) : key -> bool := fun x => negb (mem x D).

Lemma mem_app x a b : mem x (a ++ b) = (mem x a || mem x b)%bool.
Proof. unfold mem. apply existsb_app. Qed.

Lemma mem_single x c : mem x [c] = key_eqb x c.
Proof. unfold mem. simpl. apply orb_false_r. Qed.

Lemma filter_notin_snoc D c l : filter (notin (D ++ [c])) l = retain_ne c (filter (notin D) l).
Proof.
  unfold retain_ne. induction l as [|x r IH]; simpl; [reflexivity|].
  assert (E : notin (D ++ [c]) x = (notin D x && negb (key_eqb x c))%bool)
    by (unfold notin; rewrite mem_app, mem_single, negb_orb; reflexivity).
  rewrite E. destruct (notin D x); simpl.
  - destruct (key_eqb x c); simpl; [exact IH | f_equal; exact IH].
  - exact IH.
Qed.

Lemma filter_notin_snoc_notin D c l : ~ In c l -> filter (notin (D ++ [c])) l = filter (notin D) l.
Proof.
  intros H. rewrite filter_notin_snoc. apply retain_ne_notin. intros Hin. apply filter_In in Hin. tauto.
Qed.

Lemma mem_snoc_other x c D : x <> c -> mem x (D ++ [c]) = mem x D.
Proof. intros H. rewrite mem_app, mem_single. destruct (key_eqb_spec x c); [congruence|]. apply orb_false_r. Qed.

Lemma mem_snoc_same c D : mem c (D ++ [c]) = true.
Proof. rewrite mem_app, mem_single, key_eqb_refl. apply orb_true_r. Qed.

(* the state inside the second loop of set_children, relative to the tree t the call started from:
   D = the new children processed so far, old = p's previous child list *)
Record loopJ (t u : tree) (p : key) (old D : list key) : Prop := mkJ {
  j_nodes : t_nodes u = t_nodes t;
  j_ctx : t_ctx u = t_ctx t;
  j_sc : shape (t_children u) = shape (t_children t);
  j_ic : sm_inv (t_children u);
  j_sp : shape (t_parents u) = shape (t_parents t);
  j_ip : sm_inv (t_parents u);
  j_c : forall q, sm_get (t_children u) q =
                  if key_eqb q p then Some old else option_map (filter (notin D)) (sm_get (t_children t) q);
  j_p : forall x, sm_get (t_parents u) x =
                  if mem x D then Some (Some p) else if mem x old then Some None else sm_get (t_parents t) x
}.

(* one iteration that does not have to detach the child (it was a child of p, or a root) *)
Lemma loop_skip t u p old D c p1 :
  WF t -> sm_get (t_children t) p = Some old -> loopJ t u p old D ->
  (forall q lq, q <> p -> sm_get (t_children t) q = Some lq -> ~ In c lq) ->
  sm_set (t_parents u) c (Some p) = Ok p1 ->
  loopJ t (set_parents_map u p1) p old (D ++ [c]).
Proof.
  intros W Hold J Hno Hp1. destruct J. constructor; cbn [set_parents_map t_nodes t_ctx t_children t_parents]; auto.
  - rewrite (shape_set Hp1). exact j_sp0.
  - apply (sm_set_preserves_inv Hp1). exact j_ip0.
  - intros q. rewrite j_c0. destruct (key_eqb_spec q p) as [->|Hq]; [reflexivity|].
    destruct (sm_get (t_children t) q) as [lq|] eqn:E; [|reflexivity]. simpl. f_equal. symmetry.
    apply filter_notin_snoc_notin. eapply Hno; eauto.
  - intros x. rewrite (sm_get_set x Hp1). destruct (key_eqb_spec c x) as [<-|Hx].
    + rewrite mem_snoc_same. reflexivity.
    + rewrite mem_snoc_other by congruence. apply j_p0.
Qed.

Lemma set_children_loop_spec t p old : WF t -> sm_get (t_children t) p = Some old ->
  forall cs D u, loopJ t u p old D -> NoDup cs -> (forall c, In c cs -> tlive t c /\ ~ In c D) ->
  exists t2, set_children_loop u p cs = Ok t2 /\ loopJ t t2 p old (D ++ cs).
Proof.
  intros W Hold. induction cs as [|c r IH]; intros D u J Hnd Hcs.
  - exists u. rewrite app_nil_r. split; [reflexivity | exact J].
  - destruct (Hcs c (or_introl eq_refl)) as [Hc HcD]. inversion Hnd as [|? ? Hcr Hndr]; subst.
    assert (Hrest : forall D', (forall x, In x D' <-> In x D \/ x = c) -> forall c', In c' r -> tlive t c' /\ ~ In c' D').
    { intros D' HD c' Hc'. destruct (Hcs c' (or_intror Hc')) as [H1 H2]. split; [exact H1|].
      rewrite HD. intros [H|H]; [tauto|congruence]. }
    assert (HD1 : forall x, In x (D ++ [c]) <-> In x D \/ x = c).
    { intros x. rewrite in_app_iff. simpl. intuition. }
    destruct (live_parents t c W Hc) as [ppc Hppc].
    assert (HmD : mem c D = false) by (apply mem_false; exact HcD).
    cbn [set_children_loop]. unfold sm_index at 1. rewrite (j_p _ _ _ _ _ J c), HmD.
    assert (Hlive_tt : sm_get (t_parents u) c <> None).
    { rewrite (j_p _ _ _ _ _ J c), HmD. destruct (mem c old); congruence. }
    (* the continuation shared by all cases *)
    assert (Hfin : forall u', loopJ t u' p old (D ++ [c]) ->
                   exists t2, set_children_loop u' p r = Ok t2 /\ loopJ t t2 p old (D ++ c :: r)).
    { intros u' J'. destruct (IH (D ++ [c]) u' J' Hndr (Hrest _ HD1)) as [t2 [E2 J2]].
      exists t2. split; [exact E2|]. rewrite <- app_assoc in J2. exact J2. }
    destruct (mem c old) eqn:Emo.
    + (* c was already a child of p: its pointer was cleared by the first loop *)
      cbn [of_opt bind]. destruct (sm_set_Ok (t_parents u) c (Some p) Hlive_tt) as [p1 Hp1]. rewrite Hp1. cbn [bind].
      apply Hfin. eapply loop_skip; eauto.
      intros q lq Hq Hlq Hin. apply Hq. symmetry. apply mem_In in Emo. eapply (WF_disjoint t p q old lq c); eauto.
    + rewrite Hppc. cbn [of_opt bind]. destruct ppc as [prev|].
      * (* c has another parent: detach it there first *)
        destruct (wf_up t W c prev Hppc) as [lprev [Hlprev Hcprev]].
        assert (Hprevp : prev <> p).
        { intros ->. assert (lprev = old) by congruence. subst lprev. apply mem_false in Emo. tauto. }
        destruct (wf_down t W prev lprev Hlprev) as [Hndp _].
        set (lcur := filter (notin D) lprev).
        assert (Hcur : sm_get (t_children u) prev = Some lcur).
        { rewrite (j_c _ _ _ _ _ J prev). destruct (key_eqb_spec prev p); [congruence|]. rewrite Hlprev. reflexivity. }
        assert (Hccur : In c lcur).
        { apply filter_In. split; [exact Hcprev|]. unfold notin. rewrite HmD. reflexivity. }
        destruct (In_position c lcur Hccur) as [i Hi]. pose proof (position_Some c lcur i Hi) as Hni.
        assert (Hndcur : NoDup lcur) by (apply NoDup_filter; exact Hndp).
        destruct (sm_set_Ok (t_children u) prev (vec_remove lcur i)) as [c1 Hc1]; [congruence|].
        destruct (sm_set_Ok (t_parents u) c None Hlive_tt) as [p1 Hp1].
        assert (Hmd : mark_dirty u prev = Ok tt).
        { unfold mark_dirty. rewrite (j_nodes _ _ _ _ _ J).
          pose proof (children_live t prev lprev W Hlprev) as Hl. unfold tlive in Hl.
          destruct (sm_get (t_nodes t) prev) eqn:E; [|congruence]. rewrite (sm_contains_get E). reflexivity. }
        assert (Hrc : remove_child u prev c = Ok (mkTree (t_nodes u) (t_ctx u) c1 p1, RKey c)).
        { unfold remove_child, sm_index. rewrite Hcur. cbn [of_opt bind]. rewrite Hi. cbn [of_opt bind].
          unfold remove_child_at_index, sm_index. rewrite Hcur. cbn [of_opt bind].
          assert (Elt : N.leb (N.of_nat (length lcur)) (N.of_nat i) = false).
          { apply N.leb_gt. pose proof (nth_error_Some_lt Hni). lia. }
          rewrite Elt, Nat2N.id, Hni. cbn [of_opt bind]. rewrite Hc1. cbn [bind]. rewrite Hp1. cbn [bind].
          rewrite Hmd. reflexivity. }
        rewrite Hrc. cbn [bind snd fst t_parents].
        destruct (sm_set_Ok p1 c (Some p)) as [p2 Hp2]; [rewrite (sm_get_set_same Hp1); congruence|].
        rewrite Hp2. cbn [bind]. apply Hfin.
        destruct J. constructor; cbn [set_parents_map t_nodes t_ctx t_children t_parents]; auto.
        -- rewrite (shape_set Hc1). exact j_sc0.
        -- apply (sm_set_preserves_inv Hc1). exact j_ic0.
        -- rewrite (shape_set Hp2), (shape_set Hp1). exact j_sp0.
        -- apply (sm_set_preserves_inv Hp2), (sm_set_preserves_inv Hp1). exact j_ip0.
        -- intros q. rewrite (sm_get_set q Hc1). destruct (key_eqb_spec prev q) as [<-|Hq].
           ++ destruct (key_eqb_spec prev p); [congruence|]. rewrite Hlprev. simpl. f_equal.
              rewrite filter_notin_snoc. apply (vec_remove_retain lcur i c Hndcur Hni).
           ++ rewrite j_c0. destruct (key_eqb_spec q p) as [->|Hqp]; [reflexivity|].
              destruct (sm_get (t_children t) q) as [lq|] eqn:E; [|reflexivity]. simpl. f_equal. symmetry.
              apply filter_notin_snoc_notin. intros Hin. apply Hq. eapply (WF_disjoint t prev q lprev lq c); eauto.
        -- intros x. rewrite (sm_get_set x Hp2). destruct (key_eqb_spec c x) as [<-|Hx].
           ++ rewrite mem_snoc_same. reflexivity.
           ++ rewrite (sm_get_set x Hp1). destruct (key_eqb_spec c x); [congruence|].
              rewrite mem_snoc_other by congruence. apply j_p0.
      * (* c is a root *)
        cbn [bind]. destruct (sm_set_Ok (t_parents u) c (Some p) Hlive_tt) as [p1 Hp1]. rewrite Hp1. cbn [bind].
        apply Hfin. eapply loop_skip; eauto.
        intros q lq Hq Hlq Hin. destruct (wf_down t W q lq Hlq) as [_ Hd]. specialize (Hd c Hin). congruence.
Qed.

Lemma set_children_refines t p cs : WF t -> pre (abs t) (OSetChildren p cs) -> refines t (OSetChildren p cs).
Proof.
  intros W [Hp [Hnd Hcs]]. apply abs_live in Hp. destruct (live_children t p W Hp) as [old Hold].
  destruct (wf_down t W p old Hold) as [Hndo Hdo].
  destruct (sm_set_all_spec old (t_parents t) None) as [p1 [Hp1 [Gp1 [_ Ip1]]]].
  { intros k Hk. rewrite (Hdo k Hk). congruence. }
  assert (J0 : loopJ t (set_parents_map t p1) p old []).
  { constructor; cbn [set_parents_map t_nodes t_ctx t_children t_parents]; auto; try apply W.
    - apply (shape_set_all _ _ _ _ Hp1).
    - apply Ip1, W.
    - intros q. destruct (key_eqb_spec q p) as [->|Hq]; [exact Hold|].
      destruct (sm_get (t_children t) q) as [lq|]; [|reflexivity]. simpl. f_equal.
      induction lq as [|x r IH]; simpl; [reflexivity|]. f_equal. exact IH. }
  destruct (set_children_loop_spec t p old W Hold cs [] _ J0 Hnd) as [t2 [E2 J2]].
  { intros c Hc. split; [apply abs_live; apply Hcs; exact Hc | tauto]. }
  simpl in J2. destruct J2.
  assert (Hc2p : sm_get (t_children t2) p = Some old) by (rewrite j_c0, key_eqb_refl; reflexivity).
  destruct (sm_set_Ok (t_children t2) p cs) as [c1 Hc1]; [congruence|].
  unfold refines. cbn [step spec_step fst snd]. unfold set_children, sm_index. rewrite Hold. cbn [of_opt bind].
  rewrite Hp1. cbn [bind]. rewrite E2. cbn [bind]. rewrite Hc2p. cbn [of_opt bind]. rewrite Hc1. cbn [bind].
  assert (Hmd : mark_dirty t2 p = Ok tt).
  { unfold mark_dirty. rewrite j_nodes0. unfold tlive in Hp.
    destruct (sm_get (t_nodes t) p) eqn:E; [|congruence]. rewrite (sm_contains_get E). reflexivity. }
  rewrite Hmd. cbn [bind].
  eexists _, _. split; [reflexivity|].
  assert (Gc : forall q, sm_get c1 q = if key_eqb q p then Some cs else option_map (filter (notin cs)) (sm_get (t_children t) q)).
  { intros q. rewrite (sm_get_set q Hc1), (key_eqb_sym p q). destruct (key_eqb q p) eqn:E; [reflexivity|].
    rewrite j_c0, E. reflexivity. }
  split; [|split; [|reflexivity]].
  - destruct t2 as [n2 x2 ch2 pa2]. cbn [set_children_map t_nodes t_ctx t_children t_parents] in *. subst n2.
    apply (WF_update t c1 pa2 x2 W); auto.
    + rewrite (shape_set Hc1). exact j_sc0.
    + apply (sm_set_preserves_inv Hc1). exact j_ic0.
    + intros q lq Hq. rewrite Gc in Hq. destruct (key_eqb_spec q p) as [->|Hqp].
      * inversion Hq; subst lq. split; [exact Hnd|]. intros x Hx. rewrite j_p0.
        apply mem_In in Hx. rewrite Hx. reflexivity.
      * destruct (sm_get (t_children t) q) as [lq0|] eqn:Hq0; [|discriminate]. inversion Hq; subst lq.
        destruct (wf_down t W q lq0 Hq0) as [Hn0 Hd0]. split; [apply NoDup_filter; exact Hn0|].
        intros x Hx. apply filter_In in Hx. destruct Hx as [Hx Hxn]. unfold notin in Hxn. rewrite j_p0.
        destruct (mem x cs); [discriminate|].
        destruct (mem x old) eqn:Emo; [|apply Hd0; exact Hx].
        apply mem_In in Emo. exfalso. apply Hqp. eapply (WF_disjoint t q p lq0 old x); eauto.
    + intros x q Hx. rewrite j_p0 in Hx. rewrite Gc. destruct (mem x cs) eqn:Emc.
      * inversion Hx; subst q. rewrite key_eqb_refl. exists cs. split; [reflexivity|]. apply mem_In. exact Emc.
      * destruct (mem x old) eqn:Emo; [discriminate|].
        destruct (wf_up t W x q Hx) as [lq0 [Hq0 Hxq]]. destruct (key_eqb_spec q p) as [->|Hqp].
        -- assert (lq0 = old) by congruence. subst lq0. apply mem_false in Emo. tauto.
        -- rewrite Hq0. simpl. exists (filter (notin cs) lq0). split; [reflexivity|]. apply filter_In.
           split; [exact Hxq|]. unfold notin. rewrite Emc. reflexivity.
  - destruct t2 as [n2 x2 ch2 pa2]. cbn [set_children_map t_nodes t_ctx t_children t_parents] in *. subst n2.
    apply (equiv_update t c1 pa2 x2).
    + intros k l Hk Hg. rewrite Gc in Hg. cbn [kids]. destruct (key_eqb k p); [congruence|].
      destruct (sm_get (t_children t) k) as [lk|] eqn:E; [|discriminate]. inversion Hg.
      rewrite (kids_abs t k lk E). reflexivity.
    + intros k Hk. rewrite Gc. destruct (key_eqb k p); [congruence|].
      destruct (live_children t k W Hk) as [lk E]. rewrite E. simpl. congruence.
Qed.

(* ------------------------------------------------------------------ the refinement theorem, all operations *)

Theorem refines_all t o : WF t -> pre (abs t) o -> refines t o /\ ~ In (next_key t) (live (abs t)).
Proof.
  intros W P. split; [|apply next_key_fresh; exact W].
  destruct o.
  - apply new_leaf_refines; auto.
  - apply new_leaf_ctx_refines; auto.
  - apply new_with_children_refines; auto.
  - apply add_child_refines; auto.
  - apply insert_child_refines; auto.
  - apply set_children_refines; auto.
  - apply remove_child_refines; auto.
  - apply remove_child_at_refines; auto.
  - apply remove_range_refines; auto.
  - apply replace_child_refines; auto.
  - apply remove_refines; auto.
  - apply clear_refines; auto.
  - apply set_ctx_refines; auto.
Qed.

Lemma sm_new_get {V} k : sm_get (sm_new V) k = None.
Proof.
  destruct (fst k) as [|n] eqn:E.
  - eapply sm_get_None_vac. rewrite E. reflexivity.
  - apply sm_get_None_oob. rewrite E. simpl. destruct n; reflexivity.
Qed.

Lemma tree_new_WF : WF tree_new.
Proof.
  constructor; cbn [tree_new t_nodes t_children t_parents]; try apply sm_new_inv; try reflexivity.
  - intros p l H. rewrite sm_new_get in H. discriminate.
  - intros c p H. rewrite sm_new_get in H. discriminate.
Qed.

(* ------------------------------------------------------------------ histories *)

(* the precondition holds at every step along the run *)
Fixpoint pre_hist (t : tree) (os : list op) : Prop :=
  match os with
  | [] => True
  | o :: r => pre (abs t) o /\ forall t' out, step t o = Ok (t', out) -> pre_hist t' r
  end.

(* every step of the run succeeds, keeps WF, and is the specification's step on the abstraction of the state it starts from *)
Fixpoint sim_hist (t : tree) (os : list op) : Prop :=
  match os with
  | [] => True
  | o :: r => exists t' out, step t o = Ok (t', out) /\ WF t' /\ ~ In (next_key t) (live (abs t)) /\
                             spec_equiv (abs t') (fst (spec_step (abs t) o (next_key t))) /\
                             out = snd (spec_step (abs t) o (next_key t)) /\ sim_hist t' r
  end.

Definition run_acc (acc : res (tree * list ret)) (os : list op) : res (tree * list ret) :=
  fold_left (fun acc o => x <- acc ;; y <- step (fst x) o ;; Ok (fst y, snd x ++ [snd y])) os acc.

Lemma run_acc_panic os : run_acc Panic os = Panic.
Proof. induction os; simpl; auto. Qed.

Lemma run_acc_cons t acc o os :
  run_acc (Ok (t, acc)) (o :: os) =
  match step t o with Ok (t', out) => run_acc (Ok (t', acc ++ [out])) os | Panic => Panic end.
Proof.
  unfold run_acc. simpl. destruct (step t o) as [[t' out]|]; simpl; [reflexivity|]. apply run_acc_panic.
Qed.

Theorem history os : forall t acc, WF t -> pre_hist t os ->
  sim_hist t os /\ exists t' outs, run_acc (Ok (t, acc)) os = Ok (t', acc ++ outs) /\ WF t' /\ length outs = length os.
Proof.
  induction os as [|o r IH]; intros t acc W P.
  - split; [exact I|]. exists t, []. rewrite app_nil_r. split; [reflexivity|]. split; [exact W | reflexivity].
  - destruct P as [P0 P1]. destruct (refines_all t o W P0) as [[t' [out [Hs [W' [He Ho]]]]] Hf].
    destruct (IH t' (acc ++ [out]) W' (P1 t' out Hs)) as [S [t2 [outs [Hr [W2 Hl]]]]].
    split.
    + exists t', out. split; [exact Hs|]. split; [exact W'|]. split; [exact Hf|]. split; [exact He|]. split; [exact Ho | exact S].
    + exists t2, (out :: outs). rewrite run_acc_cons, Hs, Hr. rewrite <- app_assoc. simpl.
      split; [reflexivity|]. split; [exact W2|]. f_equal. exact Hl.
Qed.

(* ------------------------------------------------------------------ what the accessors show *)

Definition spec_child_at (s : spec) (p : key) (i : N) : ret :=
  let n := N.of_nat (length (kids s p)) in
  if N.leb n i then RErr p i n
  else match nth_error (kids s p) (N.to_nat i) with Some c => RKey c | None => RErr p i n end.

Theorem observe t k : WF t -> tlive t k ->
  children t k = Ok (kids (abs t) k) /\
  child_count t k = Ok (length (kids (abs t) k)) /\
  parent t k = Ok (spec_parent (abs t) k) /\
  (forall i, child_at_index t k i = Ok (spec_child_at (abs t) k i)) /\
  total_node_count t = length (live (abs t)).
Proof.
  intros W Hk. destruct (live_children t k W Hk) as [l Hl]. destruct (live_parents t k W Hk) as [pp Hpp].
  rewrite (kids_abs t k l Hl). unfold children, child_count, parent, child_at_index, sm_index. rewrite Hl, Hpp. cbn [of_opt bind].
  repeat split.
  - rewrite (abs_parent t k pp W Hpp). reflexivity.
  - intros i. unfold spec_child_at. rewrite (kids_abs t k l Hl).
    destruct (N.leb (N.of_nat (length l)) i) eqn:E; [reflexivity|].
    pose proof (N_index_lt l i E) as Hlt.
    destruct (nth_error l (N.to_nat i)) eqn:En; [reflexivity|]. apply nth_error_None in En. lia.
  - unfold total_node_count, sm_len. apply (inv_num _ (wf_inv_n t W)).
Qed.

(* the observed structure is a consistent parent/children relation: each attached node appears exactly once, in exactly
   its parent's child list, and the derived parent agrees *)
Theorem forest t : WF t ->
  NoDup (live (abs t)) /\
  (forall p, tlive t p -> NoDup (kids (abs t) p)) /\
  (forall p q c, tlive t p -> tlive t q -> In c (kids (abs t) p) -> In c (kids (abs t) q) -> p = q) /\
  (forall p c, tlive t p -> In c (kids (abs t) p) -> tlive t c /\ spec_parent (abs t) c = Some p) /\
  (forall c p, tlive t c -> spec_parent (abs t) c = Some p -> tlive t p /\ In c (kids (abs t) p)).
Proof.
  intros W. split; [apply sm_keys_NoDup|]. split; [|split; [|split]].
  - intros p Hp. destruct (live_children t p W Hp) as [l Hl]. rewrite (kids_abs t p l Hl). apply (wf_down t W p l Hl).
  - intros p q c Hp Hq Hcp Hcq. destruct (live_children t p W Hp) as [lp Hlp]. destruct (live_children t q W Hq) as [lq Hlq].
    rewrite (kids_abs t p lp Hlp) in Hcp. rewrite (kids_abs t q lq Hlq) in Hcq. eapply WF_disjoint; eauto.
  - intros p c Hp Hc. destruct (live_children t p W Hp) as [l Hl]. rewrite (kids_abs t p l Hl) in Hc.
    destruct (wf_down t W p l Hl) as [_ Hd]. specialize (Hd c Hc). split; [eapply parents_live; eauto|].
    apply abs_parent; auto.
  - intros c p Hc Hp. destruct (live_parents t c W Hc) as [pp Hpp]. rewrite (abs_parent t c pp W Hpp) in Hp. subst pp.
    destruct (wf_up t W c p Hpp) as [l [Hl Hin]]. split; [eapply children_live; eauto|].
    rewrite (kids_abs t p l Hl). exact Hin.
Qed.

(* ------------------------------------------------------------------ index errors: reported, nothing changes (no WF needed) *)

Theorem index_errors t p l : sm_get (t_children t) p = Some l ->
  forall i c,
  ((N.of_nat (length l) < i)%N -> step t (OInsertChild p i c) = Ok (t, RErr p i (N.of_nat (length l)))) /\
  ((N.of_nat (length l) <= i)%N ->
     step t (ORemoveChildAt p i) = Ok (t, RErr p i (N.of_nat (length l))) /\
     step t (OReplaceChildAt p i c) = Ok (t, RErr p i (N.of_nat (length l))) /\
     child_at_index t p i = Ok (RErr p i (N.of_nat (length l)))).
Proof.
  intros Hl i c. split.
  - intros H. cbn [step]. unfold insert_child_at_index, sm_index. rewrite Hl. cbn [of_opt bind].
    apply N.ltb_lt in H. rewrite H. reflexivity.
  - intros H. apply N.leb_le in H. cbn [step].
    unfold remove_child_at_index, replace_child_at_index, child_at_index, sm_index. rewrite Hl. cbn [of_opt bind].
    rewrite H. repeat split; reflexivity.
Qed.

(* ------------------------------------------------------------------ remove, spelled out *)

Lemma filter_ne_length (l : list key) n : NoDup l -> In n l -> S (length (filter (fun x => negb (key_eqb x n)) l)) = length l.
Proof.
  induction l as [|x r IH]; intros Hnd Hin; [destruct Hin|]. inversion Hnd; subst. simpl.
  destruct (key_eqb_spec x n) as [->|Hne]; simpl.
  - f_equal. fold (retain_ne n r). rewrite retain_ne_notin; auto.
  - f_equal. apply IH; auto. destruct Hin; [congruence|auto].
Qed.

Theorem remove_spelled_out t n : WF t -> tlive t n ->
  exists t', step t (ORemove n) = Ok (t', RKey n) /\ WF t' /\
    (* gone from all three maps *)
    sm_get (t_nodes t') n = None /\ sm_get (t_children t') n = None /\ sm_get (t_parents t') n = None /\
    S (total_node_count t') = total_node_count t /\
    (* the other nodes stay; everybody's list just loses n *)
    (forall q, q <> n -> (tlive t' q <-> tlive t q)) /\
    (forall q, tlive t' q -> children t' q = Ok (retain_ne n (kids (abs t) q))) /\
    (* its children become roots *)
    (forall c, In c (kids (abs t) n) -> c <> n -> tlive t' c /\ parent t' c = Ok None).
Proof.
  intros W Hn. assert (P : pre (abs t) (ORemove n)) by (apply abs_live; exact Hn).
  destruct (remove_refines t n W P) as [t' [out [Hs [W' [[E1 [E2 E3]] Ho]]]]].
  cbn [spec_step fst snd live kids] in *. subst out. exists t'. split; [exact Hs|]. split; [exact W'|].
  assert (Hlive' : forall q, tlive t' q <-> q <> n /\ tlive t q).
  { intros q. rewrite <- !abs_live, E1, filter_In. destruct (key_eqb_spec q n); simpl; intuition congruence. }
  assert (Hdead : ~ tlive t' n) by (rewrite Hlive'; tauto).
  assert (Hnn : sm_get (t_nodes t') n = None) by (unfold tlive in Hdead; destruct (sm_get (t_nodes t') n); [exfalso; apply Hdead; congruence | reflexivity]).
  assert (Hkids : forall q, tlive t' q -> sm_get (t_children t') q = Some (retain_ne n (kids (abs t) q))).
  { intros q Hq. destruct (live_children t' q W' Hq) as [l Hl]. rewrite Hl. f_equal.
    rewrite <- (kids_abs t' q l Hl). apply E3. apply abs_live. exact Hq. }
  split; [exact Hnn|]. split; [|split; [|split; [|split; [|split]]]].
  - destruct (sm_get (t_children t') n) eqn:E; [|reflexivity]. exfalso. apply Hdead. eapply children_live; eauto.
  - destruct (sm_get (t_parents t') n) eqn:E; [|reflexivity]. exfalso. apply Hdead. eapply parents_live; eauto.
  - destruct (observe t n W Hn) as [_ [_ [_ [_ T]]]]. rewrite T.
    unfold total_node_count, sm_len. rewrite (inv_num _ (wf_inv_n t' W')). change (sm_keys (t_nodes t')) with (live (abs t')).
    rewrite E2. apply filter_ne_length; [apply sm_keys_NoDup | apply abs_live; exact Hn].
  - intros q Hq. rewrite Hlive'. tauto.
  - intros q Hq. unfold children, sm_index. rewrite (Hkids q Hq). reflexivity.
  - intros c Hc Hcn. destruct (live_children t n W Hn) as [ln Hln]. rewrite (kids_abs t n ln Hln) in Hc.
    assert (Hcl : tlive t c) by (eapply WF_listed_live; eauto).
    assert (Hcl' : tlive t' c) by (apply Hlive'; tauto). split; [exact Hcl'|].
    destruct (live_parents t' c W' Hcl') as [pp Hpp]. unfold parent, sm_index. rewrite Hpp. cbn [of_opt]. f_equal.
    destruct pp as [q|]; [|reflexivity]. exfalso.
    destruct (wf_up t' W' c q Hpp) as [lq [Hlq Hcq]].
    assert (Hq' : tlive t' q) by (eapply children_live; eauto).
    assert (Elq : lq = retain_ne n (kids (abs t) q)) by (rewrite (Hkids q Hq') in Hlq; congruence).
    subst lq. apply In_retain_ne in Hcq. destruct Hcq as [Hcq _].
    apply Hlive' in Hq'. destruct Hq' as [Hqn Hq].
    destruct (live_children t q W Hq) as [lq0 Hlq0]. rewrite (kids_abs t q lq0 Hlq0) in Hcq.
    apply Hqn. eapply (WF_disjoint t q n lq0 ln c); eauto.
Qed.

(* ------------------------------------------------------------------ slot reuse *)

(* what an operation does to the nodes map (the allocator), whatever the state *)
Definition nodes_rel (m : slotmap bool) (o : op) (m' : slotmap bool) (out : ret) : Prop :=
  match o with
  | ONewLeaf | ONewWithChildren _ => m' = fst (sm_insert m false) /\ out = RKey (snd (sm_insert m false))
  | ONewLeafCtx _ => m' = fst (sm_insert m true) /\ out = RKey (snd (sm_insert m true))
  | ORemove n => m' = fst (sm_remove m n)
  | OClear => m' = sm_clear m
  | OSetCtx n c => exists b, sm_set m n b = Ok m'
  | _ => m' = m
  end.

Ltac inv_bind H :=
  repeat match type of H with
         | bind ?e _ = Ok _ => let E := fresh "E" in destruct e eqn:E; cbn [bind] in H; [|discriminate H]
         | (if ?c then _ else _) = Ok _ => let E := fresh "E" in destruct c eqn:E
         | Panic = Ok _ => discriminate H
         end.

Lemma remove_child_at_nodes t p i x : remove_child_at_index t p i = Ok x -> t_nodes (fst x) = t_nodes t.
Proof.
  unfold remove_child_at_index. intros H. inv_bind H; inversion H; reflexivity.
Qed.

Lemma remove_child_nodes t p c x : remove_child t p c = Ok x -> t_nodes (fst x) = t_nodes t.
Proof.
  unfold remove_child. intros H. inv_bind H. eapply remove_child_at_nodes; eauto.
Qed.

Lemma set_children_loop_nodes p cs : forall u t2, set_children_loop u p cs = Ok t2 -> t_nodes t2 = t_nodes u.
Proof.
  induction cs as [|c r IH]; intros u t2 H; simpl in H; [inversion H; reflexivity|].
  inv_bind H. apply IH in H. cbn [set_parents_map t_nodes] in H. rewrite H.
  destruct a as [prev|].
  - inv_bind E0. destruct (snd a) eqn:Es; inversion E0; subst; eapply remove_child_nodes; eauto.
  - inversion E0. reflexivity.
Qed.

Lemma step_nodes t o t' out : step t o = Ok (t', out) -> nodes_rel (t_nodes t) o (t_nodes t') out.
Proof.
  destruct o; cbn [step nodes_rel]; intros H.
  - unfold new_leaf in H. inversion H. auto.
  - unfold new_leaf_with_context in H. inversion H. auto.
  - unfold new_with_children in H. inv_bind H. inversion H. auto.
  - unfold add_child in H. inv_bind H. inversion H. reflexivity.
  - unfold insert_child_at_index in H. inv_bind H; inversion H; reflexivity.
  - unfold set_children in H. inv_bind H. inversion H. cbn [set_children_map t_nodes].
    apply set_children_loop_nodes in E1. exact E1.
  - apply remove_child_nodes in H. exact H.
  - apply remove_child_at_nodes in H. exact H.
  - unfold remove_children_range in H. inv_bind H; inversion H; reflexivity.
  - unfold replace_child_at_index in H. inv_bind H; inversion H; reflexivity.
  - unfold remove in H. inv_bind H. inversion H. reflexivity.
  - unfold clear in H. inversion H. reflexivity.
  - unfold set_node_context in H. destruct c; inv_bind H; inversion H; eauto.
Qed.

(* a spent key stays spent (hence dead), and no creation returns it *)
Definition is_creation (o : op) : bool :=
  match o with ONewLeaf | ONewLeafCtx _ | ONewWithChildren _ => true | _ => false end.

Theorem spent_step t o t' out k : step t o = Ok (t', out) -> no_wrap (t_nodes t) -> spent (t_nodes t) k ->
  spent (t_nodes t') k /\ (is_creation o = true -> out <> RKey k).
Proof.
  intros H Hw Hs. apply step_nodes in H.
  destruct o; cbn [nodes_rel is_creation] in *;
    try (rewrite H; split; [exact Hs | discriminate]).
  - destruct H as [-> ->]. destruct (spent_insert (t_nodes t) false k Hs) as [A B]. split; [exact A | congruence].
  - destruct H as [-> ->]. destruct (spent_insert (t_nodes t) true k Hs) as [A B]. split; [exact A | congruence].
  - destruct H as [-> ->]. destruct (spent_insert (t_nodes t) false k Hs) as [A B]. split; [exact A | congruence].
  - rewrite H. split; [apply spent_remove; assumption | discriminate].
  - rewrite H. split; [apply spent_clear; assumption | discriminate].
  - destruct H as [b H]. split; [eapply spent_set; eauto | discriminate].
Qed.

Lemma spent_not_live t k : spent (t_nodes t) k -> ~ tlive t k /\ next_key t <> k.
Proof.
  intros Hs. split.
  - unfold tlive. rewrite (spent_dead _ _ Hs). congruence.
  - unfold next_key. apply (spent_insert (t_nodes t) false k Hs).
Qed.

Theorem remove_spends_key t n t' out : tlive t n -> no_wrap (t_nodes t) -> step t (ORemove n) = Ok (t', out) ->
  spent (t_nodes t') n.
Proof.
  intros Hn Hw H. apply step_nodes in H. cbn [nodes_rel] in H. rewrite H.
  unfold tlive in Hn. destruct (sm_get (t_nodes t) n) eqn:E; [|congruence]. eapply remove_spends; eauto.
Qed.

(* no version wraps along the run *)
Fixpoint nowrap_hist (t : tree) (os : list op) : Prop :=
  match os with
  | [] => no_wrap (t_nodes t)
  | o :: r => no_wrap (t_nodes t) /\ forall t' out, step t o = Ok (t', out) -> nowrap_hist t' r
  end.

Theorem spent_hist os : forall t acc t' outs k, spent (t_nodes t) k -> nowrap_hist t os ->
  run_acc (Ok (t, acc)) os = Ok (t', outs) -> spent (t_nodes t') k.
Proof.
  induction os as [|o r IH]; intros t acc t' outs k Hs Hw Hr.
  - inversion Hr. subst. exact Hs.
  - rewrite run_acc_cons in Hr. destruct (step t o) as [[t1 out]|] eqn:E; [|discriminate].
    destruct Hw as [Hw0 Hw1]. destruct (spent_step t o t1 out k E Hw0 Hs) as [Hs1 _].
    eapply IH; eauto.
Qed.

(* ------------------------------------------------------------------ node contexts and slot reuse *)
(* remove / clear leave node_context_data alone, so stale contexts stay behind in the secondary map.  They are never
   attributed to a new node: every stored context sits at or below the current version of its slot, and a creation
   hands out a strictly larger version. *)

Definition ctx_inv (t : tree) : Prop :=
  forall idx ver c, nth_error (t_ctx t) idx = Some (Some (ver, c)) ->
    exists s, nth_error (sm_slots (t_nodes t)) idx = Some s /\ (ver <= s_ver s)%N.

Definition ver_mono {V} (m m' : slotmap V) : Prop :=
  forall idx s, nth_error (sm_slots m) idx = Some s -> exists s', nth_error (sm_slots m') idx = Some s' /\ (s_ver s <= s_ver s')%N.

Lemma ver_mono_refl {V} (m : slotmap V) : ver_mono m m.
Proof. intros idx s H. exists s. split; [exact H | lia]. Qed.

Lemma ver_mono_insert {V} (m : slotmap V) v : ver_mono m (fst (sm_insert m v)).
Proof.
  intros idx s Hs. unfold sm_insert. destruct (nth_error (sm_slots m) (sm_free m)) as [s0|] eqn:Ef; cbn [fst sm_slots].
  - destruct (Nat.eq_dec (sm_free m) idx) as [E|E].
    + subst idx. assert (s0 = s) by congruence. subst s0.
      exists (mkSlot (N.lor (s_ver s) 1) (Occ v)). split; [apply nth_error_upd_eq; eapply nth_error_Some_lt; eauto|].
      simpl. apply le_lor_1.
    + exists s. rewrite nth_error_upd_neq by exact E. split; [exact Hs | lia].
  - exists s. rewrite nth_error_app1 by (eapply nth_error_Some_lt; eauto). split; [exact Hs | lia].
Qed.

Lemma ver_mono_remove {V} (m : slotmap V) k : no_wrap m -> ver_mono m (fst (sm_remove m k)).
Proof.
  intros Hw idx s Hs. unfold sm_remove. destruct (sm_contains m k); [|exists s; split; [exact Hs | lia]].
  unfold sm_remove_from_slot. destruct (nth_error (sm_slots m) (fst k)) as [s0|] eqn:E0; cbn [fst sm_slots];
    [|exists s; split; [exact Hs | lia]].
  destruct (Nat.eq_dec (fst k) idx) as [E|E].
  - rewrite E in E0. assert (s0 = s) by congruence. subst s0. pose proof (Forall_nth Hw Hs) as Hws. cbv beta in Hws.
    exists (mkSlot (wrap32 (s_ver s + 1)) (Vac (sm_free m))). split; [rewrite E; apply nth_error_upd_eq; eapply nth_error_Some_lt; eauto|].
    simpl. rewrite (wrap32_succ_small _ Hws). lia.
  - exists s. rewrite nth_error_upd_neq by exact E. split; [exact Hs | lia].
Qed.

Lemma ver_mono_clear {V} (m : slotmap V) : no_wrap m -> ver_mono m (sm_clear m).
Proof.
  intros Hw idx s Hs. destruct (bumped_clear m idx s Hs) as [s' [Hs' Hv]]. exists s'. split; [exact Hs'|].
  destruct Hv as [E|[_ E]]; [lia|]. pose proof (Forall_nth Hw Hs) as Hws. cbv beta in Hws.
  rewrite E, (wrap32_succ_small _ Hws). lia.
Qed.

Lemma ver_mono_set {V} (m m' : slotmap V) k v : sm_set m k v = Ok m' -> ver_mono m m'.
Proof.
  intros H idx s Hs. apply sm_set_inv in H. destruct H as [old [Ho ->]]. apply sm_get_Some in Ho. cbn [sm_slots].
  destruct (Nat.eq_dec (fst k) idx) as [E|E].
  - rewrite E in Ho. assert (Es : s = mkSlot (snd k) (Occ old)) by congruence. subst s.
    exists (mkSlot (snd k) (Occ v)). split; [rewrite E; apply nth_error_upd_eq; eapply nth_error_Some_lt; eauto | simpl; lia].
  - exists s. rewrite nth_error_upd_neq by exact E. split; [exact Hs | lia].
Qed.

(* entries of the secondary map after insert / remove *)
Lemma sec_extend_entry {C} (m : secmap C) n idx e : nth_error (sec_extend m n) idx = Some (Some e) -> nth_error m idx = Some (Some e).
Proof.
  unfold sec_extend. intros H. destruct (Nat.lt_ge_cases idx (length m)) as [Hl|Hl].
  - rewrite nth_error_app1 in H by exact Hl. exact H.
  - rewrite nth_error_app2 in H by exact Hl. apply nth_error_In in H. apply repeat_spec in H. discriminate.
Qed.

Lemma sec_insert_entry {C} (m : secmap C) k c idx ver x :
  nth_error (sec_insert m k c) idx = Some (Some (ver, x)) ->
  (idx = fst k /\ ver = snd k) \/ nth_error m idx = Some (Some (ver, x)).
Proof.
  unfold sec_insert. set (m1 := sec_extend m (S (fst k))).
  assert (Hup : nth_error (upd m1 (fst k) (Some (snd k, c))) idx = Some (Some (ver, x)) ->
                (idx = fst k /\ ver = snd k) \/ nth_error m idx = Some (Some (ver, x))).
  { intros H. destruct (Nat.eq_dec (fst k) idx) as [E|E].
    - subst idx. left. split; [reflexivity|].
      assert (Hl : fst k < length m1) by (unfold m1, sec_extend; rewrite app_length, repeat_length; lia).
      rewrite (nth_error_upd_eq m1 (fst k) (Some (snd k, c)) Hl) in H. inversion H. reflexivity.
    - right. rewrite nth_error_upd_neq in H by exact E. eapply sec_extend_entry; eauto. }
  destruct (nth_error m1 (fst k)) as [[[v0 c0]|]|] eqn:E1; try exact Hup.
  destruct (N.eqb v0 (snd k)); [exact Hup|]. destruct (is_older_version (snd k) v0); [|exact Hup].
  intros H. right. eapply sec_extend_entry; eauto.
Qed.

Lemma sec_remove_entry {C} (m : secmap C) k idx e : nth_error (sec_remove m k) idx = Some (Some e) -> nth_error m idx = Some (Some e).
Proof.
  unfold sec_remove. destruct (nth_error m (fst k)) as [[[v0 c0]|]|] eqn:E1; try (intros H; exact H).
  destruct (N.eqb v0 (snd k)); [|intros H; exact H].
  intros H. destruct (Nat.eq_dec (fst k) idx) as [E|E].
  - subst idx. rewrite nth_error_upd_eq in H by (eapply nth_error_Some_lt; eauto). discriminate.
  - rewrite nth_error_upd_neq in H by exact E. exact H.
Qed.

(* what an operation does to the context map *)
Definition ctx_rel (t : tree) (o : op) (cx' : secmap N) : Prop :=
  match o with
  | ONewLeafCtx c => cx' = sec_insert (t_ctx t) (snd (sm_insert (t_nodes t) true)) c
  | OSetCtx n (Some v) => cx' = sec_insert (t_ctx t) n v
  | OSetCtx n None => cx' = sec_remove (t_ctx t) n
  | _ => cx' = t_ctx t
  end.

Lemma remove_child_at_ctx t p i x : remove_child_at_index t p i = Ok x -> t_ctx (fst x) = t_ctx t.
Proof. unfold remove_child_at_index. intros H. inv_bind H; inversion H; reflexivity. Qed.

Lemma remove_child_ctx t p c x : remove_child t p c = Ok x -> t_ctx (fst x) = t_ctx t.
Proof. unfold remove_child. intros H. inv_bind H. eapply remove_child_at_ctx; eauto. Qed.

Lemma set_children_loop_ctx p cs : forall u t2, set_children_loop u p cs = Ok t2 -> t_ctx t2 = t_ctx u.
Proof.
  induction cs as [|c r IH]; intros u t2 H; simpl in H; [inversion H; reflexivity|].
  inv_bind H. apply IH in H. cbn [set_parents_map t_ctx] in H. rewrite H.
  destruct a as [prev|].
  - inv_bind E0. destruct (snd a) eqn:Es; inversion E0; subst; eapply remove_child_ctx; eauto.
  - inversion E0. reflexivity.
Qed.

Lemma step_ctx t o t' out : step t o = Ok (t', out) -> ctx_rel t o (t_ctx t').
Proof.
  destruct o; cbn [step ctx_rel]; intros H.
  - unfold new_leaf in H. inversion H. reflexivity.
  - unfold new_leaf_with_context in H. inversion H. reflexivity.
  - unfold new_with_children in H. inv_bind H. inversion H. reflexivity.
  - unfold add_child in H. inv_bind H. inversion H. reflexivity.
  - unfold insert_child_at_index in H. inv_bind H; inversion H; reflexivity.
  - unfold set_children in H. inv_bind H. inversion H. cbn [set_children_map t_ctx].
    apply set_children_loop_ctx in E1. exact E1.
  - apply remove_child_ctx in H. exact H.
  - apply remove_child_at_ctx in H. exact H.
  - unfold remove_children_range in H. inv_bind H; inversion H; reflexivity.
  - unfold replace_child_at_index in H. inv_bind H; inversion H; reflexivity.
  - unfold remove in H. inv_bind H. inversion H. reflexivity.
  - unfold clear in H. inversion H. reflexivity.
  - unfold set_node_context in H. destruct c; inv_bind H; inversion H; reflexivity.
Qed.

Lemma ctx_inv_new : ctx_inv tree_new.
Proof. intros idx ver c H. simpl in H. destruct idx as [|[|idx]]; simpl in H; discriminate. Qed.

Lemma ctx_inv_mono t t' : ctx_inv t -> t_ctx t' = t_ctx t -> ver_mono (t_nodes t) (t_nodes t') -> ctx_inv t'.
Proof.
  intros Hc Ex Hm idx ver c H. rewrite Ex in H. destruct (Hc idx ver c H) as [s [Hs Hle]].
  destruct (Hm idx s Hs) as [s' [Hs' Hle']]. exists s'. split; [exact Hs' | lia].
Qed.

Theorem ctx_inv_step t o t' out : WF t -> no_wrap (t_nodes t) -> ctx_inv t -> step t o = Ok (t', out) -> ctx_inv t'.
Proof.
  intros W Hw Hc H. pose proof (step_nodes t o t' out H) as Hn. pose proof (step_ctx t o t' out H) as Hx.
  destruct o; cbn [nodes_rel ctx_rel] in Hn, Hx;
    try (apply (ctx_inv_mono t t' Hc Hx); rewrite Hn; apply ver_mono_refl).
  - destruct Hn as [Hn _]. apply (ctx_inv_mono t t' Hc Hx). rewrite Hn. apply ver_mono_insert.
  - (* new_leaf_with_context *)
    destruct Hn as [Hn _]. intros idx ver c0 He. rewrite Hx in He.
    destruct (sm_insert_spec (t_nodes t) true (wf_inv_n t W)) as [_ [Hg _]].
    specialize (Hg (snd (sm_insert (t_nodes t) true))). rewrite key_eqb_refl in Hg. apply sm_get_Some in Hg.
    apply sec_insert_entry in He. destruct He as [[-> ->]|He].
    + rewrite Hn. eexists. split; [exact Hg | simpl; lia].
    + destruct (Hc idx ver c0 He) as [s [Hs Hle]].
      destruct (ver_mono_insert (t_nodes t) true idx s Hs) as [s' [Hs' Hle']]. rewrite Hn. exists s'. split; [exact Hs' | lia].
  - destruct Hn as [Hn _]. apply (ctx_inv_mono t t' Hc Hx). rewrite Hn. apply ver_mono_insert.
  - apply (ctx_inv_mono t t' Hc Hx). rewrite Hn. apply ver_mono_remove. exact Hw.
  - apply (ctx_inv_mono t t' Hc Hx). rewrite Hn. apply ver_mono_clear. exact Hw.
  - (* set_node_context *)
    destruct Hn as [b Hn]. pose proof (ver_mono_set _ _ _ _ Hn) as Hm.
    destruct c as [v|].
    + intros idx ver c0 He. rewrite Hx in He. apply sec_insert_entry in He. destruct He as [[-> ->]|He].
      * pose proof (sm_get_set_same Hn) as Hg. apply sm_get_Some in Hg. eexists. split; [exact Hg | simpl; lia].
      * destruct (Hc idx ver c0 He) as [s [Hs Hle]]. destruct (Hm idx s Hs) as [s' [Hs' Hle']]. exists s'. split; [exact Hs' | lia].
    + intros idx ver c0 He. rewrite Hx in He. apply sec_remove_entry in He.
      destruct (Hc idx ver c0 He) as [s [Hs Hle]]. destruct (Hm idx s Hs) as [s' [Hs' Hle']]. exists s'. split; [exact Hs' | lia].
Qed.

(* a node created without a context has none, whatever was stored in its slot before *)
Theorem fresh_ctx_none t o t' k : WF t -> ctx_inv t -> (o = ONewLeaf \/ exists cs, o = ONewWithChildren cs) ->
  step t o = Ok (t', RKey k) -> get_node_context t' k = None.
Proof.
  intros W Hc Ho H. pose proof (step_nodes t o t' _ H) as Hn. pose proof (step_ctx t o t' _ H) as Hx.
  assert (Hk : k = snd (sm_insert (t_nodes t) false) /\ t_ctx t' = t_ctx t).
  { destruct Ho as [->|[cs ->]]; cbn [nodes_rel ctx_rel] in Hn, Hx; destruct Hn as [_ Hn]; inversion Hn; auto. }
  destruct Hk as [-> Ex]. unfold get_node_context, sec_get. rewrite Ex.
  destruct (nth_error (t_ctx t) (fst (snd (sm_insert (t_nodes t) false)))) as [[[ver c]|]|] eqn:E; try reflexivity.
  destruct (Hc _ ver c E) as [s [Hs Hle]].
  destruct (N.eqb_spec ver (snd (snd (sm_insert (t_nodes t) false)))) as [Ev|]; [|reflexivity]. exfalso.
  pose proof (wf_inv_n t W) as Hi. destruct Hi as [[fl [Hnd [H0 Hch]]] Hpar _ _].
  unfold sm_insert in *. destruct (nth_error (sm_slots (t_nodes t)) (sm_free (t_nodes t))) as [s0|] eqn:Ef; cbn [fst snd] in *.
  - assert (s0 = s) by congruence. subst s0.
    destruct fl as [|x r]; simpl in Hch; [apply nth_error_Some_lt in Ef; lia|].
    destruct Hch as [Hx' [fv [fn [Hfx _]]]]. subst x. rewrite Ef in Hfx. inversion Hfx; subst s.
    pose proof (Forall_nth Hpar Ef) as Hp. unfold is_occ in Hp. simpl in Hp, Hle, Ev.
    (* the slot is vacant: its version is even, so the new key's version is one more *)
    assert (Hodd : N.odd (N.lor fv 1) = true) by apply odd_lor_1.
    assert (Hne : N.lor fv 1 <> fv) by (intros Eq; rewrite Eq in Hodd; congruence).
    pose proof (le_lor_1 fv). lia.
  - apply nth_error_Some_lt in Hs. apply nth_error_None in Ef. lia.
Qed.

(* ------------------------------------------------------------------ the whole history against the reference model's own run *)

Lemma spec_equiv_sym s1 s2 : spec_equiv s1 s2 -> spec_equiv s2 s1.
Proof.
  intros [A [B C]]. split; [intros k; symmetry; apply A|]. split; [congruence|].
  intros k Hk. symmetry. apply C. apply A. exact Hk.
Qed.

Lemma spec_equiv_trans s1 s2 s3 : spec_equiv s1 s2 -> spec_equiv s2 s3 -> spec_equiv s1 s3.
Proof.
  intros [A1 [B1 C1]] [A2 [B2 C2]]. split; [intros k; rewrite A1; apply A2|]. split; [congruence|].
  intros k Hk. rewrite (C1 k Hk). apply C2. apply A1. exact Hk.
Qed.

Lemma find_none_iff {A} (f : A -> bool) l : find f l = None <-> forall x, In x l -> f x = false.
Proof.
  split; [intros H x Hx; eapply find_none; eauto|].
  induction l as [|a r IH]; intros H; simpl; [reflexivity|].
  rewrite (H a (or_introl eq_refl)). apply IH. intros x Hx. apply H. right. exact Hx.
Qed.

Lemma detached_congr s1 s2 c : spec_equiv s1 s2 -> detached s1 c -> detached s2 c.
Proof.
  intros [A [_ C]] H. unfold detached, spec_parent in *. rewrite find_none_iff in *.
  intros p Hp. apply A in Hp. rewrite <- (C p Hp). apply H. exact Hp.
Qed.

Lemma pre_congr s1 s2 o : spec_equiv s1 s2 -> pre s1 o -> pre s2 o.
Proof.
  intros E P. pose proof E as [A [_ C]]. unfold spec_live in *.
  destruct o; cbn [pre] in *; auto.
  - destruct P as [Hn Hc]. split; [exact Hn|]. intros c Hin. destruct (Hc c Hin) as [H1 H2].
    split; [apply A; exact H1 | eapply detached_congr; eauto].
  - destruct P as [H1 [H2 H3]]. split; [apply A; exact H1|]. split; [apply A; exact H2 | eapply detached_congr; eauto].
  - destruct P as [H1 [H2 H3]]. split; [apply A; exact H1|]. split; [apply A; exact H2 | eapply detached_congr; eauto].
  - destruct P as [H1 [H2 H3]]. split; [apply A; exact H1|]. split; [exact H2|]. intros c Hc. apply A. apply H3. exact Hc.
  - destruct P as [H1 H2]. split; [apply A; exact H1|]. rewrite <- (C p H1). exact H2.
  - apply A. exact P.
  - destruct P as [H1 [H2 H3]]. split; [apply A; exact H1|]. split; [exact H2|]. rewrite <- (C p H1). exact H3.
  - destruct P as [H1 [H2 H3]]. split; [apply A; exact H1|]. split; [apply A; exact H2 | eapply detached_congr; eauto].
  - apply A. exact P.
  - apply A. exact P.
Qed.

(* equivalent states with the same updated list for p *)
Lemma equiv_kupd s1 s2 p l : spec_equiv s1 s2 ->
  spec_equiv (mkSpec (live s1) (kupd (kids s1) p l)) (mkSpec (live s2) (kupd (kids s2) p l)).
Proof.
  intros [A [B C]]. split; [exact A|]. split; [exact B|]. intros k Hk. cbn [live kids] in *. unfold kupd.
  destruct (key_eqb k p); [reflexivity | apply C; exact Hk].
Qed.

Lemma equiv_snoc s1 s2 k l : spec_equiv s1 s2 ->
  spec_equiv (mkSpec (live s1 ++ [k]) (kupd (kids s1) k l)) (mkSpec (live s2 ++ [k]) (kupd (kids s2) k l)).
Proof.
  intros [A [B C]]. cbn [live kids]. split; [|split].
  - intros x. cbn [live]. rewrite !in_app_iff, A. tauto.
  - cbn [live]. rewrite !app_length, B. reflexivity.
  - intros x Hx. cbn [live kids] in *. unfold kupd. destruct (key_eqb_spec x k) as [->|Hne]; [reflexivity|].
    apply C. apply in_app_or in Hx. destruct Hx as [Hx|[Hx|[]]]; [exact Hx | congruence].
Qed.

Lemma spec_step_congr s1 s2 o k : spec_equiv s1 s2 -> NoDup (live s1) -> NoDup (live s2) -> pre s1 o ->
  spec_equiv (fst (spec_step s1 o k)) (fst (spec_step s2 o k)) /\ snd (spec_step s1 o k) = snd (spec_step s2 o k).
Proof.
  intros E N1 N2 P. pose proof E as [A [B C]]. unfold spec_live in *.
  destruct o; cbn [pre spec_step] in *.
  - split; [apply equiv_snoc; exact E | reflexivity].
  - split; [apply equiv_snoc; exact E | reflexivity].
  - split; [apply equiv_snoc; exact E | reflexivity].
  - destruct P as [Hp _]. rewrite <- (C p Hp). split; [apply equiv_kupd; exact E | reflexivity].
  - destruct P as [Hp _]. rewrite <- (C p Hp). destruct (N.ltb (N.of_nat (length (kids s1 p))) i).
    + split; [exact E | reflexivity].
    + split; [apply equiv_kupd; exact E | reflexivity].
  - split; [|reflexivity]. cbn [fst]. split; [exact A|]. split; [exact B|]. intros q Hq. cbn [live kids] in *.
    destruct (key_eqb q p); [reflexivity|]. rewrite (C q Hq). reflexivity.
  - destruct P as [Hp _]. rewrite <- (C p Hp). split; [apply equiv_kupd; exact E | reflexivity].
  - rewrite <- (C p P). destruct (N.leb (N.of_nat (length (kids s1 p))) i); [split; [exact E | reflexivity]|].
    destruct (nth_error (kids s1 p) (N.to_nat i)); [|split; [exact E | reflexivity]].
    split; [apply equiv_kupd; exact E | reflexivity].
  - destruct P as [Hp _]. rewrite <- (C p Hp). split; [apply equiv_kupd; exact E | reflexivity].
  - destruct P as [Hp _]. rewrite <- (C p Hp). destruct (N.leb (N.of_nat (length (kids s1 p))) i); [split; [exact E | reflexivity]|].
    destruct (nth_error (kids s1 p) (N.to_nat i)); [|split; [exact E | reflexivity]].
    split; [apply equiv_kupd; exact E | reflexivity].
  - split; [|reflexivity]. cbn [fst].
    assert (M : forall x, In x (filter (fun x => negb (key_eqb x n)) (live s1)) <-> In x (filter (fun x => negb (key_eqb x n)) (live s2))).
    { intros x. rewrite !filter_In, A. tauto. }
    split; [exact M|]. split.
    + apply NoDup_same_length; [apply NoDup_filter; exact N1 | apply NoDup_filter; exact N2 | exact M].
    + intros q Hq. cbn [live kids] in *. apply filter_In in Hq. rewrite (C q (proj1 Hq)). reflexivity.
  - split; [|reflexivity]. cbn [fst]. split; [tauto|]. split; [reflexivity|]. intros q [].
  - split; [exact E | reflexivity].
Qed.

Lemma spec_step_NoDup s o k : NoDup (live s) -> ~ In k (live s) -> NoDup (live (fst (spec_step s o k))).
Proof.
  intros N F. destruct o; cbn [spec_step]; cbn [fst live]; try exact N; try (apply NoDup_snoc; assumption).
  - destruct (N.ltb _ _); exact N.
  - destruct (N.leb _ _); [exact N|]. destruct (nth_error _ _); exact N.
  - destruct (N.leb _ _); [exact N|]. destruct (nth_error _ _); exact N.
  - apply NoDup_filter. exact N.
  - constructor.
Qed.

Theorem history_spec os : forall t s acc, WF t -> spec_equiv (abs t) s -> NoDup (live s) ->
  spec_pre_run s os (run_keys t os) ->
  exists t' outs, run_acc (Ok (t, acc)) os = Ok (t', acc ++ outs) /\ WF t' /\
                  spec_equiv (abs t') (fst (spec_run s os (run_keys t os))) /\
                  outs = snd (spec_run s os (run_keys t os)).
Proof.
  induction os as [|o r IH]; intros t s acc W E N P.
  - exists t, []. rewrite app_nil_r. split; [reflexivity|]. split; [exact W|]. split; [exact E | reflexivity].
  - cbn [run_keys spec_pre_run] in P. destruct P as [P0 P1].
    assert (Pc : pre (abs t) o) by (eapply pre_congr; [apply spec_equiv_sym; exact E | exact P0]).
    destruct (refines_all t o W Pc) as [[t1 [out [Hs [W1 [He Ho]]]]] Hf].
    destruct (spec_step_congr (abs t) s o (next_key t) E (sm_keys_NoDup _) N Pc) as [Ec Eo].
    assert (Hfs : ~ In (next_key t) (live s)) by (intros H; apply Hf; apply E; exact H).
    cbn [run_keys spec_run]. rewrite Hs in *.
    destruct (IH t1 (fst (spec_step s o (next_key t))) (acc ++ [out]) W1
                 (spec_equiv_trans _ _ _ He Ec) (spec_step_NoDup s o _ N Hfs) P1) as [t' [outs [Hr [W' [E' O']]]]].
    exists t', (out :: outs). rewrite run_acc_cons, Hs, Hr. rewrite <- app_assoc. cbn [fst snd].
    split; [reflexivity|]. split; [exact W'|]. split; [exact E'|]. rewrite O', Ho, Eo. reflexivity.
Qed.
