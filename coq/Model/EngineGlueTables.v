(* What the tables of Gen/EngineGlueGen.v (regenerated from the source on every run) are expected to be: the model side of the
   table-level statements of Props/C01.v, C15.v, C17.v.  Definitions only. *)
From Coq Require Import String List.
From TV Require Import Gen.EngineGlueGen.
Import ListNotations.
Open Scope string_scope.

(* the fields of LayoutInput that compute_cached_layout passes to cache_get and cache_store *)
Definition expected_cache_key_fields : list string := ["known_dimensions"; "available_space"; "run_mode"].

(* TaffyView::compute_child_layout: (display pattern, has_children pattern, target), in source order *)
Definition expected_dispatch_arms : list (string * string * GKind) :=
  [("GD_None", "_", GK_hidden); ("GD_Block", "true", GK_block); ("GD_Flex", "true", GK_flex); ("GD_Grid", "true", GK_grid);
   ("_", "false", GK_leaf)].

(* the node every mutator marks dirty (unconditionally, once), as Model/EngineForest.v `step_op` has it: set_style / set_node_context
   the node itself, the child-list mutators the parent *)
Definition expected_mutator_marks : list (string * string) :=
  [("set_node_context", "node"); ("add_child", "parent"); ("insert_child_at_index", "parent"); ("set_children", "parent");
   ("remove_child_at_index", "parent"); ("remove_children_range", "parent"); ("replace_child_at_index", "parent");
   ("set_style", "node")].
