(* C03: on the domain of C03_placement_total transported to styles, a grid container never reaches one of the Rust panic sites that
   Model/GridAlg.v collects in `grid_no_panic`:
     (1) placement's checked arithmetic            (`place ..` returns PB.Err)                      grid_placement_ok
     (2) the placed items' track-vector indices    (`make_item`: OriginZeroLine::into_track_vec_index asserts)   grid_items_ok
     (3) the box-generating ABSOLUTE children's lines (`oof_ok`: the same assertion in the final loop)          grid_absolute_ok
   The three parts rest on Proofs/PlacementTotal.v: `estimate_covers` (the estimate, computed over ALL box-generating children, absolute
   ones included, covers every definite line), `place_grid_items_total_grows` (placement succeeds, the counts stay small and only the
   positive implicit count grows), `place_grid_items_inv` (every placed item lies inside the final counts).
   No premise on the numbers: the only way floats reach the panic sites is through the explicit track counts of auto-repeat templates,
   and the domain bounds the COMPUTED counts (`grid_domain`); for templates without auto-repeat the bound is a property of the template
   alone (`grid_domain_static`). *)
From Coq Require Import ZArith NArith Bool List Lia Permutation.
From TV Require Import Model.Common Model.Leaf Gen.GridTracksGen Model.GridTracks Model.GridIntrinsic.
From TV Require Import Model.FiltersBase Gen.FiltersGen Model.ItemFilters Model.GridAlgBase Model.GridAlg Model.GridAlgTotal.
From TV Require Import Model.PlacementBase Gen.PlacementGen Model.Placement Proofs.PlacementTables Proofs.PlacementMatrix
  Proofs.PlacementProofs Proofs.PlacementTotal Proofs.FlexAlgStruct Proofs.GridAlgStruct.
From TV Require Import Model.GridNoPanicExample.
From TV Require Num.QNum.
Import ListNotations.
Close Scope Z_scope.
Close Scope N_scope.

(* ================================================================================================ integer facts *)
Section Ints.
  Local Open Scope Z_scope.

  Lemma into_track_vec_index_total : forall tc l, tc_nonneg tc -> tlen tc <= 16000 -> - tc_neg tc <= l <= endl tc ->
    exists v, into_track_vec_index l tc = Ok v.
  Proof.
    intros tc l (Hn & He & Hp) Hl Hr. unfold tlen, endl in *. unfold into_track_vec_index.
    ok_steps.
    destruct (Z.geb_spec l (- tc_neg tc)); [|lia]. cbn [bind]. ok_steps.
    destruct (Z.leb_spec l (tc_explicit tc + tc_pos tc)); [|lia]. cbn [bind]. ok_steps.
    rewrite i16_as_usize_small by lia. ok_steps. eauto.
  Qed.

  Lemma ix_of_total : forall ln tc, tc_nonneg tc -> tlen tc <= 16000 ->
    - tc_neg tc <= l_start ln -> l_start ln <= l_end ln -> l_end ln <= endl tc -> exists r, ix_of ln tc = Ok r.
  Proof.
    intros ln tc Hnn Hlen A B C. unfold ix_of.
    destruct (into_track_vec_index_total tc (l_start ln) Hnn Hlen ltac:(lia)) as [s Es]. rewrite Es. cbn [bind].
    destruct (into_track_vec_index_total tc (l_end ln) Hnn Hlen ltac:(lia)) as [e Ee]. rewrite Ee. cbn [bind]. eauto.
  Qed.

  Lemma opt_index_total : forall o tc, tc_nonneg tc -> tlen tc <= 16000 ->
    match o with Some l => - tc_neg tc <= l <= endl tc | None => True end -> exists r, opt_index o tc = Ok r.
  Proof.
    intros [l|] tc Hnn Hlen Hb; unfold opt_index; [|eauto].
    destruct (into_track_vec_index_total tc l Hnn Hlen Hb) as [v Ev]. rewrite Ev. cbn [bind]. eauto.
  Qed.

  (* an absolute child reads the SAME edges a definite placement resolves to (or only one of them) *)
  Lemma abs_resolve_total : forall z r lo hi, ozln_ok z -> resolve_definite_grid_lines z = Ok r ->
    lo <= l_start r -> l_start r < l_end r -> l_end r <= hi ->
    exists s e, resolve_absolutely_positioned_grid_tracks z = Ok (s, e) /\
      match s with Some l => lo <= l <= hi | None => True end /\ match e with Some l => lo <= l <= hi | None => True end.
  Proof.
    intros [a b] r lo hi [Ha Hb] Hr A B C. unfold resolve_definite_grid_lines in Hr. unfold resolve_absolutely_positioned_grid_tracks.
    simpl in *.
    destruct a as [|a|a], b as [|b|b]; simpl in *; try discriminate;
      try (destruct (Z.eqb_spec a b)); mon; simpl in *; rewrite ?u16_as_i16_small in * by lia; ok_steps;
      do 2 eexists; (split; [reflexivity|]); simpl; lia.
  Qed.

  Lemma abs_indexes_total : forall ln tc, ln_ok ln -> 0 <= tc_explicit tc <= 64 -> tc_nonneg tc -> tlen tc <= 16000 ->
    axis_fits ln (tc_explicit tc) tc -> exists r, abs_indexes ln tc = Ok r.
  Proof.
    intros ln tc Hln He Hnn Hlen [Hd Hi]. unfold abs_indexes. rewrite into_origin_zero_total by auto. cbn [bind].
    destruct (is_definite ln) eqn:Ed.
    - destruct (Hd eq_refl) as (r & Hr & A & B). pose proof (resolve_definite_spec ln _ r He Hln Ed Hr) as (_ & C & _).
      destruct (abs_resolve_total (ozln ln (tc_explicit tc)) r (- tc_neg tc) (endl tc)) as (s & e & E & Bs & Be); auto.
      { apply ozln_is_ok; auto. }
      rewrite E. cbn [bind].
      destruct (opt_index_total s tc Hnn Hlen Bs) as [si Esi]. rewrite Esi. cbn [bind].
      destruct (opt_index_total e tc Hnn Hlen Be) as [ei Eei]. rewrite Eei. cbn [bind]. eauto.
    - assert (Ho : is_definite_oz (ozln ln (tc_explicit tc)) = false) by (unfold ozln; rewrite is_definite_oz_spec; exact Ed).
      destruct (ozln ln (tc_explicit tc)) as [a b]. unfold is_definite_oz in Ho. simpl in Ho.
      unfold resolve_absolutely_positioned_grid_tracks. simpl.
      destruct a, b; try discriminate; cbn [bind opt_index]; eauto.
  Qed.

  Lemma g_enumerate_from_fst {A} (l : list A) : forall k, map fst (g_enumerate_from k l) = seq k (length l).
  Proof. induction l as [|x l IH]; intros k; cbn [g_enumerate_from map length seq fst]; [reflexivity|]. rewrite IH. reflexivity. Qed.
End Ints.

(* ================================================================================================ the container *)
Section NoPanic.
  Context {T : Type} `{Num T}.
  Notation GS := (GStyle T).

  (* the domain of C03_placement_total on styles: the explicit track counts compute_grid_layout computes (step 2; with an auto-repeat
     template they depend on the float container size) are at most 64 per axis, at most 64 children of any kind, every child's
     grid_row / grid_column has its lines in [-64, 64] (0 included) and its spans in [1, 64].  No premise on any number. *)
  Definition grid_domain (st : GS) (children : list GS) (inp : GIn T) : Prop :=
    (fst (explicit_counts st (grid_pre st inp)) <= 64)%N /\ (snd (explicit_counts st (grid_pre st inp)) <= 64)%N /\
    length children <= 64 /\ Forall (fun s => child_ok (g_child s)) children.

  (* a template without auto-repetition whose track count is at most n *)
  Definition template_fixed (tpl : list (tsf T)) : Prop :=
    forallb (fun e => negb (is_auto_repetition e)) tpl = true /\ (non_auto_count_explicit tpl <= 64)%N.

  (* the same domain with the bound on the counts read off the templates: no auto-repeat, at most 64 tracks *)
  Definition grid_domain_static (st : GS) (children : list GS) : Prop :=
    template_fixed (gs_template_columns st) /\ template_fixed (gs_template_rows st) /\
    length children <= 64 /\ Forall (fun s => child_ok (g_child s)) children.

  Lemma explicit_grid_size_fixed tpl inner gap b : template_fixed tpl -> (explicit_grid_size tpl inner gap b <= 64)%N.
  Proof.
    intros [Hf Hn]. unfold explicit_grid_size. destruct tpl as [|e tpl]; [lia|].
    destruct (existsb has_empty_repetition (e :: tpl)); [lia|]. destruct (negb (template_is_valid (e :: tpl))); [lia|].
    assert (E : auto_repetition_count (e :: tpl) = 0%N).
    { unfold auto_repetition_count. replace (filter is_auto_repetition (e :: tpl)) with (@nil (tsf T)); [reflexivity|].
      symmetry. clear Hn. induction (e :: tpl) as [|x l IH]; [reflexivity|]. cbn [forallb filter] in *.
      apply andb_true_iff in Hf. destruct Hf as [Hx Hl]. apply negb_true_iff in Hx. rewrite Hx. apply IH. exact Hl. }
    rewrite E. cbn [N.eqb]. exact Hn.
  Qed.

  Lemma grid_domain_of_static st children inp : grid_domain_static st children -> grid_domain st children inp.
  Proof.
    intros (Hc & Hr & Hl & Hch). unfold grid_domain, explicit_counts. cbn [fst snd].
    split; [apply explicit_grid_size_fixed; exact Hc|]. split; [apply explicit_grid_size_fixed; exact Hr|]. split; assumption.
  Qed.

  (* ------------------------------------------------------------------------------------------------ the child iterators *)
  Lemma estimate_styles_in (children : list GS) s : In s children -> g_is_none s = false -> In (g_child s) (estimate_styles children).
  Proof.
    intros Hin Hn. unfold estimate_styles, grid_estimate_children. apply in_map. apply filter_In. split.
    - apply in_map_iff. exists s. split; [reflexivity|exact Hin].
    - unfold g_is_none, s_hidden, ItemFilters.g_is_none in Hn. rewrite Hn. reflexivity.
  Qed.

  Lemma estimate_styles_ok (children : list GS) :
    Forall (fun s => child_ok (g_child s)) children -> Forall child_ok (estimate_styles children).
  Proof.
    intros Hch. rewrite Forall_forall in *. intros c Hc. unfold estimate_styles, grid_estimate_children in Hc.
    apply in_map_iff in Hc. destruct Hc as [s [<- Hs]]. apply filter_In in Hs. destruct Hs as [Hs _].
    apply in_map_iff in Hs. destruct Hs as [s' [<- Hs]]. apply Hch. exact Hs.
  Qed.

  Lemma in_flow_styles_not_none (children : list GS) c s : In (c, s) (in_flow_styles children) -> In s children /\ g_is_none s = false.
  Proof.
    intros Hin. apply in_flow_styles_iff in Hin. destruct Hin as [Hn Hf]. split; [eapply nth_error_In; exact Hn|].
    destruct (classes s) as [(_ & A & _)|[(B & _)|(B & _)]]; [exact A|congruence|congruence].
  Qed.

  Lemma in_flow_styles_nodup (children : list GS) : NoDup (map fst (in_flow_styles children)).
  Proof.
    unfold in_flow_styles, grid_in_flow_children, g_enumerate. rewrite map_map. cbn [fst].
    apply (NoDup_map_filter _ _ (fun x : nat * GS * GS => fst (fst x))). rewrite map_map.
    erewrite map_ext; [rewrite g_enumerate_from_fst; apply seq_NoDup|]. intros [i s]. reflexivity.
  Qed.

  Lemma in_flow_styles_length (children : list GS) : length (in_flow_styles children) <= length children.
  Proof.
    unfold in_flow_styles, grid_in_flow_children, g_enumerate. rewrite map_length.
    eapply Nat.le_trans; [apply filter_len_le|]. rewrite map_length. rewrite <- (map_length fst), g_enumerate_from_fst, seq_length. apply le_n.
  Qed.

  (* ------------------------------------------------------------------------------------------------ estimate + placement *)
  Local Open Scope Z_scope.

  (* what the three parts need of `place`: it succeeds; the final counts are small, keep the explicit counts, contain every placed item,
     and still cover every definite line of every box-generating child (the absolute ones included) *)
  Lemma place_facts (st : GS) (children : list GS) (ec er : N) :
    (ec <= 64)%N -> (er <= 64)%N -> (length children <= 64)%nat -> Forall (fun s => child_ok (g_child s)) children ->
    exists m items k, place st ec er (estimate_styles children) (in_flow_styles children) = Ok (m, items) /\
      0 <= k <= 64 /\ cap m k /\ tc_explicit (m_cols m) = Z.of_N ec /\ tc_explicit (m_rows m) = Z.of_N er /\
      Forall (fun it => nonempty it /\ in_counts m it) items /\
      Forall (fun c => axis_fits (c_col c) (Z.of_N ec) (m_cols m) /\ axis_fits (c_row c) (Z.of_N er) (m_rows m)) (estimate_styles children).
  Proof.
    intros Hec Her Hlen Hch.
    assert (Hec' : 0 <= Z.of_N ec <= 64) by lia. assert (Her' : 0 <= Z.of_N er <= 64) by lia.
    pose proof (estimate_styles_ok children Hch) as Hest.
    destruct (estimate_covers (Z.of_N ec) (Z.of_N er) (estimate_styles children) Hec' Her' Hest)
      as (cc & rc & Eest & C1 & C2 & C3 & C4 & R1 & R2 & R3 & R4 & Hfits).
    unfold place. rewrite Eest. cbn [bind].
    unfold with_track_counts. rewrite (tc_len_intro rc) by (auto; lia). rewrite (tc_len_intro cc) by (auto; lia). cbn [bind].
    set (m0 := mkM (grid_new (tlen rc) (tlen cc)) cc rc).
    assert (Hwf0 : wf m0).
    { unfold wf, m0; simpl. repeat (split; [first [assumption | lia]|]). apply grid_new_reg; unfold tc_nonneg, tlen in *; lia. }
    assert (Hcap0 : cap m0 0).
    { unfold cap, m0; simpl. split; [exact Hwf0|]. unfold tc_nonneg, tlen in *. lia. }
    set (cs := map (fun ic : nat * GS => (Z.of_nat (fst ic), g_child (snd ic))) (in_flow_styles children)).
    assert (Hcs : forall x, In x cs -> exists c s, x = (Z.of_nat c, g_child s) /\ In s children /\ g_is_none s = false).
    { intros x Hx. unfold cs in Hx. apply in_map_iff in Hx. destruct Hx as [[c s] [<- Hin]].
      apply in_flow_styles_not_none in Hin. exists c, s. split; [reflexivity|exact Hin]. }
    assert (Hok : Forall (fun c => child_ok (snd c)) cs).
    { apply Forall_forall. intros x Hx. destruct (Hcs x Hx) as (c & s & -> & Hs & _). cbn [snd].
      rewrite Forall_forall in Hch. apply Hch. exact Hs. }
    assert (Hnd : NoDup (map fst cs)).
    { unfold cs. rewrite map_map. cbn [fst]. rewrite <- (map_map fst Z.of_nat).
      apply FinFun.Injective_map_NoDup; [intros a b E; apply Nat2Z.inj; exact E|apply in_flow_styles_nodup]. }
    destruct (place_grid_items_total_grows cs m0 (gs_flow st)) as (m & items & Epl & k & Hk & Hcapk & Hg).
    - simpl. lia.
    - simpl. lia.
    - exact Hok.
    - apply Forall_forall. intros x Hx. destruct (Hcs x Hx) as (c & s & -> & Hs & Hn). cbn [snd].
      pose proof (estimate_styles_in children s Hs Hn) as Hin. rewrite Forall_forall in Hfits. destruct (Hfits _ Hin) as [Fc Fr].
      intros a. destruct a; simpl; rewrite ?C3, ?R3; auto.
    - unfold cs. rewrite map_length. eapply Nat.le_trans; [apply in_flow_styles_length|exact Hlen].
    - exact Hcap0.
    - fold cs. rewrite Epl. exists m, items, k. split; [reflexivity|]. split; [exact Hk|]. split; [exact Hcapk|].
      pose proof (place_grid_items_inv cs m0 (gs_flow st) m items) as Hinv. simpl in Hinv.
      destruct Hinv as [(Hwf & Hall & _) _]; auto; try lia.
      destruct Hg as ((S1 & S2 & S3 & S4) & P1 & P2). simpl in S1, S2, S3, S4, P1, P2.
      split; [lia|]. split; [lia|]. split.
      + eapply Forall_impl; [|exact Hall]. intros it (A & _ & B & _). split; assumption.
      + eapply Forall_impl; [|exact Hfits]. intros c [Fc Fr]. split; eapply axis_fits_mono; eauto; lia.
  Qed.

  Lemma place_counts_small m k : cap m k -> 0 <= k <= 64 ->
    tc_nonneg (m_cols m) /\ tlen (m_cols m) <= 16000 /\ tc_nonneg (m_rows m) /\ tlen (m_rows m) <= 16000.
  Proof.
    intros Hc Hk. destruct (cap_bounds m k Horizontal Hc Hk) as (A & B & _). destruct (cap_bounds m k Vertical Hc Hk) as (C & D & _).
    simpl in *. repeat split; first [assumption | lia | apply A | apply C].
  Qed.

  (* ------------------------------------------------------------------------------------------------ the three parts *)

  (* (1) placement's checked arithmetic never fails *)
  Theorem grid_placement_ok (st : GS) children inp : grid_domain st children inp ->
    exists m items, place st (fst (explicit_counts st (grid_pre st inp))) (snd (explicit_counts st (grid_pre st inp)))
                          (estimate_styles children) (in_flow_styles children) = Ok (m, items).
  Proof.
    intros (Hec & Her & Hlen & Hch). destruct (place_facts st children _ _ Hec Her Hlen Hch) as (m & items & k & E & _).
    exists m, items. exact E.
  Qed.

  (* (2) every placed item converts to track-vector indices, whatever the track vectors are *)
  Theorem grid_items_ok (st : GS) children inp m items cols rows : grid_domain st children inp ->
    place st (fst (explicit_counts st (grid_pre st inp))) (snd (explicit_counts st (grid_pre st inp)))
          (estimate_styles children) (in_flow_styles children) = Ok (m, items) ->
    exists items0, mapM (make_item st (in_flow_styles children) (track_counts m Horizontal) (track_counts m Vertical) cols rows) items = Ok items0.
  Proof.
    intros (Hec & Her & Hlen & Hch) Ep. destruct (place_facts st children _ _ Hec Her Hlen Hch) as (m' & items' & k & E & Hk & Hcap & _ & _ & Hall & _).
    rewrite Ep in E. injection E as <- <-.
    destruct (place_counts_small m k Hcap Hk) as (Nc & Lc & Nr & Lr).
    apply mapM_total. eapply Forall_impl; [|exact Hall]. intros it ((Ne1 & Ne2) & I1 & I2 & I3 & I4).
    unfold make_item. cbv zeta. cbn [track_counts].
    destruct (ix_of_total (i_col it) (m_cols m) Nc Lc) as [cix Ec]; try (unfold endl; lia). rewrite Ec. cbn [bind].
    destruct (ix_of_total (i_row it) (m_rows m) Nr Lr) as [rix Er]; try (unfold endl; lia). rewrite Er. cbn [bind]. eauto.
  Qed.

  (* (3) every box-generating absolute child's lines lie inside the implicit grid: the estimate saw them *)
  Theorem grid_absolute_ok (st : GS) children inp m items : grid_domain st children inp ->
    place st (fst (explicit_counts st (grid_pre st inp))) (snd (explicit_counts st (grid_pre st inp)))
          (estimate_styles children) (in_flow_styles children) = Ok (m, items) ->
    forallb (oof_ok (track_counts m Horizontal) (track_counts m Vertical)) (map oof_view children) = true.
  Proof.
    intros (Hec & Her & Hlen & Hch) Ep.
    destruct (place_facts st children _ _ Hec Her Hlen Hch) as (m' & items' & k & E & Hk & Hcap & Xc & Xr & _ & Hfits).
    rewrite Ep in E. injection E as <- <-.
    destruct (place_counts_small m k Hcap Hk) as (Nc & Lc & Nr & Lr).
    apply forallb_forall. intros v Hv. apply in_map_iff in Hv. destruct Hv as [s [<- Hs]].
    unfold oof_view. destruct (g_is_none s) eqn:En; [reflexivity|]. destruct (g_visible_absolute s) eqn:Ea; [|reflexivity].
    cbn [oof_ok track_counts].
    pose proof (estimate_styles_in children s Hs En) as Hin. rewrite Forall_forall in Hfits. destruct (Hfits _ Hin) as [Fc Fr].
    rewrite Forall_forall in Hch. destruct (Hch s Hs) as [Hrow Hcol]. cbn [g_child c_row c_col] in Hrow, Hcol, Fc, Fr.
    destruct (abs_indexes_total (gs_column s) (m_cols m) Hcol ltac:(lia) Nc Lc) as [cix Ec]; [rewrite Xc; exact Fc|].
    destruct (abs_indexes_total (gs_row s) (m_rows m) Hrow ltac:(lia) Nr Lr) as [rix Er]; [rewrite Xr; exact Fr|].
    rewrite Ec, Er. reflexivity.
  Qed.

  Close Scope Z_scope.

  (* ------------------------------------------------------------------------------------------------ the whole predicate *)
  Theorem grid_no_panic_on_domain (st : GS) children inp : grid_domain st children inp -> grid_no_panic st children inp = true.
  Proof.
    intros Hd. unfold grid_no_panic.
    destruct (grid_placement_ok st children inp Hd) as (m & items & Ep).
    pose proof (fun cols rows => grid_items_ok st children inp m items cols rows Hd Ep) as Hitems.
    pose proof (grid_absolute_ok st children inp m items Hd Ep) as Habs.
    destruct (explicit_counts st (grid_pre st inp)) as [ec er]. cbn [fst snd] in Ep. rewrite Ep. cbv beta iota zeta.
    match goal with |- context [mapM (make_item st (in_flow_styles children) _ _ ?cols ?rows) items] =>
      destruct (Hitems cols rows) as [items0 E0]; rewrite E0 end.
    exact Habs.
  Qed.

  (* the engine's algorithm IS compute_grid_layout's model on the domain: the stand-in for a panic is never evaluated *)
  Theorem grid_alg_total_on_domain (st : GS) children inp : grid_domain st children inp ->
    grid_alg_total st children inp = grid_alg st children inp.
  Proof. intros Hd. unfold grid_alg_total. rewrite (grid_no_panic_on_domain st children inp Hd). reflexivity. Qed.

  (* without auto-repeat: for EVERY input (known dimensions, parent size, available space: any numbers, NaN and infinities included) *)
  Theorem grid_no_panic_static (st : GS) children : grid_domain_static st children -> forall inp, grid_no_panic st children inp = true.
  Proof. intros Hd inp. apply grid_no_panic_on_domain. apply grid_domain_of_static. exact Hd. Qed.

  Theorem grid_alg_total_static (st : GS) children : grid_domain_static st children ->
    forall inp, grid_alg_total st children inp = grid_alg st children inp.
  Proof. intros Hd inp. apply grid_alg_total_on_domain. apply grid_domain_of_static. exact Hd. Qed.
End NoPanic.

(* ================================================================================================ non-vacuity *)
Section Examples.
  (* the example container is in the static domain, for every number structure (hence in `grid_domain` for every input) *)
  Lemma example_in_domain_static {T : Type} `{Num T} : grid_domain_static (T := T) ex_container ex_children.
  Proof.
    unfold grid_domain_static, template_fixed. split; [split; [reflexivity|vm_compute; discriminate]|].
    split; [split; [reflexivity|vm_compute; discriminate]|]. split; [cbn; lia|].
    unfold ex_children, child_ok, ln_ok. repeat constructor; cbn; lia.
  Qed.

  Lemma example_in_domain {T : Type} `{Num T} : forall inp, grid_domain (T := T) ex_container ex_children inp.
  Proof. intros inp. apply grid_domain_of_static. apply example_in_domain_static. Qed.

  (* computed, over the exact rationals: the predicate evaluates to true on the example ... *)
  Lemma example_computed : grid_no_panic (T := QNum.XQ) ex_container ex_children ex_input = true.
  Proof. vm_compute. reflexivity. Qed.

  (* ... and it is not trivially true: one more child with grid-column: 32767 / span 2 (outside the domain) makes the estimate overflow *)
  Lemma example_outside_domain : grid_no_panic (T := QNum.XQ) ex_container (ex_children ++ [ex_far_child]) ex_input = false.
  Proof. vm_compute. reflexivity. Qed.
End Examples.
