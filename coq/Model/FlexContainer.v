(* compute_flexbox_layout for a container whose main size is definite, both axes, multi-line, `Num`-generic, definitions
   only.  Composition, in the order of compute_preliminary (src/compute/flexbox.rs l.226-415), of

     compute_constants, generate_anonymous_flex_items, determine_available_space, determine_flex_base_size   Model/FlexBase.v
     collect_flex_lines                                                                                      Model/FlexLines.v
     resolve_flexible_lengths, distribute_remaining_free_space, calculate_layout_line (main axis), per line  Model/Flex.v
     compute_alignment_offset, apply_alignment_fallback, sum_axis_gaps                                       Gen/FlexGen.v (T)

   with the cross-axis steps transcribed here: determine_hypothetical_cross_size (l.1362), calculate_cross_size (l.1485, no
   baseline items), handle_align_content_stretch (l.1552), determine_used_cross_size (l.1588), resolve_cross_axis_auto_margins +
   align_flex_items_along_cross_axis (l.1723-1811), determine_container_cross_size (l.1824), align_flex_lines_per_align_content
   (l.1855), final_layout_pass / calculate_layout_line / calculate_flex_item (l.1878-2054, cross axis).
   Not modelled: an indefinite container main size (determine_container_main_size), baselines, absolutely positioned and
   display:none children, content_size, relative insets. *)
From Coq Require Import ZArith Bool List.
From TV Require Import Model.Common Model.Leaf Gen.FlexGen Model.Flex Model.FlexLines Model.FlexBase.
Import ListNotations.

Section FlexContainer.
  Context {T : Type} `{Num T}.
  Local Open Scope num_scope.

  (* an item while the algorithm runs: the child, what generate_anonymous_flex_items resolved, the main-axis kernel item *)
  Record Work := mkWork { w_child : Child T; w_info : ChildInfo T; w_item : FlexItem T }.
  Definition w_hyp_outer (w : Work) : T := fi_hyp_outer (w_item w).
  Definition with_item (w : Work) (it : FlexItem T) : Work := mkWork (w_child w) (w_info w) it.

  (* cross-axis state of an item *)
  Record Cross := mkCross {
    x_hyp_inner : T; x_hyp_outer : T;        (* hypothetical_inner/outer_size.cross *)
    x_target : T; x_outer_target : T;        (* target_size.cross, outer_target_size.cross *)
    x_margin_start : T; x_margin_end : T;    (* margin.cross_start / cross_end after resolve_cross_axis_auto_margins *)
    x_offset : T;                            (* offset_cross *)
  }.

  Definition lp_is_auto_dim (d : Dimension T) : bool := match d with Auto => true | _ => false end.

  (* determine_hypothetical_cross_size, one child; container_main = constants.container_size.main *)
  Definition hypothetical_cross (k : Constants T) (available_space : Size (AvailableSpace T)) (container_main : T) (w : Work) : T * T :=
    let row := k_row k in
    let ci := w_info w in
    let padding_border_sum := cross_axis_sum row (rect_add (ci_padding ci) (ci_border ci)) in
    let child_known_main : AvailableSpace T := Definite container_main in
    let min_c := s_cross row (ci_min ci) in
    let max_c := s_cross row (ci_max ci) in
    let child_cross := maybe_max_of (maybe_clamp_oo (s_cross row (ci_size ci)) min_c max_c) padding_border_sum in
    let child_available_cross := maybe_max_af (maybe_clamp_ao (s_cross row available_space) min_c max_c) padding_border_sum in
    let child_inner_cross :=
      match child_cross with
      | Some v => v
      | None =>
          let known := s_of_mc row (Some (fi_target (w_item w))) child_cross in
          let avail := s_of_mc row child_known_main child_available_cross in
          let measured := s_cross row (ch_layout (w_child w) (mkInput ComputeSize ContentSize known (k_inner k) avail)) in
          fmax (maybe_clamp_fo measured min_c max_c) padding_border_sum
      end in
    (child_inner_cross, child_inner_cross + cross_axis_sum row (ci_margin ci)).

  (* calculate_cross_size: the `else` branch for one line (no baseline-aligned item: every item contributes its
     hypothetical outer cross size) *)
  Definition line_cross_size (hyp_outer_cross : list T) : T := fold_left (fun acc x => fmax acc x) hyp_outer_cross zero.

  Definition calculate_cross_size (k : Constants T) (node_size : Size (option T)) (lines : list (list T)) : list T :=
    let row := k_row k in
    let cross_axis_padding_border := cross_axis_sum row (k_inset k) in
    let cross_min_size := s_cross row (k_min k) in
    let cross_max_size := s_cross row (k_max k) in
    if negb (k_wrap k) && match s_cross row node_size with Some _ => true | None => false end then
      let v := opt_unwrap_or
                 (maybe_max_of (maybe_sub_of (maybe_clamp_oo (s_cross row node_size) cross_min_size cross_max_size)
                                             cross_axis_padding_border) zero) zero in
      match lines with [] => [] | _ :: r => v :: map (fun _ => zero) r end
    else
      let sizes := map line_cross_size lines in
      if negb (k_wrap k) then
        match sizes with
        | [] => []
        | s0 :: r => maybe_clamp_fo s0 (maybe_sub_of cross_min_size cross_axis_padding_border)
                                       (maybe_sub_of cross_max_size cross_axis_padding_border) :: r
        end
      else sizes.

  (* handle_align_content_stretch *)
  Definition handle_align_content_stretch (k : Constants T) (node_size : Size (option T)) (cross_sizes : list T) : list T :=
    match k_align_content k with
    | AC_Stretch =>
        let row := k_row k in
        let cross_axis_padding_border := cross_axis_sum row (k_inset k) in
        let cross_min_size := s_cross row (k_min k) in
        let cross_max_size := s_cross row (k_max k) in
        let container_min_inner_cross :=
          opt_unwrap_or
            (maybe_max_of (maybe_sub_of (maybe_clamp_oo (opt_or (s_cross row node_size) cross_min_size) cross_min_size cross_max_size)
                                        cross_axis_padding_border) zero) zero in
        let total_cross_axis_gap := sum_axis_gaps (s_cross row (k_gap k)) (zlen cross_sizes) in
        let lines_total_cross := fsum cross_sizes + total_cross_axis_gap in
        if lines_total_cross <? container_min_inner_cross then
          let remaining := container_min_inner_cross - lines_total_cross in
          let addition := remaining / of_Z (zlen cross_sizes) in
          map (fun s => s + addition) cross_sizes
        else cross_sizes
    | _ => cross_sizes
    end.

  (* determine_used_cross_size, one child *)
  Definition used_cross_size (k : Constants T) (line_cross_size : T) (w : Work) (hyp_inner_cross : T) : T :=
    let row := k_row k in
    let ci := w_info w in
    let st := ch_style (w_child w) in
    if align_self_eqb (ci_align ci) AS_Stretch
       && negb (r_cross_start row (ci_margin_auto ci)) && negb (r_cross_end row (ci_margin_auto ci))
       && lp_is_auto_dim (s_cross row (size st))
    then
      let padding := rect_resolve_or_zero_lp_size (padding st) (k_inner k) in
      let border := rect_resolve_or_zero_lp_size (border st) (k_inner k) in
      let pb_sum := sum_axes (rect_add padding border) in
      let box_sizing_adjustment := match box_sizing st with ContentBox => pb_sum | BorderBox => size_ZERO end in
      let max_size_ignoring_aspect_ratio :=
        size_maybe_add_of (size_maybe_resolve_dim (max_size st) (k_inner k)) box_sizing_adjustment in
      maybe_clamp_fo (line_cross_size - cross_axis_sum row (ci_margin ci))
                     (s_cross row (ci_min ci)) (s_cross row max_size_ignoring_aspect_ratio)
    else hyp_inner_cross.

  (* align_flex_items_along_cross_axis (without Baseline) *)
  Definition align_item_cross (k : Constants T) (a : AlignSelf) (free_space : T) : T :=
    match a with
    | AS_Start => zero
    | AS_FlexStart => if k_wrap_reverse k then free_space else zero
    | AS_End => free_space
    | AS_FlexEnd => if k_wrap_reverse k then zero else free_space
    | AS_Center => free_space / two
    | AS_Stretch => if k_wrap_reverse k then free_space else zero
    end.

  (* steps 7, 11, 13/14 for one child of a line with the given cross size *)
  Definition cross_of (k : Constants T) (line_cross : T) (w : Work) (hyp : T * T) : Cross :=
    let row := k_row k in
    let ci := w_info w in
    let target := used_cross_size k line_cross w (fst hyp) in
    let outer_target := target + cross_axis_sum row (ci_margin ci) in
    let free_space := line_cross - outer_target in
    let sa := r_cross_start row (ci_margin_auto ci) in
    let ea := r_cross_end row (ci_margin_auto ci) in
    let ms := r_cross_start row (ci_margin ci) in
    let me := r_cross_end row (ci_margin ci) in
    if sa && ea then mkCross (fst hyp) (snd hyp) target outer_target (free_space / two) (free_space / two) zero
    else if sa then mkCross (fst hyp) (snd hyp) target outer_target free_space me zero
    else if ea then mkCross (fst hyp) (snd hyp) target outer_target ms free_space zero
    else mkCross (fst hyp) (snd hyp) target outer_target ms me (align_item_cross k (ci_align ci) free_space).

  (* determine_container_cross_size: (outer, inner, total_line_cross_size) *)
  Definition determine_container_cross_size (k : Constants T) (node_size : Size (option T)) (cross_sizes : list T) : T * T * T :=
    let row := k_row k in
    let total_cross_axis_gap := sum_axis_gaps (s_cross row (k_gap k)) (zlen cross_sizes) in
    let total_line_cross_size := fsum cross_sizes in
    let padding_border_sum := cross_axis_sum row (k_inset k) in
    let cross_scrollbar_gutter := zero in
    let outer_container_size :=
      fmax (maybe_clamp_fo (opt_unwrap_or (s_cross row node_size) (total_line_cross_size + total_cross_axis_gap + padding_border_sum))
                           (s_cross row (k_min k)) (s_cross row (k_max k)))
           (padding_border_sum - cross_scrollbar_gutter) in
    let inner_container_size := fmax (outer_container_size - padding_border_sum) zero in
    (outer_container_size, inner_container_size, total_line_cross_size).

  (* align_flex_lines_per_align_content: offset_cross of every line, in creation order *)
  Definition align_flex_lines (k : Constants T) (inner_cross total_cross_size : T) (num_lines : Z) : list unit -> list T :=
    fun lines =>
    let gap := s_cross (k_row k) (k_gap k) in
    let total_cross_axis_gap := sum_axis_gaps gap num_lines in
    let free_space := inner_cross - total_cross_size - total_cross_axis_gap in
    let is_safe := false in
    let mode := apply_alignment_fallback free_space num_lines (k_align_content k) is_safe in
    let off (is_first : bool) (_ : unit) := compute_alignment_offset free_space num_lines gap mode (k_wrap_reverse k) is_first in
    if k_wrap_reverse k then rev (map_first (off true) (off false) (rev lines))
    else map_first (off true) (off false) lines.

  (* final_layout_pass, cross axis: the value of total_offset_cross when each line is laid out; lines as (offset_cross, cross_size),
     in the order in which they are walked *)
  Fixpoint line_starts (total_offset_cross : T) (l : list (T * T)) : list T :=
    match l with
    | [] => []
    | (line_offset_cross, cross_size) :: r =>
        total_offset_cross :: line_starts (total_offset_cross + (line_offset_cross + cross_size)) r
    end.

  (* one laid-out child: location (main, cross), size (main, cross), margin (main start, main end, cross start, cross end) *)
  Record Placed := mkPlaced { p_loc_main : T; p_loc_cross : T; p_size : Size T; p_margin : T * T * T * T }.

  (* a line after step 12/13: its items with their cross state, its cross size *)
  Definition LineState : Type := (list (Work * Cross) * T)%type.

  (* calculate_layout_line for one line: total = total_offset_cross, lo = line.offset_cross *)
  Definition layout_line (k : Constants T) (container_size : Size T) (total lo : T) (ln : list (Work * Cross)) : list Placed :=
    let row := k_row k in
    let sizes :=
      map (fun '(w, x) =>
             ch_layout (w_child w)
                       (mkInput PerformLayout ContentSize (s_of_mc row (Some (fi_target (w_item w))) (Some (x_target x)))
                                (k_inner k) (size_map (@Definite T) container_size))) ln in
    let mains := line_positions (r_main_start row (k_inset k)) (k_reverse k)
                                (combine (map (fun wx => w_item (fst wx)) ln) (map (s_main row) sizes)) in
    map (fun '(((w, x), sz), pm) =>
           mkPlaced pm (total + x_offset x + lo + x_margin_start x + zero) sz
                    (fi_margin_start (w_item w), fi_margin_end (w_item w), x_margin_start x, x_margin_end x))
        (combine (combine ln sizes) mains).

  Fixpoint map_option {A B} (f : A -> option B) (l : list A) : option (list B) :=
    match l with
    | [] => Some []
    | a :: r => match f a, map_option f r with Some b, Some r' => Some (b :: r') | _, _ => None end
    end.

  (* steps 5-6 on the main axis: the lines with their used main sizes.  None = the freeze loop ran out of fuel *)
  Definition main_axis_lines (k : Constants T) (available_space : Size (AvailableSpace T)) (items : list Work)
    : option (list (list Work)) :=
    let row := k_row k in
    let lines := collect_flex_lines w_hyp_outer (k_wrap k) (s_main row (k_max k)) (s_main row (k_min k))
                                    (s_main row available_space) (s_main row (k_gap k)) items in
    map_option (fun ln =>
                  match resolve_flexible_lengths (map w_item ln) (s_main row (k_gap k)) (s_main row (k_inner k)) with
                  | Some its => Some (map (fun '(w, it) => with_item w it) (combine ln its))
                  | None => None
                  end) lines.

  (* compute_preliminary for a container whose inner main size is definite.  Result: container size and the children in
     document order, line by line.  None = fuel (never: C07_loop_terminates) or indefinite main size (not modelled). *)
  Definition compute_preliminary (s : ContainerStyle T) (known_dimensions parent_size : Size (option T))
             (outer_available : Size (AvailableSpace T)) (children : list (Child T))
    : option (Size T * list (list Placed)) :=
    let k := compute_constants s known_dimensions parent_size in
    let row := k_row k in
    let available_space := determine_available_space known_dimensions outer_available k in
    let items := map (fun c => let ci := child_info k c in mkWork c ci (determine_flex_base_size k available_space c ci)) children in
    match s_main row (k_inner k) with
    | None => None
    | Some inner_main_size =>
        let outer_main_size := inner_main_size + main_axis_sum row (k_inset k) in
        match main_axis_lines k available_space items with
        | None => None
        | Some lines =>
            (* 7 *)
            let hyps := map (map (hypothetical_cross k available_space outer_main_size)) lines in
            (* 8, 9 *)
            let cross_sizes := calculate_cross_size k known_dimensions (map (map snd) hyps) in
            let cross_sizes := handle_align_content_stretch k known_dimensions cross_sizes in
            (* 12: main-axis alignment, per line *)
            let lines := map (fun ln =>
                                let its := distribute_remaining_free_space (map w_item ln) (s_main row (k_gap k)) inner_main_size
                                                                           (k_justify k) (k_reverse k) in
                                map (fun '(w, it) => with_item w it) (combine ln its)) lines in
            (* 11, 13, 14 *)
            let states : list LineState :=
              map (fun '((ln, hs), cs) => (map (fun '(w, h) => (w, cross_of k cs w h)) (combine ln hs), cs))
                  (combine (combine lines hyps) cross_sizes) in
            (* 15 *)
            let '(outer_cross, inner_cross, total_line_cross_size) := determine_container_cross_size k known_dimensions cross_sizes in
            let container_size := s_of_mc row outer_main_size outer_cross in
            (* 16 *)
            let offsets := align_flex_lines k inner_cross total_line_cross_size (zlen states) (map (fun _ => tt) states) in
            (* final_layout_pass *)
            let walk := combine offsets cross_sizes in
            let starts :=
              if k_wrap_reverse k then rev (line_starts (r_cross_start row (k_inset k)) (rev walk))
              else line_starts (r_cross_start row (k_inset k)) walk in
            let placed :=
              map (fun '((st, lo), total) => layout_line k container_size total lo (fst st))
                  (combine (combine states offsets) starts) in
            Some (container_size, placed)
        end
    end.

  (* compute_flexbox_layout, RunMode::PerformLayout *)
  Definition compute_flexbox_layout (s : ContainerStyle T) (known_dimensions parent_size : Size (option T))
             (outer_available : Size (AvailableSpace T)) (sizing_mode : SizingMode) (children : list (Child T))
    : option (Size T * list (list Placed)) :=
    compute_preliminary s (styled_known_dimensions s known_dimensions parent_size sizing_mode) parent_size outer_available children.
End FlexContainer.

Arguments Work T : clear implicits.
Arguments Cross T : clear implicits.
Arguments Placed T : clear implicits.
