(* C08 -- grid placement honours explicit lines, areas lie in the reported track range, auto-placed items never overlap.
   Statements only.  They are about Model.Placement.grid_placement_run, whose tables and conversions
   (into_origin_zero_placement, into_origin_zero_line, is_definite, resolve_definite_grid_lines, resolve_indefinite_grid_tracks,
   indefinite_span, child_min_line_max_line_span, is_dense, primary_axis, TrackCounts / OriginZeroLine helpers) are
   regenerated from the Rust source on every run (Gen/PlacementGen.v).

   Domain (in_domain): explicit track counts 0..64 per axis, at most 64 children of any kind (in flow, display:none,
   absolute), line indices in [-64, 64] INCLUDING 0 (treated as auto), spans in [1, 64].  `span 0` is excluded: CSS
   forbids it and taffy gives such an item an empty area.  All four auto-flow modes.
   Every theorem has the premise that the run returns Ok; Props/C03.v proves that it does on the whole domain. *)
From Coq Require Import ZArith Bool List Lia.
From TV Require Import Model.PlacementBase Gen.PlacementGen Model.Placement
  Proofs.PlacementTables Proofs.PlacementMatrix Proofs.PlacementProofs Proofs.PlacementTotal
  Model.PlacementDomainB Proofs.PlacementGeneral.
Import ListNotations.
Open Scope Z_scope.

(* every in-flow child receives exactly one area, reported in source order *)
Theorem C08_every_child_placed : forall ec er fl children o, in_domain ec er children ->
  grid_placement_run ec er fl children = Ok o ->
  map p_index (o_items o) = map fst (in_flow_children children).
Proof. exact every_child_placed. Qed.

(* ... spanning at least one track in each axis, inside the reported track range (1-based implicit-grid lines) *)
Theorem C08_area_in_range : forall ec er fl children o, in_domain ec er children ->
  grid_placement_run ec er fl children = Ok o ->
  forall p, In p (o_items o) ->
    1 <= p_row_start p /\ p_row_start p < p_row_end p /\ p_row_end p <= tlen (o_rows o) + 1 /\
    1 <= p_col_start p /\ p_col_start p < p_col_end p /\ p_col_end p <= tlen (o_cols o) + 1.
Proof. exact area_in_range. Qed.

(* an axis with a non-zero start or end line: [expected] (Proofs/PlacementTables.v, written independently of the generated
   tables) gives the demanded origin-zero edges -- the line itself, the other edge from the span (default 1) or the other
   line, swapped if reversed, +1 if equal; the reported lines are exactly those, shifted by the negative implicit tracks *)
Theorem C08_explicit_honoured : forall ec er fl children o, in_domain ec er children ->
  grid_placement_run ec er fl children = Ok o ->
  forall p k c, In p (o_items o) -> nth_error children (Z.to_nat (p_index p)) = Some (k, c) ->
    (forall a b, expected (c_row c) er = Some (a, b) ->
       p_row_start p = a + tc_neg (o_rows o) + 1 /\ p_row_end p = b + tc_neg (o_rows o) + 1) /\
    (forall a b, expected (c_col c) ec = Some (a, b) ->
       p_col_start p = a + tc_neg (o_cols o) + 1 /\ p_col_end p = b + tc_neg (o_cols o) + 1).
Proof. exact explicit_honoured. Qed.

(* an item that is not definite in both axes (placed by phase 2 or 4) intersects no other in-flow item *)
Theorem C08_auto_no_overlap : forall ec er fl children o, in_domain ec er children ->
  grid_placement_run ec er fl children = Ok o ->
  forall p q k c, In p (o_items o) -> In q (o_items o) -> p_index p <> p_index q ->
    nth_error children (Z.to_nat (p_index p)) = Some (k, c) ->
    is_definite (c_row c) && is_definite (c_col c) = false ->
    ~ overlap p q.
Proof. exact auto_no_overlap. Qed.

(* with totality (Props/C03.v: C03_placement_total) the premise `= Ok o` is discharged: on the whole domain the run
   succeeds and all clauses hold of its result *)
Theorem C08_placement_succeeds_with_all_clauses : forall ec er fl children, in_domain ec er children ->
  exists o, grid_placement_run ec er fl children = Ok o /\
    map p_index (o_items o) = map fst (in_flow_children children) /\
    (forall p, In p (o_items o) ->
       1 <= p_row_start p /\ p_row_start p < p_row_end p /\ p_row_end p <= tlen (o_rows o) + 1 /\
       1 <= p_col_start p /\ p_col_start p < p_col_end p /\ p_col_end p <= tlen (o_cols o) + 1) /\
    (forall p q k c, In p (o_items o) -> In q (o_items o) -> p_index p <> p_index q ->
       nth_error children (Z.to_nat (p_index p)) = Some (k, c) ->
       is_definite (c_row c) && is_definite (c_col c) = false -> ~ overlap p q).
Proof.
  intros ec er fl children Hdom. destruct (placement_total ec er fl children Hdom) as [o Ho].
  exists o. split; [exact Ho|]. split; [eapply every_child_placed; eauto|].
  split; [intros; eapply area_in_range; eauto|intros; eapply auto_no_overlap; eauto].
Qed.

(* non-vacuity: a 3-column grid, row flow, with a definite item on line -1 / span 2, a hidden child, an item on the
   invalid line 0 and an auto item: the run returns Ok, the premises of all clauses are met *)
Definition ex_children : list (child_kind * child) :=
  [ (InFlow, mkChild (mkLn (Line 1) Auto) (mkLn (Span 2) (Line (-1))));
    (Hidden, mkChild (mkLn (Line 5) Auto) (mkLn Auto Auto));
    (InFlow, mkChild (mkLn (Line 0) Auto) (mkLn Auto (Span 2)));
    (InFlow, mkChild (mkLn Auto Auto) (mkLn (Line (-5)) Auto)) ].

Example C08_example :
  in_domain 3 1 ex_children /\
  exists o, grid_placement_run 3 1 FRow ex_children = Ok o /\
            map (fun p => [p_index p; p_row_start p; p_row_end p; p_col_start p; p_col_end p]) (o_items o)
            = [[0; 1; 2; 3; 5]; [2; 1; 2; 1; 3]; [3; 2; 3; 1; 2]] /\
            expected (mkLn (Span 2) (Line (-1))) 3 = Some (1, 3).
Proof.
  split.
  { unfold in_domain, ex_children. split; [lia|]. split; [lia|]. split; [simpl; lia|].
    repeat constructor; simpl; lia. }
  eexists. split; [vm_compute; reflexivity|]. split; vm_compute; reflexivity.
Qed.

(* The domain excludes `span 0`, which the property's quantifier ("all combinations of line/span/auto placements") does not:
   `GridPlacement::Span(0)` is constructible through the public API (CSS forbids it, taffy does not validate it).  Outside
   the domain the first clause of the property is FALSE, on the model and -- replayed by lib/props/c08.py on every run,
   `vh c08 one 3 1 0 2  0 0 0 0 0 2 0 0 0  0 0 0 0 0 0 0 0 0` -- on the implementation: in a 3-column grid a child with
   `grid_column: span 0` receives the empty column area 1..1 (its auto-placed sibling gets 1..2).  Everything else about the
   witness is inside the domain (2 children, explicit 3 x 1, no lines). *)
Definition span_zero_children : list (child_kind * child) :=
  [ (InFlow, mkChild (mkLn Auto Auto) (mkLn (Span 0) Auto));
    (InFlow, mkChild (mkLn Auto Auto) (mkLn Auto Auto)) ].

Theorem C08_area_in_range_refuted_for_span_zero :
  exists o p, grid_placement_run 3 1 FRow span_zero_children = Ok o /\ In p (o_items o) /\
              p_index p = 0 /\ p_col_start p = 1 /\ p_col_end p = 1 /\ ~ (p_col_start p < p_col_end p).
Proof.
  eexists. eexists. split; [vm_compute; reflexivity|]. split; [left; reflexivity|].
  cbn. repeat split; try reflexivity. lia.
Qed.

(* ---- the same with the bound as a PARAMETER B (Model/PlacementDomainB.v, notes/PLACEMENT-B.md): in_domain_B B = explicit counts
   0..B, lines in [-B, B] including 0, spans in [1, B].  The four clauses (GIVEN that the run returned Ok) need only
   clause_bound_ok B := 2 <= B /\ 16 * B <= 32767, for ANY number of children; that the run returns Ok needs
   bound_ok B n := 2 <= B /\ 2 * B * n + 16 * B <= 32767 (Props/C03.v: C03_placement_total_general).  The pinned theorems above
   are the instance B = 64, n <= 64 (C03_placement_in_domain_is_instance). *)
Theorem C08_every_child_placed_general : forall B ec er fl children o, clause_bound_ok B -> in_domain_B B ec er children ->
  grid_placement_run ec er fl children = Ok o ->
  map p_index (o_items o) = map fst (in_flow_children children).
Proof. exact every_child_placed_general. Qed.

Theorem C08_area_in_range_general : forall B ec er fl children o, clause_bound_ok B -> in_domain_B B ec er children ->
  grid_placement_run ec er fl children = Ok o ->
  forall p, In p (o_items o) ->
    1 <= p_row_start p /\ p_row_start p < p_row_end p /\ p_row_end p <= tlen (o_rows o) + 1 /\
    1 <= p_col_start p /\ p_col_start p < p_col_end p /\ p_col_end p <= tlen (o_cols o) + 1.
Proof. exact area_in_range_general. Qed.

Theorem C08_explicit_honoured_general : forall B ec er fl children o, clause_bound_ok B -> in_domain_B B ec er children ->
  grid_placement_run ec er fl children = Ok o ->
  forall p k c, In p (o_items o) -> nth_error children (Z.to_nat (p_index p)) = Some (k, c) ->
    (forall a b, expected (c_row c) er = Some (a, b) ->
       p_row_start p = a + tc_neg (o_rows o) + 1 /\ p_row_end p = b + tc_neg (o_rows o) + 1) /\
    (forall a b, expected (c_col c) ec = Some (a, b) ->
       p_col_start p = a + tc_neg (o_cols o) + 1 /\ p_col_end p = b + tc_neg (o_cols o) + 1).
Proof. exact explicit_honoured_general. Qed.

Theorem C08_auto_no_overlap_general : forall B ec er fl children o, clause_bound_ok B -> in_domain_B B ec er children ->
  grid_placement_run ec er fl children = Ok o ->
  forall p q k c, In p (o_items o) -> In q (o_items o) -> p_index p <> p_index q ->
    nth_error children (Z.to_nat (p_index p)) = Some (k, c) ->
    is_definite (c_row c) && is_definite (c_col c) = false ->
    ~ overlap p q.
Proof. exact auto_no_overlap_general. Qed.

Theorem C08_placement_succeeds_with_all_clauses_general : forall B ec er fl children,
  bound_ok B (length children) -> in_domain_B B ec er children ->
  exists o, grid_placement_run ec er fl children = Ok o /\
    map p_index (o_items o) = map fst (in_flow_children children) /\
    (forall p, In p (o_items o) ->
       1 <= p_row_start p /\ p_row_start p < p_row_end p /\ p_row_end p <= tlen (o_rows o) + 1 /\
       1 <= p_col_start p /\ p_col_start p < p_col_end p /\ p_col_end p <= tlen (o_cols o) + 1) /\
    (forall p q k c, In p (o_items o) -> In q (o_items o) -> p_index p <> p_index q ->
       nth_error children (Z.to_nat (p_index p)) = Some (k, c) ->
       is_definite (c_row c) && is_definite (c_col c) = false -> ~ overlap p q).
Proof.
  intros B ec er fl children Hb Hdom. destruct (placement_total_general B ec er fl children Hb Hdom) as [o Ho].
  pose proof (bound_ok_clause _ _ Hb) as Hc.
  exists o. split; [exact Ho|]. split; [eapply every_child_placed_general; eauto|].
  split; [intros; eapply area_in_range_general; eauto|intros; eapply auto_no_overlap_general; eauto].
Qed.

(* non-vacuity beyond the pinned domain: B = 200, a run with lines +-200 and a span of 150 (checked by vm_compute) *)
Definition ex_children_B : list (child_kind * child) :=
  [ (InFlow, mkChild (mkLn Auto (Line (-200))) (mkLn (Line 200) (Span 150)));
    (InFlow, mkChild (mkLn Auto Auto) (mkLn (Span 120) Auto)) ].
Example C08_general_example :
  bound_ok 200 (length ex_children_B) /\ in_domain_B 200 100 7 ex_children_B /\ ~ in_domain 100 7 ex_children_B /\
  exists o, grid_placement_run 100 7 FRow ex_children_B = Ok o /\ length (o_items o) = 2%nat.
Proof.
  split; [unfold bound_ok, ex_children_B; cbn [length]; lia|]. split.
  { unfold in_domain_B, ex_children_B. split; [lia|]. split; [lia|].
    repeat constructor; cbn [snd c_row c_col l_start l_end gp_okB]; lia. }
  split; [unfold in_domain; intros (H & _); lia|].
  eexists. split; [vm_compute; reflexivity|reflexivity].
Qed.

Print Assumptions C08_every_child_placed_general.
Print Assumptions C08_area_in_range_general.
Print Assumptions C08_explicit_honoured_general.
Print Assumptions C08_auto_no_overlap_general.
Print Assumptions C08_placement_succeeds_with_all_clauses_general.
Print Assumptions C08_every_child_placed.
Print Assumptions C08_area_in_range.
Print Assumptions C08_explicit_honoured.
Print Assumptions C08_auto_no_overlap.
Print Assumptions C08_placement_succeeds_with_all_clauses.
Print Assumptions C08_area_in_range_refuted_for_span_zero.
