(* The grid resumption (Model/GridAlg.v `grid_alg`) and its total stand-in (Model/GridAlgTotal.v `grid_alg_total`) address only
   existing children.  The shape GShape of Proofs/GridAlgIface.v does not say so (its PerformLayout / SetLayout events are only
   "not display:none"), so the argument of grid_alg_shape is replayed for `Bounded`: the sizing program runs under the guard
   `nth c (map g_in_flow st) false`, which fails outside the list; the items of the in-flow pass are a permutation of the in-flow
   children; the final loop walks the child list itself with its index.
   This is the premise `Bounded` of Proofs/EngineTotal.v `memo_total`.  Any `Num`; no arithmetic fact is used. *)
From Coq Require Import ZArith QArith Bool List Lia Permutation.
From TV Require Import Model.Common Model.Leaf Gen.GridTracksGen Model.GridTracks Model.GridIntrinsic.
From TV Require Import Model.FiltersBase Gen.FiltersGen Model.ItemFilters Model.GridAlgBase Model.GridAlg Model.GridAlgTotal.
From TV Require Import Proofs.GridAlgProg Proofs.GridAlgStruct Proofs.GridAlgIface.
From TV Require Import Model.Engine.
From TV Require Proofs.EngineTotal.
Import ListNotations.
Close Scope Z_scope.
Close Scope N_scope.
Close Scope Q_scope.

Section GridBounded.
  Context {T : Type} `{Num T}.
  Notation GS := (GStyle T).
  Notation GItem := (@GItem T).
  Notation Out := (LayoutOutput T).
  Notation Alg := (Engine.Alg (GIn T) Out (GLay T)).
  Notation Query := (Engine.Query (GIn T) Out (GLay T)).
  Notation SetLayout := (Engine.SetLayout (GIn T) Out (GLay T)).
  Notation Ret := (Engine.Ret (GIn T) Out (GLay T)).
  Notation Bd := (EngineTotal.Bounded (GIn T) Out (GLay T)).

  Lemma g_in_flow_lt (st : list GS) c : in_flow_at st c -> c < length st.
  Proof. intros (s & E & _). apply nth_error_Some. rewrite E. discriminate. Qed.

  Section WithChildren.
    Variable st : list GS.
    Notation N := (in_flow_at st).
    Notation ok := (fun c => nth c (map g_in_flow st) false).

    Lemma N_ok' c : N c -> ok c = true.
    Proof. intros Hc. apply flags_in_flow. exact Hc. Qed.

    Lemma run_bounded bl A (Q : A -> Prop) (p : Prog A) (k : A -> Alg) :
      PGood N bl Q p -> (forall a, Q a -> Bd (length st) (k a)) -> Bd (length st) (run ok p k).
    Proof.
      apply (run_closed N bl ok N_ok' (Bd (length st))).
      - intros c kn pa av ax f Hc Hf. constructor; [apply g_in_flow_lt; exact Hc|exact Hf].
      - intros c pa f Hc _ Hf. constructor; [apply g_in_flow_lt; exact Hc|exact Hf].
    Qed.

    Lemma inflow_pass_bounded cas cols rows : forall items index content acc (k : Size T -> list Placed -> Alg),
      Forall (IOK N) items -> (forall c pl, Bd (length st) (k c pl)) -> Bd (length st) (inflow_pass cas cols rows items index content acc k).
    Proof.
      induction items as [|g items IH]; intros index content acc k Hi Hk; cbn [inflow_pass]; [apply Hk|].
      inversion Hi as [|? ? Hg Hi']; subst. destruct (width (g_ix g)) as [cs_ ce]. destruct (height (g_ix g)) as [rs re].
      constructor; [apply g_in_flow_lt; exact Hg|]. intros o.
      constructor; [apply g_in_flow_lt; exact Hg|]. apply IH; [exact Hi'|exact Hk].
    Qed.

    Lemma oof_pass_bounded P cas cc rc bb cols rows : forall (suffix : list OofChild) index order content (k : Size T -> Alg),
      index + length suffix <= length st -> (forall c, Bd (length st) (k c)) ->
      Bd (length st) (out_of_flow_pass P cas cc rc bb cols rows suffix index order content k).
    Proof.
      induction suffix as [|cs suffix IH]; intros index order content k Hn Hk; cbn [out_of_flow_pass]; [apply Hk|].
      cbn [length] in Hn. destruct cs as [|cs|].
      - constructor; [lia|]. intros _. constructor; [lia|]. apply IH; [lia|exact Hk].
      - destruct (abs_indexes (gs_column cs) cc) as [cix|]; [|constructor].
        destruct (abs_indexes (gs_row cs) rc) as [rix|]; [|constructor].
        constructor; [lia|]. intros o. constructor; [lia|]. apply IH; [lia|exact Hk].
      - apply IH; [lia|exact Hk].
    Qed.

    Theorem grid_alg_bounded (s : GS) (i : GIn T) : Bd (length st) (grid_alg s st i).
    Proof.
      unfold grid_alg, grid_core, grid_main. cbv zeta.
      set (P := grid_pre s i).
      assert (Hmain : Bd (length st)
        (let '(ec, er) := explicit_counts s P in
         match place s ec er (estimate_styles st) (in_flow_styles st) with
         | PB.Err _ => Ret panic_out
         | PB.Ok (m, placed_items) =>
             match PL.mapM (make_item s (in_flow_styles st) (PL.track_counts m PB.Horizontal) (PL.track_counts m PB.Vertical)
                                      (initialize_grid_tracks (tc_of (PL.track_counts m PB.Horizontal)) (gs_template_columns s) (gs_auto_columns s)
                                                              (lp_sfn (width (gs_gap s))) (column_is_occupied m))
                                      (initialize_grid_tracks (tc_of (PL.track_counts m PB.Vertical)) (gs_template_rows s) (gs_auto_rows s)
                                                              (lp_sfn (height (gs_gap s))) (row_is_occupied m))) placed_items with
             | PB.Err _ => Ret panic_out
             | PB.Ok items0 =>
                 run ok (m_size_grid s P i (mkSS (initialize_grid_tracks (tc_of (PL.track_counts m PB.Horizontal)) (gs_template_columns s) (gs_auto_columns s)
                                                                         (lp_sfn (width (gs_gap s))) (column_is_occupied m))
                                                 (initialize_grid_tracks (tc_of (PL.track_counts m PB.Vertical)) (gs_template_rows s) (gs_auto_rows s)
                                                                         (lp_sfn (height (gs_gap s))) (row_is_occupied m)) zero zero items0))
                     (fun '(z, continue) =>
                        if negb continue then Ret (from_outer_size (z_border_box z))
                        else
                          inflow_pass (to_ae_ib s)
                            (align_tracks (width (z_content_box z)) (r_left (p_padding P)) (r_left (p_border P)) (ss_cols (z_state z))
                                          (opt_unwrap_or (gs_justify_content s) AStretch))
                            (align_tracks (height (z_content_box z)) (r_top (p_padding P)) (r_top (p_border P)) (ss_rows (z_state z))
                                          (opt_unwrap_or (gs_align_content s) AStretch))
                            (sort_by (fun a b => Nat.ltb (g_node a) (g_node b)) (ss_items (z_state z))) 0 size_ZERO []
                            (fun content placed =>
                               out_of_flow_pass P (to_ae_ib s) (PL.track_counts m PB.Horizontal) (PL.track_counts m PB.Vertical) (z_border_box z)
                                 (align_tracks (width (z_content_box z)) (r_left (p_padding P)) (r_left (p_border P)) (ss_cols (z_state z))
                                               (opt_unwrap_or (gs_justify_content s) AStretch))
                                 (align_tracks (height (z_content_box z)) (r_top (p_padding P)) (r_top (p_border P)) (ss_rows (z_state z))
                                               (opt_unwrap_or (gs_align_content s) AStretch))
                                 (map oof_view st) 0 (length (sort_by (fun a b => Nat.ltb (g_node a) (g_node b)) (ss_items (z_state z)))) content
                                 (fun content' =>
                                    match container_baseline placed with
                                    | None => Ret (from_outer_size (z_border_box z))
                                    | Some b => Ret (mkOutput (z_border_box z) content' (mkPoint None (Some b)) margin_set_ZERO margin_set_ZERO false)
                                    end)))
             end
         end)).
      { destruct (explicit_counts s P) as [ec er].
        destruct (place s ec er (estimate_styles st) (in_flow_styles st)) as [[m placed]|e] eqn:Ep; [|constructor].
        destruct (PL.mapM _ placed) as [items0|e] eqn:Em; [|constructor].
        destruct (items0_perm st _ _ _ _ _ _ _ _ _ _ Ep Em) as [Hperm Hiok].
        eapply (run_bounded true); [apply pg_size_grid; [intros _; reflexivity|exact Hiok]|].
        intros [z continue] (Hz & _ & _). cbn [fst] in Hz. unfold SPerm in Hz. cbn [ss_items] in Hz.
        destruct (negb continue); [constructor|].
        apply inflow_pass_bounded.
        - eapply nodes_IOK; [|exact Hiok]. eapply perm_trans; [apply Permutation_map; apply sort_by_perm|exact Hz].
        - intros content placed_. apply oof_pass_bounded; [rewrite map_length; lia|].
          intros c. destruct (container_baseline placed_); constructor. }
      destruct (gi_mode i); try exact Hmain.
      destruct (width (p_outer P)); [|exact Hmain]. destruct (height (p_outer P)); [constructor|exact Hmain].
    Qed.
  End WithChildren.

  Lemma visit_from_bounded n : forall m k (rest : Alg), k + m <= n -> Bd n rest -> Bd n (visit_from k m rest).
  Proof.
    induction m as [|m IH]; intros k rest Hk Hr; cbn [visit_from]; [exact Hr|].
    constructor; [lia|]. intros _. constructor; [lia|]. apply IH; [lia|exact Hr].
  Qed.

  Theorem grid_alg_total_bounded (s : GS) (st : list GS) (i : GIn T) : Bd (length st) (grid_alg_total s st i).
  Proof.
    unfold grid_alg_total. destruct (grid_no_panic s st i); [apply grid_alg_bounded|].
    unfold panic_alg. destruct (gi_mode i); try constructor. apply visit_from_bounded; [lia|constructor].
  Qed.
End GridBounded.
