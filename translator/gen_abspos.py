"""C11: translate the absolute-positioning code of the three container algorithms into Gallina.

What is generated (all from the working tree, on every run; any unrecognised source form -> Refuse, the Gen file is
then replaced by one that does not compile):

  Gen/AbsPosEnums.v   AlignItems, AlignContent, Position, FlexDirection, BoxSizing (variant lists) + FlexDirection::is_row
  Gen/AbsPosGen.v     * the MaybeMath impls of src/util/math.rs for (Option,Option) (Option,f32) (f32,Option)
                      * Size::maybe_apply_aspect_ratio, the flex-direction accessors of Rect/Size/Point (geometry.rs)
                      * block:  compute_inner's `absolute_position_*` lets  -> block_abs_area
                                loop body of perform_absolute_layout_on_absolute_children, split into
                                block_resolve (style -> AbsIn: everything that reads `child_style`) and
                                block_child   (AbsIn -> location/size/margin: min/max, known_dimensions, the two
                                               inset fills, final_size, non_auto_margin, auto_margin, resolved_margin, location)
                      * flex:   inset_relative_size, flex_resolve, flex_child (incl. both alignment `match`es)
                      * grid:   the default grid area of an absolutely positioned child (grid/mod.rs), grid_resolve,
                                grid_child (= align_and_position_item) and grid_align_item_within_area

The translation is a typed, purely syntactic compilation of the expression subset documented in rustparse.py:
`let` chains, struct literals, field access, Option/Rect/Size/Point/Line combinators, `if`/`if let`/`match` with
tuple / or-patterns, closures passed to `map`/`or_else`/`unwrap_or_else` (early `return`s become nested
conditionals), `let mut` + assignments inside `if`/`if let` statements (rebinding).  The child stage is emitted as
<k>_known (the statements in front of `tree.perform_child_layout(.., known_dimensions, ..)`: its known_dimensions
argument), <k>_place (all statements, the size of the layout output being the parameter `measured`; result: the
`location`, `size` and `margin` fields of the `Layout { .. }` literal passed to `set_unrounded_layout`) and
<k>_child = <k>_place .. (measure (<k>_known ..)) for an oracle `measure`.
Types are inferred bottom-up from the declared types of the free names; every method is looked up by (receiver type,
name, argument types) and anything not in the table is refused."""
from fractions import Fraction
from rustparse import *


class Refuse(Exception):
    pass


# ----------------------------------------------------------------------------- types
F, B, U8, DIM = 'F', 'B', 'U8', 'Dim'


def Opt(t):
    return ('opt', t)


def En(n):
    return ('enum', n)


OF = Opt(F)
STRUCTS = {
    # rust name -> (tag, fields, constructor, projection prefix)
    'Rect': ('Rect', ['left', 'right', 'top', 'bottom'], 'mkRect', 'r_'),
    'Size': ('Size', ['width', 'height'], 'mkSize', 's_'),
    'Point': ('Point', ['x', 'y'], 'mkPoint', 'p_'),
    'Line': ('Line', ['start', 'end'], 'mkLine', 'l_'),
    'InBothAbsAxis': ('InBoth', ['horizontal', 'vertical'], 'mkInBoth', 'ib_'),
}
TAGS = {v[0]: v for v in STRUCTS.values()}
ENUM_SRC = {
    'AlignItems': ('src/style/alignment.rs', 'AI_'),
    'AlignContent': ('src/style/alignment.rs', 'AC_'),
    'Position': ('src/style/mod.rs', 'Pos_'),
    'FlexDirection': ('src/style/flex.rs', 'FD_'),
    'BoxSizing': ('src/style/mod.rs', 'BS_'),
}
ENUM_ALIAS = {'AlignSelf': 'AlignItems', 'JustifyItems': 'AlignItems', 'JustifySelf': 'AlignItems', 'JustifyContent': 'AlignContent'}
RESERVED = {'end', 'min', 'max', 'left', 'right', 'top', 'in', 'at', 'as', 'fix', 'fun', 'match', 'with', 'return', 'then', 'else',
            'if', 'let', 'where', 'using', 'Type', 'Set', 'Prop', 'start', 'size', 'width', 'height', 'bottom', 'x', 'y', 'measure',
            'position', 'border', 'padding', 'margin', 'order', 'i', 'c', 'st', 'T', 'H'}


def cname(n):
    """Coq identifier of a Rust local."""
    if n == '_' or n.startswith('_'):
        return '_'
    return 'v_' + n if n in RESERVED else n


def ctype(t):
    if t == F:
        return 'T'
    if t == B:
        return 'bool'
    if t == U8:
        return 'N'
    if t == DIM:
        return '(Dim T)'
    if t[0] == 'enum':
        return t[1]
    if t[0] == 'opt':
        return '(option %s)' % ctype(t[1])
    if t[0] == 'tuple':
        return '(%s)' % ' * '.join(ctype(x) for x in t[1])
    if t[0] in TAGS:
        return '(%s %s)' % (t[0], ctype(t[1]))
    raise Refuse('no Coq type for %r' % (t,))


def join(a, b):
    """Unify two types where '?' (the payload of a bare `None`) matches anything."""
    if a == b:
        return a
    if a == '?':
        return b
    if b == '?':
        return a
    if isinstance(a, tuple) and isinstance(b, tuple) and a[0] == b[0] and a[0] != 'tuple' and len(a) == 2:
        return (a[0], join(a[1], b[1]))
    if isinstance(a, tuple) and isinstance(b, tuple) and a[0] == b[0] == 'tuple' and len(a[1]) == len(b[1]):
        return ('tuple', tuple(join(x, y) for x, y in zip(a[1], b[1])))
    raise Refuse('types %r and %r do not agree' % (a, b))


def tcode(t):
    if t == F:
        return 'F'
    if t == OF:
        return 'O'
    raise Refuse('MaybeMath on %r' % (t,))


def float_lit(txt):
    q = Fraction(txt)
    if q == 0:
        return 'zero'
    if q == 1:
        return 'one'
    if q.denominator == 1:
        return '(of_Z %d)' % q.numerator
    return '(of_Q (%d # %d))' % (q.numerator, q.denominator)


MAYBE = ('maybe_min', 'maybe_max', 'maybe_add', 'maybe_sub')


class Tr:
    """Typed expression / statement compiler.  env: key -> (coq term, type); keys are Rust local names, dotted paths
    (`constants.border`) or accessor calls (`child_style.size()`)."""

    def __init__(self, env, fns=None):
        self.env = dict(env)
        self.fns = fns or {}     # free function name -> (coq name, [arg types], ret type)
        self.fresh = 0

    def sub(self, extra):
        t = Tr(self.env, self.fns)
        t.env.update(extra)
        return t

    # -- helpers
    def key_of(self, a):
        """Dotted key of a path/field/accessor-call chain, or None."""
        if a[0] == 'path':
            return '::'.join(a[1]) if len(a[1]) > 1 else a[1][0]
        if a[0] == 'field':
            k = self.key_of(a[1])
            return None if k is None else k + '.' + a[2]
        if a[0] == 'mcall' and not a[3]:
            k = self.key_of(a[1])
            return None if k is None else k + '.' + a[2] + '()'
        return None

    def enum_ctor(self, segs):
        if len(segs) == 2:
            en = ENUM_ALIAS.get(segs[0], segs[0])
            if en in ENUM_SRC:
                if segs[1] not in self.enums[en]:
                    raise Refuse('%s has no variant %s' % (en, segs[1]))
                return ENUM_SRC[en][1] + segs[1], En(en)
        return None

    enums = {}

    # -- expressions
    def e(self, a):
        k = a[0]
        key = self.key_of(a)
        if key is not None and key in self.env:
            return self.env[key]
        if k == 'lit':
            txt = a[1]
            if txt in ('true', 'false'):
                return txt, B
            if '.' in txt or 'e' in txt.lower() and not txt.startswith('0x'):
                return float_lit(txt), F
            return '%d%%N' % int(txt), U8
        if k == 'path':
            segs = a[1]
            ec = self.enum_ctor(segs)
            if ec:
                return ec
            if segs == ['Size', 'ZERO']:
                return 'size_zero', ('Size', F)
            if segs == ['None']:
                return 'None', Opt('?')
            if segs == ['Size', 'NONE']:
                return '(mkSize None None)', ('Size', Opt('?'))
            raise Refuse('unknown name %s' % '::'.join(segs))
        if k == 'field':
            r, t = self.e(a[1])
            return self.proj(r, t, a[2])
        if k == 'un':
            if a[1] == '-':
                r, t = self.e(a[2])
                if t != F:
                    raise Refuse('negation of %r' % (t,))
                return '(neg %s)' % r, F
            if a[1] == '!':
                r, t = self.e(a[2])
                if t != B:
                    raise Refuse('! on %r' % (t,))
                return '(negb %s)' % r, B
            if a[1] == '&':
                return self.e(a[2])
            raise Refuse('unary %s' % a[1])
        if k == 'bin':
            return self.binop(a)
        if k == 'cast':
            r, t = self.e(a[1])
            ty = a[2].replace(' ', '')
            if ty == 'u8' and t == B:
                return '(b2n %s)' % r, U8
            if ty == 'f32' and t == U8:
                return '(u8_as_f32 %s)' % r, F
            raise Refuse('cast of %r to %s' % (t, ty))
        if k == 'call':
            return self.call(a)
        if k == 'mcall':
            return self.mcall(a)
        if k == 'struct':
            return self.struct(a)
        if k == 'tuple':
            parts = [self.e(x) for x in a[1]]
            return '(%s)' % ', '.join(p[0] for p in parts), ('tuple', tuple(p[1] for p in parts))
        if k == 'if':
            c, ct = self.e(a[1])
            if ct != B:
                raise Refuse('if condition of type %r' % (ct,))
            if a[3] is None:
                raise Refuse('if without else in value position')
            x, xt = self.e(a[2])
            y, yt = self.e(a[3])
            return '(if %s then %s else %s)' % (c, x, y), join(xt, yt)
        if k == 'iflet':
            s, st = self.e(a[2])
            pat, binds = self.pat(a[1], st)
            x, xt = self.sub(binds).e(a[3])
            if a[4] is None:
                raise Refuse('if let without else in value position')
            y, yt = self.e(a[4])
            return '(match %s with %s => %s | _ => %s end)' % (s, pat, x, y), join(xt, yt)
        if k == 'match':
            return self.match(a)
        if k == 'block':
            return self.block(a)
        raise Refuse('expression kind %s' % k)

    def proj(self, r, t, f):
        if isinstance(t, tuple) and t[0] in TAGS:
            tag, fields, _, pre = TAGS[t[0]]
            if f not in fields:
                raise Refuse('%s has no field %s' % (tag, f))
            return '(%s%s %s)' % (pre, f, r), t[1]
        raise Refuse('field %s of %r' % (f, t))

    def binop(self, a):
        op = a[1]
        if op == '||' and a[2][0] == 'mcall' and a[2][2] == 'is_none' and not a[2][3]:
            # `x.is_none() || <.. x.unwrap() ..>`: the unwrap is guarded; bind it
            rk = self.key_of(a[2][1])
            r, rt = self.e(a[2][1])
            if rk is not None and rt[0] == 'opt':
                self.fresh += 1
                v = 'unwrapped%d' % self.fresh
                rhs, rht = self.sub({rk + '.unwrap()': (v, rt[1])}).e(a[3])
                if rht != B:
                    raise Refuse('|| on %r' % (rht,))
                return '(match %s with None => true | Some %s => %s end)' % (r, v, rhs), B
        l, lt = self.e(a[2])
        r, rt = self.e(a[3])
        if op in ('&&', '||'):
            if lt != B or rt != B:
                raise Refuse('%s on %r, %r' % (op, lt, rt))
            return '(%s %s %s)' % ('andb' if op == '&&' else 'orb', l, r), B
        if lt != rt:
            raise Refuse('operator %s on %r and %r' % (op, lt, rt))
        if lt == F:
            tab = {'+': 'add', '-': 'sub', '*': 'mul', '/': 'div'}
            cmp_ = {'<': 'ltb', '<=': 'leb', '>': 'gtb', '>=': 'geb', '==': 'eqb', '!=': 'neb'}
            if op in tab:
                return '(%s %s %s)' % (tab[op], l, r), F
            if op in cmp_:
                return '(%s %s %s)' % (cmp_[op], l, r), B
        if lt == U8:
            if op == '+':
                return '(N.add %s %s)' % (l, r), U8
            if op == '==':
                return '(N.eqb %s %s)' % (l, r), B
            if op == '>':
                return '(N.ltb %s %s)' % (r, l), B
        if lt[0] == 'enum' and op in ('==', '!='):
            t = '(%s_eqb %s %s)' % (lt[1], l, r)
            return (t if op == '==' else '(negb %s)' % t), B
        if lt == ('Rect', F) and op == '+':
            return '(rect_add %s %s)' % (l, r), lt
        if lt == ('Size', F) and op in ('+', '-'):
            return '(%s %s %s)' % ('size_add' if op == '+' else 'size_sub', l, r), lt
        raise Refuse('operator %s on %r' % (op, lt))

    def call(self, a):
        f = a[1]
        if f[0] != 'path':
            raise Refuse('call of a non-path')
        nm = f[1][-1]
        if f[1] in (['Some'], ['Option', 'Some']) and len(a[2]) == 1:
            r, t = self.e(a[2][0])
            return '(Some %s)' % r, Opt(t)
        if nm in ('f32_max', 'f32_min') and len(a[2]) == 2:
            (x, xt), (y, yt) = self.e(a[2][0]), self.e(a[2][1])
            if xt != F or yt != F:
                raise Refuse('%s on %r, %r' % (nm, xt, yt))
            return '(%s %s %s)' % ('fmax' if nm == 'f32_max' else 'fmin', x, y), F
        if len(f[1]) == 1 and nm in self.fns:
            coq, ats, rt = self.fns[nm]
            args = [self.e(x) for x in a[2]]
            if [t for _, t in args] != ats:
                raise Refuse('call of %s with %r, expected %r' % (nm, [t for _, t in args], ats))
            return '(%s %s)' % (coq, ' '.join(x for x, _ in args)), rt
        raise Refuse('call of %s' % '::'.join(f[1]))

    def struct(self, a):
        segs, fs, base = a[1], a[2], a[3]
        if base is not None or len(segs) != 1 or segs[0] not in STRUCTS:
            raise Refuse('struct literal %s' % '::'.join(segs))
        tag, fields, ctor, _ = STRUCTS[segs[0]]
        given = dict(fs)
        if sorted(given) != sorted(fields) or len(fs) != len(fields):
            raise Refuse('%s literal with fields %r' % (tag, [f for f, _ in fs]))
        parts = [self.e(given[f]) for f in fields]
        ts = set(t for _, t in parts)
        if len(ts) != 1:
            raise Refuse('%s literal with mixed field types %r' % (tag, ts))
        return '(%s %s)' % (ctor, ' '.join(p for p, _ in parts)), (tag, parts[0][1])

    def closure(self, c, ptypes):
        """closure AST -> (coq fun term, result type)"""
        if c[0] == 'path' and c[1] in (['Some'], ['Option', 'Some']) and len(ptypes) == 1:
            return 'Some', Opt(ptypes[0])
        if c[0] != 'closure' or len(c[1]) != len(ptypes):
            raise Refuse('expected a closure of %d parameters' % len(ptypes))
        binds = {}
        names = []
        for p, t in zip(c[1], ptypes):
            if p[0] == 'pwild' or (p[0] == 'ppath' and p[1][0].startswith('_')):
                names.append('_')
            elif p[0] == 'pident':
                names.append(cname(p[1]))
                binds[p[1]] = (cname(p[1]), t)
            else:
                raise Refuse('closure parameter pattern')
        body, bt = self.sub(binds).e(c[2])
        if not names:
            return body, bt
        return '(fun %s => %s)' % (' '.join(names), body), bt

    def mcall(self, a):
        recv, nm, args = a[1], a[2], a[3]
        # oracle
        if recv == ('path', ['tree']) and nm == 'perform_child_layout':
            kd, kt = self.e(args[1])
            if kt != ('Size', OF):
                raise Refuse('perform_child_layout known_dimensions of type %r' % (kt,))
            self.known_arg = kd
            return 'measured', 'LayoutOutput'
        r, t = self.e(recv)
        n = len(args)
        if t == 'LayoutOutput':
            raise Refuse('method on layout output')
        # ---- Option
        if isinstance(t, tuple) and t[0] == 'opt':
            it = t[1]
            if nm == 'is_some' and n == 0:
                return '(opt_is_some %s)' % r, B
            if nm == 'is_none' and n == 0:
                return '(opt_is_none %s)' % r, B
            if nm == 'unwrap_or' and n == 1:
                x, xt = self.e(args[0])
                if xt != it:
                    raise Refuse('unwrap_or(%r) on %r' % (xt, t))
                return '(opt_unwrap_or %s %s)' % (r, x), it
            if nm == 'unwrap_or_else' and n == 1:
                x, xt = self.closure(args[0], [])
                if xt != it:
                    raise Refuse('unwrap_or_else(%r) on %r' % (xt, t))
                return '(opt_unwrap_or %s %s)' % (r, x), it
            if nm == 'or' and n == 1:
                x, xt = self.e(args[0])
                if xt != t:
                    raise Refuse('or(%r) on %r' % (xt, t))
                return '(opt_or %s %s)' % (r, x), t
            if nm == 'or_else' and n == 1:
                x, xt = self.ret_closure(args[0], t)
                return '(opt_or %s %s)' % (r, x), t
            if nm == 'map' and n == 1:
                f, ft = self.closure(args[0], [it])
                return '(option_map %s %s)' % (f, r), Opt(ft)
            if t == OF and nm in MAYBE and n == 1:
                x, xt = self.e(args[0])
                return '(%s_O%s %s %s)' % (nm, tcode(xt), r, x), OF
            if t == OF and nm == 'maybe_clamp' and n == 2:
                (x, xt), (y, yt) = self.e(args[0]), self.e(args[1])
                if xt != yt:
                    raise Refuse('maybe_clamp bounds %r, %r' % (xt, yt))
                return '(maybe_clamp_O%s%s %s %s %s)' % (tcode(xt), tcode(yt), r, x, y), OF
        # ---- f32
        if t == F:
            if nm in ('min', 'max') and n == 1:
                x, xt = self.e(args[0])
                if xt != F:
                    raise Refuse('%s(%r)' % (nm, xt))
                return '(%s %s %s)' % ('fmin' if nm == 'min' else 'fmax', r, x), F
            if nm in MAYBE and n == 1:
                x, xt = self.e(args[0])
                if xt != OF:
                    raise Refuse('f32.%s(%r)' % (nm, xt))
                return '(%s_FO %s %s)' % (nm, r, x), F
            if nm == 'maybe_clamp' and n == 2:
                (x, xt), (y, yt) = self.e(args[0]), self.e(args[1])
                if xt != OF or yt != OF:
                    raise Refuse('f32.maybe_clamp(%r, %r)' % (xt, yt))
                return '(maybe_clamp_FOO %s %s %s)' % (r, x, y), F
        # ---- style values
        if t == DIM:
            if nm == 'maybe_resolve' and n == 2:
                x, xt = self.e(args[0])
                if xt == F:
                    return '(dim_maybe_resolve %s (Some %s))' % (r, x), OF
                if xt == OF:
                    return '(dim_maybe_resolve %s %s)' % (r, x), OF
            if nm == 'resolve_to_option' and n == 2:
                x, xt = self.e(args[0])
                if xt == F:
                    return '(dim_resolve_to_option %s %s)' % (r, x), OF
            if nm == 'resolve_or_zero' and n == 2:
                x, xt = self.e(args[0])
                if xt == OF:
                    return '(dim_resolve_or_zero %s %s)' % (r, x), F
        # ---- containers
        if isinstance(t, tuple) and t[0] in TAGS:
            tag, it = t
            low = tag.lower() if tag != 'InBoth' else 'inboth'
            if nm == 'map' and n == 1 and tag != 'InBoth':
                f, ft = self.closure(args[0], [it])
                return '(%s_map %s %s)' % (low, f, r), (tag, ft)
            if tag == 'Rect':
                if nm in ('horizontal_components', 'vertical_components') and n == 0:
                    return '(rect_%s %s)' % (nm, r), ('Line', it)
                if it == F and nm in ('horizontal_axis_sum', 'vertical_axis_sum') and n == 0:
                    return '(rect_%s %s)' % (nm, r), F
                if it == F and nm == 'sum_axes' and n == 0:
                    return '(rect_sum_axes %s)' % r, ('Size', F)
                if nm in ('main_start', 'main_end', 'cross_start', 'cross_end') and n == 1:
                    d, dt = self.e(args[0])
                    if dt != En('FlexDirection'):
                        raise Refuse('%s(%r)' % (nm, dt))
                    return '(rect_%s %s %s)' % (nm, r, d), it
                if it == DIM and nm == 'resolve_or_zero' and n == 2:
                    x, xt = self.e(args[0])
                    if xt == OF:
                        return '(rect_map (fun d => dim_resolve_or_zero d %s) %s)' % (x, r), ('Rect', F)
            if tag in ('Size', 'Point') and nm in ('main', 'cross') and n == 1:
                d, dt = self.e(args[0])
                if dt != En('FlexDirection'):
                    raise Refuse('%s(%r)' % (nm, dt))
                return '(%s_%s %s %s)' % (low, nm, r, d), it
            if tag == 'Point' and nm == 'into' and n == 0:
                return '(point_to_size %s)' % r, ('Size', it)
            if tag == 'Line' and it == F and nm == 'sum' and n == 0:
                return '(line_sum %s)' % r, F
            if tag == 'Size':
                if it == F and nm == 'f32_max' and n == 1:
                    x, xt = self.e(args[0])
                    if xt == t:
                        return '(size_f32_max %s %s)' % (r, x), t
                if it[0] == 'opt' and nm == 'unwrap_or' and n == 1:
                    x, xt = self.e(args[0])
                    if xt == ('Size', it[1]):
                        return '(size_unwrap_or %s %s)' % (r, x), xt
                if it[0] == 'opt' and nm == 'or' and n == 1:
                    x, xt = self.e(args[0])
                    if xt == t:
                        return '(size_or %s %s)' % (r, x), t
                if it == OF and nm == 'maybe_apply_aspect_ratio' and n == 1:
                    x, xt = self.e(args[0])
                    if xt == OF:
                        return '(size_maybe_apply_aspect_ratio %s %s)' % (r, x), t
                if it == DIM and nm == 'maybe_resolve' and n == 2:
                    x, xt = self.e(args[0])
                    if xt == ('Size', F):
                        return '(size_zip2 (fun d c => dim_maybe_resolve d (Some c)) %s %s)' % (r, x), ('Size', OF)
                    if xt == ('Size', OF):
                        return '(size_zip2 dim_maybe_resolve %s %s)' % (r, x), ('Size', OF)
                if it in (F, OF) and nm in MAYBE and n == 1:
                    x, xt = self.e(args[0])
                    if xt[0] == 'Size' and xt[1] in (F, OF):
                        out = F if (it == F) else OF
                        return '(size_zip2 %s_%s%s %s %s)' % (nm, tcode(it), tcode(xt[1]), r, x), ('Size', out)
                if it in (F, OF) and nm == 'maybe_clamp' and n == 2:
                    (x, xt), (y, yt) = self.e(args[0]), self.e(args[1])
                    xt = yt = join(xt, yt)
                    if xt[0] == 'Size' and xt[1] == Opt('?'):
                        xt = yt = ('Size', OF)
                    if xt == yt and xt[0] == 'Size' and xt[1] in (F, OF):
                        return '(size_zip3 maybe_clamp_%s%s%s %s %s %s)' % (tcode(it), tcode(xt[1]), tcode(xt[1]), r, x, y), ('Size', it)
        if isinstance(t, tuple) and t[0] == 'enum' and t[1] == 'FlexDirection' and nm == 'is_row' and n == 0:
            return '(fd_is_row %s)' % r, B
        raise Refuse('method %s/%d on %r' % (nm, n, t))

    # -- patterns
    def pat(self, p, t):
        """-> (coq pattern, {rust name: (coq name, type)})"""
        k = p[0]
        if k == 'pwild':
            return '_', {}
        if k == 'pident':
            return cname(p[1]), {p[1]: (cname(p[1]), t)}
        if k == 'plit' and p[1] in ('true', 'false') and t == B:
            return p[1], {}
        if k == 'ppath':
            if len(p[1]) == 1 and p[1][0].startswith('_'):
                return '_', {}
            if p[1] == ['None'] and t[0] == 'opt':
                return 'None', {}
            ec = self.enum_ctor(p[1])
            if ec and ec[1] == t:
                return ec[0], {}
            raise Refuse('pattern %s for %r' % ('::'.join(p[1]), t))
        if k == 'pts' and p[1] == ['Some'] and len(p[2]) == 1 and t[0] == 'opt':
            s, b = self.pat(p[2][0], t[1])
            return '(Some %s)' % s, b
        if k == 'ptuple' and t[0] == 'tuple' and len(p[1]) == len(t[1]):
            parts = [self.pat(x, y) for x, y in zip(p[1], t[1])]
            b = {}
            for _, bb in parts:
                b.update(bb)
            return '(%s)' % ', '.join(s for s, _ in parts), b
        if k == 'por':
            parts = [self.pat(x, t) for x in p[1]]
            if any(bb for _, bb in parts):
                raise Refuse('binding or-pattern')
            return '(%s)' % ' | '.join(s for s, _ in parts), {}
        if k == 'pstruct' and len(p[1]) == 1 and p[1][0] in STRUCTS and STRUCTS[p[1][0]][0] == t[0]:
            tag, fields, ctor, _ = STRUCTS[p[1][0]]
            given = dict(p[2])
            if sorted(given) != sorted(fields):
                raise Refuse('struct pattern fields')
            parts = [self.pat(given[f], t[1]) for f in fields]
            b = {}
            for _, bb in parts:
                b.update(bb)
            return '(%s %s)' % (ctor, ' '.join(s for s, _ in parts)), b
        raise Refuse('pattern %r for %r' % (p[0], t))

    def match(self, a):
        s, st = self.e(a[1])
        arms = []
        rt = None
        for p, g, ex, _ in a[2]:
            if g is not None:
                raise Refuse('match guard')
            ps, binds = self.pat(p, st)
            if ps.startswith('(') and p[0] == 'por':
                ps = ps[1:-1]
            x, xt = self.sub(binds).e(ex)
            rt = xt if rt is None else join(rt, xt)
            arms.append('| %s => %s' % (ps, x))
        return '(match %s with\n      %s\n      end)' % (s, '\n      '.join(arms)), rt

    # -- blocks and statements
    def block(self, b):
        lines = []
        env = self.lets(b[1], lines)
        if b[2] is None:
            raise Refuse('block without a value')
        r, t = env.e(b[2])
        return '(' + ''.join(lines) + r + ')', t

    def lets(self, stmts, lines, skip=lambda st: False):
        """Append `let .. in` lines for the statements; returns the translator with the extended environment."""
        cur = self.sub({})
        for st in stmts:
            if skip(st):
                continue
            cur.stmt(st, lines)
        return cur

    def stmt(self, st, lines):
        if st[0] == 'coqlet':
            ps, binds = self.pat(st[1], st[3])
            lines.append("let %s%s := %s in\n    " % ("'" if st[1][0] != 'pident' else '', ps, st[2]))
            self.env.update(binds)
            return
        if st[0] == 'let':
            p, rhs = st[1], st[2]
            if rhs is None:
                raise Refuse('let without initialiser')
            r, t = self.e(rhs)
            if t == 'LayoutOutput':
                if p[0] != 'pident':
                    raise Refuse('layout output pattern')
                lines.append('let %s_size := %s in\n    ' % (p[1], r))
                self.env[p[1] + '.size'] = (p[1] + '_size', ('Size', F))
                return
            if p[0] == 'pident':
                lines.append('let %s := %s in\n    ' % (cname(p[1]), r))
                self.env[p[1]] = (cname(p[1]), t)
                return
            ps, binds = self.pat(p, t)
            lines.append("let '%s := %s in\n    " % (ps, r))
            self.env.update(binds)
            return
        if st[0] == 'expr':
            ex = st[1]
            if ex[0] == 'call' and ex[1] == ('path', ['drop']):
                return
            if ex[0] in ('if', 'iflet', 'assign'):
                self.mutation(ex, lines)
                return
        raise Refuse('statement %r' % (st[0],))

    def assigned(self, ex, out):
        """Root variables assigned in a statement-position if / if-let / assignment."""
        if ex[0] == 'assign':
            lhs = ex[2]
            while lhs[0] == 'field':
                lhs = lhs[1]
            if lhs[0] != 'path' or len(lhs[1]) != 1:
                raise Refuse('assignment target')
            if lhs[1][0] not in out:
                out.append(lhs[1][0])
            return
        if ex[0] in ('if', 'iflet'):
            blocks = [ex[2], ex[3]] if ex[0] == 'if' else [ex[3], ex[4]]
            for b in blocks:
                if b is None:
                    continue
                if b[0] != 'block':
                    self.assigned(b, out)
                    continue
                if b[2] is not None:
                    raise Refuse('value in statement-position conditional')
                for s in b[1]:
                    if s[0] == 'expr':
                        self.assigned(s[1], out)
            return

    def mutation(self, ex, lines):
        if ex[0] == 'assign':
            op, lhs, rhs = ex[1], ex[2], ex[3]
            r, t = self.e(rhs)
            if lhs[0] == 'path':
                nm = lhs[1][0]
                old, ot = self.env[nm]
                if op == '=':
                    new = r
                elif op in ('+=', '-=') and ot == F and t == F:
                    new = '(%s %s %s)' % ('add' if op == '+=' else 'sub', old, r)
                else:
                    raise Refuse('assignment %s' % op)
                if ot != t:
                    raise Refuse('assignment changes type of %s' % nm)
                lines.append('let %s := %s in\n    ' % (cname(nm), new))
                return
            if lhs[0] == 'field' and lhs[1][0] == 'path' and op == '=':
                nm = lhs[1][1][0]
                old, ot = self.env[nm]
                if ot[0] != 'Size' or ot[1] != t or lhs[2] not in ('width', 'height'):
                    raise Refuse('field assignment %s.%s' % (nm, lhs[2]))
                lines.append('let %s := (size_set_%s %s %s) in\n    ' % (cname(nm), lhs[2], old, r))
                return
            raise Refuse('assignment form')
        vs = []
        self.assigned(ex, vs)
        if not vs:
            raise Refuse('conditional statement without assignments')
        for v in vs:
            if v not in self.env:
                raise Refuse('assignment to unknown %s' % v)
        tup = '(%s)' % ', '.join(cname(v) for v in vs) if len(vs) > 1 else cname(vs[0])

        def branch(tr, b):
            if b is None:
                return tup
            if b[0] != 'block':
                ls = []
                t2 = tr.sub({})
                t2.mutation(b, ls)
                return '(' + ''.join(ls) + tup + ')'
            ls = []
            tr.lets(b[1], ls)
            return '(' + ''.join(ls) + tup + ')'
        if ex[0] == 'if':
            c, ct = self.e(ex[1])
            if ct != B:
                raise Refuse('if condition')
            term = '(if %s then %s else %s)' % (c, branch(self, ex[2]), branch(self, ex[3]))
        else:
            s, st_ = self.e(ex[2])
            ps, binds = self.pat(ex[1], st_)
            term = '(match %s with %s => %s | _ => %s end)' % (s, ps, branch(self.sub(binds), ex[3]), branch(self, ex[4]))
        lines.append("let %s%s := %s in\n    " % ("'" if len(vs) > 1 else '', tup, term))

    # -- closures with early returns: `|| { if c { return a; } ..; tail }`
    def ret_closure(self, c, rt):
        if c[0] != 'closure' or c[1]:
            raise Refuse('or_else argument')
        body = c[2]
        if body[0] != 'block':
            x, xt = self.e(body)
            if xt != rt:
                raise Refuse('closure result %r' % (xt,))
            return x, xt
        return self.ret_seq(body[1], body[2], rt, None), rt

    def ret_value(self, ex, rt):
        if ex == ('path', ['None']) and rt[0] == 'opt':
            return 'None'
        x, xt = self.e(ex)
        if xt != rt:
            raise Refuse('return of %r where %r expected' % (xt, rt))
        return x

    def ret_seq(self, stmts, tail, rt, fall):
        """Term for `stmts; tail` where reaching the end without a value continues with `fall`."""
        if tail is not None and tail[0] in ('if', 'iflet'):
            return self.ret_seq(list(stmts) + [('expr', tail, [])], None, rt, fall)
        if not stmts:
            if tail is not None:
                if tail[0] == 'return':
                    return self.ret_value(tail[1], rt)
                return self.ret_value(tail, rt)
            if fall is None:
                raise Refuse('closure may end without a value')
            return fall
        st, rest = stmts[0], stmts[1:]
        if st[0] == 'let':
            ls = []
            cur = self.sub({})
            cur.stmt(st, ls)
            return '(' + ''.join(ls) + cur.ret_seq(rest, tail, rt, fall) + ')'
        if st[0] == 'expr':
            ex = st[1]
            if ex[0] == 'return':
                return self.ret_value(ex[1], rt)
            if ex[0] in ('if', 'iflet'):
                if not rest and tail is None and fall is None:
                    k = 'None'   # unreachable unless a branch falls through; then Coq's typing decides (option types only)
                    if rt[0] != 'opt' or ex[3 if ex[0] == 'if' else 4] is None:
                        raise Refuse('closure may end without a value')
                else:
                    k = self.ret_seq(rest, tail, rt, fall)
                self.fresh += 1
                kn = 'k%d' % self.fresh

                def br(tr, b):
                    if b is None:
                        return kn
                    if b[0] != 'block':
                        return tr.ret_seq([('expr', b, [])], None, rt, kn)
                    return tr.ret_seq(b[1], b[2], rt, kn)
                if ex[0] == 'if':
                    c, ct = self.e(ex[1])
                    if ct != B:
                        raise Refuse('if condition')
                    return '(let %s := %s in if %s then %s else %s)' % (kn, k, c, br(self, ex[2]), br(self, ex[3]))
                s, st_ = self.e(ex[2])
                ps, binds = self.pat(ex[1], st_)
                return '(let %s := %s in match %s with %s => %s | _ => %s end)' % (kn, k, s, ps, br(self.sub(binds), ex[3]), br(self, ex[4]))
        raise Refuse('statement in a returning closure')


# ----------------------------------------------------------------------------- source access

def read(repo, rel):
    return open(repo + '/' + rel).read()


def enum_variants(toks, name):
    for i in range(len(toks) - 2):
        if seq_at(toks, i, ['enum', name, '{']):
            j = i + 2
            e = match_brace(toks, j)
            vs = []
            k = j + 1
            while k < e:
                if toks[k][1] == '#':
                    k = match_brace(toks, k + 1) + 1
                    continue
                if toks[k][0] != 'id' or toks[k + 1][1] not in (',', '}'):
                    raise Refuse('enum %s: variant with payload or discriminant' % name)
                vs.append(toks[k][1])
                k += 2 if toks[k + 1][1] == ',' else 1
            return vs
    raise Refuse('enum %s not found' % name)


def param_names(params):
    """Parameter names of a fn (rustparse.param_names miscounts `>>`)."""
    parts, cur, depth = [], [], 0
    for t in params:
        if t[1] in ('(', '[', '{', '<'):
            depth += 1
        elif t[1] in (')', ']', '}', '>'):
            depth -= 1
        elif t[1] == '>>':
            depth -= 2
        if t[1] == ',' and depth == 0:
            parts.append(cur)
            cur = []
        else:
            cur.append(t)
    if cur:
        parts.append(cur)
    names = []
    for p in parts:
        ws = [t[1] for t in p]
        if ':' not in ws:
            if 'self' in ws:
                names.append('self')
                continue
            raise Refuse('parameter without a type')
        k = ws.index(':')
        nm = [x for x in ws[:k] if x not in ('mut', '&')]
        names.append(nm[-1])
    return names


def fn_block(toks, name, start=0):
    params, body, after = find_fn(toks, name, start)
    return params, body, parse_block(body)


def let_name(st):
    """Identifier of a statement for classification."""
    if st[0] == 'let':
        p = st[1]
        if p[0] == 'pident':
            return p[1]
        if p[0] == 'ptuple':
            return '(' + ','.join(x[1] if x[0] == 'pident' else '?' for x in p[1]) + ')'
        if p[0] == 'pstruct':
            return p[1][-1] + '{' + ','.join(f for f, _ in p[2]) + '}'
        return '?'
    if st[0] == 'expr':
        ex = st[1]
        if ex[0] == 'iflet':
            return 'if-let'
        if ex[0] == 'if':
            return 'if'
        if ex[0] == 'call' and ex[1][0] == 'path':
            return 'call:' + ex[1][1][-1]
        if ex[0] == 'mcall':
            return 'mcall:' + ex[2]
        if ex[0] == 'block':
            return 'block'
    return '?' + st[0]


def cut(ex, pred, var):
    """Replace the outermost receiver-chain node satisfying pred by a path; returns (new expr, removed subtree or None)."""
    if pred(ex):
        return ('path', [var]), ex
    if ex[0] == 'mcall':
        r, got = cut(ex[1], pred, var)
        return ('mcall', r, ex[2], ex[3]), got
    return ex, None


def is_bsa_add(ex):
    return ex[0] == 'mcall' and ex[2] == 'maybe_add' and ex[3] == [('path', ['box_sizing_adjustment'])]


def emit_def(name, params, body_lines, result, rtype):
    ps = ' '.join('(%s : %s)' % (n, t) for n, t in params)
    return 'Definition %s %s : %s :=\n    %s%s.\n' % (name, ps, rtype, ''.join(body_lines), result)


# ----------------------------------------------------------------------------- generators

def gen_enums(repo):
    out = ['(* GENERATED on every run by translator/gen_abspos.py -- do not edit. *)', 'From Coq Require Import Bool List.', 'Import ListNotations.']
    fps = {}
    enums = {}
    for en, (rel, pre) in ENUM_SRC.items():
        toks = tokenize(read(repo, rel))
        vs = enum_variants(toks, en)
        enums[en] = vs
        fps['enum ' + en] = ' '.join(vs)
        out.append('Inductive %s := %s.' % (en, ' | '.join(pre + v for v in vs)))
        out.append('Definition %s_eqb (a b : %s) : bool :=\n  match a, b with\n  %s\n  | _, _ => false\n  end.'
                   % (en, en, '\n  '.join('| %s%s, %s%s => true' % (pre, v, pre, v) for v in vs)))
        out.append('Definition %s_all : list %s := [%s].' % (en, en, '; '.join(pre + v for v in vs)))
    # FlexDirection::is_row
    toks = tokenize(read(repo, 'src/style/flex.rs'))
    i = [k for k in range(len(toks)) if seq_at(toks, k, ['impl', 'FlexDirection', '{'])]
    if not i:
        raise Refuse('impl FlexDirection not found')
    params, body, blk = fn_block(toks, 'is_row', i[0])
    fps['FlexDirection::is_row'] = norm_tokens(body)
    t = blk[2]
    if blk[1] or t is None or t[0] != 'macro' or t[1] != 'matches' or t[2][0] != ('path', ['self']) or t[2][2] is not None:
        raise Refuse('FlexDirection::is_row is no longer a matches! table')
    alts = t[2][1][1] if t[2][1][0] == 'por' else [t[2][1]]
    names = []
    for p in alts:
        if p[0] != 'ppath' or len(p[1]) != 2 or p[1][0] != 'Self' or p[1][1] not in enums['FlexDirection']:
            raise Refuse('is_row alternative')
        names.append('FD_' + p[1][1])
    out.append('Definition fd_is_row (d : FlexDirection) : bool := match d with %s => true | _ => false end.' % ' | '.join(names))
    return '\n'.join(out) + '\n', fps, enums


def gen_enums_target(repo):
    text, fps, _ = gen_enums(repo)
    return text, fps


def impl_block(toks, header):
    for i in range(len(toks)):
        if seq_at(toks, i, header):
            b = i + len(header) - 1
            return toks[b:match_brace(toks, b) + 1]
    raise Refuse('impl block not found: %s' % ' '.join(header))


def gen_maybe_math(repo, w, fps):
    toks = tokenize(read(repo, 'src/util/math.rs'))
    O = ['Option', '<', 'f32', '>']
    combos = [('O', 'O', O, O), ('O', 'F', O, ['f32']), ('F', 'O', ['f32'], O)]
    ty = {'O': OF, 'F': F}
    for sc, ic, stoks, itoks in combos:
        # impl MaybeMath<In, Out> for Self
        rust = {'O': 'Option<f32>', 'F': 'f32'}
        header = [x[1] for x in tokenize('impl MaybeMath<%s, %s> for %s {' % (rust[ic], rust[sc], rust[sc]))]
        blk = impl_block(toks, header)
        for fn in ['maybe_min', 'maybe_max', 'maybe_clamp', 'maybe_add', 'maybe_sub']:
            params, body, b = fn_block(blk, fn)
            fps['MaybeMath<%s,%s>::%s' % (ic, sc, fn)] = norm_tokens(body)
            names = param_names(params)
            if names[0] != 'self':
                raise Refuse('MaybeMath method without self')
            env = {'self': ('self', ty[sc])}
            ps = [('self', ctype(ty[sc]))]
            for nme in names[1:]:
                env[nme] = (cname(nme), ty[ic])
                ps.append((cname(nme), ctype(ty[ic])))
            tr = Tr(env)
            r, t = tr.e(b)
            if t != ty[sc]:
                raise Refuse('%s returns %r' % (fn, t))
            suffix = sc + ic * (len(names) - 1)
            w(emit_def('%s_%s' % (fn, suffix), ps, [], r, ctype(t)))


def gen_geometry(repo, w, fps):
    toks = tokenize(read(repo, 'src/geometry.rs'))
    # Size<Option<f32>>::maybe_apply_aspect_ratio
    params, body, b = fn_block(toks, 'maybe_apply_aspect_ratio')
    fps['Size::maybe_apply_aspect_ratio'] = norm_tokens(body)
    tr = Tr({'self': ('self', ('Size', OF)), 'aspect_ratio': ('aspect_ratio', OF)})
    r, t = tr.e(b)
    w(emit_def('size_maybe_apply_aspect_ratio', [('self', ctype(('Size', OF))), ('aspect_ratio', ctype(OF))], [], r, ctype(t)))
    # flex-direction accessors: first occurrence is Rect's, Size's `main`/`cross` come before Point's
    dirp = ('direction', 'FlexDirection')
    for fn in ['main_start', 'main_end', 'cross_start', 'cross_end']:
        params, body, b = fn_block(toks, fn)
        fps['Rect::' + fn] = norm_tokens(body)
        r, t = Tr({'self': ('self', ('Rect', F)), 'direction': ('direction', En('FlexDirection'))}).e(b)
        w(emit_def('rect_' + fn, [('self', '(Rect T)'), dirp], [], r, ctype(t)))
    start = 0
    for owner, st in [('size', ('Size', F)), ('point', ('Point', F))]:
        after = start
        for fn in ['main', 'cross']:
            params, body, after2 = find_fn(toks, fn, start)
            b = parse_block(body)
            fps['%s::%s' % (owner, fn)] = norm_tokens(body)
            r, t = Tr({'self': ('self', st), 'direction': ('direction', En('FlexDirection'))}).e(b)
            w(emit_def('%s_%s' % (owner, fn), [('self', ctype(st)), dirp], [], r, ctype(t)))
            after = max(after, after2)
        start = after


STYLE_ENV = {
    # accessor -> (record projection, type)
    'size()': ('st_size', ('Size', DIM)), 'min_size()': ('st_min_size', ('Size', DIM)), 'max_size()': ('st_max_size', ('Size', DIM)),
    'inset()': ('st_inset', ('Rect', DIM)), 'margin()': ('st_margin', ('Rect', DIM)), 'padding()': ('st_padding', ('Rect', DIM)),
    'border()': ('st_border', ('Rect', DIM)), 'aspect_ratio()': ('st_aspect_ratio', OF), 'box_sizing()': ('st_box_sizing', En('BoxSizing')),
    'align_self()': ('st_align_self', Opt(En('AlignItems'))), 'justify_self()': ('st_justify_self', Opt(En('AlignItems'))),
    'position()': ('st_position', En('Position')),
}
AI_FIELDS = ['ai_aspect_ratio', 'ai_margin', 'ai_inset', 'ai_padding', 'ai_border', 'ai_pb_sum', 'ai_size', 'ai_min0', 'ai_max',
             'ai_align_self', 'ai_justify_self', 'ai_position']


def style_env(var):
    return {'%s.%s' % (var, k): ('(%s st)' % p, t) for k, (p, t) in STYLE_ENV.items()}


class Kernel:
    """Split the per-child statement list into the resolve stage (everything that reads the style: <name>_resolve :
    geometry -> AbsStyle -> AbsIn) and the child stage (<name>_child : geometry -> AbsIn -> measure -> AbsOut).
    `pre` statements (lets in front of the loop) are translated into both stages."""

    def __init__(self, name, pre, stmts, style_var, stage1, skip, first2, fns=None):
        self.name, self.pre, self.stmts, self.style_var = name, pre, stmts, style_var
        self.stage1, self.skip, self.first2 = set(stage1), set(skip), first2
        self.fns = fns or {}

    def run(self, w, geom_params, geom_env, ai_build, ai_env, extra2_params=()):
        """geom_params: [(coq name, coq type)] container geometry; geom_env: rust key -> (term, type);
        ai_build: {AbsIn field: rust local of the resolve stage | '=coq term'}; ai_env: rust name -> (term over `i`, type)."""
        sv = self.style_var
        s1_lines, s2_stmts = [], list(self.pre)
        tr1 = Tr(dict(geom_env, **style_env(sv)), self.fns)
        for st in self.pre:
            tr1.stmt(st, s1_lines)
        cuts = {}
        started2 = False
        layout_fields = None
        for st in self.stmts:
            nm = let_name(st)
            if nm == self.first2:
                started2 = True
            if st[0] == 'let' and nm in ('style_size', 'inherent_size', 'min_size', 'max_size'):
                var = {'style_size': 'size0', 'inherent_size': 'size0', 'min_size': 'min0', 'max_size': 'max0'}[nm]
                new, got = cut(st[2], is_bsa_add, '__' + var)
                if got is None or var in cuts:
                    raise Refuse('%s: `.maybe_add(box_sizing_adjustment)` in %s' % (self.name, nm))
                r, t = tr1.e(got)
                if t != ('Size', OF):
                    raise Refuse('%s: resolved %s has type %r' % (self.name, nm, t))
                s1_lines.append('let %s := %s in\n    ' % (var, r))
                cuts[var] = True
                s2_stmts.append(('let', st[1], new, st[3]))
                continue
            if nm in self.stage1:
                tr1.stmt(st, s1_lines)
                continue
            if nm in self.skip:
                continue
            if nm == 'mcall:set_unrounded_layout':
                lit = st[1][3][1]
                if lit[0] == 'un':
                    lit = lit[2]
                if lit[0] != 'struct' or lit[1] != ['Layout'] or layout_fields is not None:
                    raise Refuse('%s: set_unrounded_layout argument' % self.name)
                layout_fields = dict(lit[2])
                continue
            if not started2:
                raise Refuse('%s: unclassified statement %s before the child stage' % (self.name, nm))
            if layout_fields is not None:
                raise Refuse('%s: unclassified statement %s after set_unrounded_layout' % (self.name, nm))
            s2_stmts.append(st)
        if layout_fields is None or sorted(cuts) != ['max0', 'min0', 'size0']:
            raise Refuse('%s: Layout literal or size statements not found' % self.name)
        # ---- stage 1
        vals = []
        for f in AI_FIELDS:
            src = ai_build[f]
            if src.startswith('='):
                vals.append(src[1:])
            elif src in tr1.env:
                vals.append(tr1.env[src][0])
            else:
                raise Refuse('%s: resolve stage does not define %s' % (self.name, src))
        w(emit_def(self.name + '_resolve', geom_params + [('st', '(AbsStyle T)')], s1_lines,
                   '(mkAbsIn %s)' % ' '.join(vals), '(AbsIn T)'))
        # ---- stage 2
        env2 = dict(geom_env)
        env2.update(ai_env)
        env2['__size0'] = ('(ai_size i)', ('Size', OF))
        env2['__min0'] = ('(ai_min0 i)', ('Size', OF))
        env2['__max0'] = ('(ai_max i)', ('Size', OF))
        # the statements in front of perform_child_layout compute its known_dimensions argument: <name>_known
        idx = [k for k, st in enumerate(s2_stmts) if st[0] == 'let' and st[2] and st[2][0] == 'mcall' and st[2][2] == 'perform_child_layout']
        if len(idx) != 1:
            raise Refuse('%s: expected exactly one perform_child_layout' % self.name)
        trk = Tr(env2, self.fns)
        klines = []
        curk = trk.lets(s2_stmts[:idx[0]], klines)
        known, kt = curk.e(s2_stmts[idx[0]][2][3][1])
        if kt != ('Size', OF):
            raise Refuse('%s: known_dimensions of type %r' % (self.name, kt))
        gp = geom_params + list(extra2_params)
        w(emit_def(self.name + '_known', gp + [('i', '(AbsIn T)')], klines, known, '(Size (option T))'))
        # the statement after perform_child_layout that fixes the final size: <name>_final_size
        fidx = [k for k, st in enumerate(s2_stmts) if k > idx[0] and st[0] == 'let' and let_name(st) in ('final_size', 'Size{width,height}')]
        if not fidx:
            raise Refuse('%s: final size statement not found' % self.name)
        fidx = fidx[0]
        trf = Tr(env2, self.fns)
        flines = []
        curf = trf.lets(s2_stmts[:fidx + 1], flines)
        fpat = s2_stmts[fidx][1]
        if fpat[0] == 'pident':
            fres = curf.env[fpat[1]]
        else:
            fres = curf.e(('struct', ['Size'], [('width', ('path', ['width'])), ('height', ('path', ['height']))], None))
        if fres[1] != ('Size', F):
            raise Refuse('%s: final size of type %r' % (self.name, fres[1]))
        w(emit_def(self.name + '_final_size', gp + [('i', '(AbsIn T)'), ('measured', '(Size T)')], flines, fres[0], '(Size T)'))
        call = '(%s_final_size %s i measured)' % (self.name, ' '.join(n for n, _ in gp))
        s2_stmts = s2_stmts[:fidx] + [('coqlet', fpat, call, ('Size', F))] + s2_stmts[fidx + 1:]
        tr2 = Tr(env2, self.fns)
        lines = []
        cur = tr2.lets(s2_stmts, lines)
        outs = []
        for f, want in [('location', ('Point', F)), ('size', ('Size', F)), ('margin', ('Rect', F))]:
            if f not in layout_fields:
                raise Refuse('%s: Layout literal has no %s' % (self.name, f))
            r, t = cur.e(layout_fields[f])
            if t != want:
                raise Refuse('%s: Layout.%s has type %r' % (self.name, f, t))
            outs.append(r)
        # <name>_place: the whole child stage with the layout output's size as a value; <name>_child feeds it the oracle's answer
        w(emit_def(self.name + '_place', gp + [('i', '(AbsIn T)'), ('measured', '(Size T)')],
                   lines, '(mkAbsOut %s)' % ' '.join(outs), '(AbsOut T)'))
        args = ' '.join(n for n, _ in gp)
        w(emit_def(self.name + '_child', gp + [('i', '(AbsIn T)'), ('measure', '(Size (option T) -> Size T)')], [],
                   '%s_place %s i (measure (%s_known %s i))' % (self.name, args, self.name, args), '(AbsOut T)'))


def loop_body(blk, kind):
    for st in blk[1]:
        if st[0] == 'expr' and st[1][0] == 'for':
            return st[1][3][1]
    raise Refuse('%s: loop over the children not found' % kind)


def is_continue_guard(st):
    return st[0] == 'expr' and st[1][0] == 'if' and st[1][3] is None and len(st[1][2][1]) == 1 and st[1][2][1][0][1][0] == 'continue'


def named(stmts, names, what):
    sel = [st for st in stmts if st[0] == 'let' and let_name(st) in names]
    if [let_name(s) for s in sel] != list(names):
        raise Refuse('%s: expected the statements %s' % (what, ', '.join(names)))
    return sel


def generate(repo):
    enum_text, _, enums = gen_enums(repo)
    fps = {}
    Tr.enums = enums
    out = ['(* GENERATED on every run by translator/gen_abspos.py from src/compute/{block,flexbox}.rs, src/compute/grid/{alignment,mod}.rs,',
           '   src/util/math.rs and src/geometry.rs -- do not edit. *)',
           'From Coq Require Import ZArith NArith QArith Bool List.',
           'From TV Require Import Num.Num Gen.AbsPosEnums Model.AbsPosBase.',
           'Section AbsPosGen.', 'Context {T : Type} `{Num T}.', '']
    w = out.append
    gen_maybe_math(repo, w, fps)
    gen_geometry(repo, w, fps)
    SF, RF, PF, LF = ('Size', F), ('Rect', F), ('Point', F), ('Line', F)
    OAI = Opt(En('AlignItems'))
    common_ai = {'aspect_ratio': ('(ai_aspect_ratio i)', OF), 'margin': ('(ai_margin i)', ('Rect', OF)), 'padding': ('(ai_padding i)', RF),
                 'border': ('(ai_border i)', RF)}
    four = {'left': ('(r_left (ai_inset i))', OF), 'right': ('(r_right (ai_inset i))', OF), 'top': ('(r_top (ai_inset i))', OF),
            'bottom': ('(r_bottom (ai_inset i))', OF), 'padding_border_sum': ('(ai_pb_sum i)', SF)}
    build = {'ai_aspect_ratio': 'aspect_ratio', 'ai_margin': 'margin', 'ai_inset': '=(mkRect v_left v_right v_top v_bottom)', 'ai_padding': 'padding',
             'ai_border': 'border', 'ai_pb_sum': 'padding_border_sum', 'ai_size': '=size0', 'ai_min0': '=min0', 'ai_max': '=max0',
             'ai_align_self': '=(st_align_self st)', 'ai_justify_self': '=(st_justify_self st)', 'ai_position': '=(st_position st)'}
    res4 = ['aspect_ratio', 'margin', 'padding', 'border', 'padding_border_sum', 'box_sizing_adjustment', 'left', 'right', 'top', 'bottom']

    # ------------------------------------------------------------------ block
    toks = tokenize(read(repo, 'src/compute/block.rs'))
    params, body, blk = fn_block(toks, 'compute_inner')
    sel = named(blk[1], ['absolute_position_inset', 'absolute_position_area', 'absolute_position_offset'], 'block compute_inner')
    fps['block::absolute_position_area'] = repr(sel)
    # the scrollbar_gutter Rect literal (end sides) of compute_inner
    sg = named(blk[1], ['scrollbar_gutter'], 'block compute_inner')[0]
    if sg[2][0] != 'block' or sg[2][2] is None or len(sg[2][1]) != 1 or let_name(sg[2][1][0]) != 'offsets':
        raise Refuse('block: scrollbar_gutter statement')
    fps['block::scrollbar_gutter'] = repr(sg)
    r, t = Tr({'offsets': ('offsets', PF)}).e(sg[2][2])
    if t != RF:
        raise Refuse('block: scrollbar_gutter type')
    w(emit_def('block_scrollbar_gutter', [('offsets', '(Point T)')], [], r, '(Rect T)'))
    tr = Tr({'resolved_border': ('resolved_border', RF), 'scrollbar_gutter': ('(block_scrollbar_gutter offsets)', RF),
             'final_outer_size': ('final_outer_size', SF)})
    lines = []
    cur = tr.lets(sel, lines)
    w(emit_def('block_abs_area', [('final_outer_size', '(Size T)'), ('resolved_border', '(Rect T)'), ('offsets', '(Point T)')], lines,
               '(%s, %s)' % (cur.env['absolute_position_area'][0], cur.env['absolute_position_offset'][0]), '(Size T * Point T)'))
    params, body, blk = fn_block(toks, 'perform_absolute_layout_on_absolute_children')
    if param_names(params) != ['tree', 'items', 'area_size', 'area_offset']:
        raise Refuse('block: parameters of perform_absolute_layout_on_absolute_children')
    fps['block::perform_absolute_layout_on_absolute_children'] = norm_tokens(body)
    pre = named(blk[1], ['area_width', 'area_height'], 'block abspos')
    stmts = [s for s in loop_body(blk, 'block') if not is_continue_guard(s)]
    k = Kernel('block', pre, stmts, 'child_style', stage1=res4, skip={'child_style', 'scrollbar_size', 'block'}, first2='known_dimensions')
    geom = [('area_size', '(Size T)'), ('area_offset', '(Point T)')]
    genv = {'area_size': ('area_size', SF), 'area_offset': ('area_offset', PF)}
    ai_env = dict(common_ai, **four)
    ai_env['item.static_position'] = ('static_position', PF)
    k.run(w, geom, genv, build, ai_env, extra2_params=[('static_position', '(Point T)')])

    # ------------------------------------------------------------------ flex
    toks = tokenize(read(repo, 'src/compute/flexbox.rs'))
    params, body, blk = fn_block(toks, 'perform_absolute_layout_on_absolute_children')
    if param_names(params) != ['tree', 'node', 'constants']:
        raise Refuse('flex: parameters of perform_absolute_layout_on_absolute_children')
    fps['flex::perform_absolute_layout_on_absolute_children'] = norm_tokens(body)
    cenv = {
        'constants.container_size': ('(fc_container_size c)', SF), 'constants.border': ('(fc_border c)', RF),
        'constants.scrollbar_gutter': ('(fc_scrollbar_gutter c)', PF), 'constants.content_box_inset': ('(fc_content_box_inset c)', RF),
        'constants.dir': ('(fc_dir c)', En('FlexDirection')), 'constants.is_row': ('(fc_is_row c)', B),
        'constants.is_wrap_reverse': ('(fc_is_wrap_reverse c)', B), 'constants.justify_content': ('(fc_justify_content c)', Opt(En('AlignContent'))),
        'constants.align_items': ('(fc_align_items c)', En('AlignItems')),
    }
    pre = named(blk[1], ['container_width', 'container_height', 'inset_relative_size'], 'flex abspos')
    lines = []
    cur = Tr(cenv).lets(pre, lines)
    w(emit_def('flex_inset_relative_size', [('c', '(FlexConstants T)')], lines, cur.env['inset_relative_size'][0], '(Size T)'))
    stmts = [s for s in loop_body(blk, 'flex') if not is_continue_guard(s)]
    k = Kernel('flex', pre, stmts, 'child_style', stage1=res4,
               skip={'child', 'child_style', 'overflow', 'scrollbar_width', 'scrollbar_size', 'block'}, first2='align_self')
    ai_env = dict(common_ai, **four)
    ai_env['child_style.align_self()'] = ('(ai_align_self i)', OAI)
    k.run(w, [('c', '(FlexConstants T)')], cenv, build, ai_env)

    # ------------------------------------------------------------------ grid
    toks = tokenize(read(repo, 'src/compute/grid/alignment.rs'))
    params, body, blk = fn_block(toks, 'align_item_within_area')
    fps['grid::align_item_within_area'] = norm_tokens(body)
    names = param_names(params)
    if names != ['grid_area', 'alignment_style', 'resolved_size', 'position', 'inset', 'margin', 'baseline_shim']:
        raise Refuse('grid: align_item_within_area parameters %r' % names)
    ptypes = [LF, En('AlignItems'), F, En('Position'), ('Line', OF), ('Line', OF), F]
    r, t = Tr({n: (cname(n), t_) for n, t_ in zip(names, ptypes)}).e(blk)
    if t != ('tuple', (F, LF)):
        raise Refuse('grid: align_item_within_area returns %r' % (t,))
    w(emit_def('grid_align_item_within_area', [(cname(n), ctype(t_)) for n, t_ in zip(names, ptypes)], [], r, ctype(t)))
    fns = {'align_item_within_area': ('grid_align_item_within_area', ptypes, t)}
    params, body, blk = fn_block(toks, 'align_and_position_item')
    fps['grid::align_and_position_item'] = norm_tokens(body)
    names = param_names(params)
    if names != ['tree', 'node', 'order', 'grid_area', 'container_alignment_styles', 'baseline_shim']:
        raise Refuse('grid: align_and_position_item parameters %r' % names)
    stmts = list(blk[1])
    if let_name(stmts[0]) != 'grid_area_size':
        raise Refuse('grid: align_and_position_item no longer starts with grid_area_size')
    k = Kernel('grid', stmts[:1], stmts[1:], 'style',
               stage1=['aspect_ratio', 'justify_self', 'align_self', 'position', 'inset_horizontal', 'inset_vertical', 'padding', 'border',
                       'padding_border_size', 'box_sizing_adjustment', 'margin'],
               skip={'style', 'overflow', 'scrollbar_width', 'scrollbar_size', 'contribution'}, first2='alignment_styles', fns=fns)
    ai_env = dict(common_ai)
    ai_env.update({'padding_border_size': ('(ai_pb_sum i)', SF),
                   'inset_horizontal': ('(rect_horizontal_components (ai_inset i))', ('Line', OF)),
                   'inset_vertical': ('(rect_vertical_components (ai_inset i))', ('Line', OF)),
                   'justify_self': ('(ai_justify_self i)', OAI), 'align_self': ('(ai_align_self i)', OAI),
                   'position': ('(ai_position i)', En('Position')),
                   'container_alignment_styles': ('container_alignment_styles', ('InBoth', OAI)), 'baseline_shim': ('baseline_shim', F)})
    build_g = dict(build)
    build_g.update({'ai_inset': '=(mkRect (l_start inset_horizontal) (l_end inset_horizontal) (l_start inset_vertical) (l_end inset_vertical))',
                    'ai_pb_sum': 'padding_border_size', 'ai_align_self': 'align_self', 'ai_justify_self': 'justify_self', 'ai_position': 'position'})
    k.run(w, [('grid_area', '(Rect T)')], {'grid_area': ('grid_area', RF)}, build_g, ai_env,
          extra2_params=[('container_alignment_styles', '(InBoth (option AlignItems))'), ('baseline_shim', 'T')])
    # default grid area of an absolutely positioned child whose lines are auto (grid/mod.rs)
    toks = tokenize(read(repo, 'src/compute/grid/mod.rs'))
    params, body, blk = fn_block(toks, 'compute_grid_layout')
    area = find_abs_grid_area(blk)
    fps['grid::abs grid_area'] = repr(area)
    tr = Tr({'border': ('border', RF), 'container_border_box': ('container_border_box', SF), 'scrollbar_gutter': ('scrollbar_gutter', PF)})
    d = {}
    given = dict(area[2])
    for f, idx in [('left', 'maybe_col_indexes.start'), ('right', 'maybe_col_indexes.end'), ('top', 'maybe_row_indexes.start'), ('bottom', 'maybe_row_indexes.end')]:
        ex = given.get(f)
        # <idx>.map(|index| <tracks>[index].offset).unwrap_or(<default>)
        if not (ex and ex[0] == 'mcall' and ex[2] == 'unwrap_or' and len(ex[3]) == 1 and ex[1][0] == 'mcall' and ex[1][2] == 'map'
                and tr.key_of(ex[1][1]) == idx):
            raise Refuse('grid: grid_area.%s of an absolutely positioned child' % f)
        r, t = tr.e(ex[3][0])
        if t != F:
            raise Refuse('grid: grid_area.%s default type' % f)
        d[f] = r
    w(emit_def('grid_abs_area', [('container_border_box', '(Size T)'), ('border', '(Rect T)'), ('scrollbar_gutter', '(Point T)')], [],
               '(mkRect %s %s %s %s)' % (d['left'], d['right'], d['top'], d['bottom']), '(Rect T)'))
    # fingerprints of the functions the hand-written parts transcribe (Model/AbsPosBase.v, Model/AbsPos.v, Model/AbsPosRun.v)
    for rel, fns in [('src/compute/flexbox.rs', ['compute_constants']), ('src/compute/leaf.rs', ['compute_leaf_layout']),
                     ('src/compute/block.rs', ['perform_final_layout_on_in_flow_children']), ('src/style/dimension.rs', ['resolve_to_option']),
                     ('src/compute/mod.rs', ['compute_root_layout'])]:
        toks = tokenize(read(repo, rel))
        for fn in fns:
            fps['hand::%s::%s' % (rel.split('/')[-1], fn)] = norm_tokens(find_fn(toks, fn)[1])
    src = read(repo, 'src/util/resolve.rs')
    fps['hand::resolve.rs'] = norm_tokens(tokenize(src.split('#[cfg(test)]')[0]))
    out.append('End AbsPosGen.')
    return '\n'.join(out) + '\n', fps


def find_abs_grid_area(blk):
    """The `let grid_area = Rect { .. }` built from maybe_row_indexes / maybe_col_indexes in compute_grid_layout."""
    found = []

    def walk(x):
        if isinstance(x, tuple):
            if len(x) >= 3 and x[0] == 'let' and x[1] == ('pident', 'grid_area') and x[2] and x[2][0] == 'struct' and x[2][1] == ['Rect']:
                if 'maybe_row_indexes' in repr(x[2]):
                    found.append(x[2])
            for y in x:
                walk(y)
        elif isinstance(x, list):
            for y in x:
                walk(y)
    walk(blk)
    if len(found) != 1:
        raise Refuse('grid: grid_area of an absolutely positioned child not found (%d candidates)' % len(found))
    return found[0]


TARGETS = {'AbsPosEnums.v': gen_enums_target, 'AbsPosGen.v': generate}
