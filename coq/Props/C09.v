(* C09 -- grid tracks: fixed sizes exact, gutters equal gaps, explicit count, fr tracks fill the content box.
   Statements only; proofs are in Proofs/GridTracksProofs.v.  The definitions are those of Model/GridTracks.v (hand
   transcription of explicit_grid.rs / track_sizing.rs / alignment.rs, tied to the source by the bit-exact
   correspondence run over F32) with the THRESHOLD constants and the track-counting tables regenerated from the source
   (Gen/GridTracksGen.v).  Structure and counting theorems hold for every number structure; the numeric laws are
   proved over the exact instance XQ with explicit finiteness premises. *)
From Coq Require Import ZArith NArith QArith Bool List.
From TV Require Import Num.Num Num.QNum Gen.GridTracksGen Model.GridTracks Proofs.GridTracksProofs.
Import ListNotations.

(* ---- structure: gutter, (track, gutter)*; both outer gutters collapsed with zero sizing functions; every inner gutter
   has min = max = gap unless it was created with a collapsed (empty auto-fit) track, in which case it is collapsed too *)
Theorem C09_structure : forall (T : Type) `{Num T} counts (template : list (tsf T)) autos gap has_items,
  wf_tracks gap (initialize_grid_tracks counts template autos gap has_items).
Proof. intros. apply init_wf. Qed.

Theorem C09_structure_index : forall (T : Type) `{Num T} counts (template : list (tsf T)) autos gap has_items,
  let ts := initialize_grid_tracks counts template autos gap has_items in
  let n := count_tracks ts in
  length ts = (2 * n + 1)%nat /\
  (exists g0, nth_error ts 0 = Some g0 /\ outer_gutter g0) /\
  (forall i, (i < n)%nat -> exists t g,
      nth_error ts (2 * i + 1) = Some t /\ nth_error ts (2 * i + 2) = Some g /\ kind t = KTrack /\
      ((S i = n /\ outer_gutter g) \/ ((S i < n)%nat /\ inner_gutter gap t g))).
Proof. intros. apply wf_tracks_index. apply init_wf. Qed.

(* 11.4 gives a track whose min and max are the same definite value (every gutter, every fixed track) that value as
   base size and growth limit: an outer or collapsed gutter starts at 0, an inner gutter at the resolved gap *)
Theorem C09_initial_sizes : forall (T : Type) `{Num T} inner (tracks : list (track T)) i t v,
  nth_error tracks i = Some t -> minf t = maxf t -> definite_value inner (minf t) = Some v ->
  exists t', nth_error (initialize_track_sizes inner tracks) i = Some t' /\ base_size t' = v /\ growth_limit t' = v /\
             kind t' = kind t /\ minf t' = minf t /\ maxf t' = maxf t.
Proof. intros. eapply initialize_sizes_nth; eauto. Qed.

(* ---- explicit count = length of the expanded template; as many explicit tracks are created as are counted *)
Theorem C09_explicit_count : forall (T : Type) `{Num T} (template : list (tsf T)) inner gap size_is_maximum,
  let e := explicit_grid_size template inner gap size_is_maximum in
  e = 0%N \/
  (n_auto template = 0%nat /\ e = spec_count 0 template) \/
  (n_auto template = 1%nat /\ e = spec_count (num_repetitions template inner gap size_is_maximum) template).
Proof. intros. apply explicit_count_spec. Qed.

Theorem C09_tracks_match_counts : forall (T : Type) `{Num T} counts (template : list (tsf T)) autos gap has_items inner gapf mx,
  explicit counts = explicit_grid_size template inner gapf mx ->
  count_tracks (initialize_grid_tracks counts template autos gap has_items) = N.to_nat (counts_len counts) /\
  length (initialize_grid_tracks counts template autos gap has_items) = (2 * N.to_nat (counts_len counts) + 1)%nat.
Proof.
  intros T H counts template autos gap hi inner gapf mx He.
  pose proof (init_count counts template autos gap hi inner gapf mx He) as Hc.
  split; [exact Hc|]. rewrite <- Hc. apply (wf_tracks_index gap). apply init_wf.
Qed.

(* ---- fr fill.  With a definite content-box size S, after expand_flexible_tracks the base sizes sum to at least S
   provided the flex factors of the tracks still treated as flexible in the final iteration of find_size_of_fr sum
   to at least 1.  (track_ok2: base sizes and flex factors finite and >= 0.) *)
Theorem C09_fr_fill : forall (tracks : list (track XQ)) (S : XQ) amin amax items,
  Forall track_ok2 tracks -> finite S ->
  x_leb (Fin 1) (final_flex_factor_sum tracks S) = true ->
  x_leb S (@fsum XQ _ (map base_size (expand_flexible_tracks amin amax (Definite S) items tracks))) = true.
Proof.
  intros tracks S amin amax items Hok HS Hsum. destruct (fin_inv S HS) as [sp E]. subst S.
  apply fr_fill; auto.
  - eapply Forall_impl; [|exact Hok]. intros t [Hf [Hb _]]. split; assumption.
  - apply fr_terminates. exact Hok.
Qed.

(* the restart loop of find_size_of_fr leaves through its exit condition within length + 2 iterations *)
Theorem C09_fr_terminates : forall (tracks : list (track XQ)) (sp : Q),
  Forall track_ok2 tracks -> snd (fr_exit tracks (Fin sp)) = true.
Proof. intros. apply fr_terminates. assumption. Qed.

(* the property's premise (ALL fr factors of the axis sum to >= 1) is not enough: `0.5fr 0.6fr` in 200px with an
   item of width 100 in the first track gives 100 + 60 = 160 < 200 *)
Theorem C09_fr_fill_refuted : exists (template : list (tsf XQ)) (S : Q) (items : list (nat * XQ)),
  x_leb (Fin 1) (template_flex_sum template) = true /\
  x_ltb (q_total (q_axis template (SLength (Fin 0)) S items)) (Fin S) = true.
Proof. exists [fr_track (1 # 2); fr_track (6 # 10)], 200%Q, [(1%nat, Fin 100)]. vm_compute. split; reflexivity. Qed.

(* tracks that are flexible when the loop exits get exactly factor * fr size.  partial: says nothing about the tracks
   frozen at their base size *)
Theorem C09_fr_proportional_partial : forall (tracks : list (track XQ)) (S hp h : XQ) (t : track XQ),
  fr_exit tracks S = (hp, h, true) -> In t tracks -> flexible_at hp t = true ->
  xeq (base_size (expand_one h t)) (x_mul (sfn_value (maxf t)) h).
Proof. exact fr_proportional. Qed.

(* ---- fixed tracks.  In maximise_tracks (11.6) a track whose limit equals its base size (every fixed track, every
   gutter) ends within (G + 1) * THRESHOLD above it, G = number of tracks that can still grow when the step starts; and
   exactly at it when no track can grow.  partial: step 11.5 is outside the model, and the bound is not 0. *)
Theorem C09_fixed_exact_partial : forall inner avail (tracks : list (track XQ)) i t,
  Forall (tok inner) tracks -> nth_error tracks i = Some t -> fixed_like t ->
  exists t', nth_error (maximise_tracks inner avail tracks) i = Some t' /\ finite (base_size t') /\
    (val (base_size t) <= val (base_size t') <= val (base_size t) + inject_Z (Z.of_nat (G inner tracks + 1)) * T_q)%Q /\
    (G inner tracks = 0%nat -> compute_free_space avail (@fsum XQ _ (map base_size tracks)) <> PInf ->
     val (base_size t') == val (base_size t))%Q.
Proof.
  intros inner avail tracks i t Hok Hi Hfx.
  destruct (maximise_fixed_bound inner avail tracks i t Hok Hi Hfx) as [t' [E [F B]]].
  exists t'. repeat split; try tauto. intros Hg Hn.
  destruct Hfx as [_ [_ [Hb Hinc]]].
  destruct (maximise_no_growable inner avail tracks i t Hi Hg Hn Hb Hinc) as [t'' [E' X]].
  rewrite E in E'. inversion E'; subst t''.
  destruct (base_size t'), (base_size t); simpl in *; try contradiction; auto; try reflexivity.
Qed.

(* `100px minmax(100px, 100.008px)` in 200.016px: the fixed track becomes 100.008 and all three gutters 0.008 *)
Theorem C09_fixed_exact_refuted : exists (template : list (tsf XQ)) (S : Q),
  nth 0 template (px_track 0) = px_track 100 /\
  xq_eqb_list (q_sizes (q_axis template (SLength (Fin 0)) S [])) [Fin (100008 # 1000); Fin (100008 # 1000)] = true /\
  xq_eqb_list (q_gutters (q_axis template (SLength (Fin 0)) S [])) [Fin (8 # 1000); Fin (8 # 1000); Fin (8 # 1000)] = true.
Proof. exists [px_track 100; minmax_px 100 (100008 # 1000)], (200016 # 1000)%Q. vm_compute. repeat split; reflexivity. Qed.

(* one distribution can raise a fixed track by more than THRESHOLD (two growable tracks with different head-room) *)
Theorem C09_fixed_threshold_per_call_refuted : exists (template : list (tsf XQ)) (S : Q),
  nth 0 template (px_track 0) = px_track 100 /\
  x_ltb (Fin (100 + T_q)) (nth 0 (q_sizes (q_axis template (SLength (Fin 0)) S [])) (Fin 0)) = true.
Proof.
  exists [px_track 100; minmax_px 100 (100008 # 1000); minmax_px 100 (100009 # 1000)], 400%Q. vm_compute. split; reflexivity.
Qed.

(* ---- termination (exact arithmetic): the loop of distribute_space_up_to_limits as maximise_tracks uses it needs at
   most G + 1 iterations: more fuel changes nothing *)
Theorem C09_distribute_terminates : forall inner n sp (tracks : list (track XQ)) fuel,
  Forall (tok inner) tracks -> (G inner tracks <= n)%nat -> (n + 1 <= fuel)%nat ->
  mloop inner fuel (Fin sp) tracks = mloop inner (n + 1) (Fin sp) tracks.
Proof. intros. apply mloop_terminates; auto. Qed.

(* ---- non-vacuity *)
Example C09_example_fill :
  xq_eqb_list (q_sizes example_fill) [Fin (230 # 3); Fin (460 # 3); Fin 50] = true /\
  xq_eqb_list (q_gutters example_fill) [Fin 0; Fin 10; Fin 10; Fin 0] = true /\
  x_eqb (q_total example_fill) (Fin 300) = true.
Proof. vm_compute. repeat split; reflexivity. Qed.

Example C09_example_fr_fill_premises :
  let tracks := maximise_tracks (Some (Fin 300)) (Definite (Fin 300))
                  (initialize_track_sizes (Some (Fin 300))
                     (initialize_grid_tracks (mk_counts 0 3 0) [fr_track 1; fr_track 2; px_track 50] [] (SLength (Fin 10)) (fun _ => true))) in
  snd (fr_exit tracks (Fin 300)) = true /\ x_leb (Fin 1) (final_flex_factor_sum tracks (Fin 300)) = true.
Proof. vm_compute. split; reflexivity. Qed.

Print Assumptions C09_structure.
Print Assumptions C09_structure_index.
Print Assumptions C09_initial_sizes.
Print Assumptions C09_explicit_count.
Print Assumptions C09_tracks_match_counts.
Print Assumptions C09_fr_fill.
Print Assumptions C09_fr_terminates.
Print Assumptions C09_fr_fill_refuted.
Print Assumptions C09_fr_proportional_partial.
Print Assumptions C09_fixed_exact_partial.
Print Assumptions C09_fixed_exact_refuted.
Print Assumptions C09_fixed_threshold_per_call_refuted.
Print Assumptions C09_distribute_terminates.
