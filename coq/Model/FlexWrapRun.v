(* Driver of the second correspondence class of C07 (K2, `vh c07 wcases`): a root flex container (nowrap / wrap /
   wrap-reverse, any direction, justify-content, align-content, align-items, definite main size, definite or auto cross
   size, optional min/max main size, padding/border, both gaps) whose children are leaves.  Runs
   Model.FlexContainer.compute_flexbox_layout -- collect_flex_lines (Model/FlexLines.v), determine_flex_base_size
   (Model/FlexBase.v), the main-axis kernel (Model/Flex.v), the generated alignment tables and compute_leaf_layout
   (Model/Leaf.v) for every child query -- over F32, with the inputs compute_root_layout hands to a non-block root
   (known_dimensions = NONE, parent_size = available_space.into_options(), SizingMode::InherentSize).

   C = dir wrap justify align_content align_items size_main has_cross size_cross has_min min_main has_max max_main
       pms pme bms bme pcs pce bcs bce gap_main gap_cross n  (23 ints), then 41 ints per child:
       has_basis basis  has_size_m size_m  has_size_c size_c  has_min_m min_m  has_max_m max_m  has_min_c min_c  has_max_c max_c
       has_aspect aspect  grow shrink  ms_auto ms  me_auto me  cs_auto cs  ce_auto ce  pms pme bms bme pcs pce bcs bce
       overflow_x overflow_y  box_sizing  align_self  ctx_kind ctx_a ctx_b
   R = container main, cross; per child (document order): location main, cross; size main, cross; margin main start, main end,
       cross start, cross end  -- unrounded, f32 bit patterns.  [-1] = loop out of fuel / main size indefinite. *)
From Coq Require Import ZArith Bool List.
From TV Require Import Num.F32 Model.Common Model.Leaf Model.MeasureFamily Gen.FlexGen Model.Flex Model.FlexLines
                       Model.FlexBase Model.FlexContainer.
Import ListNotations.

Section LeafChild.
  Context {T : Type} `{Num T}.
  (* a leaf child: TaffyView::compute_child_layout dispatches a childless node to compute_leaf_layout with the tree's measure function *)
  Definition leaf_child (st : Style T) (basis : Dimension T) (grow shrink : T) (al : option AlignSelf) (ctx : MeasureCtx T) : Child T :=
    mkChild st basis grow shrink al
            (fun inp => match compute_leaf_layout inp st (family_measure ctx) with
                        | Some (o, _) => out_size o
                        | None => size_ZERO
                        end).
End LeafChild.

Open Scope Z_scope.

Definition wfb (z : Z) : f32 := f_of_bits z.
Definition wdim (has v : Z) : Dimension f32 := if has =? 0 then Auto else Length (wfb v).
Definition wlpa (auto v : Z) : LengthPercentageAuto f32 := if auto =? 0 then Length (wfb v) else Auto.
Definition wlp (v : Z) : LengthPercentage f32 := LpLength (wfb v).
Definition wbool (z : Z) : bool := negb (z =? 0).
Definition rect_mc {A} (row : bool) (ms me cs ce : A) : Rect A := if row then mkRect ms me cs ce else mkRect cs ce ms me.
Definition walign (z : Z) : option AlignSelf :=
  match z with 0 => Some AS_Start | 1 => Some AS_End | 2 => Some AS_FlexStart | 3 => Some AS_FlexEnd | 4 => Some AS_Center
          | 5 => Some AS_Stretch | _ => None end.
Definition wcontent (j : Z) : option AlignContent := if j <? 0 then None else nth_error all_align_content (Z.to_nat j).
Definition woverflow (k : Z) : Overflow := match k with 0 => Visible | 1 => Clip | _ => Hidden end.

Definition W_ITEM : nat := 41.

Definition decode_child (row : bool) (c : list Z) : Child f32 :=
  let g (i : nat) : Z := nth i c 0 in
  let st :=
    mkStyle DFlex Relative (if g 36%nat =? 1 then ContentBox else BorderBox)
            (mkPoint (woverflow (g 34%nat)) (woverflow (g 35%nat))) (wfb 0)
            (s_of_mc row (wdim (g 2%nat) (g 3%nat)) (wdim (g 4%nat) (g 5%nat)))
            (s_of_mc row (wdim (g 6%nat) (g 7%nat)) (wdim (g 10%nat) (g 11%nat)))
            (s_of_mc row (wdim (g 8%nat) (g 9%nat)) (wdim (g 12%nat) (g 13%nat)))
            (if g 14%nat =? 0 then None else Some (wfb (g 15%nat)))
            (rect_mc row (wlpa (g 18%nat) (g 19%nat)) (wlpa (g 20%nat) (g 21%nat)) (wlpa (g 22%nat) (g 23%nat)) (wlpa (g 24%nat) (g 25%nat)))
            (rect_mc row (wlp (g 26%nat)) (wlp (g 27%nat)) (wlp (g 30%nat)) (wlp (g 31%nat)))
            (rect_mc row (wlp (g 28%nat)) (wlp (g 29%nat)) (wlp (g 32%nat)) (wlp (g 33%nat))) in
  let ctx := match g 38%nat with
             | 1 => MFixed (wfb (g 39%nat)) (wfb (g 40%nat))
             | 3 => MEcho (wfb (g 39%nat))
             | _ => MNone
             end in
  leaf_child st (wdim (g 0%nat) (g 1%nat)) (wfb (g 16%nat)) (wfb (g 17%nat)) (walign (g 37%nat)) ctx.

Fixpoint decode_children (row : bool) (fuel : nat) (l : list Z) : list (Child f32) :=
  match fuel with
  | O => []
  | S fuel' => decode_child row (firstn W_ITEM l) :: decode_children row fuel' (skipn W_ITEM l)
  end.

Definition decode_container (c : list Z) : ContainerStyle f32 :=
  let g (i : nat) : Z := nth i c 0 in
  let row := (g 0%nat =? 0) || (g 0%nat =? 2) in
  mkCStyle row (2 <=? g 0%nat) (negb (g 1%nat =? 0)) (g 1%nat =? 2)
           (wcontent (g 2%nat)) (wcontent (g 3%nat)) (walign (g 4%nat))
           (s_of_mc row (Length (wfb (g 5%nat))) (wdim (g 6%nat) (g 7%nat)))
           (s_of_mc row (wdim (g 8%nat) (g 9%nat)) Auto)
           (s_of_mc row (wdim (g 10%nat) (g 11%nat)) Auto)
           (mkRect (Length (wfb 0)) (Length (wfb 0)) (Length (wfb 0)) (Length (wfb 0)))
           (rect_mc row (wlp (g 12%nat)) (wlp (g 13%nat)) (wlp (g 16%nat)) (wlp (g 17%nat)))
           (rect_mc row (wlp (g 14%nat)) (wlp (g 15%nat)) (wlp (g 18%nat)) (wlp (g 19%nat)))
           (s_of_mc row (wlp (g 20%nat)) (wlp (g 21%nat)))
           BorderBox None.

Definition enc_placed (row : bool) (p : Placed f32) : list Z :=
  let '(ms, me, cs, ce) := p_margin p in
  [f_to_bits (p_loc_main p); f_to_bits (p_loc_cross p); f_to_bits (s_main row (p_size p)); f_to_bits (s_cross row (p_size p));
   f_to_bits ms; f_to_bits me; f_to_bits cs; f_to_bits ce].

(* the layout of the root: compute_root_layout, non-block root, available space MAX_CONTENT *)
Definition layout_root (s : ContainerStyle f32) (children : list (Child f32)) :=
  compute_flexbox_layout s size_NONE size_NONE (mkSize MaxContent MaxContent) InherentSize children.

Definition run_wrap_case (c : list Z) : list Z :=
  let s := decode_container c in
  let row := cs_row s in
  let n := Z.to_nat (nth 22%nat c 0) in
  let children := decode_children row n (skipn 23%nat c) in
  match layout_root s children with
  | None => [-1]
  | Some (sz, lines) =>
      f_to_bits (s_main row sz) :: f_to_bits (s_cross row sz) :: flat_map (enc_placed row) (concat lines)
  end.

(* the same, prefixed by the line structure the model computed: [number of lines; items per line ...] ++ R
   (the prefix is used for the coverage report only; the comparison is on R) *)
Definition run_wrap_case_ext (c : list Z) : list Z :=
  let s := decode_container c in
  let row := cs_row s in
  let n := Z.to_nat (nth 22%nat c 0) in
  match layout_root s (decode_children row n (skipn 23%nat c)) with
  | None => [-1]
  | Some (sz, lines) =>
      Z.of_nat (length lines) :: map (fun l => Z.of_nat (length l)) lines ++
      f_to_bits (s_main row sz) :: f_to_bits (s_cross row sz) :: flat_map (enc_placed row) (concat lines)
  end.
