"""C07 -- flex lines: order, no overlap, flexibility exhausted.
T (Gen/FlexGen.v: compute_alignment_offset, apply_alignment_fallback, sum_axis_gaps) + proofs (Props/C07.v, over XQ) +
K1 (whole-API: single-line flex containers of leaves, Model/FlexRun.v over F32, bit-exact) +
K2 (whole-API: multi-line containers of leaves, both axes: Model/FlexWrapRun.v = FlexContainer + FlexLines + FlexBase + Flex + Leaf) +
search (vh c07 oracle: the two laws on unrounded layouts of random trees, incl. wrap and nested content; the line laws
on the implementation's results of the K2 cases)."""
import struct
from fractions import Fraction
from ..common import *
from ..stages import *

ITEM_INTS = 19
JUSTIFY = ['Start', 'End', 'FlexStart', 'FlexEnd', 'Center', 'Stretch', 'SpaceBetween', 'SpaceEvenly', 'SpaceAround']
DIRS = ['Row', 'Column', 'RowReverse', 'ColumnReverse']

# witness of C07_exhausted_laid_out_sizes_refuted: row, 100 wide; A = basis 100 shrink 1; B = basis 50 shrink 1 min 5 max 10 padding-start 20
def fbits(x):
    return struct.unpack('I', struct.pack('f', x))[0]


def fl(z):
    return struct.unpack('f', struct.pack('I', z & 0xffffffff))[0]


def _item(basis=None, size=None, mn=None, mx=None, g=0.0, s=0.0, ms=0.0, me=0.0, pb=(0.0, 0.0, 0.0, 0.0), meas=0.0):
    o = lambda v: [int(v is not None), fbits(v) if v is not None else 0]
    m = lambda v: [int(v is None), fbits(v) if v is not None else 0]
    return o(basis) + o(size) + o(mn) + o(mx) + [fbits(g), fbits(s)] + m(ms) + m(me) + [fbits(x) for x in pb] + [fbits(meas)]


def _cont(d, jc, main, gap, items):
    c = [d, jc, fbits(main), fbits(40.0)] + [0] * 8 + [fbits(gap), len(items)]
    for it in items:
        c += it
    return c


PBFLOOR_WITNESS = _cont(0, 2, 100.0, 0.0, [_item(basis=100.0, s=1.0), _item(basis=50.0, mn=5.0, mx=10.0, s=1.0, pb=(20.0, 0.0, 0.0, 0.0))])

FINDINGS = [
    {'id': 'F-C07-pbfloor', 'status': 'known',
     'line': 'resolve_flexible_lengths step 4d floors the clamped target at 0 instead of padding+border: an item with an explicit '
             'min/max size below its padding+border is laid out larger than the size the line was balanced with, the line '
             'overflows although other items could still shrink (theorem C07_exhausted_laid_out_sizes_refuted)'},
    {'id': 'F-C07-autogap', 'status': 'known',
     'line': 'distribute_remaining_free_space: when auto margins absorb positive free space offset_main stays 0, so the gap is '
             'not inserted between the items of that line (margin boxes still do not overlap; '
             'theorem C07_gap_dropped_with_auto_margins_refuted)'},
]


def decode(c):
    d = {'dir': c[0], 'reverse': c[0] >= 2, 'jc': c[1], 'main': fl(c[2]), 'cross': fl(c[3]),
         'pms': fl(c[4]), 'pme': fl(c[5]), 'bms': fl(c[6]), 'bme': fl(c[7]), 'gap': fl(c[12]), 'n': c[13], 'items': []}
    for i in range(c[13]):
        it = c[14 + i * ITEM_INTS:14 + (i + 1) * ITEM_INTS]
        opt = lambda h, v: fl(v) if h else None
        d['items'].append({'basis': opt(it[0], it[1]), 'size': opt(it[2], it[3]), 'min': opt(it[4], it[5]), 'max': opt(it[6], it[7]),
                           'grow': fl(it[8]), 'shrink': fl(it[9]), 'ms_auto': bool(it[10]), 'ms': fl(it[11]), 'me_auto': bool(it[12]),
                           'me': fl(it[13]), 'pb': fl(it[14]) + fl(it[15]) + fl(it[16]) + fl(it[17]), 'meas': fl(it[18])})
    return d


def impl_violates(c, r):
    """The property stated directly on one implementation result of the K class.  Returns (message, known_tag) or None."""
    d = decode(c)
    n = d['n']
    if len(r) != 2 + 2 * n:
        return ('implementation returned %d fields for %d children' % (len(r), n), None)
    loc = [fl(r[2 + 2 * i]) for i in range(n)]
    size = [fl(r[3 + 2 * i]) for i in range(n)]
    its = d['items']
    tol = 1e-3
    any_auto = any(it['ms_auto'] or it['me_auto'] for it in its)
    sign = -1.0 if d['reverse'] else 1.0
    # order / no overlap (margins of the K class are >= 0; an auto margin resolves to >= 0: only its lower bound 0 is used)
    for i in range(n - 1):
        a, b = (i, i + 1)
        if d['reverse']:
            lo_end = loc[b] + size[b] + (0.0 if its[b]['me_auto'] else its[b]['me'])
            hi_start = loc[a] - (0.0 if its[a]['ms_auto'] else its[a]['ms'])
        else:
            lo_end = loc[a] + size[a] + (0.0 if its[a]['me_auto'] else its[a]['me'])
            hi_start = loc[b] - (0.0 if its[b]['ms_auto'] else its[b]['ms'])
        if hi_start < lo_end - tol:
            return ('children %d and %d: margin boxes overlap or are out of order on the main axis (%.4f < %.4f)' % (a, b, hi_start, lo_end), None)
    # conservation
    if any_auto:
        return None
    inner = fl(r[0]) - (d['pms'] + d['pme'] + d['bms'] + d['bme'])
    total = sum(size[i] + its[i]['ms'] + its[i]['me'] for i in range(n)) + d['gap'] * (n - 1)
    scale = max(abs(inner), abs(total), 1.0)
    if abs(total - inner) <= 1e-3 * scale:
        return None
    growing = total < inner
    fac = [it['grow'] if growing else it['shrink'] for it in its]
    if any(f != 0.0 and f < 1.0 for f in fac):
        return None
    known = None
    for i, it in enumerate(its):
        below = (it['min'] is not None and it['min'] < it['pb']) or (it['max'] is not None and it['max'] < it['pb'])
        if below:
            known = 'pb-floor'
    for i, it in enumerate(its):
        if fac[i] == 0.0:
            continue
        if growing:
            if it['max'] is None:
                return ('line under-filled (%.4f < %.4f) but child %d (grow %g) has no max size' % (total, inner, i, fac[i]), known)
            if size[i] < it['max'] - 1e-3 * scale:
                return ('line under-filled (%.4f < %.4f) but child %d (grow %g) has size %.4f < max %.4f' % (total, inner, i, fac[i], size[i], it['max']), known)
        else:
            if it['min'] is not None:
                mn = it['min']
            else:
                mn = it['meas'] + it['pb']
                if it['size'] is not None:
                    mn = min(mn, it['size'])
                if it['max'] is not None:
                    mn = min(mn, it['max'])
            eff = max(mn, it['pb'], 0.0)
            if size[i] > eff + 1e-3 * scale:
                return ('line over-filled (%.4f > %.4f) but child %d (shrink %g) has size %.4f > min %.4f' % (total, inner, i, fac[i], size[i], eff), known)
    return None


# ------------------------------------------------------------------------------------------------ K2: multi-line containers
W_HEAD = 23
W_ITEM = 41
WRAPS = ['NoWrap', 'Wrap', 'WrapReverse']


def wdecode(c):
    opt = lambda h, v: fl(v) if h else None
    d = {'dir': c[0], 'row': c[0] in (0, 2), 'reverse': c[0] >= 2, 'wrap': c[1], 'jc': c[2], 'ac': c[3], 'ai': c[4],
         'main': fl(c[5]), 'cross': opt(c[6], c[7]), 'min_m': opt(c[8], c[9]), 'max_m': opt(c[10], c[11]),
         'pb': [fl(x) for x in c[12:20]], 'gap_m': fl(c[20]), 'gap_c': fl(c[21]), 'n': c[22], 'items': []}
    for i in range(c[22]):
        it = c[W_HEAD + i * W_ITEM:W_HEAD + (i + 1) * W_ITEM]
        d['items'].append({'basis': opt(it[0], it[1]), 'size_m': opt(it[2], it[3]), 'size_c': opt(it[4], it[5]),
                           'min_m': opt(it[6], it[7]), 'max_m': opt(it[8], it[9]), 'min_c': opt(it[10], it[11]),
                           'max_c': opt(it[12], it[13]), 'aspect': opt(it[14], it[15]), 'grow': fl(it[16]), 'shrink': fl(it[17]),
                           'margin': [None if it[18 + 2 * k] else fl(it[19 + 2 * k]) for k in range(4)],
                           'pb': [fl(x) for x in it[26:34]], 'overflow': it[34:36], 'content_box': it[36] == 1,
                           'align': it[37], 'ctx': it[38]})
    return d


def wshape(c):
    d = wdecode(c)
    return '%s/%s/n=%d' % (DIRS[d['dir']], WRAPS[d['wrap']], d['n'])


def _quarter(x):
    return x is not None and abs(x) < 262144.0 and float(x * 4.0).is_integer()


def impl_lines(c, r):
    """Line membership read off the implementation's result alone: items whose margin box starts at the same cross
    position are on the same line.  Only for containers where that is unambiguous: every item aligned to the start of its
    line (align-items / align-self start), no auto cross margin, every item at least 1 high (so consecutive lines differ).
    Returns a list of index lists or None."""
    d = wdecode(c)
    n = d['n']
    if len(r) != 2 + 8 * n or n == 0:
        return None
    if d['wrap'] == 0:
        return [list(range(n))]
    for it in d['items']:
        eff = d['ai'] if it['align'] < 0 else it['align']
        if eff != 0 or it['margin'][2] is None or it['margin'][3] is None:
            return None
        if it['size_c'] is None or it['size_c'] < 1.0 or it['min_c'] is not None or it['max_c'] is not None or it['aspect'] is not None:
            return None
    base = [fl(r[2 + 8 * i + 1]) - fl(r[2 + 8 * i + 6]) for i in range(n)]
    lines = [[0]]
    for i in range(1, n):
        if abs(base[i] - base[i - 1]) <= 1e-3:
            lines[-1].append(i)
        else:
            lines.append([i])
    return lines


def impl_violates_wrap(c, r, stats=None):
    """The line laws of the property on one implementation result of the K2 class (no model involved).
    Returns a message or None."""
    d = wdecode(c)
    n = d['n']
    if len(r) != 2 + 8 * n:
        return 'implementation returned %d fields for %d children' % (len(r), n)
    lines = impl_lines(c, r)
    if lines is None:
        return None
    its = d['items']
    loc = [fl(r[2 + 8 * i]) for i in range(n)]
    loc_c = [fl(r[2 + 8 * i + 1]) for i in range(n)]
    size = [fl(r[2 + 8 * i + 2]) for i in range(n)]
    ms = [fl(r[2 + 8 * i + 4]) for i in range(n)]
    me = [fl(r[2 + 8 * i + 5]) for i in range(n)]
    mcs = [fl(r[2 + 8 * i + 6]) for i in range(n)]
    tol = 1e-3
    # partition into consecutive runs: a cross position, once left, does not come back; lines advance in one direction
    if d['wrap'] != 0 and len(lines) > 1:
        bases = [loc_c[l[0]] - mcs[l[0]] for l in lines]
        for a, b2 in zip(bases, bases[1:]):
            if d['wrap'] == 1 and not b2 > a + tol:
                return 'lines are not stacked in document order on the cross axis (%.4f then %.4f)' % (a, b2)
            if d['wrap'] == 2 and not b2 < a - tol:
                return 'wrap-reverse: lines are not stacked in reverse document order on the cross axis (%.4f then %.4f)' % (a, b2)
    # order / no overlap within each line (margins of the class are >= 0)
    if all(m >= 0.0 for m in ms + me) and d['gap_m'] >= 0.0:
        for l in lines:
            for a, b2 in zip(l, l[1:]):
                if d['reverse']:
                    lo_end, hi_start = loc[b2] + size[b2] + me[b2], loc[a] - ms[a]
                else:
                    lo_end, hi_start = loc[a] + size[a] + me[a], loc[b2] - ms[b2]
                if hi_start < lo_end - tol:
                    return 'children %d and %d of one line: margin boxes overlap or are out of order on the main axis (%.4f < %.4f)' % (a, b2, hi_start, lo_end)
    # fit / greedy: only where the hypothetical outer main size is a plain function of the style:
    # definite flex-basis, explicit min-size, no max-size, no padding/border, border-box, no aspect ratio
    if d['wrap'] == 0 or d['min_m'] is not None or d['max_m'] is not None:
        return None
    hyp = []
    for it in its:
        plain = (it['basis'] is not None and it['min_m'] is not None and it['max_m'] is None and not any(it['pb']) and not it['content_box']
                 and it['aspect'] is None)
        if not plain:
            return None
        m0 = 0.0 if it['margin'][0] is None else it['margin'][0]
        m1 = 0.0 if it['margin'][1] is None else it['margin'][1]
        hyp.append(Fraction(max(it['basis'], it['min_m'], 0.0)) + Fraction(m0) + Fraction(m1))
    pbm = d['pb'][0] + d['pb'][1] + d['pb'][2] + d['pb'][3]
    avail = Fraction(max(d['main'], pbm)) - Fraction(pbm)
    gap = Fraction(d['gap_m'])
    nums = [d['main'], d['gap_m']] + d['pb'][:4] + [x for it in its for x in (it['basis'], it['min_m'], it['margin'][0] or 0.0, it['margin'][1] or 0.0)]
    exact = all(_quarter(x) for x in nums)      # every partial sum is exactly representable: f32 arithmetic = exact arithmetic
    if stats is not None:
        stats['fit_greedy_containers'] = stats.get('fit_greedy_containers', 0) + 1
        stats['fit_greedy_exact'] = stats.get('fit_greedy_exact', 0) + int(exact)
        stats['fit_greedy_multi_line'] = stats.get('fit_greedy_multi_line', 0) + int(len(lines) > 1)
    slack = Fraction(0) if exact else Fraction(1, 1000) * max(abs(avail), 1)
    for k, l in enumerate(lines):
        total = sum(hyp[i] for i in l) + gap * (len(l) - 1)
        if len(l) >= 2 and total > avail + slack:
            return ('line %d (children %d..%d) does not fit: hypothetical outer sizes + gaps = %s > available main size %s'
                    % (k, l[0], l[-1], float(total), float(avail)))
        if k + 1 < len(lines):
            nxt = lines[k + 1][0]
            if total + gap + hyp[nxt] <= avail - slack:
                return ('line %d (children %d..%d) is not greedy: it could have taken child %d (%s + gap + %s <= %s)'
                        % (k, l[0], l[-1], nxt, float(total), float(hyp[nxt]), float(avail)))
    return None


def k1_as_k2(c):
    """A case of the K1 class written as a case of the K2 class (same tree: the K1 harness gives every child cross size 20,
    align-self start, and a fixed measure (meas, 7) in main/cross order): lets the general model (Model/FlexContainer.v with
    determine_flex_base_size of Model/FlexBase.v) be compared with the implementation on the K1 cases too."""
    row = c[0] in (0, 2)
    w = [c[0], 0, c[1], -1, -1, c[2], 1, c[3], 0, 0, 0, 0] + list(c[4:12]) + [c[12], 0, c[13]]
    for i in range(c[13]):
        it = c[14 + i * ITEM_INTS:14 + (i + 1) * ITEM_INTS]
        meas = fl(it[18])
        ctx = [0, 0, 0]
        if meas != 0.0:
            ctx = [1, it[18], fbits(7.0)] if row else [1, fbits(7.0), it[18]]
        w += (list(it[0:4]) + [1, fbits(20.0)] + list(it[4:8]) + [0, 0, 0, 0, 0, 0] + [it[8], it[9]] + list(it[10:14]) + [0, 0, 0, 0]
              + [it[14], it[15], it[16], it[17], 0, 0, 0, 0] + [0, 0, 0, 0] + ctx)
    assert len(w) == W_HEAD + W_ITEM * c[13]
    return w


def k2_result_as_k1(r, n):
    if len(r) != 2 + 8 * n:
        return r
    out = [r[0], r[1]]
    for i in range(n):
        out += [r[2 + 8 * i], r[2 + 8 * i + 2]]
    return out


def shape(c):
    d = decode(c)
    return '%s/%s/n=%d' % (DIRS[d['dir']], 'None' if d['jc'] < 0 else JUSTIFY[d['jc']], d['n'])


def run(rep, tier, seed, replay=None):
    res, changed = proof_stage(rep, 'C07', extra_trusted=[
        'hand models Model/Flex.v (resolve_flexible_lengths, distribute_remaining_free_space, calculate_layout_line/'
        'calculate_flex_item main axis) and Model/FlexRun.v (prefix: compute_constants, generate_anonymous_flex_items, '
        'determine_flex_base_size and compute_leaf_layout for the K class): tied to the Rust only by bit-exact correspondence',
        'theorems are over the exact instance XQ; the F32 run differs by accumulated rounding (oracle tolerance 1e-3)',
        'hand models Model/FlexLines.v (collect_flex_lines), Model/FlexBase.v (compute_constants, generate_anonymous_flex_items, '
        'determine_available_space, determine_flex_base_size), Model/FlexContainer.v (cross-axis steps, final_layout_pass): tied to the '
        'Rust by the bit-exact correspondence K2 (children = leaves, via Model/Leaf.v compute_leaf_layout, itself tied by C19)',
        'K1 class: single-line containers of leaves with definite flex-basis or size, border-box, lengths only, no aspect ratio, '
        'align-self start.  K2 class: nowrap / wrap / wrap-reverse containers with a definite main size whose children are leaves '
        '(lengths only; no baseline alignment, no relative insets, no scrollbars); cases with an "echo" measure function run with the '
        'exact-key memo (hook) because the real cache key is lossy for such functions (known finding of C01/C17); '
        'nested containers, percentages, indefinite main size, baselines are covered by the oracle and by K3',
        'K3 (`vh flexalg cases`): Model/FlexAlg.v = ALL of compute_flexbox_layout as a resumption (children answered with the outputs recorded on '
        'the implementation: any child kind, percentages, min/max, aspect ratio, insets, scrollbars, baselines, indefinite sizes, both run modes); '
        'every query input, stored layout and the output compared bit for bit'])
    mine_changed = [k for k in changed if k.startswith('gen_flex:')]
    rep.cov['fingerprints_changed'] = mine_changed
    rc, out, binp, dt = build_harness('release')
    if rc != 0:
        rep.add_broken('build', 'harness', out[-1500:])
        return
    # ---------------------------------------------------------------- K
    n = 600 if tier == 'quick' else 20000
    if mine_changed and tier == 'quick':
        n = 5000
    oracle_replay = None
    if replay and 'case' in replay:
        rc, out = vh(binp, ['c07', 'one'] + replay['case'], timeout=60)
    elif replay and 'oracle' in replay:
        oracle_replay = replay['oracle']
        rc, out = vh(binp, ['c07', 'cases', seed, 0], timeout=120)
    elif replay:
        rc, out = vh(binp, ['c07', 'cases', seed, 0], timeout=120)
    else:
        rc, out = vh(binp, ['c07', 'cases', seed, n], timeout=300)
    try:
        cases, impl = parse_cr(out)
    except RuntimeError as ex:
        cases, impl = [], []
    if rc != 0 or not cases:
        rep.add_broken('correspondence', 'vh c07 cases', 'harness failed: ' + out[-500:])
        cases, impl = [], []
    # a case on which the implementation did not return (watchdog in the harness): a failure of its own
    hung = [c for c, a in zip(cases, impl) if a == [-2]]
    for c in hung[:1]:
        rep.add_violation('K case %s: the layout does not terminate (no result within the harness watchdog period): '
                          'resolve_flexible_lengths must exit after at most #items + 1 rounds (C07_loop_terminates)' % shape(c),
                          {'case': c, 'cmd': 'vh c07 one ' + ' '.join(str(x) for x in c)})
        rep.add_broken('correspondence', 'vh c07 cases', 'implementation hangs on case %s' % c)
    pairs = [(c, a) for c, a in zip(cases, impl) if a != [-2]]
    cases, impl = [p[0] for p in pairs], [p[1] for p in pairs]
    bad = []
    if cases:
        try:
            with Lock('coq'):
                rcm, outm, _ = coq_make(['Model/FlexRun.vo'])
            if rcm != 0:
                raise RuntimeError(outm[-1500:])
            model = run_model('C07', 'From TV Require Import Model.FlexRun.', 'run_case', cases, scope='Z', elem='list Z')
            bad = diff_results(rep, 'flex container of leaves (whole API) vs Model.FlexRun.layout_flex_container over F32', cases, impl, model)
        except RuntimeError as ex:
            rep.add_broken('correspondence', 'model evaluation', str(ex)[-1500:])
    shapes = {}
    for c in cases:
        k = shape(c)
        shapes[k] = shapes.get(k, 0) + 1
    hist = {}
    for c in cases:
        d = decode(c)
        key = 'n=%d' % d['n']
        hist[key] = hist.get(key, 0) + 1
        hist[DIRS[d['dir']]] = hist.get(DIRS[d['dir']], 0) + 1
    rep.cov['distinct_nontrivial'] = len(set(tuple(c) for c in cases))
    rep.cov['rule'] = ('K cases = (direction, justify-content, container size / padding / border / gap, 1..6 leaf items with basis|size, '
                       'min, max, grow, shrink in {0,0.3,1,2.5}, length|auto margins, padding/border, measured content); hand corpus '
                       '(every direction x justify-content with free / negative space, multi-round freezing, scaled shrink, factor sums '
                       '< 1, auto margins + gap, min > max, the refutation witnesses) first, then one PRNG stream; distinct = distinct C '
                       'lines; every case compares the container size and each child\'s unrounded main-axis location and size bit for bit')
    rep.cov['input_distribution'] = hist
    rep.cov['shapes_distinct'] = len(shapes)
    rep.cov['samples'] = [{'case': c, 'impl': a} for c, a in list(zip(cases, impl))[:2] + list(zip(cases, impl))[-2:]]
    rep.cov['samples'].append({'theorem': 'C07_exhausted_partial : finite inputs, hyp = clamp(basis), factors 0 or >= 1 in the direction taken -> '
                                          'resolve_flexible_lengths = Some res, all frozen, and (gaps + sum outer targets == M \\/ '
                                          'growing /\\ every g<>0 item at effmax \\/ shrinking /\\ every s<>0, inner basis<>0 item at effmin)'})
    rep.cov['samples'].append({'theorem': 'C07_order_no_overlap : gap >= 0, margins >= 0 non-auto, inset = 0, sizes >= 0 -> for i < j: '
                                          'loc_i + size_i + margin_end_i + margin_start_j + gap <= loc_j (mirrored for *-reverse)'})
    rep.cov['samples'].append({'theorem': 'C07_loop_terminates : forall items gap M (any XQ values), resolve_flexible_lengths items gap M <> None'})
    # ---------------------------------------------------------------- K2: multi-line containers, both axes
    n2 = 1000 if tier == 'quick' else 20000
    if mine_changed and tier == 'quick':
        n2 = 4000
    wcases, wimpl, wbad = [], [], []
    if replay and 'wcase' in replay:
        rc, out = vh(binp, ['c07', 'wone'] + replay['wcase'], timeout=60)
    elif replay:
        rc, out = vh(binp, ['c07', 'wcases', seed, 0], timeout=120)
    else:
        rc, out = vh(binp, ['c07', 'wcases', seed, n2], timeout=300)
    try:
        wcases, wimpl = parse_cr(out)
    except RuntimeError as ex:
        wcases, wimpl = [], []
    if rc != 0 or not wcases:
        rep.add_broken('correspondence', 'vh c07 wcases', 'harness failed: ' + out[-500:])
        wcases, wimpl = [], []
    for c in [c for c, a in zip(wcases, wimpl) if a == [-2]][:1]:
        rep.add_violation('K2 case %s: the layout does not terminate (no result within the harness watchdog period)' % wshape(c),
                          {'wcase': c, 'cmd': 'vh c07 wone ' + ' '.join(str(x) for x in c)})
        rep.add_broken('correspondence', 'vh c07 wcases', 'implementation hangs on case %s' % c)
    wpairs = [(c, a) for c, a in zip(wcases, wimpl) if a != [-2]]
    wcases, wimpl = [p[0] for p in wpairs], [p[1] for p in wpairs]
    wstruct = []
    if wcases:
        try:
            with Lock('coq'):
                rcm, outm, _ = coq_make(['Model/FlexWrapRun.vo'])
            if rcm != 0:
                raise RuntimeError(outm[-1500:])
            ext = run_model('C07w', 'From TV Require Import Model.FlexWrapRun.', 'run_wrap_case_ext', wcases, scope='Z', elem='list Z')
            wmodel = []
            for e in ext:
                if e and e[0] >= 0:
                    wstruct.append(e[1:1 + e[0]])
                    wmodel.append(e[1 + e[0]:])
                else:
                    wstruct.append([])
                    wmodel.append(e)
            wbad = diff_results(rep, 'multi-line flex container of leaves (whole API, both axes) vs Model.FlexContainer.compute_flexbox_layout over F32',
                                wcases, wimpl, wmodel)
        except RuntimeError as ex:
            rep.add_broken('correspondence', 'model evaluation (K2)', str(ex)[-1500:])
    # the K1 cases through the general model as well (determine_flex_base_size of Model/FlexBase.v instead of the K1 prefix)
    if cases and not rep.broken:
        try:
            g = run_model('C07g', 'From TV Require Import Model.FlexWrapRun.', 'run_wrap_case', [k1_as_k2(c) for c in cases], scope='Z', elem='list Z')
            gm = [k2_result_as_k1(r, c[13]) for r, c in zip(g, cases)]
            diff_results(rep, 'K1 cases vs the general model Model.FlexContainer.compute_flexbox_layout (FlexBase.determine_flex_base_size) over F32',
                         cases, impl, gm)
            rep.cov['k1_through_general_model'] = len(cases)
        except RuntimeError as ex:
            rep.add_broken('correspondence', 'model evaluation (K1 through the general model)', str(ex)[-1500:])
    whist = {}
    for c, st in zip(wcases, wstruct):
        d = wdecode(c)
        for key in (WRAPS[d['wrap']], 'lines=%d' % min(len(st), 5) + ('+' if len(st) >= 5 else '')):
            whist[key] = whist.get(key, 0) + 1
    rep.cov['k2_cases'] = len(wcases)
    rep.cov['k2_distinct'] = len(set(tuple(c) for c in wcases))
    rep.cov['k2_multi_line'] = sum(1 for st in wstruct if len(st) > 1)
    rep.cov['k2_lines_read_off_impl'] = sum(1 for c, a in zip(wcases, wimpl) if impl_lines(c, a) is not None and len(impl_lines(c, a)) > 1)
    rep.cov['k2_input_distribution'] = whist
    rep.cov['k2_rule'] = ('K2 cases = hand corpus (exact fit, overflow of a single item, zero-sized items on a full line, gap decisive, every '
                          'align-content, the five flex-base-size cases, pb-floor) then one PRNG stream: direction x nowrap/wrap/wrap-reverse, '
                          'justify-content, align-content, align-items, definite main size (1/4 of the cases: exactly the sum of the first k plain '
                          'items), definite|auto cross size, min/max main size, padding/border, both gaps; 1..8 leaf children (basis | size | '
                          'aspect ratio + cross size | measured content | nothing; min/max both axes, margins incl. auto on both axes, '
                          'padding/border, overflow, content-box, align-self, fixed / echo measure). Compared bit for bit: container size, every '
                          "child's unrounded location and size on both axes and its four resolved margins (line membership is visible in the "
                          'cross location)')
    if wcases:
        rep.cov['samples'].append({'k2_case': wcases[0], 'impl': wimpl[0]})
        rep.cov['samples'].append({'k2_case': wcases[-1], 'impl': wimpl[-1]})
    rep.cov['samples'].append({'theorem': 'C07_lines_partition : concat (collect_flex_lines ..) = items /\\ every line non-empty (any Num)'})
    rep.cov['samples'].append({'theorem': 'C07_lines_fit / C07_lines_greedy : a line of >= 2 items has sum hyp_outer + gaps <= available; '
                                          'available < sum + gaps + gap + hyp_outer(first item of the next line)'})
    rep.cov['samples'].append({'theorem': 'C07_hyp_is_clamped_basis : base_fin, pb_class (no max, or padding+border <= max, or <= min) -> '
                                          'exh_prem (determine_flex_base_size ..); C07_hyp_is_clamped_basis_refuted outside pb_class'})
    # ---------------------------------------------------------------- K3: the WHOLE algorithm (Model/FlexAlg.v: compute_flexbox_layout as a resumption
    # over the tree interface, assembled from the models above + baselines, indefinite main size, gutters, insets, absolute and hidden
    # children) against the event trace of the implementation: every query input, stored layout and output, bit for bit
    if not replay:
        from . import _flexalg as FA
        FA.flexalg_k(rep, 'C07', binp, seed + 7070, 2000 if (mine_changed or tier != 'quick') else 500, payload_is_broken=True)

    rc, out = vh(binp, ['c07', 'one'] + PBFLOOR_WITNESS, timeout=60)
    try:
        wc, wr = parse_cr(out)
        v = impl_violates(wc[0], wr[0]) if wr[0] != [-2] else ('hang', None)
    except Exception:
        v = None
    if v and v[1] == 'pb-floor':
        rep.known.append('F-C07-pbfloor reproduced: %s | %s' % (v[0], FINDINGS[0]['line']))
    else:
        rep.cov['stale_finding_pbfloor'] = 'witness of C07_exhausted_laid_out_sizes_refuted no longer fails on the implementation: %r' % (v,)
    rc, out = vh(binp, ['c07', 'probe'], timeout=60)
    m = re.search(r'b\.x=([0-9.eE+-]+)', out)
    if m and float(m.group(1)) < 80.0 - 1e-3:
        rep.known.append('F-C07-autogap reproduced: second item at %s, not 80 | %s' % (m.group(1), FINDINGS[1]['line']))
    else:
        rep.cov['stale_finding_autogap'] = 'witness of C07_gap_dropped_with_auto_margins_refuted no longer reproduces: %s' % out[-200:]
    # the witness of C07_inset_refuted (a relative inset shifts an item over its neighbour): replayed, recorded, not a violation -- the
    # oracle's generator produces no relative insets, the model says x = 30 (20 wide) and x = 20
    mi = re.search(r'inset a\.x=([0-9.eE+-]+) a\.w=([0-9.eE+-]+) b\.x=([0-9.eE+-]+)', out)
    if not mi:
        rep.add_broken('search', 'vh c07 probe (inset witness)', out[-300:])
    else:
        got = [float(mi.group(i)) for i in (1, 2, 3)]
        rep.cov['inset_witness'] = {'theorem': 'C07_inset_refuted', 'model': [30.0, 20.0, 20.0], 'implementation': got,
                                    'overlap_on_implementation': got[0] + got[1] > got[2] and got[0] < got[2] + 20.0}
        kf = [k for k in known_findings('C07') if k.get('id') == 'relative-inset-overlap' and k.get('status') == 'known']
        if kf and rep.cov['inset_witness']['overlap_on_implementation']:
            rep.known.append('relative-inset-overlap reproduced: first item at x=%s (%s wide), second at x=%s | %s'
                             % (got[0], got[1], got[2], kf[0]['line'].replace('known: property=C07 relative-inset-overlap ', '')))
        if got != [30.0, 20.0, 20.0]:
            rep.add_broken('correspondence', 'inset witness of C07_inset_refuted: model vs implementation',
                           'model: first item at 30 (20 wide), second at 20; implementation: %r' % got)
    # ---------------------------------------------------------------- search: the two laws directly on the implementation
    ntrees = 200000
    if tier == 'thorough':
        ntrees = 2000000
    if rep.broken or mine_changed:
        ntrees = max(ntrees, 600000)
    fails = []
    if oracle_replay:
        rc, out = vh(binp, ['c07', 'oracle', oracle_replay['seed'], 1, oracle_replay['idx']], timeout=600)
        oseed = oracle_replay['seed']
    else:
        rc, out = vh(binp, ['c07', 'oracle', seed, ntrees], timeout=1500)
        oseed = seed
    for l in out.split('\n'):
        if l.startswith('FAIL '):
            parts = l.split(' ', 2)
            fails.append((int(parts[1]), parts[2]))
    m = re.search(r'ORACLE (\d+) trees, (\d+) flex containers, (\d+) with known lines \((\d+) multi-line\), (\d+) neighbour pairs, (\d+) conservation checks \((\d+) not exactly filled\)', out)
    if m:
        rep.cov['oracle'] = {'trees': int(m.group(1)), 'flex_containers': int(m.group(2)), 'lines_known': int(m.group(3)),
                             'multi_line': int(m.group(4)), 'neighbour_pairs': int(m.group(5)), 'conservation_checks': int(m.group(6)),
                             'not_exactly_filled': int(m.group(7))}
    elif not fails:
        rep.add_broken('search', 'vh c07 oracle', out[-500:])
    nk = 0
    nv = 0
    for idx, msg in fails:
        if '[known:pb-floor]' in msg:
            nk += 1
            if nk <= 2:
                rep.known.append('F-C07-pbfloor (oracle seed %s tree %d): %s' % (oseed, idx, msg))
        elif nv < 3:
            nv += 1
            rep.add_violation(msg, {'oracle': {'seed': oseed, 'idx': idx}, 'cmd': 'vh c07 oracle-one %s %d' % (oseed, idx)})
    rep.cov['oracle_known_pbfloor_hits'] = nk
    # a K disagreement on a concrete input: decide on the implementation alone whether the property fails there
    nb = 0
    for c, a, b in bad:
        v = impl_violates(c, a)
        if v and v[1] is None and nb < 3:
            nb += 1
            rep.add_violation('K case %s: %s' % (shape(c), v[0]), {'case': c, 'impl': a, 'model': b, 'cmd': 'vh c07 one ' + ' '.join(str(x) for x in c)})
    # implementation-side check of the laws on every K case as well (they are layouts like any other)
    nk2 = 0
    for c, a in zip(cases, impl):
        v = impl_violates(c, a)
        if v and v[1] is None and (c, a) not in [(x, y) for x, y, _ in bad] and nk2 < 2 and not rep.violations:
            nk2 += 1
            rep.add_violation('K case %s: %s' % (shape(c), v[0]), {'case': c, 'impl': a, 'cmd': 'vh c07 one ' + ' '.join(str(x) for x in c)})
    # K2: a disagreement on a concrete input is a VIOLATION only when the line laws fail on the implementation's own result
    nb2 = 0
    for c, a, b in wbad:
        v = impl_violates_wrap(c, a)
        if v and nb2 < 3:
            nb2 += 1
            rep.add_violation('K2 case %s: %s' % (wshape(c), v), {'wcase': c, 'impl': a, 'model': b, 'cmd': 'vh c07 wone ' + ' '.join(str(x) for x in c)})
    nw = 0
    wstats = {}
    wbadset = set(tuple(x) for x, _, _ in wbad)
    for c, a in zip(wcases, wimpl):
        if tuple(c) in wbadset:
            continue
        v = impl_violates_wrap(c, a, wstats)
        if v and nw < 2:
            nw += 1
            rep.add_violation('K2 case %s: %s' % (wshape(c), v), {'wcase': c, 'impl': a, 'cmd': 'vh c07 wone ' + ' '.join(str(x) for x in c)})
    rep.cov['k2_impl_oracle'] = wstats
