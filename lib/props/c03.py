"""C03 -- layout computation is total.  This module covers (a) the placement part: proofs Props/C03.v (placement never
panics / overflows / expands negatively / runs out of fuel on the stated domain) + the placement K shared with C08
(model Err <-> panic of a debug build, release and debug harness), and (b) the whole-engine totality fuzz
`vh c03 fuzz` (panic / hang / abort / non-finite output of compute_layout on generated trees) run in a sandboxed
subprocess: a process death or stall after `START i` is a failure of case i and the run continues after it."""
import re

from ..common import *
from ..stages import *
from . import _placement as P

THEOREMS = [
    'C03_placement_total : in_domain ec er children -> exists o, grid_placement_run ec er flow children = Ok o',
    'C03_placement_estimate_covers : ... exists cc rc, compute_grid_size_estimate ec er children = Ok (cc, rc) /\\ ... /\\ '
    'Forall (fun c => axis_fits (c_col c) ec cc /\\ axis_fits (c_row c) er rc) children',
    'C03_placement_search_both_terminates : fuel >= (end_s - sidx) * (primary_len + 2) + (end_p + 2 - pidx) + 2 -> search_both ... = Ok ...',
    'C03_grid_container_never_panics : grid_domain st children inp -> grid_no_panic st children inp = true  (any Num; the whole grid '
    'container: placement arithmetic, item track indices, absolute children\'s lines; explicit counts <= 64, <= 64 children, lines in [-64,64], spans in [1,64])',
    'C03_grid_alg_total_is_grid_alg : grid_domain st children inp -> grid_alg_total st children inp = grid_alg st children inp',
]


def fuzz(binp, seed, n, max_fail=8):
    """returns (evaluated, failures=[{'idx', 'kind', 'msg'}])"""
    fails = []
    start = 0
    done = 0
    while start < n and len(fails) < max_fail:
        lines, status = P.run_stream('%s c03 fuzz %d %d %d' % (binp, seed, start, n - start), idle_timeout=5.0, total_timeout=600)
        cur = None
        last = start - 1
        for line in lines:
            if line.startswith('START '):
                cur = int(line.split()[1])
            elif line.startswith('OK '):
                last = int(line.split()[1])
                cur = None
                done += 1
            elif line.startswith('PANIC '):
                f = line.split(' ', 2)
                fails.append({'idx': int(f[1]), 'kind': 'panic', 'msg': f[2] if len(f) > 2 else ''})
                last = int(f[1])
                cur = None
                done += 1
            elif line.startswith('NONFINITE '):
                fails.append({'idx': int(line.split()[1]), 'kind': 'nonfinite', 'msg': 'a Layout field is not finite'})
                last = int(line.split()[1])
                cur = None
                done += 1
        if cur is not None:
            fails.append({'idx': cur, 'kind': 'died', 'msg': 'compute_layout did not return (%s): hang, abort or allocation blow-up' % status})
            start = cur + 1
            done += 1
        elif status != 'ok':
            raise RuntimeError('vh c03 fuzz: %s' % status)
        else:
            if last + 1 <= start:
                break
            start = last + 1
    return done, fails


def tree_text(binp, seed, idx):
    lines, status = P.run_stream('%s c03 one %d %d' % (binp, seed, idx), idle_timeout=5.0, total_timeout=20)
    return '\n'.join(lines)


def classify_known(binp, seed, f):
    """Match a fuzz failure against the known findings of C03 (status "known")."""
    for k in known_findings('C03'):
        if k.get('status') != 'known':
            continue
        if k.get('id') == 'autofit-repeat-count-track-index':
            if f['kind'] == 'panic' and re.search(r'out of bounds\. (Row|Column) must be less than (\d+), but is \2', f['msg']):
                if 'AutoFit' in tree_text(binp, seed, f['idx']):
                    return k
    return None


LEVEL = 'other'


def run(rep, tier, seed, replay=None):
    res, changed = proof_stage(rep, 'C03', extra_trusted=[
        'proved: grid placement totality, termination of the flex freeze loop / fr search / maximise distribution (restated from C07/C09), index errors leave the tree unchanged (restated from C14); NOT proved: absence of panics / non-finite outputs in the rest of compute_layout (fuzz only)',
        'modelled by hand (tied by K + fingerprints): placement.rs loops, CellOccupancyMatrix, compute_grid_size_estimate, the child filter of grid/mod.rs',
        'model Err classes <-> Rust behaviour: Overflow = arithmetic overflow panic (debug) / wrap (release); OutOfBounds = unwrap on None / Grid index assertion; '
        'NegativeExpansion = `min(start,0) as usize` count near 2^64 (overflow panic, capacity overflow, abort); OutOfFuel = search loop does not terminate'])
    if replay and 'fuzz' in replay:
        rc, out, binp, dt = build_harness('release')
        if rc != 0:
            rep.add_broken('build', 'harness (release)', out[-1500:])
            return
        s, i = replay['fuzz']
        lines, status = P.run_stream('%s c03 fuzz %d %d 1' % (binp, s, i), idle_timeout=5.0, total_timeout=30)
        txt = '\n'.join(lines)
        rep.cov['fuzz_evaluations'] = 1
        if 'OK %d' % i not in txt:
            rep.add_violation('compute_layout fails on generated tree (seed %d, index %d): %s' % (s, i, txt[-300:]),
                              {'fuzz': [s, i], 'cmd': 'vh c03 one %d %d' % (s, i)})
        return
    binp, bad, deaths = P.correspondence(rep, 'C03', tier, seed, changed, replay)
    if binp is None:
        return
    for t in THEOREMS:
        rep.cov['samples'].append({'theorem': t})
    # a placement case on which the implementation panicked / died is a counterexample to totality
    seen = 0
    for d in deaths[:3]:
        rep.add_violation('grid placement did not return (%s) -- %s' % (d['status'], P.describe(d['case'])),
                          {'case': d['case'], 'cmd': 'vh c08 one %s' % ' '.join(str(x) for x in d['case'])})
        seen += 1
    if not seen:
        for c, a, b in bad[:3]:
            if a == [0]:
                rep.add_violation('grid placement panics -- %s' % P.describe(c),
                                  {'case': c, 'impl': a, 'model': b, 'cmd': 'vh c08 one %s' % ' '.join(str(x) for x in c)})
                seen += 1
    # placement oracle (panic / hang only matter here; the C08 clauses are C08's business)
    if not replay:
        try:
            done, fails = P.run_oracle(binp, seed + 7, 200000 if (rep.broken or tier == 'thorough') else 30000)
            rep.cov['placement_oracle_evaluations'] = done
            for f in fails[:3]:
                if 'panic' in f['msg'] or 'did not return' in f['msg']:
                    rep.add_violation('%s -- %s' % (f['msg'], P.describe(f['case'])),
                                      {'case': f['case'], 'cmd': 'vh c08 one %s' % ' '.join(str(x) for x in f['case'])})
        except RuntimeError as ex:
            rep.add_broken('search', 'vh c08 oracle', str(ex)[-800:])
    # ---- whole-engine totality fuzz
    if replay:
        return
    # regression corpus: minimal reproducers of the repaired totality defects (known_findings.json, status fixed)
    corpus_ok = 0
    for i in range(7):
        rc_, out_, _ = sh('ulimit -v 4000000; timeout 10 %s c03 corpus %d' % (binp, i), timeout=20)
        if 'CORPUS %d OK' % i in out_:
            corpus_ok += 1
        else:
            rep.add_violation('regression corpus case %d no longer returns a finite layout (%s)' % (i, out_.strip()[-120:] or 'process died / timed out'),
                              {'corpus': i, 'cmd': 'vh c03 corpus %d' % i})
    rep.cov['regression_corpus_ok'] = corpus_ok
    # "accessor and mutator calls with out-of-range child indices return an error rather than panic": deterministic sweep of every
    # index-taking TaffyTree method around the bounds (the theorem C03_index_errors is about the C14 model of the same methods)
    rc_, out_ = vh(binp, ['c03', 'indexerrors'], timeout=60)
    m_ = re.search(r'^INDEXERRORS calls (\d+)', out_, re.M)
    if not m_:
        rep.add_broken('search', 'vh c03 indexerrors', out_[-400:])
    else:
        rep.cov['index_error_calls'] = int(m_.group(1))
        kf = [k for k in known_findings('C03') if k.get('id') == 'remove-children-range-panics' and k.get('status') == 'known']
        bad_lines = [l for l in out_.split('\n') if l.startswith(('PANIC ', 'ACCEPTED ', 'CHANGED '))]
        known_lines = [l for l in bad_lines if l.startswith('PANIC remove_children_range ') and kf]
        for l in [l for l in bad_lines if l not in known_lines][:3]:
            rep.add_violation('out-of-range child index: %s' % l, {'cmd': 'vh c03 indexerrors', 'line': l})
        if known_lines:
            rep.known.append(kf[0]['line'].replace('known: property=C03 ', '') + '  [%d of %d out-of-range calls of this run]' % (len(known_lines), int(m_.group(1))))
    rep.cov['explanation'] = ('Totality is a theorem for grid placement (Props/C03.v: no overflow, no out-of-bounds, no negative expansion, '
                              'termination, on the stated domain), tied by the placement correspondence in release and debug builds, and for the panic '
                              'sites of the whole grid container model (C03_grid_container_never_panics: item and absolute-child track indices). Everything else in '
                              'C03 (no panic / hang / blow-up / non-finite output anywhere in compute_layout) is explored: regression corpus of repaired '
                              'defects, placement oracle, and a sandboxed whole-engine fuzz (ulimit -v, watchdog).')
    n = 3000 if tier == 'quick' else 60000
    try:
        done, fails = fuzz(binp, seed, n)
        rep.cov['fuzz_evaluations'] = done
        rep.cov['fuzz_failures'] = len(fails)
        reported = 0
        for f in fails:
            k = classify_known(binp, seed, f)
            if k:
                rep.known.append(k['line'])
                continue
            if reported < 3:
                what = {'panic': 'compute_layout panics: %s', 'nonfinite': 'compute_layout returns a non-finite number: %s',
                        'died': '%s'}[f['kind']] % f['msg']
                rep.add_violation('%s (generated tree: seed %d, index %d)' % (what, seed, f['idx']),
                                  {'fuzz': [seed, f['idx']], 'cmd': 'vh c03 one %d %d' % (seed, f['idx'])})
                reported += 1
        rep.known = sorted(set(rep.known))
    except RuntimeError as ex:
        rep.add_broken('search', 'vh c03 fuzz', str(ex)[-800:])
