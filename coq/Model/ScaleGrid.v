(* C04 -- uniform scaling of the inputs of the grid track kernels (Model/GridTracks.v), over the exact instance XQ, and
   the THRESHOLD-parametrised forms of the two kernels that compare a length with an absolute constant.  Definitions only.

   Lengths: `SLength v`, `SFitPx v` (fit-content(px)), offset / base size / growth limit / the three planned increases of
   a track, the available space, the container's min / max size, item contributions.  Dimensionless: `SPercent v`,
   `SFitPct v`, `SFr v`.  Kinds, flags and counts are copied.

   THRESHOLD.  distribute_space_up_to_limits compares lengths with the constant THRESHOLD = 0.01
   (`while space > THRESHOLD`, `base + increase <= limit + THRESHOLD`), and so does maximise_tracks through it.
   `*_t tau` below are the same definitions with the threshold as an explicit argument; with tau := threshold they ARE the
   definitions of Model/GridTracks.v (lemma `*_t_threshold`, by reflexivity, Proofs/ScaleGrid.v).  The threshold is a length:
   the kernels are homogeneous when it is scaled along (tau -> k tau), i.e. for the real, fixed threshold
       dist THRESHOLD (scale k x)  ~  scale k (dist (THRESHOLD / k) x). *)
From Coq Require Import QArith List Bool ZArith NArith.
From TV Require Import Num.Num Num.QNum Gen.GridTracksGen Model.GridTracks.
From TV Require Export Model.ScaleBase.
Import ListNotations.

(* ------------------------------------------------------------------------------------------------------------ *)
(** * The kernels with the threshold as an argument (any number structure) *)
Section ThresholdForms.
  Context {T : Type} `{Num T}.
  Local Open Scope num_scope.
  Variable tau : T.

  Section Distribute.
    Variable is_affected : track T -> bool.
    Variable proportion : track T -> T.
    Variable prop : track T -> T.
    Variable limit : track T -> T.

    Fixpoint apply_increase_t (inc : T) (space : T) (tracks : list (track T)) : T * list (track T) :=
      match tracks with
      | [] => (space, [])
      | t :: r =>
          if is_affected t then
            let increase := inc * proportion t in
            if (zero <? increase) && (prop t + increase <=? limit t + tau) then
              let '(s', r') := apply_increase_t inc (space - increase) r in
              (s', set_incurred t (incurred t + increase) :: r')
            else let '(s', r') := apply_increase_t inc space r in (s', t :: r')
          else let '(s', r') := apply_increase_t inc space r in (s', t :: r')
      end.

    Definition distribute_step_t (space : T) (tracks : list (track T)) : option (T * list (track T)) :=
      if tau <? space then
        let g := filter (growable is_affected prop limit) tracks in
        let psum := fsum (map proportion g) in
        if psum =? zero then None
        else
          let min_increase_limit := min_by_first (map (fun t => (limit t - prop t) / proportion t) g) in
          let inc := fmin min_increase_limit (space / psum) in
          Some (apply_increase_t inc space tracks)
      else None.

    Fixpoint distribute_loop_t (fuel : nat) (space : T) (tracks : list (track T)) : T * list (track T) :=
      match fuel with
      | O => (space, tracks)
      | S f =>
          match distribute_step_t space tracks with
          | None => (space, tracks)
          | Some (s', ts') => distribute_loop_t f s' ts'
          end
      end.
  End Distribute.

  Definition distribute_space_up_to_limits_t (space : T) (tracks : list (track T)) (is_affected : track T -> bool)
             (proportion prop limit : track T -> T) : T * list (track T) :=
    distribute_loop_t is_affected proportion prop limit (distribute_fuel tracks) space tracks.

  Definition maximise_tracks_t (inner : option T) (avail : avail_space T) (tracks : list (track T)) : list (track T) :=
    let used := fsum (map base_size tracks) in
    let free := compute_free_space avail used in
    if free =? infinity then map (fun t => set_base t (growth_limit t)) tracks
    else if zero <? free then
      let '(_, ts) := distribute_space_up_to_limits_t free tracks (fun _ => true) (fun _ => one) base_size
                        (fit_content_limited_growth_limit inner) in
      flush_incurred_to_base ts
    else tracks.

  (* 11.5.1 distribute_item_space_to_base_size: the second absolute constant (0.000001: `extra > THRESHOLD` decides whether
     the space is distributed beyond the limits) is the argument tau2 *)
  Definition distribute_item_space_to_base_size_inner_t (tau2 : T) (space : T) (tracks : list (track T))
             (is_affected : track T -> bool) (proportion limit : track T -> T) (ct : contribution_type) : list (track T) :=
    if (space =? zero) || negb (existsb is_affected tracks) then tracks
    else
      let track_sizes := fsum (map base_size tracks) in
      let extra := fmax zero (space - track_sizes) in
      let '(extra1, ts1) := distribute_space_up_to_limits_t extra tracks is_affected proportion base_size limit in
      let ts2 :=
        if tau2 <? extra1 then
          let filter1 := match ct with
                         | CMinimum => fun t => is_intrinsic (maxf t)
                         | CMaximum => fun t => is_max_content (minf t) || is_max_or_fit_content (maxf t)
                         end in
          let number := length (filter (fun t => is_affected t && filter1 t) ts1) in
          let filter2 := match number with O => fun _ => true | _ => filter1 end in
          snd (distribute_space_up_to_limits_t extra1 ts1 filter2 proportion base_size limit)
        else ts1 in
      map (fun t => let t' := if base_planned t <? incurred t then set_base_planned t (incurred t) else t in
                    set_incurred t' zero) ts2.

  Definition distribute_item_space_to_base_size_t (tau2 : T) (is_flex use_flex_factor : bool) (space : T) (tracks : list (track T))
             (is_affected : track T -> bool) (limit : track T -> T) (ct : contribution_type) : list (track T) :=
    if is_flex then
      let flt := fun t => is_flexible t && is_affected t in
      if use_flex_factor then distribute_item_space_to_base_size_inner_t tau2 space tracks flt flex_factor limit ct
      else distribute_item_space_to_base_size_inner_t tau2 space tracks flt (fun _ => one) limit ct
    else distribute_item_space_to_base_size_inner_t tau2 space tracks is_affected (fun _ => one) limit ct.

  (* track_sizing_algorithm (11.4 .. 11.8) with the threshold of step 11.6 explicit; step 11.5 is an argument *)
  Definition track_sizing_algorithm_t (axis_min axis_max : option T) (stretch : bool) (avail : avail_space T)
             (inner : option T) (intrinsic : list (track T) -> list (track T)) (flex_items : list (nat * nat * T))
             (tracks : list (track T)) : list (track T) :=
    let ts0 := initialize_track_sizes inner tracks in
    if forallb (fun t => base_size t =? growth_limit t) ts0 then ts0
    else
      let ts1 := intrinsic ts0 in
      let ts2 := maximise_tracks_t inner avail ts1 in
      let avail_exp := match inner with
                       | Some s => Definite s
                       | None => match avail with MinContentA => MinContentA | _ => MaxContentA end
                       end in
      let ts3 := expand_flexible_tracks axis_min axis_max avail_exp flex_items ts2 in
      if stretch then stretch_auto_tracks axis_min avail_exp ts3 else ts3.
End ThresholdForms.

(* ------------------------------------------------------------------------------------------------------------ *)
(** * Scaling and relations over XQ *)

Definition sfn_rel (k : Q) (f f' : sfn XQ) : Prop :=
  match f, f' with
  | SLength v, SLength v' => sc k v v'
  | SFitPx v, SFitPx v' => sc k v v'
  | SPercent v, SPercent v' => dl v v'
  | SFitPct v, SFitPct v' => dl v v'
  | SFr v, SFr v' => dl v v'
  | SAuto, SAuto | SMinContent, SMinContent | SMaxContent, SMaxContent => True
  | _, _ => False
  end.
Definition sfn_scale (k : Q) (f : sfn XQ) : sfn XQ :=
  match f with SLength v => SLength (x_scale k v) | SFitPx v => SFitPx (x_scale k v) | o => o end.

Definition nrt_rel (k : Q) (t t' : nrt XQ) : Prop := sfn_rel k (fst t) (fst t') /\ sfn_rel k (snd t) (snd t').
Definition nrt_scale (k : Q) (t : nrt XQ) : nrt XQ := (sfn_scale k (fst t), sfn_scale k (snd t)).

Definition tsf_rel (k : Q) (e e' : tsf XQ) : Prop :=
  match e, e' with
  | TSingle t, TSingle t' => nrt_rel k t t'
  | TRepeat r ts, TRepeat r' ts' => r' = r /\ Forall2 (nrt_rel k) ts ts'
  | _, _ => False
  end.
Definition tsf_scale (k : Q) (e : tsf XQ) : tsf XQ :=
  match e with TSingle t => TSingle (nrt_scale k t) | TRepeat r ts => TRepeat r (map (nrt_scale k) ts) end.

Definition track_rel (k : Q) (t t' : track XQ) : Prop :=
  kind t' = kind t /\ is_collapsed t' = is_collapsed t /\ sfn_rel k (minf t) (minf t') /\ sfn_rel k (maxf t) (maxf t') /\
  sc k (offset t) (offset t') /\ sc k (base_size t) (base_size t') /\ sc k (growth_limit t) (growth_limit t') /\
  sc k (incurred t) (incurred t') /\ sc k (base_planned t) (base_planned t') /\ sc k (limit_planned t) (limit_planned t') /\
  infinitely_growable t' = infinitely_growable t.
Definition track_scale (k : Q) (t : track XQ) : track XQ :=
  mk_track (kind t) (is_collapsed t) (sfn_scale k (minf t)) (sfn_scale k (maxf t)) (x_scale k (offset t))
           (x_scale k (base_size t)) (x_scale k (growth_limit t)) (x_scale k (incurred t)) (x_scale k (base_planned t))
           (x_scale k (limit_planned t)) (infinitely_growable t).
Definition tracks_rel (k : Q) : list (track XQ) -> list (track XQ) -> Prop := Forall2 (track_rel k).

Definition gavail_rel (k : Q) (a a' : avail_space XQ) : Prop :=
  match a, a' with
  | Definite v, Definite v' => sc k v v'
  | MinContentA, MinContentA | MaxContentA, MaxContentA => True
  | _, _ => False
  end.
Definition gavail_scale (k : Q) (a : avail_space XQ) : avail_space XQ :=
  match a with Definite v => Definite (x_scale k v) | o => o end.

(* items crossing flexible tracks: (start, length) of the crossed tracks and the max-content contribution (a length) *)
Definition fitem_rel (k : Q) (i i' : nat * nat * XQ) : Prop := fst i' = fst i /\ sc k (snd i) (snd i').
Definition fitem_scale (k : Q) (i : nat * nat * XQ) : nat * nat * XQ := (fst i, x_scale k (snd i)).

(* the hypotheses on the function arguments of distribute_space_up_to_limits *)
Definition affected_inv (k : Q) (f f' : track XQ -> bool) : Prop := forall t t', track_rel k t t' -> f' t' = f t.
Definition tfun_sc (k : Q) (f f' : track XQ -> XQ) : Prop := forall t t', track_rel k t t' -> sc k (f t) (f' t').
Definition tfun_dl (k : Q) (f f' : track XQ -> XQ) : Prop := forall t t', track_rel k t t' -> dl (f t) (f' t').
