"""Mutation experiments for the flex resumption (Model/FlexAlg.v) and its K (never touches /repo: a scratch worktree, /tmp/w4c-repo or
$MUT_REPO).  usage: python3 notes/FLEXALG.mutate.py [names...]   (creates the worktree if missing; remove it afterwards with
       git -C /repo worktree remove --force /tmp/w4c-repo)"""
import json
import os
import subprocess
import sys
import time

R = os.environ.get('MUT_REPO', '/tmp/w4c-repo')
W = os.path.dirname(os.path.dirname(os.path.abspath(__file__)))
FLEX = 'src/compute/flexbox.rs'


def reset():
    subprocess.run(['git', '-C', R, 'checkout', '--', '.'], check=True)


# name -> ({check: expected to report}, [(file, old, new)])
MUT = {
    'F1_hidden_query_not_canonical': ({'C05': True, 'C06': True, 'C07': True}, [(FLEX, """                Size::NONE,
                Size::NONE,
                Size::MAX_CONTENT,
                SizingMode::InherentSize,
                Line::FALSE,
            );
            // Set the order after the hidden layout""", """                Size::NONE,
                Size::NONE,
                Size::MIN_CONTENT,
                SizingMode::InherentSize,
                Line::FALSE,
            );
            // Set the order after the hidden layout""")]),
    'F2_flex_items_include_display_none_children': ({'C05': True, 'C06': True, 'C07': True}, [(FLEX, """        .filter(|(_, _, style)| style.position() != Position::Absolute)
        .filter(|(_, _, style)| style.box_generation_mode() != BoxGenerationMode::None)
""", """        .filter(|(_, _, style)| style.position() != Position::Absolute)
""")]),
    'F3_abs_pass_also_visits_hidden_absolute_children': ({'C05': True, 'C06': True, 'C07': True}, [(FLEX, """        if child_style.box_generation_mode() == BoxGenerationMode::None || child_style.position() != Position::Absolute
        {
            continue;
        }""", """        if child_style.position() != Position::Absolute {
            continue;
        }""")]),
    'F4_baselines_computed_after_the_compute_size_return': ({'C05': True, 'C06': True, 'C07': True}, [
        (FLEX, """    debug_log!("calculate_children_base_lines");
    calculate_children_base_lines(tree, known_dimensions, available_space, &mut flex_lines, &constants);
""", """    debug_log!("calculate_children_base_lines");
    if run_mode != RunMode::ComputeSize {
        calculate_children_base_lines(tree, known_dimensions, available_space, &mut flex_lines, &constants);
    }
""")]),
    # payload only: C05 / C06 stay silent (their theorems use no arithmetic fact), C07 owns the arithmetic
    'F5_flex_basis_not_floored_by_padding_border': ({'C05': False, 'C06': False, 'C07': True}, [(FLEX, """        child.flex_basis = child.flex_basis.max(padding_border_sum);
""", """        let _ = padding_border_sum;
""")]),
    'F6_final_pass_walks_lines_forward_under_wrap_reverse': ({'C05': True, 'C06': True, 'C07': True}, [(FLEX, """    if constants.is_wrap_reverse {
        for line in flex_lines.iter_mut().rev() {
            calculate_layout_line(""", """    if false {
        for line in flex_lines.iter_mut().rev() {
            calculate_layout_line(""")]),
    'F7_abs_child_query_sees_item_count': ({'C05': False, 'C06': False, 'C07': True}, [(FLEX, """            constants.node_inner_size,
            Size {
                width: AvailableSpace::Definite(container_width.maybe_clamp(min_size.width, max_size.width)),""", """            constants.node_inner_size,
            Size {
                width: AvailableSpace::Definite(container_width.maybe_clamp(min_size.width, max_size.width) + order as f32),""")]),
    # harmless rewrites: must stay silent
    'H1_harmless': ({'C05': False, 'C06': False, 'C07': False}, [
        (FLEX, """        if tree.get_flexbox_child_style(child).box_generation_mode() == BoxGenerationMode::None {
            tree.perform_child_layout(""", """        if matches!(tree.get_flexbox_child_style(child).box_generation_mode(), BoxGenerationMode::None) {
            tree.perform_child_layout("""),
        (FLEX, """        let padding_border_sum = (child.padding + child.border).cross_axis_sum(constants.dir);

        let child_known_main = constants.container_size.main(constants.dir).into();
""", """        let child_known_main = constants.container_size.main(constants.dir).into();
        let padding_border_sum = (child.padding + child.border).cross_axis_sum(constants.dir);
""")]),
}


def main():
    if not os.path.isdir(R):
        subprocess.run(['git', '-C', '/repo', 'worktree', 'add', R, 'HEAD'], check=True)
    names = sys.argv[1:] or list(MUT)
    checks = os.environ.get('MUT_CHECKS', 'C05').split(',')
    for name in names:
        reset()
        expect, edits = MUT[name]
        for f, old, new in edits:
            p = os.path.join(R, f)
            s = open(p).read()
            assert s.count(old) == 1, (name, f, s.count(old))
            open(p, 'w').write(s.replace(old, new))
        for pid in checks:
            t0 = time.time()
            cmd = 'ulimit -v 6000000; exec timeout 1200 ./check %s' % pid
            p = subprocess.run(['sh', '-c', cmd], cwd=W, env=dict(os.environ, VERIF_REPO=R), capture_output=True, text=True)
            dt = time.time() - t0
            want = expect.get(pid)
            print('=====', name, pid, 'rc', p.returncode, '%.0fs' % dt, 'expected-to-report' if want else 'expected-silent',
                  'OK' if (p.returncode != 0) == bool(want) else '*** UNEXPECTED ***', flush=True)
            for l in p.stdout.split('\n'):
                if l.strip() and not l.startswith('KNOWN-FINDING'):
                    print('   ', l[:200])
            ev = json.load(open(os.path.join(W, '.work', 'evidence-alt', pid + '.json')))
            c = ev['coverage']
            print('    flexalg_k', {k: v for k, v in (c.get('flexalg_k') or {}).items() if k in ('cases', 'structure_agrees', 'bit_exact')},
                  'ns_witness', (c.get('flex_ns_witness') or {}).get('reproduces_on_implementation'),
                  'obligations', c.get('obligations'), 'discharged', c.get('discharged'))
            rd = os.path.join(W, '.work', 'evidence-alt', 'replay')
            seen = set()
            for f in sorted(os.listdir(rd)):
                if f.startswith(pid + '-'):
                    d = json.load(open(os.path.join(rd, f)))
                    print('     ', f, '|', d['what'][:300])
                    for b in d.get('broken', []):
                        key = b['kind'] + ':' + b['name']
                        if key not in seen:
                            seen.add(key)
                            print('         broken', key[:90], '|', str(b.get('detail'))[:260].replace('\n', ' '))
                    os.remove(os.path.join(rd, f))
    reset()


main()
