(* GENERATED on every run by /verif/translator/gen_flex.py from src/compute/common/alignment.rs, src/compute/flexbox.rs and src/style/alignment.rs -- do not edit. *)
From Coq Require Import ZArith QArith Bool List.
From TV Require Import Num.Num.
Import ListNotations.
(* enum AlignContent (= JustifyContent), variants in declaration order *)
Inductive AlignContent := AC_Start | AC_End | AC_FlexStart | AC_FlexEnd | AC_Center | AC_Stretch | AC_SpaceBetween | AC_SpaceEvenly | AC_SpaceAround.
Definition all_align_content : list AlignContent := [AC_Start; AC_End; AC_FlexStart; AC_FlexEnd; AC_Center; AC_Stretch; AC_SpaceBetween; AC_SpaceEvenly; AC_SpaceAround].
Section FlexGen.
Context {T : Type} `{Num T}.
Definition apply_alignment_fallback (free_space : T) (num_items : Z) (alignment_mode : AlignContent) (is_safe : bool) : AlignContent :=
  (let '(alignment_mode, is_safe) := if (orb (Z.leb num_items 1) (leb free_space zero)) then (match alignment_mode with | AC_Stretch => (AC_FlexStart, true) | AC_SpaceBetween => (AC_FlexStart, true) | AC_SpaceAround => (AC_Center, true) | AC_SpaceEvenly => (AC_Center, true) | _ => (alignment_mode, is_safe) end) else (alignment_mode, is_safe) in let alignment_mode := if (andb (leb free_space zero) is_safe) then AC_Start else alignment_mode in alignment_mode).
Definition compute_alignment_offset (free_space : T) (num_items : Z) (gap : T) (alignment_mode : AlignContent) (layout_is_flex_reversed : bool) (is_first : bool) : T :=
  (if is_first then (match alignment_mode with | AC_Start => zero | AC_FlexStart => (if layout_is_flex_reversed then free_space else zero) | AC_End => free_space | AC_FlexEnd => (if layout_is_flex_reversed then zero else free_space) | AC_Center => (div free_space (of_Z 2)) | AC_Stretch => zero | AC_SpaceBetween => zero | AC_SpaceAround => (if (leb zero free_space) then (div (div free_space (of_Z num_items)) (of_Z 2)) else (div free_space (of_Z 2))) | AC_SpaceEvenly => (if (leb zero free_space) then (div free_space (of_Z (Z.add num_items 1))) else (div free_space (of_Z 2))) end) else (let free_space := (fmax free_space zero) in (add gap (match alignment_mode with | AC_Start => zero | AC_FlexStart => zero | AC_End => zero | AC_FlexEnd => zero | AC_Center => zero | AC_Stretch => zero | AC_SpaceBetween => (div free_space (of_Z (Z.sub num_items 1))) | AC_SpaceAround => (div free_space (of_Z num_items)) | AC_SpaceEvenly => (div free_space (of_Z (Z.add num_items 1))) end)))).
Definition sum_axis_gaps (gap : T) (num_items : Z) : T :=
  (if (Z.leb num_items 1) then zero else (mul gap (of_Z (Z.sub num_items 1)))).
End FlexGen.
