#!/bin/bash
# seed_check.sh <PID> [extra check pid]: run ./check against /tmp/seed/<PID> (patch must be applied there) from the seedchk worktree
PID=$1; C=${2:-$1}; L=/root/w/seedlog-$PID
cd /root/w/seedchk && VERIF_REPO=/tmp/seed/$PID timeout 2400 ./check $C --tier quick > $L/check.log 2>&1; echo $? > $L/check.rc
grep -E "^(VIOLATION|KNOWN-FINDING)" $L/check.log | cut -c1-300; echo rc=$(cat $L/check.rc)
