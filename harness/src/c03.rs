//! C03 search: whole-engine totality fuzz.  `vh c03 fuzz <seed> <start> <n>` lays out generated trees one by one and prints
//! `OK <idx>` after each; a panic is caught and printed as `PANIC <idx> <message>`; a non-finite output as `NONFINITE <idx>`.
//! Aborts (allocation blow-up) and hangs are observed by the driver: the last `START <idx>` without `OK` names the case.
use crate::rng::Rng;
use crate::treegen::*;
use std::io::Write;
use taffy::prelude::*;

pub fn cfg_for(tier: u64) -> GenCfg {
    let mut cfg = GenCfg::default();
    if tier > 0 {
        cfg.max_nodes = 24;
        cfg.max_children = 6;
    }
    cfg
}

pub fn case(seed: u64, idx: u64) -> (NodeSpec, Size<AvailableSpace>, bool) {
    let mut rng = Rng::new(seed.wrapping_mul(0x9E37_79B9).wrapping_add(idx));
    let mut cfg = cfg_for(0);
    // a third of the cases concentrate on grids with line placements
    if idx % 3 == 0 {
        cfg.displays = vec![Display::Grid];
        cfg.p_hidden = 100;
        cfg.p_absolute = 150;
        cfg.max_depth = 2;
    }
    cfg.fractional = idx % 2 == 1;
    let t = tree(&mut rng, &cfg);
    let a = avail(&mut rng, &cfg);
    let rounding = rng.chance(1, 2);
    (t, a, rounding)
}

fn all_finite(t: &TaffyTree<Ctx>, ids: &[NodeId]) -> bool {
    ids.iter().all(|id| layout_floats(t.layout(*id).unwrap()).iter().all(|x| x.is_finite()) && layout_floats(t.unrounded_layout(*id)).iter().all(|x| x.is_finite()))
}

pub fn run_one(seed: u64, idx: u64, verbose: bool) -> Result<bool, String> {
    let (spec, a, rounding) = case(seed, idx);
    if verbose {
        println!("{:#?}\navail={:?} rounding={}", spec, a, rounding);
    }
    let r = std::panic::catch_unwind(|| {
        let mut t: TaffyTree<Ctx> = TaffyTree::new();
        if !rounding {
            t.disable_rounding();
        }
        let mut ids = vec![];
        let root = build(&mut t, &spec, &mut ids);
        compute(&mut t, root, a);
        all_finite(&t, &ids)
    });
    match r {
        Ok(f) => Ok(f),
        Err(e) => Err(e.downcast_ref::<String>().cloned().or_else(|| e.downcast_ref::<&str>().map(|s| s.to_string())).unwrap_or_default()),
    }
}

pub fn main(args: &[String]) {
    if std::env::var("VH_BACKTRACE").is_err() {
        std::panic::set_hook(Box::new(|_| {}));
    }
    match args[0].as_str() {
        "fuzz" => {
            let seed: u64 = args[1].parse().unwrap();
            let start: u64 = args[2].parse().unwrap();
            let n: u64 = args[3].parse().unwrap();
            let out = std::io::stdout();
            for idx in start..start + n {
                {
                    let mut o = out.lock();
                    writeln!(o, "START {idx}").unwrap();
                    o.flush().unwrap();
                }
                match run_one(seed, idx, false) {
                    Ok(true) => println!("OK {idx}"),
                    Ok(false) => println!("NONFINITE {idx}"),
                    Err(m) => println!("PANIC {idx} {}", m.replace('\n', " ")),
                }
            }
        }
        "one" => {
            let seed: u64 = args[1].parse().unwrap();
            let idx: u64 = args[2].parse().unwrap();
            println!("{:?}", run_one(seed, idx, true));
        }
        _ => std::process::exit(2),
    }
}
