"""Translate the regular parts of the grid track code into Gallina (Gen/GridTracksGen.v):

  * the two THRESHOLD constants of src/compute/grid/track_sizing.rs
    (distribute_space_up_to_limits: 0.01, distribute_item_space_to_base_size_inner: 0.000001) as exact rationals;
  * the track-counting `match track_def { Single(_) => 1, Repeat(Count(c), tracks) => c * tracks.len(), Repeat(AutoFit|AutoFill,_) => 0 }`
    of compute_explicit_grid_size_in_axis and of initialize_grid_tracks (src/compute/grid/explicit_grid.rs) as functions
    of the *shape* of a template entry;
  * the variant list of AlignContent (a model Inductive that drifted is detected here).

Everything else of the track code is hand-modelled (Model/GridTracks.v); the bodies of those functions are fingerprinted.
Fails closed (Refuse) on any source form it does not recognise."""
import re
from fractions import Fraction
from rustparse import *

TS = 'src/compute/grid/track_sizing.rs'
EG = 'src/compute/grid/explicit_grid.rs'
AL = 'src/compute/grid/alignment.rs'
ST = 'src/style/alignment.rs'

SHAPES = ['ShSingle', 'ShRepeatCount', 'ShRepeatAutoFit', 'ShRepeatAutoFill']


class Refuse(Exception):
    pass


def threshold_in(body, fn):
    """`const THRESHOLD : f32 = <decimal literal> ;` inside a function body (exactly one)."""
    hits = [i for i in range(len(body)) if seq_at(body, i, ['const', 'THRESHOLD', ':', 'f32', '='])]
    if len(hits) != 1:
        raise Refuse("%s: expected exactly one `const THRESHOLD: f32`, found %d" % (fn, len(hits)))
    i = hits[0]
    if body[i + 5][0] != 'num' or body[i + 6][1] != ';':
        raise Refuse("%s: THRESHOLD is not a plain literal" % fn)
    txt = clean_num(body[i + 5][1])
    if not re.match(r'^[0-9]+\.[0-9]+$', txt):
        raise Refuse("%s: THRESHOLD literal %r is not a plain decimal" % (fn, txt))
    q = Fraction(txt)
    if q <= 0:
        raise Refuse("%s: THRESHOLD is not positive" % fn)
    return q


def matches_on(body, scrut):
    """All `match <scrut> { ... }` expressions in a token list, parsed."""
    out = []
    for i in range(len(body) - 2):
        if body[i] == ('id', 'match') and body[i + 1] == ('id', scrut) and body[i + 2][1] == '{':
            e = match_brace(body, i + 2)
            out.append(parse_expr(body[i:e + 1]))
    return out


def last(p):
    return p[1][-1] if p[0] in ('ppath', 'pts', 'pstruct') else (p[1] if p[0] == 'pident' else None)


def arm_shapes(pat):
    """(shapes covered, {rust binder: coq binder}) for one arm pattern over TrackSizingFunction."""
    if pat[0] != 'pts' or pat[1][-2:] not in (['TrackSizingFunction', 'Single'], ['TrackSizingFunction', 'Repeat']):
        raise Refuse("arm pattern %r" % (pat,))
    if pat[1][-1] == 'Single':
        if len(pat[2]) != 1 or pat[2][0][0] != 'pwild':
            raise Refuse("Single(..) binds its argument in a counting match")
        return ['ShSingle'], {}
    if len(pat[2]) != 2:
        raise Refuse("Repeat pattern arity")
    rep, trk = pat[2]
    env = {}
    if trk[0] == 'pident':
        env[trk[1]] = ('len', 'tracks_len')
    elif trk[0] != 'pwild':
        raise Refuse("Repeat(_, %r)" % (trk,))
    alts = rep[1] if rep[0] == 'por' else [rep]
    shapes = []
    for a in alts:
        nm = last(a)
        if a[0] == 'pts' and nm == 'Count':
            if len(a[2]) != 1:
                raise Refuse("Count arity")
            if a[2][0][0] == 'pident':
                env[a[2][0][1]] = ('n', 'count')
            elif a[2][0][0] != 'pwild':
                raise Refuse("Count(%r)" % (a[2][0],))
            shapes.append('ShRepeatCount')
        elif a[0] in ('ppath', 'pident') and nm == 'AutoFit':
            shapes.append('ShRepeatAutoFit')
        elif a[0] in ('ppath', 'pident') and nm == 'AutoFill':
            shapes.append('ShRepeatAutoFill')
        else:
            raise Refuse("repetition pattern %r" % (a,))
    return shapes, env


def count_expr(e, env):
    """u16-valued expression over the binders of an arm -> Gallina N term."""
    k = e[0]
    if k == 'lit' and re.match(r'^[0-9]+$', e[1]):
        return e[1]
    if k == 'path' and len(e[1]) == 1 and e[1][0] in env and env[e[1][0]][0] == 'n':
        return env[e[1][0]][1]
    if k == 'un' and e[1] == '*':
        return count_expr(e[2], env)
    if k == 'cast' and e[2].replace(' ', '') in ('u16', 'usize'):
        return count_expr(e[1], env)
    if k == 'mcall' and e[2] == 'len' and not e[3] and e[1][0] == 'path' and len(e[1][1]) == 1 \
            and e[1][1][0] in env and env[e[1][1][0]][0] == 'len':
        return env[e[1][1][0]][1]
    if k == 'bin' and e[1] in ('*', '+'):
        return '(%s %s %s)' % (count_expr(e[2], env), e[1], count_expr(e[3], env))
    raise Refuse("counting expression %r" % (e,))


def count_table(name, m):
    """A parsed `match track_def {..}` whose arms are integer expressions -> Gallina definition text."""
    covered = {}
    for arm in m[2]:
        pat, guard, ex = arm[0], arm[1], arm[2]
        if guard is not None:
            raise Refuse("%s: guarded arm" % name)
        shapes, env = arm_shapes(pat)
        for s in shapes:
            if s in covered:
                continue        # first matching arm wins
            # binders of an or-pattern alternative that does not bind them cannot be used
            term = count_expr(ex, env)
            if s != 'ShRepeatCount' and 'count' in term:
                raise Refuse("%s: `count` used outside Count(..)" % name)
            covered[s] = term
    if sorted(covered) != sorted(SHAPES):
        raise Refuse("%s: arms cover %r" % (name, sorted(covered)))
    lines = ['Definition %s (e : entry_shape) : N :=' % name, '  match e with',
             '  | ShSingle => %s' % covered['ShSingle'],
             '  | ShRepeatCount count tracks_len => %s' % covered['ShRepeatCount'],
             '  | ShRepeatAutoFit tracks_len => %s' % covered['ShRepeatAutoFit'],
             '  | ShRepeatAutoFill tracks_len => %s' % covered['ShRepeatAutoFill'],
             '  end.']
    return '\n'.join(lines)


def is_count_match(m):
    try:
        count_table('probe', m)
        return True
    except Refuse:
        return False


def q_text(q):
    return '(%d # %d)' % (q.numerator, q.denominator)


def generate(repo):
    fps = {}
    out = []
    w = out.append
    w('(* GENERATED on every run by /verif/translator/gen_gridtracks.py from %s, %s, %s -- do not edit. *)' % (TS, EG, ST))
    w('From Coq Require Import NArith QArith List.')
    w('Import ListNotations.')
    w('Open Scope N_scope.')

    ts = tokenize(open(repo + '/' + TS).read())
    eg = tokenize(open(repo + '/' + EG).read())
    al = tokenize(open(repo + '/' + AL).read())

    # ---- fingerprints of the hand-modelled functions
    bodies = {}
    for fn in ['find_size_of_fr', 'expand_flexible_tracks', 'distribute_space_up_to_limits', 'maximise_tracks',
               'stretch_auto_tracks', 'initialize_track_sizes', 'distribute_item_space_to_base_size',
               'resolve_intrinsic_track_sizes', 'track_sizing_algorithm']:
        params, body, _ = find_fn(ts, fn)
        bodies[fn] = body
        fps['track_sizing::' + fn] = norm_tokens(params) + ' | ' + norm_tokens(body)
    # stage 2 (Model/GridIntrinsic.v): the rest of step 11.5
    for fn in ['distribute_item_space_to_growth_limit', 'flush_planned_base_size_increases', 'flush_planned_growth_limit_increases',
               'cmp_by_cross_flex_then_span_then_start', 'determine_if_item_crosses_flexible_or_intrinsic_tracks',
               'resolve_item_track_indexes', 'next', 'min_content_contribution', 'max_content_contribution', 'minimum_contribution']:
        params, body, _ = find_fn(ts, fn)
        fps['track_sizing::' + fn] = norm_tokens(params) + ' | ' + norm_tokens(body)
    gi = tokenize(open(repo + '/src/compute/grid/types/grid_item.rs').read())
    for fn in ['spanned_track_limit', 'spanned_fixed_track_limit', 'track_range_excluding_lines', 'margins_axis_sums_with_baseline_shims',
               'minimum_contribution', 'min_content_contribution_cached', 'max_content_contribution_cached', 'minimum_contribution_cached']:
        params, body, _ = find_fn(gi, fn)
        fps['grid_item::' + fn] = norm_tokens(params) + ' | ' + norm_tokens(body)
    for fn in ['initialize_grid_tracks', 'compute_explicit_grid_size_in_axis', 'create_implicit_tracks']:
        params, body, _ = find_fn(eg, fn)
        bodies[fn] = body
        fps['explicit_grid::' + fn] = norm_tokens(params) + ' | ' + norm_tokens(body)
    params, body, _ = find_fn(al, 'align_tracks')
    fps['alignment::align_tracks'] = norm_tokens(params) + ' | ' + norm_tokens(body)
    ca = tokenize(open(repo + '/src/compute/common/alignment.rs').read())
    for fn in ['apply_alignment_fallback', 'compute_alignment_offset']:
        params, body, _ = find_fn(ca, fn)
        fps['common_alignment::' + fn] = norm_tokens(params) + ' | ' + norm_tokens(body)
    gt = tokenize(open(repo + '/src/compute/grid/types/grid_track.rs').read())
    for fn in ['new_with_kind', 'gutter', 'collapse', 'fit_content_limit', 'fit_content_limited_growth_limit', 'flex_factor']:
        params, body, _ = find_fn(gt, fn)
        fps['grid_track::' + fn] = norm_tokens(body)

    # ---- THRESHOLD constants
    t1 = threshold_in(bodies['distribute_space_up_to_limits'], 'distribute_space_up_to_limits')
    t2 = threshold_in(bodies['distribute_item_space_to_base_size'], 'distribute_item_space_to_base_size')
    w('(* const THRESHOLD of distribute_space_up_to_limits / of distribute_item_space_to_base_size_inner *)')
    w('Definition DISTRIBUTE_THRESHOLD_Q : Q := %s.' % q_text(t1))
    w('Definition BASE_SIZE_THRESHOLD_Q : Q := %s.' % q_text(t2))

    # ---- counting tables
    w('(* shape of one grid-template entry: Single(_) | Repeat(Count(count), tracks) | Repeat(AutoFit, tracks) | Repeat(AutoFill, tracks);')
    w('   tracks_len = tracks.len() *)')
    w('Inductive entry_shape := ShSingle | ShRepeatCount (count tracks_len : N) | ShRepeatAutoFit (tracks_len : N) | ShRepeatAutoFill (tracks_len : N).')
    ms = [m for m in matches_on(bodies['compute_explicit_grid_size_in_axis'], 'track_def') if is_count_match(m)]
    if len(ms) != 1:
        raise Refuse("compute_explicit_grid_size_in_axis: expected one integer counting `match track_def`, found %d" % len(ms))
    w('(* compute_explicit_grid_size_in_axis: non_auto_repeating_track_count = sum of this over the template *)')
    w(count_table('explicit_size_entry_count', ms[0]))
    ms = [m for m in matches_on(bodies['initialize_grid_tracks'], 'track_def') if is_count_match(m)]
    if len(ms) != 1:
        raise Refuse("initialize_grid_tracks: expected one integer counting `match track_def`, found %d" % len(ms))
    w('(* initialize_grid_tracks, auto-repeat arm: non_auto_repeated_track_count = sum of this over the template *)')
    w(count_table('init_tracks_entry_count', ms[0]))
    # the auto-repeat arm must subtract exactly that sum from counts.explicit
    b = bodies['initialize_grid_tracks']
    hits = [i for i in range(len(b)) if seq_at(b, i, ['let', 'auto_repeated_track_count', '='])]
    if len(hits) != 1:
        raise Refuse("initialize_grid_tracks: auto_repeated_track_count not found")
    i = hits[0] + 3
    j = i
    while b[j][1] != ';':
        j += 1
    e = parse_expr(b[i:j])
    # ( counts . explicit - non_auto_repeated_track_count ) as usize
    ok = (e[0] == 'cast' and e[2].replace(' ', '') == 'usize' and e[1][0] == 'bin' and e[1][1] == '-'
          and e[1][2] == ('field', ('path', ['counts']), 'explicit') and e[1][3] == ('path', ['non_auto_repeated_track_count']))
    if not ok:
        raise Refuse("initialize_grid_tracks: auto_repeated_track_count is no longer `counts.explicit - non_auto_repeated_track_count`: %r" % (e,))
    w('(* initialize_grid_tracks: auto_repeated_track_count = (counts.explicit - non_auto_repeated_track_count) as usize *)')
    w('Definition auto_repeated_track_count (counts_explicit non_auto_repeated_track_count : N) : N :=')
    w('  counts_explicit - non_auto_repeated_track_count.')

    # ---- AlignContent variants
    src = open(repo + '/' + ST).read()
    m = re.search(r'pub enum AlignContent \{(.*?)\n\}', src, re.S)
    if not m:
        raise Refuse("enum AlignContent not found")
    variants = [v for v in re.findall(r'^\s*([A-Z][A-Za-z]*),\s*$', m.group(1), re.M)]
    fps['style::AlignContent'] = ' '.join(variants)
    if variants != ['Start', 'End', 'FlexStart', 'FlexEnd', 'Center', 'Stretch', 'SpaceBetween', 'SpaceEvenly', 'SpaceAround']:
        raise Refuse("AlignContent variants changed: %r" % variants)
    w('Inductive align_content := %s.' % ' | '.join('A' + v for v in variants))
    w('Definition all_align_content : list align_content := [%s].' % '; '.join('A' + v for v in variants))
    return '\n'.join(out) + '\n', fps


TARGETS = {'GridTracksGen.v': generate}
