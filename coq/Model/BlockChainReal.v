(* Single-child chains of block containers over one measured leaf, run with the REAL cache (Model/BlockEngineReal.v): the
   deterministic corpus of `vh blocktree chains` (harness/src/blocktree.rs `bchain`) built inside Coq, `Num`-generic, and the
   counters of one layout pass.  Definitions only.

     chain_style mix d depth   the container at distance d above the leaf (d = 0: the leaf's parent):
                               CPlain  display:block, everything else default        CFixed  width: 200px
                               CCapped max-width: 120px
     chain_leaf                Style::default() with the harness's Text(17, 8) measure function (17 glyphs of 8 x 8, wrapping)
     chain mix depth           the tree;   chain_avail k   0: max-content x max-content, 1: 300 x 200, 2: min-content x max-content
     chain_counts              per-node counters (pre-order: root first, leaf last) of ONE compute_layout on the fresh chain
     chain_leaf_meas           the leaf's number of measure-function calls;  chain_queries: all compute_cached_layout calls *)
From Coq Require Import ZArith NArith Bool List.
From TV Require Import Num.Num.
From TV Require Model.Leaf Model.MeasureFamily.
From TV Require Import Gen.BlockGen Model.Block Model.Engine Model.BlockAlg Model.BlockEngine Model.BlockAbs Model.BlockRoot
  Model.EngineReal Model.BlockEngineReal.
Import ListNotations.

Inductive ChainMix := CPlain | CFixed | CCapped.

Section Chain.
  Context {T : Type} `{Num T}.

  Definition lz : LPA T := Len zero.
  Definition default_style (d : BDisplay) (w mxw : LPA T) : BStyle T :=
    mkStyle d false false OVisible OVisible zero PRelative (mkRect Auto Auto Auto Auto) (mkSize w Auto) (mkSize Auto Auto)
            (mkSize mxw Auto) None (mkRect lz lz lz lz) (mkRect lz lz lz lz) (mkRect lz lz lz lz) TAAuto.

  Definition chain_style (mix : ChainMix) : BStyle T :=
    match mix with
    | CPlain => default_style DBlock Auto Auto
    | CFixed => default_style DBlock (Len (of_Z 200)) Auto
    | CCapped => default_style DBlock Auto (Len (of_Z 120))
    end.

  Definition no_measure : Leaf.MeasureFn T := MeasureFamily.family_measure MeasureFamily.MNone.
  Definition chain_leaf : Engine.sk (BNode T) :=
    SNode _ (mkBNode (default_style DFlex Auto Auto) (MeasureFamily.family_measure (MeasureFamily.MText 17 (of_Z 8)))) [].

  Fixpoint chain (mix : ChainMix) (depth : nat) : Engine.sk (BNode T) :=
    match depth with
    | O => chain_leaf
    | S d => SNode _ (mkBNode (chain_style mix) no_measure) [chain mix d]
    end.

  Definition chain_avail (k : nat) : BSize (Avail T) :=
    match k with
    | O => mkSize MaxContent MaxContent
    | S O => mkSize (Definite (of_Z 300)) (Definite (of_Z 200))
    | _ => mkSize MinContent MaxContent
    end.

  Definition chain_counts (mix : ChainMix) (depth k : nat) : option (list stats) :=
    match blr_layout_passes eqb block_pre abs_child_block (depth + 4) (chain mix depth) [chain_avail k] with
    | Some [(_, ns)] => Some ns
    | _ => None
    end.

  Definition chain_leaf_meas (mix : ChainMix) (depth k : nat) : option N :=
    option_map (fun ns => n_meas (last ns stats0)) (chain_counts mix depth k).
  Definition chain_queries (mix : ChainMix) (depth k : nat) : option N :=
    option_map (fun ns => fold_right N.add 0%N (map n_query ns)) (chain_counts mix depth k).
  Definition chain_lossy (mix : ChainMix) (depth k : nat) : option N :=
    option_map (fun ns => fold_right N.add 0%N (map n_lossy ns)) (chain_counts mix depth k).

  (* the check behind C16_real_chain_bound_partial: the pass succeeds, the leaf is measured at most twice, and there are at most
     2 * depth + 1 compute_cached_layout calls in all *)
  Definition chain_ok (mix : ChainMix) (depth k : nat) : bool :=
    match chain_counts mix depth k with
    | Some ns => N.leb (n_meas (last ns stats0)) 2 && N.leb (fold_right N.add 0%N (map n_query ns)) (2 * N.of_nat depth + 1)
    | None => false
    end.
  Definition all_mixes : list ChainMix := [CPlain; CFixed; CCapped].
  Definition chains_ok (maxd : nat) : bool :=
    forallb (fun mix => forallb (fun k => forallb (fun d => chain_ok mix d k) (seq 1 maxd)) [0; 1; 2]%nat) all_mixes.
End Chain.
