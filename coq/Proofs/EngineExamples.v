(* Non-vacuity of the whole-tree theorems of C04 / C12 on the concrete tree of Model/BlockEngineExample.v: the premises of
   the instance theorems hold for it (ex_scaled_rel, ex_tree_ok), and both sides are evaluated with vm_compute. *)
From Coq Require Import QArith Qabs Lqa Bool List ZArith Lia.
From TV Require Import Num.Num Num.QNum.
From TV Require Model.Types Model.Common Model.Leaf Model.Root Model.Scale Model.BoxSizing Proofs.ScaleProofs Proofs.LeafAxis Proofs.BoxSizingProofs.
From TV Require Import Gen.BlockGen Model.Block Model.Engine Model.EngineRel.
From TV Require Import Model.BlockAlg Model.ScaleBlock Model.BlockEngine Model.BlockEngineRel Model.BlockEngineExample.
From TV Require Import Proofs.ScaleKit Proofs.ScaleBlock Proofs.EngineRelProofs Proofs.EngineHomog Proofs.EngineBoxSizing.
Import ListNotations.
Close Scope Z_scope.

(* ---- C04: the scaled tree is related to the tree *)
Lemma ex_measure_homog k m : 0 < k -> Scale.measure_homog k (ex_measure m) (ex_measure (ex_measure_scale k m)).
Proof.
  intros Hk. destruct m as [w h|b]; cbn [ex_measure ex_measure_scale];
    [apply ScaleProofs.measure_fixed_homog|apply ScaleProofs.measure_echo_homog; exact Hk].
Qed.

Lemma ex_node_rel k p : 0 < k -> bnode_rel k (ex_node p) (ex_node (ex_spec_scale k p)).
Proof.
  intros Hk. split; cbn [ex_node ex_spec_scale bn_style bn_measure fst snd]; [apply bstyle_rel_scale|apply ex_measure_homog; exact Hk].
Qed.

Lemma ex_scaled_rel k : 0 < k -> forall t : sk ExSpec,
  skrel (BNode XQ) (bnode_rel k) (sk_map ex_node t) (sk_map ex_node (sk_map (ex_spec_scale k) t)).
Proof.
  intros Hk. induction t as [s kids IH] using sk_ind3. cbn [sk_map].
  constructor; [apply ex_node_rel; exact Hk|].
  induction IH as [|x l Hx Hl IHl]; cbn [map]; constructor; assumption.
Qed.

(* ---- C12: the measure functions of the tree respect the equality of rationals *)
Lemma ex_measure_respects m : BoxSizingProofs.measure_respects_xeq (ex_measure m).
Proof.
  destruct m as [w h|b]; cbn [ex_measure].
  - exact (BoxSizingProofs.measure_known_or_respects (Types.mkSize w h)).
  - intros kd kd' a a' [Ew Eh] [Aw Ah]. unfold Scale.measure_echo.
    assert (Hw : xeq (Common.opt_unwrap_or (Types.width kd) match Types.width a with Types.Definite x => fmin x b | _ => b end)
                     (Common.opt_unwrap_or (Types.width kd') match Types.width a' with Types.Definite x => fmin x b | _ => b end)).
    { apply BoxSizingProofs.opt_unwrap_or_xeq; [exact Ew|].
      destruct (Types.width a), (Types.width a'); cbn in Aw; try contradiction; try apply LeafAxis.xeq_refl.
      apply BoxSizingProofs.x_min_xeq; [exact Aw|apply LeafAxis.xeq_refl]. }
    split; cbn [Types.width Types.height]; [exact Hw|].
    apply BoxSizingProofs.opt_unwrap_or_xeq; [exact Eh|].
    apply (dl_div _ _ _ _ Hw (dl_refl _)).
Qed.

Lemma ex_all_ok (t : sk ExSpec) : sk_all (BNode XQ) bn_ok (sk_map ex_node t).
Proof.
  induction t as [s kids IH] using sk_ind3. cbn [sk_map]. constructor; [apply ex_measure_respects|].
  induction IH as [|x l Hx Hl IHl]; cbn [map]; constructor; assumption.
Qed.
