(* What the dispatcher of the block engine (`bl_algo`, Model/BlockEngine.v: the engine `vh blocktree` runs) stores on display:none children
   (audit, wave 7b): SetsZeroOnHidden for bl_algo from SetsZeroOnHidden for block_alg, through a projection of the child styles. *)
From Coq Require Import List Bool Arith NArith ZArith.
From TV Require Import Num.Num Gen.BlockGen Model.Block Model.Engine Model.EngineRel Model.BlockAlg Model.BlockEngine Model.BlockAbs.
From TV Require Import Proofs.EngineHidden Proofs.BlockAlgBlind Proofs.BlockAbsLocal.
Import ListNotations.

(* SZH through a projection of the child styles *)
Lemma SZH_map (S S' In Out Lay : Type) (f : S -> S') (is_none : S' -> bool) (zeroish : Lay -> Prop) (st : list S) (a : Alg In Out Lay) :
  SZH S' In Out Lay is_none zeroish (map f st) a -> SZH S In Out Lay (fun s => is_none (f s)) zeroish st a.
Proof.
  intros H. remember (map f st) as st' eqn:Est. induction H as [o|c i k Hk IH|c l k Hz Hk IH]; subst.
  - constructor.
  - constructor. intros o. apply IH; try reflexivity.
  - constructor; [|apply IH; try reflexivity].
    intros sc Hn Hnone. apply (Hz (f sc)); [|exact Hnone]. rewrite nth_error_map, Hn. reflexivity.
Qed.

Lemma bl_algo_real_sets_zero_on_hidden :
  forall (T : Type) (N : Num T) (pre : BStyle T -> BIn T -> BIn T),
    SetsZeroOnHidden (BNode T) (BIn T) (ChildOut T) (BLayout T) bn_is_none (bl_algo pre abs_child_block) b_zeroish.
Proof.
  intros T N pre s st i. unfold bl_algo. destruct st as [|k0 st0]; [constructor|].
  change bn_is_none with (fun n : BNode T => bs_is_none (bn_style n)).
  apply (SZH_map (BNode T) (BStyle T) (BIn T) (ChildOut T) (BLayout T) bn_style bs_is_none b_zeroish).
  apply (block_alg_sets_zero_on_hidden pre abs_child_block abs_child_block_local).
Qed.
