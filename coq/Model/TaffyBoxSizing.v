(* C12 for the COMPLETE engine (Model/TaffyEngine.v `taffy_algo`, Model/TaffyRoot.v `real_algo` / `real_memo`: block + flex + grid
   resumptions + leaves): the box-sizing rewrite of a node style `TStyle`, ONE rewrite from which each algorithm's own relation follows
   (the block view `to_bstyle . ts_bf`, the flex view `bf_flex . ts_bf`, the grid view `to_gstyle`: Proofs/TaffyBoxSizing.v), and its
   class: the direction-free class of the block + flex instance (Model/BlockFlexK.v bfn_eligibleb: the class of C12_leaf, flex_basis
   neither a percentage nor a length) minus `item_is_replaced` (the known finding grid-compressible-replaced-max-size).
   `Num`-generic, definitions only. *)
From Coq Require Import ZArith Bool List.
From TV Require Import Num.Num Model.Common Model.Leaf Model.FlexAlgBase Model.BoxSizing Model.FlexBoxSizing Model.BlockFlexEngine Model.BlockFlexK.
From TV Require Import Model.TaffyEngine Model.TaffyRoot.
From TV Require Model.Engine Model.EngineRel.
Import ListNotations.
Close Scope Z_scope.
Close Scope N_scope.

Section TaffyBoxSizing.
  Context {T : Type} `{Num T}.

  (* the rewrite: the block+flex part is rewritten by Model/BlockFlexK.v bf_to_border_box (box_sizing := BorderBox; size / min_size /
     max_size grown by padding + border); every grid-only field and the measure function are kept *)
  Definition ts_tb (s : TStyle T) : TStyle T :=
    mkTS (bf_to_border_box (ts_bf s)) (ts_template_columns s) (ts_template_rows s) (ts_auto_columns s) (ts_auto_rows s) (ts_flow s)
         (ts_justify_items s) (ts_justify_self s) (ts_row s) (ts_column s) (ts_replaced s) (ts_measure s).

  Definition ts_eligibleb (s : TStyle T) : bool := f_eligible_anyb (bf_flex (ts_bf s)) && negb (ts_replaced s).
  Definition ts_to_border_box (s : TStyle T) : TStyle T := if ts_eligibleb s then ts_tb s else s.

  (* one layout pass (compute_root_layout) on a fresh tree: every node's stored unrounded layout in pre-order; None = out of fuel *)
  Definition real_layout_pass (teq : T -> T -> bool) (fuel : nat) (t : Engine.sk (TStyle T)) (avail : Size (AvailableSpace T))
    : option (list (FLay T)) :=
    option_map (EngineRel.lays (TStyle T) (FIn T) (LayoutOutput T) (FLay T)) (real_compute_root teq fuel (taffy_fresh t) avail).
End TaffyBoxSizing.
