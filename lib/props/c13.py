"""C13 -- pixel rounding: T (Gen/RoundingGen.v from round_layout_inner & the flag methods) + proofs (Props/C13.v) +
K (vh c13 cases: unrounded trees -> rounded trees, bit for bit, under histories of compute/enable/disable) +
search (vh c13 oracle: the clauses of the property as predicates on the implementation)."""
import queue
import struct
import subprocess
import threading

from ..common import *
from ..stages import *

NF = 21  # ints per node in an R line (order + 20 f32 bit patterns); a C line has the child count in front

FINDING_ID = 'enable-rounding-stale-final-layout'

THEOREM_SAMPLES = [
    'C13_integral : tree_all fin_layout t -> node_at (round_layout t) p = Some r -> all_in integral (reported_floats r)',
    'C13_integral_f32 : node_at (round_layout t) p = Some r -> all_in (fun x => is_finite x = true -> exists z, B2R x = IZR z) (reported_floats r)',
    'C13_within_one : ... -> all_in (within 1) (length_pairs u r) /\\ all_in (within (1 # 2)) (point_pairs u r)',
    'C13_no_drift : Forall (computes u) ops -> unrounded_layout s = u -> final_layout s = round_layout u -> '
    'unrounded_layout (run s ops) = u /\\ final_layout (run s ops) = round_layout u',
    'C13_edges : Forall (fun a => integral (location_x a)) (ancestors t p) -> ~ on_half ax -> xeq rx (fround ax) /\\ '
    'xeq (add rx (size_width r)) (fround (add ax (size_width u)))   (and the same in y)',
    'C13_no_seam : ... xeq (add ax1 (size_width u1)) ax2 -> xeq (add rx1 (size_width r1)) rx2',
]


def watch(binp, cmd, seed, n, start=0, stall=10, budget=900):
    """Run `vh c13 <cmd> <seed> <count> <start>`; the harness prints `START idx` before laying out a case.  When no line
    arrives for `stall` seconds the layout engine hangs on that case (totality is C03's business): kill, skip it, go on.
    Returns (output lines, [hung idx])."""
    lines, hung = [], []
    cur, end = start, start + n
    t0 = time.time()
    while cur < end:
        p = subprocess.Popen([binp, 'c13', cmd, str(seed), str(end - cur), str(cur)], stdout=subprocess.PIPE,
                             stderr=subprocess.DEVNULL, text=True, bufsize=1)
        q = queue.Queue()

        def pump(p=p, q=q):
            for ln in p.stdout:
                q.put(ln.rstrip('\n'))
            q.put(None)
        threading.Thread(target=pump, daemon=True).start()
        last = None
        done = False
        while True:
            try:
                ln = q.get(timeout=stall)
            except queue.Empty:
                p.kill()
                break
            if ln is None:
                done = True
                break
            if ln.startswith('START '):
                last = int(ln.split()[1])
            else:
                lines.append(ln)
        p.wait()
        if done:
            if p.returncode != 0:
                raise RuntimeError('vh c13 %s exited with %s' % (cmd, p.returncode))
            break
        if last is None or time.time() - t0 > budget:
            raise RuntimeError('vh c13 %s: no progress' % cmd)
        hung.append(last)
        cur = last + 1
    return lines, hung


def f32(bits):
    return struct.unpack('<f', struct.pack('<I', bits & 0xffffffff))[0]


def split_case(c):
    """C line -> (history, [(child count, [21 ints])])"""
    nops = c[0]
    hist = c[1:1 + nops]
    rest = c[1 + nops:]
    nodes = []
    for i in range(0, len(rest), NF + 1):
        nodes.append((rest[i], rest[i + 1:i + 1 + NF]))
    return hist, nodes


def depth_of(nodes):
    """max depth of a pre-order (child count) sequence"""
    best = 0
    stack = []
    for nc, _ in nodes:
        while stack and stack[-1] == 0:
            stack.pop()
        if stack:
            stack[-1] -= 1
        best = max(best, len(stack))
        stack.append(nc)
    return best


def nontrivial(c, r):
    """some field the pass rewrites has a fractional unrounded value, and the history ends with rounding reported"""
    _, nodes = split_case(c)
    frac = any(abs(f32(b)) < 1e9 and f32(b) != int(f32(b)) for _, fs in nodes for b in fs[1:17] if f32(b) == f32(b))
    out = [r[i:i + NF] for i in range(0, len(r), NF)]
    changed = any(a[1] != b for a, b in zip(nodes, out))
    return frac and changed


def run(rep, tier, seed, replay=None):
    res, changed = proof_stage(rep, 'C13', extra_trusted=[
        'generated (Gen/RoundingGen.v): struct Layout, the per-node body of round_layout_inner incl. round_content_size, the '
        '(0.0, 0.0) of round_layout, util::sys::round = f32::round, TaffyConfig::default / enable_rounding / disable_rounding / '
        'layout / compute_layout_with_measure as booleans; strict shape checks on unrounded_layout, get_unrounded_layout, '
        'set_final_layout, compute_layout, the loop over children',
        'hand-modelled (Model/Rounding.v), tied by K: the recursion over children and the state (flag, unrounded tree, final tree)',
        'compute_layout events carry the unrounded tree the layout algorithms produced (the algorithms are outside this model); '
        'equal unrounded trees for repeated compute_layout calls on unchanged input is property C01',
        'default cargo features (std, content_size)',
        'the F32 instance of Num is bit-exact (validated by `vh f32`); C13_integral_f32 uses Flocq (standard-library real axioms)',
    ])
    rc, out, binp, dt = build_harness('release')
    if rc != 0:
        rep.add_broken('build', 'harness', out[-1500:])
        return
    escalate = bool(changed) or bool(rep.broken) or tier == 'thorough'
    n = 3000 if escalate else 1000
    n_oracle = 200000 if escalate else 20000
    start = 0
    if replay:
        seed = replay.get('seed', seed)
        start, n, n_oracle = replay['idx'], 1, 1

    # ---- K: the model (F32 instance, vm_compute) must reproduce layout() of every node bit for bit
    try:
        lines, hung = watch(binp, 'cases', seed, n, start)
    except RuntimeError as ex:
        rep.add_broken('correspondence', 'vh c13 cases', str(ex))
        lines, hung = [], []
    skipped = sum(1 for l in lines if l.startswith('SKIP'))
    idxs = [int(l.split()[1]) for l in lines if l.startswith('I ')]
    cases, impl = parse_cr('\n'.join(lines))
    bad = []
    if not cases:
        rep.add_broken('correspondence', 'vh c13 cases', 'no cases produced')
    else:
        try:
            with Lock('coq'):
                rcm, outm, _ = coq_make(['Model/RoundingRun.vo'])
            if rcm != 0:
                raise RuntimeError(outm[-1500:])
            model = run_model('C13', 'From TV Require Import Model.RoundingRun.', 'run_case', cases, scope='Z', elem='list Z')
            before = len(rep.broken)
            bad = diff_results(rep, 'layout() of every node after the history vs Model.Rounding (F32) on the dumped unrounded tree',
                               cases, impl, model)
            # name the case in the recorded disagreements
            for b, (c, a, m) in zip(rep.broken[before:], bad):
                k = cases.index(c)
                first = next((j for j in range(min(len(a), len(m))) if a[j] != m[j]), None)
                b['detail'] = json.dumps({'seed': seed, 'idx': idxs[k], 'cmd': 'vh c13 one %d %d' % (seed, idxs[k]),
                                          'first_difference': None if first is None else
                                          {'node': first // NF, 'field': first % NF, 'impl_bits': a[first], 'model_bits': m[first]},
                                          'lengths': [len(a), len(m)]})
        except RuntimeError as ex:
            rep.add_broken('correspondence', 'model evaluation', str(ex)[-1500:])
    hist_kinds, sizes, depths = {}, {}, {}
    nfloat = 0
    for c in cases:
        h, nodes = split_case(c)
        key = 'compute' if h == [2] else 'history'
        hist_kinds[key] = hist_kinds.get(key, 0) + 1
        sizes[len(nodes)] = sizes.get(len(nodes), 0) + 1
        d = depth_of(nodes)
        depths[d] = depths.get(d, 0) + 1
        nfloat += 16 * len(nodes)
    nt = set(tuple(c) for c, r in zip(cases, impl) if nontrivial(c, r))
    rep.cov['distinct_nontrivial'] = len(nt)
    rep.cov['rule'] = ('case = (history of compute_layout / enable_rounding / disable_rounding, tree shape, unrounded_layout of every node '
                       'as bit patterns) from treegen trees (3/4 with tenths, 1/4 on the quarter-pixel grid, 1/3 snapped to whole pixels '
                       'on most nodes); compared: all 21 fields of layout() of every node, bit for bit (zero signs included); '
                       'non-trivial = some rewritten field is fractional before rounding and layout() differs from unrounded_layout; '
                       'distinct = distinct C lines among those')
    rep.cov['input_distribution'] = {'cases': len(cases), 'history': hist_kinds, 'nodes_per_tree': {str(k): v for k, v in sorted(sizes.items())},
                                     'depth': {str(k): v for k, v in sorted(depths.items())}, 'rounded_fields_compared': nfloat,
                                     'engine_panics_skipped': skipped, 'engine_hangs_skipped': hung}
    rep.cov['samples'] = [{'idx': i, 'case': c[:40] + (['...'] if len(c) > 40 else []), 'impl': a[:NF]}
                          for i, c, a in list(zip(idxs, cases, impl))[:2] + list(zip(idxs, cases, impl))[-2:]]
    rep.cov['samples'] += [{'theorem': t} for t in THEOREM_SAMPLES]

    # ---- search: the property stated directly on the implementation (always; larger when something no longer checks)
    try:
        lines, hung2 = watch(binp, 'oracle', seed, n_oracle, start)
    except RuntimeError as ex:
        rep.add_broken('search', 'vh c13 oracle', str(ex))
        lines, hung2 = [], []
    stats = {}
    for l in lines:
        if l.startswith('ORACLE'):
            for kv in l.split()[1:]:
                k, v = kv.split('=')
                stats[k] = stats.get(k, 0) + int(v)
    stats['engine_hangs_skipped'] = hung2
    rep.cov['oracle'] = stats
    diags = [l for l in lines if l.startswith('DIAG')]
    if diags:
        # stronger than the property (no premise on the ancestors): reported, never a violation by itself
        rep.cov['diagnostics'] = {'what': 'a size is not the difference of the rounded absolute edges (C13_size_from_absolute_edges)',
                                  'count': stats.get('diagnostics', 0), 'first': [d[:300] for d in diags[:3]], 'seed': seed}
        if rep.broken:
            rep.add_broken('diagnostic', 'size = round(absolute far edge) - round(absolute near edge), any ancestors',
                           {'seed': seed, 'first': [d[:300] for d in diags[:3]], 'cmd': 'vh c13 oracle1 %d <idx>' % seed})
    fails = [l.split(' ', 2) for l in lines if l.startswith('FAIL')]
    for f in fails[:3]:
        idx = int(f[1])
        rep.add_violation(f[2][:600], {'seed': seed, 'idx': idx, 'cmd': 'vh c13 oracle1 %d %d' % (seed, idx)})
    if not replay and not fails and stats.get('edge_nodes', 0) == 0:
        rep.add_broken('search', 'vh c13 oracle', 'the edge clause was never exercised')

    # ---- known finding: enable_rounding without a following compute_layout reports a stale final_layout
    known = [f for f in known_findings('C13') if f.get('id') == FINDING_ID and f.get('status') == 'known']
    rc, out = vh(binp, ['c13', 'stale'], timeout=60)
    m = re.search(r'STALE (\S+) (\S+)', out)
    if m and m.group(1) != m.group(2):
        if known:
            rep.known.append(known[0]['line'])
        else:
            rep.cov['note'] = 'stale final_layout after enable_rounding reproduces but is not listed in known_findings.json'
    elif known:
        rep.cov['note'] = 'known finding %s no longer reproduces: the entry is stale' % FINDING_ID
