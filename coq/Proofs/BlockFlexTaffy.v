(* Model/BlockFlexK.v IS the complete engine of Model/TaffyEngine.v / Model/TaffyRoot.v (`real_algo`, `real_memo`: what `vh taffytree`
   runs against the implementation) restricted to trees without grid containers:
     - node level: `bfn_algo one block_pre abs_child_block n kids i = real_algo (bfn_emb n) (map bfn_emb kids) i` whenever the node has no
       children or its display is neither grid nor none (a display:none node's algorithm is never evaluated by the engine);
     - memo key: BlockFlexK.fin_eqb = TaffyEngine.fin_eqb_with eqb, pointwise;
     - engine level (Proofs/EngineMap.v): `real_memo eqb fuel (tree_map bfn_emb t) i = image of (bf_memo fuel t i)` for every tree -- any
       cache contents and stored layouts -- whose skeleton has no display:grid node with children. *)
From Coq Require Import ZArith Bool List.
From TV Require Import Num.Num Model.Common Model.Leaf Model.FlexAlgBase Model.FlexAlg Model.BlockFlexEngine Model.BlockFlexK.
From TV Require Import Model.EngineLift Model.TaffyEngine Model.TaffyRoot Model.BlockFlexTaffy Proofs.EngineMap.
From TV Require Model.FlexAlgT Model.Engine Model.BlockEngine Model.BlockAbs.
Import ListNotations.
Close Scope Z_scope.
Close Scope N_scope.

Section BlockFlexTaffy.
  Context {T : Type} `{Num T}.

  Lemma bf_leaf_is_taffy_leaf (n : BFNode T) i : bf_leaf_out n i = taffy_leaf (bfn_emb n) i.
  Proof.
    unfold bf_leaf_out, taffy_leaf, bf_leaf_input, leaf_input.
    replace (BlockEngine.cv_mode (qi_mode i)) with (leaf_mode (qi_mode i)) by (destruct (qi_mode i); reflexivity).
    reflexivity.
  Qed.

  Lemma map_emb_bf (kids : list (BFNode T)) : map ts_bf (map bfn_emb kids) = map bfn_style kids.
  Proof. rewrite map_map. apply map_ext. reflexivity. Qed.

  (* node level *)
  Lemma bfn_algo_is_real_algo (n : BFNode T) kids i :
    bfn_taffy_ok n kids -> bfn_is_none n = false ->
    real_algo (bfn_emb n) (map bfn_emb kids) i = bfn_algo one BlockEngine.block_pre BlockAbs.abs_child_block n kids i.
  Proof.
    intros Hok Hnone. unfold real_algo, taffy_algo, taffy_dispatch, bfn_algo. rewrite map_length.
    destruct kids as [|k r]; cbn [length].
    - rewrite bf_leaf_is_taffy_leaf. reflexivity.
    - destruct Hok as [Hk|Hd]; [discriminate|].
      unfold is_flex. change (t_core (bfn_emb n)) with (bfn_core n).
      assert (Hnn : display (bfn_core n) <> DNone).
      { intros E. revert Hnone. unfold bfn_is_none, f_is_none, ItemFilters.s_hidden, f_bgm, f_gdisplay. unfold bfn_core in E.
        rewrite E. cbn. discriminate. }
      destruct (display (bfn_core n)) eqn:Ed; try congruence.
      + unfold block_alg_t, style_comap. rewrite <- (map_emb_bf (k :: r)). reflexivity.
      + unfold TaffyEngine.flex_alg_t, flex_alg_bf, style_comap.
        rewrite !map_map. reflexivity.
  Qed.

  Lemma fin_eqb_same (a b : FIn T) : BlockFlexK.fin_eqb a b = TaffyEngine.fin_eqb_with eqb a b.
  Proof. reflexivity. Qed.

  Lemma bfn_none_emb (n : BFNode T) : t_is_none (bfn_emb n) = bfn_is_none n.
  Proof. reflexivity. Qed.

  Notation tm := (tree_map (BFNode T) (TStyle T) (FIn T) (LayoutOutput T) (FLay T) bfn_emb).
  Notation good := (sk_good (BFNode T) bfn_taffy_ok).

  (* engine level *)
  Theorem bf_memo_is_real_memo fuel (t : Engine.tree (BFNode T) (FIn T) (LayoutOutput T) (FLay T)) i :
    good (Engine.skel _ _ _ _ t) ->
    real_memo eqb fuel (tm t) i = option_map bf_result_emb (bf_memo fuel t i).
  Proof.
    intros Hg. unfold real_memo, taffy_memo, bf_memo, bfk_memo, f_zero_lay.
    rewrite (memo_map (BFNode T) (TStyle T) (FIn T) (LayoutOutput T) (FLay T) qi_mode BlockFlexK.fin_eqb (fin_eqb_with eqb)
                      bfn_is_none t_is_none output_HIDDEN (f_with_order 0)
                      (bfn_algo one BlockEngine.block_pre BlockAbs.abs_child_block)
                      (taffy_algo taffy_dispatch BlockEngine.block_pre BlockAbs.abs_child_block taffy_leaf)
                      bfn_emb bfn_taffy_ok fin_eqb_same bfn_none_emb
                      (fun s st i HP Hn => bfn_algo_is_real_algo s st i HP Hn) fuel t i Hg).
    destruct (Engine.memo _ _ _ _ _ _ _ _ _ _ fuel t i) as [[o t']|]; reflexivity.
  Qed.

  Lemma sk_goodb_good (t : Engine.sk (BFNode T)) : sk_goodb t = true -> good t.
  Proof.
    revert t. fix IH 1. intros [s kids] Hb. cbn [sk_goodb] in Hb. apply andb_prop in Hb. destruct Hb as [Hs Hk].
    cbn [sk_good]. split.
    - unfold bfn_taffy_okb in Hs. unfold bfn_taffy_ok.
      destruct (map (Engine.sstyle (BFNode T)) kids); [left; reflexivity|right]. intros E. rewrite E in Hs. discriminate.
    - clear Hs. induction kids as [|k r IHr]; [exact I|]. cbn [forallb] in Hk. apply andb_prop in Hk. destruct Hk as [Hk Hr].
      split; [apply IH; exact Hk|apply IHr; exact Hr].
  Qed.

  Lemma tm_fresh (t : Engine.sk (BFNode T)) :
    tm (bfk_fresh t) = taffy_fresh (EngineRel.sk_map bfn_emb t).
  Proof.
    revert t. fix IH 1. intros [s kids]. unfold bfk_fresh, taffy_fresh in *. cbn. f_equal. rewrite !map_map.
    induction kids as [|k r IHr]; cbn; [reflexivity|]. rewrite IH, IHr. reflexivity.
  Qed.
End BlockFlexTaffy.

(* ---- the whole-tree theorems of C04 / C12 (Proofs/BlockFlexRel.v) restated about the engine `vh taffytree` runs *)
From Coq Require Import QArith.
From TV Require Import Num.QNum Model.Scale Model.FlexAlgRel Model.EngineRel Proofs.BlockFlexRel.
#[local] Close Scope Q_scope.

Section Lays.
  Context {T : Type} `{Num T}.
  Notation tm := (tree_map (BFNode T) (TStyle T) (FIn T) (LayoutOutput T) (FLay T) bfn_emb).
  Lemma lays_tm (t : Engine.tree (BFNode T) (FIn T) (LayoutOutput T) (FLay T)) :
    lays (TStyle T) (FIn T) (LayoutOutput T) (FLay T) (tm t) = lays (BFNode T) (FIn T) (LayoutOutput T) (FLay T) t.
  Proof.
    revert t. fix IH 1. intros [s c l kids]. cbn. f_equal.
    induction kids as [|k r IHr]; cbn; [reflexivity|]. rewrite IH, IHr. reflexivity.
  Qed.

  Lemma real_memo_fresh fuel (t : Engine.sk (BFNode T)) i :
    sk_goodb t = true ->
    real_memo Num.eqb fuel (taffy_fresh (sk_map bfn_emb t)) i = option_map bf_result_emb (bf_memo fuel (bfk_fresh t) i).
  Proof.
    intros Hg. rewrite <- tm_fresh. apply bf_memo_is_real_memo.
    assert (E : Engine.skel _ _ _ _ (bfk_fresh t) = t).
    { clear Hg. revert t. fix IH 1. intros [s kids]. unfold bfk_fresh in *. cbn. f_equal. rewrite map_map.
      induction kids as [|k r IHr]; cbn; [reflexivity|]. rewrite IH, IHr. reflexivity. }
    rewrite E. apply sk_goodb_good. exact Hg.
  Qed.
End Lays.

Notation xlays := (lays (TStyle XQ) (FIn XQ) (LayoutOutput XQ) (FLay XQ)).

Theorem real_engine_scaled_layouts (k : Q) : (0 < k)%Q ->
  forall f (t t' : Engine.sk (BFNode XQ)) i o T1,
    sk_goodb t = true -> sk_goodb t' = true ->
    skrel (BFNode XQ) (bfnode_rel k) t t' ->
    bf_memo_t (Fin k) f (bfk_fresh t') (fin_scale k i) = bf_memo f (bfk_fresh t') (fin_scale k i) ->
    real_memo Num.eqb f (taffy_fresh (sk_map bfn_emb t)) i = Some (o, T1) ->
    exists o' T1',
      real_memo Num.eqb f (taffy_fresh (sk_map bfn_emb t')) (fin_scale k i) = Some (o', T1') /\ output_rel k o o' /\
      Forall2 (flay_rel k) (xlays T1) (xlays T1').
Proof.
  intros Hk f t t' i o T1 Hg Hg' Hsk Eins E.
  rewrite (real_memo_fresh f t i Hg) in E.
  destruct (bf_memo f (bfk_fresh t) i) as [[o0 t1]|] eqn:E1; [|discriminate].
  cbn in E. injection E as <- <-.
  destruct (bf_engine_scaled_layouts k Hk f t t' i o0 t1 Hsk Eins E1) as (o' & t1' & E2 & Ho & Hl).
  exists o', (tree_map _ _ _ _ _ bfn_emb t1'). split.
  - rewrite (real_memo_fresh f t' _ Hg'), E2. reflexivity.
  - split; [exact Ho|]. rewrite !lays_tm. exact Hl.
Qed.

Theorem real_engine_rewritten_layouts :
  forall f (t : Engine.sk (BFNode XQ)) (w : list nat -> bool) i o T1,
    sk_goodb t = true -> sk_goodb (sk_map_where (BFNode XQ) bfn_to_border_box w t) = true ->
    sk_all (BFNode XQ) bfn_ok t ->
    real_memo Num.eqb f (taffy_fresh (sk_map bfn_emb t)) i = Some (o, T1) ->
    exists o' T1',
      real_memo Num.eqb f (taffy_fresh (sk_map bfn_emb (sk_map_where (BFNode XQ) bfn_to_border_box w t))) i = Some (o', T1') /\
      output_rel 1 o o' /\ Forall2 (flay_rel 1) (xlays T1) (xlays T1').
Proof.
  intros f t w i o T1 Hg Hg' Hall E.
  rewrite (real_memo_fresh f t i Hg) in E.
  destruct (bf_memo f (bfk_fresh t) i) as [[o0 t1]|] eqn:E1; [|discriminate].
  cbn in E. injection E as <- <-.
  destruct (bf_engine_rewritten_layouts f t w i o0 t1 Hall E1) as (o' & t1' & E2 & Ho & Hl).
  exists o', (tree_map _ _ _ _ _ bfn_emb t1'). split.
  - rewrite (real_memo_fresh f _ _ Hg'), E2. reflexivity.
  - split; [exact Ho|]. rewrite !lays_tm. exact Hl.
Qed.
