(* Concrete grid containers for the non-vacuity examples of C03_grid_container_never_panics (Props/C03.v).  Definitions only, any `Num`.

   ex_container: display:grid; grid-template-columns: auto repeat(2, auto); grid-template-rows: auto auto  (3 x 2 explicit tracks, no
                 auto-repeat), row flow
   ex_children:  0  in flow,  grid-row: auto / -3                       (the formerly crashing placement: notes/C08.md)
                 1  in flow,  grid-row: 0 / span 3; grid-column: -7 / span 2
                 2  ABSOLUTE, grid-row: -9 / auto;  grid-column: 12 / 12   (far outside the explicit grid on both sides)
                 3  display:none, grid-column: 64 / -64
                 4  in flow,  auto / auto
   ex_far_child: in flow, grid-column: 32767 / span 2 -- OUTSIDE the domain (|line| > 64): `track + span` overflows i16 in the estimate *)
From Coq Require Import ZArith Bool List.
From TV Require Import Model.Common Model.Leaf Gen.GridTracksGen Model.GridTracks.
From TV Require Import Model.FiltersBase Gen.FiltersGen Model.ItemFilters Model.GridAlgBase Model.GridAlg.
Import ListNotations.
Close Scope Z_scope.

Section Example.
  Context {T : Type} `{Num T}.

  Definition ex_item (d : Display) (p : Position) (row col : PB.Ln PB.GP) : GStyle T :=
    mkGStyle (default_core d p) lpa_auto_rect [] [] [] [] PB.FRow (mkSize (LpLength zero) (LpLength zero)) None None None None
             row col None None false.

  Definition ex_container : GStyle T :=
    mkGStyle (default_core DGrid Relative) lpa_auto_rect
             [TSingle auto_nrt; TRepeat (RCount 2) [auto_nrt]] [TSingle auto_nrt; TSingle auto_nrt] [] [] PB.FRow
             (mkSize (LpLength zero) (LpLength zero)) None None None None auto_ln auto_ln None None false.

  Definition ex_children : list (GStyle T) :=
    [ ex_item DBlock Relative (PB.mkLn PB.Auto (PB.Line (-3))) auto_ln;
      ex_item DBlock Relative (PB.mkLn (PB.Line 0) (PB.Span 3)) (PB.mkLn (PB.Line (-7)) (PB.Span 2));
      ex_item DBlock Absolute (PB.mkLn (PB.Line (-9)) PB.Auto) (PB.mkLn (PB.Line 12) (PB.Line 12));
      ex_item DNone Relative auto_ln (PB.mkLn (PB.Line 64) (PB.Line (-64)));
      ex_item DBlock Relative auto_ln auto_ln ].

  (* PerformLayout, nothing known, max-content available space *)
  Definition ex_input : GIn T := hidden_child_input.

  Definition ex_far_child : GStyle T := ex_item DBlock Relative auto_ln (PB.mkLn (PB.Line 32767) (PB.Span 2)).
End Example.
