(* One engine for ALL node kinds TaffyView::compute_child_layout dispatches on: block containers (Model/BlockAlg.v, transported as in
   Model/BlockFlexEngine.v), flex containers (Model/FlexAlg.v), grid containers (Model/GridAlg.v) and leaves (Model/Leaf.v).  The node style is the
   block+flex view (`BFStyle`) plus the fields only grid layout reads; the flex and the grid view are built from the SAME core style,
   so "display: none" / "position: absolute" mean the same in every view by construction.  Definitions only. *)
From Coq Require Import ZArith Bool List.
From TV Require Import Model.Common Model.Leaf Gen.GridTracksGen Model.GridTracks.
From TV Require Import Model.FlexAlgBase Model.FlexAlg Model.EngineLift Model.BlockFlexEngine Model.GridAlgBase Model.GridAlg Model.GridAlgTotal.
From TV Require Gen.FlexGen Gen.BlockGen Model.Block Model.BlockAlg Model.Engine.
Import ListNotations.
Close Scope Z_scope.
Close Scope N_scope.

(* Style = BFStyle (core, inset, flex container / item fields incl. the alignment properties and gap shared with grid, item_is_table,
   text_align) + the grid-only fields + the node's measure function (TaffyTree: node context + the measure closure; only a childless
   node's is ever called) *)
Record TStyle (T : Type) := mkTS {
  ts_bf : BFStyle T;
  ts_template_columns : list (tsf T); ts_template_rows : list (tsf T);
  ts_auto_columns : list (nrt T); ts_auto_rows : list (nrt T);
  ts_flow : PB.flow;
  ts_justify_items : option AE.AlignItems; ts_justify_self : option AE.AlignItems;
  ts_row : PB.Ln PB.GP; ts_column : PB.Ln PB.GP;
  ts_replaced : bool;
  ts_measure : MeasureFn T;
}.
Arguments mkTS {T}. Arguments ts_bf {T}. Arguments ts_template_columns {T}. Arguments ts_template_rows {T}. Arguments ts_auto_columns {T}.
Arguments ts_auto_rows {T}. Arguments ts_flow {T}. Arguments ts_justify_items {T}. Arguments ts_justify_self {T}. Arguments ts_row {T}.
Arguments ts_column {T}. Arguments ts_replaced {T}. Arguments ts_measure {T}.

(* what TaffyView::compute_child_layout's `match (display_mode, has_children)` selects *)
Inductive TKind := TKBlock | TKFlex | TKGrid | TKLeaf.

Section Taffy.
  Context {T : Type} `{Num T}.

  Definition g_align_of (a : FAlign) : AE.AlignItems :=
    match a with
    | FA_Start => AE.AI_Start | FA_End => AE.AI_End | FA_FlexStart => AE.AI_FlexStart | FA_FlexEnd => AE.AI_FlexEnd
    | FA_Center => AE.AI_Center | FA_Baseline => AE.AI_Baseline | FA_Stretch => AE.AI_Stretch
    end.
  Definition g_content_of (a : FlexGen.AlignContent) : align_content :=
    match a with
    | FlexGen.AC_Start => AStart | FlexGen.AC_End => AEnd | FlexGen.AC_FlexStart => AFlexStart | FlexGen.AC_FlexEnd => AFlexEnd
    | FlexGen.AC_Center => ACenter | FlexGen.AC_Stretch => AStretch | FlexGen.AC_SpaceBetween => ASpaceBetween
    | FlexGen.AC_SpaceEvenly => ASpaceEvenly | FlexGen.AC_SpaceAround => ASpaceAround
    end.

  (* the grid view of a node's style *)
  Definition to_gstyle (s : TStyle T) : GStyle T :=
    let f := bf_flex (ts_bf s) in
    mkGStyle (fs_core f) (fs_inset f) (ts_template_columns s) (ts_template_rows s) (ts_auto_columns s) (ts_auto_rows s) (ts_flow s)
             (fs_gap f) (option_map g_align_of (fs_align_items f)) (ts_justify_items s)
             (option_map g_content_of (fs_align_content f)) (option_map g_content_of (fs_justify_content f))
             (ts_row s) (ts_column s) (option_map g_align_of (fs_align_self f)) (ts_justify_self s) (ts_replaced s).

  Definition t_is_none (s : TStyle T) : bool := bf_is_none (ts_bf s).
  Definition t_visible_absolute (s : TStyle T) : bool := bf_visible_absolute (ts_bf s).
  (* what a parent may read of an out-of-flow child's style: its grid placement lines (only a grid parent does) *)
  Definition t_lines (s : TStyle T) : PB.Ln PB.GP * PB.Ln PB.GP := (ts_row s, ts_column s).

  (* the grid container algorithm: Model/GridAlg.v `grid_alg` wherever the Rust code does not panic; where it does (grid_no_panic fails:
     the whole compute_layout call aborts, there is nothing to model) the total stand-in of Model/GridAlgTotal.v, so that the interface
     hypotheses of the engine theorems hold for EVERY style, child list and input *)
  Definition grid_alg_t : TStyle T -> list (TStyle T) -> FIn T -> Engine.Alg (FIn T) (LayoutOutput T) (FLay T) :=
    style_comap (GStyle T) (TStyle T) (FIn T) (LayoutOutput T) (FLay T) to_gstyle grid_alg_total.
  Definition block_alg_t (pre : B.BStyle T -> BA.BIn T -> BA.BIn T) (abs_child : @BA.AbsChild T)
    : TStyle T -> list (TStyle T) -> FIn T -> Engine.Alg (FIn T) (LayoutOutput T) (FLay T) :=
    style_comap (BFStyle T) (TStyle T) (FIn T) (LayoutOutput T) (FLay T) ts_bf (block_alg_bf pre abs_child).
  Definition flex_alg_t : TStyle T -> list (TStyle T) -> FIn T -> Engine.Alg (FIn T) (LayoutOutput T) (FLay T) :=
    style_comap (BFStyle T) (TStyle T) (FIn T) (LayoutOutput T) (FLay T) ts_bf flex_alg_bf.

  (* TaffyView::compute_child_layout's dispatch.  `disp` decides from the node's own style AND ITS NUMBER OF CHILDREN (the Rust code
     matches on (display, has_children)); `leaf` is what a childless node computes (it may read the whole style incl. the measure
     function).  `taffy_dispatch` / `taffy_leaf` below are the real ones; the engine theorems of C05 / C06 hold for every `disp`, `pre`,
     `leaf` *)
  Definition taffy_algo (disp : TStyle T -> nat -> TKind) pre abs_child (leaf : TStyle T -> FIn T -> LayoutOutput T)
    : TStyle T -> list (TStyle T) -> FIn T -> Engine.Alg (FIn T) (LayoutOutput T) (FLay T) :=
    fun s st i =>
      match disp s (length st) with
      | TKGrid => grid_alg_t s st i
      | TKBlock => block_alg_t pre abs_child s st i
      | TKFlex => flex_alg_t s st i
      | TKLeaf => Engine.Ret (FIn T) (LayoutOutput T) (FLay T) (leaf s i)
      end.

  (* taffy_tree.rs l.370-394: `match (display_mode, has_children)`.  The arm (Display::None, _) is the engine's (Model/Engine.v `memo`
     tests is_none before it runs the algorithm), so what a display:none style WITH children is mapped to here is never evaluated; it is
     mapped to an algorithm for which every interface hypothesis of the engine theorems holds (a leaf would not visit its children) *)
  Definition t_core (s : TStyle T) : Style T := fs_core (bf_flex (ts_bf s)).
  Definition taffy_dispatch (s : TStyle T) (n_children : nat) : TKind :=
    match n_children with
    | O => TKLeaf
    | S _ => match display (t_core s) with DBlock => TKBlock | DFlex => TKFlex | DGrid => TKGrid | DNone => TKFlex end
    end.

  (* the (_, false) arm: compute_leaf_layout(inputs, style, measure_function) -- Model/Leaf.v, ALL of leaf.rs; its `unreachable!()`
     (hidden run mode) never happens below the engine, which answers hidden-mode inputs itself *)
  Definition leaf_mode (m : Engine.RunMode) : RunMode :=
    match m with
    | Engine.PerformLayout => PerformLayout | Engine.ComputeSize => ComputeSize | Engine.PerformHiddenLayout => PerformHiddenLayout
    end.
  Definition leaf_input (i : FIn T) : LayoutInput T :=
    mkInput (leaf_mode (qi_mode i)) (qi_sizing i) (qi_known i) (qi_parent i) (qi_avail i).
  Definition taffy_leaf (s : TStyle T) (i : FIn T) : LayoutOutput T :=
    match compute_leaf_layout (leaf_input i) (t_core s) (ts_measure s) with
    | Some (o, _) => o
    | None => output_HIDDEN
    end.

  (* ---- the class of nodes for which a ComputeSize evaluation provably stores nothing (NS): display is not block (the block algorithm
     lays its children out while sizing: known finding computesize-scribble), neither align_items nor align_self is baseline (flex rows
     and grids lay baseline-aligned children out while sizing) *)
  Definition t_align_items (s : TStyle T) : option FAlign := fs_align_items (bf_flex (ts_bf s)).
  Definition t_align_self (s : TStyle T) : option FAlign := fs_align_self (bf_flex (ts_bf s)).
  Definition fa_not_baseline (a : option FAlign) : bool := match a with Some FA_Baseline => false | _ => true end.
  Definition t_calm (s : TStyle T) : bool :=
    negb (match display (t_core s) with DBlock => true | _ => false end)
    && fa_not_baseline (t_align_items s) && fa_not_baseline (t_align_self s).

  (* ---- the engine's other parameters: the run mode of an input, the memo key (every field of the LayoutInput; numbers compared with
     `teq`: `eqb` of the Num instance compares them as numbers, Model/TaffyKey.v gives the representation equalities of F32 / XQ, which
     are EXACT keys: equal keys are equal inputs), LayoutOutput::HIDDEN, Layout::with_order(0) *)
  Definition mode_eqb (a b : Engine.RunMode) : bool :=
    match a, b with
    | Engine.PerformLayout, Engine.PerformLayout | Engine.ComputeSize, Engine.ComputeSize
    | Engine.PerformHiddenLayout, Engine.PerformHiddenLayout => true
    | _, _ => false
    end.
  Definition sizing_eqb (a b : SizingMode) : bool :=
    match a, b with ContentSize, ContentSize | InherentSize, InherentSize => true | _, _ => false end.
  Definition axis_eqb (a b : ReqAxis) : bool :=
    match a, b with AxHorizontal, AxHorizontal | AxVertical, AxVertical | AxBoth, AxBoth => true | _, _ => false end.
  Definition o_eqb (teq : T -> T -> bool) (a b : option T) : bool :=
    match a, b with Some x, Some y => teq x y | None, None => true | _, _ => false end.
  Definition av_eqb (teq : T -> T -> bool) (a b : AvailableSpace T) : bool :=
    match a, b with
    | Types.Definite x, Types.Definite y => teq x y
    | Types.MinContent, Types.MinContent | Types.MaxContent, Types.MaxContent => true
    | _, _ => false
    end.
  Definition fin_eqb_with (teq : T -> T -> bool) (a b : FIn T) : bool :=
    mode_eqb (qi_mode a) (qi_mode b) && sizing_eqb (qi_sizing a) (qi_sizing b) && axis_eqb (qi_axis a) (qi_axis b)
    && o_eqb teq (width (qi_known a)) (width (qi_known b)) && o_eqb teq (height (qi_known a)) (height (qi_known b))
    && o_eqb teq (width (qi_parent a)) (width (qi_parent b)) && o_eqb teq (height (qi_parent a)) (height (qi_parent b))
    && av_eqb teq (width (qi_avail a)) (width (qi_avail b)) && av_eqb teq (height (qi_avail a)) (height (qi_avail b))
    && Bool.eqb (l_start (qi_collapsible a)) (l_start (qi_collapsible b))
    && Bool.eqb (l_end (qi_collapsible a)) (l_end (qi_collapsible b)).

  Definition fin_eqb : FIn T -> FIn T -> bool := fin_eqb_with eqb.

  Definition taffy_memo (teq : T -> T -> bool) disp pre abs_child leaf :=
    Engine.memo (TStyle T) (FIn T) (LayoutOutput T) (FLay T) qi_mode (fin_eqb_with teq) t_is_none output_HIDDEN (f_with_order 0)
                (taffy_algo disp pre abs_child leaf).
  Definition taffy_plain disp pre abs_child leaf :=
    Engine.plain (TStyle T) (FIn T) (LayoutOutput T) (FLay T) qi_mode t_is_none output_HIDDEN (taffy_algo disp pre abs_child leaf).
  Definition taffy_fresh := Engine.fresh (TStyle T) (FIn T) (LayoutOutput T) (FLay T) (f_with_order 0).

  (* engines of grid containers and leaves only, over the grid style *)
  Definition grid_leaf_algo (sel : GStyle T -> bool) (leaf : GStyle T -> GIn T -> LayoutOutput T)
    : GStyle T -> list (GStyle T) -> GIn T -> Engine.Alg (GIn T) (LayoutOutput T) (GLay T) :=
    fun s st i => if sel s then grid_alg s st i else Engine.Ret (GIn T) (LayoutOutput T) (GLay T) (leaf s i).
End Taffy.
