(* C04 -- layout is homogeneous under uniform scaling of all lengths.  Statements only; proofs in Proofs/ScalePrim.v,
   Proofs/ScaleProofs.v, Proofs/ScaleAbsProofs.v, Proofs/FlexFractionProofs.v, Proofs/ScaleNotes.v, and for the container
   kernels Proofs/ScaleKit.v, Proofs/ScaleFlex.v, Proofs/ScaleBlock.v, Proofs/ScaleGrid.v.

   Numbers: XQ (exact rationals + infinities + NaN), scale factor k > 0.  Vocabulary (Model/ScaleBase.v, Model/Scale.v,
   Model/ScaleAbs.v):
     x_scale k x     the length x multiplied by k (finite values multiplied; +-infinity and NaN kept)
     sc k a a'       a' is a scaled by k            := xeq a' (x_scale k a)     (xeq: equality of rationals, Q is not canonical)
     dl a a'         a' is the same pure number     := xeq a' a                 (percentages, flex factors, aspect ratio, counts)
     *_rel           the componentwise lifts to Option / Size / Rect / Point / AvailableSpace / style lengths / records;
                     enums, booleans, orders are equal
     *_scale         the functional scaling of a record; `X_rel k x (X_scale k x)` always holds
   A kernel f is homogeneous when related inputs give related outputs; with x' := scale k x this reads
   f (scale k x) ~ scale k (f x)  (C04_related_is_scaled).  No finiteness premise: the statements hold on all of XQ.

   What is proved: the primitive layer; every generated MaybeMath / MaybeResolve / aspect-ratio table; compute_leaf_layout
   and the root layout of a one-node tree (Model/Leaf.v, Model/Root.v: the kernels tied to the code by the C19
   correspondence); the three absolutely-positioned kernels incl. their style resolution (Model/AbsPos.v over the
   regenerated Gen/AbsPosGen.v: C11 correspondence).  What is refuted: pixel rounding, the cache's is_roughly_equal, the
   grid THRESHOLD comparison, and the flex intrinsic main-size step (known findings).
   Container kernels (second half of this file): flex resolve_flexible_lengths / distribute_remaining_free_space /
   line_positions (Model/Flex.v: C07 correspondence); block margin sets, generate_item_list, the in-flow loop with the
   children's LayoutOutputs as scaled oracle values, compute_inner's decisions invariant (Model/Block.v: C10
   correspondence); grid track counts, track initialisation, find_size_of_fr, expand_flexible_tracks,
   stretch_auto_tracks, align_tracks, and distribute_space_up_to_limits / maximise_tracks with the THRESHOLD as a length
   (Model/GridTracks.v: C09 correspondence) -- refuted for the fixed threshold.  What feeds these kernels (flex base
   sizes / line breaking / cross axis, grid placement and step 11.5, block content-based width) and the engine recursion
   are covered by the implementation-side oracle only (notes/C04.md). *)
From Coq Require Import ZArith NArith QArith Bool List.
From TV Require Import Num.Num Num.QNum Model.ScaleBase Proofs.ScalePrim.
From TV Require Model.Common Model.Leaf Model.Root Model.Scale Proofs.ScaleProofs.
From TV Require Gen.AbsPosEnums Model.AbsPosBase Gen.AbsPosGen Model.AbsPos Model.ScaleAbs Proofs.ScaleAbsProofs.

(* ------------------------------------------------------------------------------------------------------------ *)
(** * Primitive layer *)

(* + - neg max min abs commute with the scaling *)
Theorem C04_arith : forall k a b, 0 < k ->
  xeq (x_add (x_scale k a) (x_scale k b)) (x_scale k (x_add a b)) /\
  xeq (x_sub (x_scale k a) (x_scale k b)) (x_scale k (x_sub a b)) /\
  xeq (x_neg (x_scale k a)) (x_scale k (x_neg a)) /\
  xeq (x_max (x_scale k a) (x_scale k b)) (x_scale k (x_max a b)) /\
  xeq (x_min (x_scale k a) (x_scale k b)) (x_scale k (x_min a b)) /\
  xeq (x_abs (x_scale k a)) (x_scale k (x_abs a)).
Proof.
  intros k a b Hk. pose proof (sc_self k a) as Ha. pose proof (sc_self k b) as Hb.
  repeat split.
  - exact (sc_add k _ _ _ _ Ha Hb).
  - exact (sc_sub k _ _ _ _ Ha Hb).
  - exact (sc_neg k _ _ Ha).
  - exact (sc_max k _ _ _ _ Hk Ha Hb).
  - exact (sc_min k _ _ _ _ Hk Ha Hb).
  - exact (sc_abs k _ _ Hk Ha).
Qed.
Print Assumptions C04_arith.

(* length * pure number and length / pure number are lengths; length / length is a pure number.  (Division by zero,
   0 * infinity etc. included: both sides produce the same infinity / NaN.) *)
Theorem C04_mul_div : forall k a b p, 0 < k ->
  xeq (x_mul (x_scale k a) p) (x_scale k (x_mul a p)) /\
  xeq (x_mul p (x_scale k a)) (x_scale k (x_mul p a)) /\
  xeq (x_div (x_scale k a) p) (x_scale k (x_div a p)) /\
  xeq (x_div (x_scale k a) (x_scale k b)) (x_div a b).
Proof.
  intros k a b p Hk. pose proof (sc_self k a) as Ha. pose proof (sc_self k b) as Hb. pose proof (dl_refl p) as Hp.
  repeat split.
  - exact (sc_mul_dl k _ _ _ _ Hk Ha Hp).
  - exact (sc_dl_mul k _ _ _ _ Hk Hp Ha).
  - exact (sc_div_dl k _ _ _ _ Hk Ha Hp).
  - exact (dl_div_sc k _ _ _ _ Hk Ha Hb).
Qed.
Print Assumptions C04_mul_div.

(* comparisons of two lengths are invariant (NaN compares false on both sides, infinities are fixed points) *)
Theorem C04_compare : forall k a b, 0 < k ->
  x_ltb (x_scale k a) (x_scale k b) = x_ltb a b /\
  x_leb (x_scale k a) (x_scale k b) = x_leb a b /\
  x_eqb (x_scale k a) (x_scale k b) = x_eqb a b.
Proof.
  intros k a b Hk. pose proof (sc_self k a) as Ha. pose proof (sc_self k b) as Hb.
  repeat split; [apply (sc_x_ltb k) | apply (sc_x_leb k) | apply (sc_x_eqb k)]; assumption.
Qed.
Print Assumptions C04_compare.

(* for k > 0 the scaling is the multiplication of the Num instance *)
Theorem C04_scale_is_mul : forall k x, 0 < k -> x_scale k x = x_mul (Fin k) x.
Proof. exact x_scale_is_mul. Qed.
Print Assumptions C04_scale_is_mul.

(* ------------------------------------------------------------------------------------------------------------ *)
(** * Generated tables, leaf and root kernels (geometry of Model/Common.v) *)
Module LeafKernels.
  Import TV.Model.Common TV.Model.Leaf TV.Model.Root TV.Model.Scale TV.Proofs.ScaleProofs.

  Definition homog2 {A B C} (RA : A -> A -> Prop) (RB : B -> B -> Prop) (RC : C -> C -> Prop) (f : A -> B -> C) : Prop :=
    forall a a' b b', RA a a' -> RB b b' -> RC (f a b) (f a' b').
  Definition homog3 {A B C D} (RA : A -> A -> Prop) (RB : B -> B -> Prop) (RC : C -> C -> Prop) (RD : D -> D -> Prop)
      (f : A -> B -> C -> D) : Prop :=
    forall a a' b b' c c', RA a a' -> RB b b' -> RC c c' -> RD (f a b c) (f a' b' c').

  (* every impl of MaybeMath (src/util/math.rs, regenerated into Gen/MathGen.v):
     L = f32 length, O = Option<f32>, A = AvailableSpace *)
  Theorem C04_maybe_math : forall k, 0 < k ->
    let L := sc k in let O := op_rel (sc k) in let A := av_rel (sc k) in
    homog2 O O O maybe_min_oo /\ homog2 O O O maybe_max_oo /\ homog3 O O O O maybe_clamp_oo /\
    homog2 O O O maybe_add_oo /\ homog2 O O O maybe_sub_oo /\
    homog2 O L O maybe_min_of /\ homog2 O L O maybe_max_of /\ homog3 O L L O maybe_clamp_of /\
    homog2 O L O maybe_add_of /\ homog2 O L O maybe_sub_of /\
    homog2 L O L maybe_min_fo /\ homog2 L O L maybe_max_fo /\ homog3 L O O L maybe_clamp_fo /\
    homog2 L O L maybe_add_fo /\ homog2 L O L maybe_sub_fo /\
    homog2 A L A maybe_min_af /\ homog2 A L A maybe_max_af /\ homog3 A L L A maybe_clamp_af /\
    homog2 A L A maybe_add_af /\ homog2 A L A maybe_sub_af /\
    homog2 A O A maybe_min_ao /\ homog2 A O A maybe_max_ao /\ homog3 A O O A maybe_clamp_ao /\
    homog2 A O A maybe_add_ao /\ homog2 A O A maybe_sub_ao.
  Proof.
    intros k Hk L O A. unfold homog2, homog3.
    repeat split; intros.
    - apply (rel_maybe_min_oo k Hk); assumption.
    - apply (rel_maybe_max_oo k Hk); assumption.
    - apply (rel_maybe_clamp_oo k Hk); assumption.
    - apply (rel_maybe_add_oo k); assumption.
    - apply (rel_maybe_sub_oo k); assumption.
    - apply (rel_maybe_min_of k Hk); assumption.
    - apply (rel_maybe_max_of k Hk); assumption.
    - apply (rel_maybe_clamp_of k Hk); assumption.
    - apply (rel_maybe_add_of k); assumption.
    - apply (rel_maybe_sub_of k); assumption.
    - apply (rel_maybe_min_fo k Hk); assumption.
    - apply (rel_maybe_max_fo k Hk); assumption.
    - apply (rel_maybe_clamp_fo k Hk); assumption.
    - apply (rel_maybe_add_fo k); assumption.
    - apply (rel_maybe_sub_fo k); assumption.
    - apply (rel_maybe_min_af k Hk); assumption.
    - apply (rel_maybe_max_af k Hk); assumption.
    - apply (rel_maybe_clamp_af k Hk); assumption.
    - apply (rel_maybe_add_af k); assumption.
    - apply (rel_maybe_sub_af k); assumption.
    - apply (rel_maybe_min_ao k Hk); assumption.
    - apply (rel_maybe_max_ao k Hk); assumption.
    - apply (rel_maybe_clamp_ao k Hk); assumption.
    - apply (rel_maybe_add_ao k); assumption.
    - apply (rel_maybe_sub_ao k); assumption.
  Qed.
  Print Assumptions C04_maybe_math.

  (* MaybeResolve / ResolveOrZero (src/util/resolve.rs): a length resolves to the scaled length, a percentage to
     percentage * scaled basis; Size::maybe_apply_aspect_ratio (src/geometry.rs) *)
  Theorem C04_resolve : forall k, 0 < k ->
    let L := sc k in let O := op_rel (sc k) in
    homog2 (lp_rel k) O O maybe_resolve_lp /\ homog2 (lpa_rel k) O O maybe_resolve_lpa /\
    homog2 (lpa_rel k) O O maybe_resolve_dim /\
    homog2 (lp_rel k) O L resolve_or_zero_lp /\ homog2 (lpa_rel k) O L resolve_or_zero_lpa /\
    homog2 (lpa_rel k) O L resolve_or_zero_dim /\
    homog2 (sz_rel O) (op_rel dl) (sz_rel O) maybe_apply_aspect_ratio.
  Proof.
    intros k Hk L O. unfold homog2. split; [|split; [|split; [|split; [|split; [|split]]]]]; intros.
    - apply (rel_maybe_resolve_lp k Hk); assumption.
    - apply (rel_maybe_resolve_lpa k Hk); assumption.
    - apply (rel_maybe_resolve_dim k Hk); assumption.
    - apply (rel_resolve_or_zero_lp k Hk); assumption.
    - apply (rel_resolve_or_zero_lpa k Hk); assumption.
    - apply (rel_resolve_or_zero_dim k Hk); assumption.
    - apply (rel_maybe_apply_aspect_ratio k Hk); assumption.
  Qed.
  Print Assumptions C04_resolve.

  (* e.g. the functional reading for one table: a length is scaled, a percentage multiplies the scaled basis *)
  Theorem C04_resolve_or_zero_scaled : forall k d c, 0 < k ->
    xeq (resolve_or_zero_lpa (lpa_scale k d) (opt_scale k c)) (x_scale k (resolve_or_zero_lpa d c)).
  Proof. intros k d c Hk. apply (rel_resolve_or_zero_lpa k Hk); [apply lpa_rel_scale | apply op_rel_scale]. Qed.
  Print Assumptions C04_resolve_or_zero_scaled.

  (* compute_leaf_layout (src/compute/leaf.rs, all run modes and sizing modes): scaling the style, the known dimensions,
     the parent size and the available space, with a measure function that is homogeneous, gives the same panic
     behaviour, the scaled LayoutOutput and the scaled arguments of the measure call *)
  Theorem C04_leaf : forall k st i measure measure', 0 < k -> measure_homog k measure measure' ->
    result_rel (output_rel k) k (compute_leaf_layout i st measure)
                                (compute_leaf_layout (input_scale k i) (style_scale k st) measure').
  Proof.
    intros k st i m m' Hk Hm. apply (leaf_homog k Hk); [apply style_rel_scale | apply input_rel_scale | exact Hm].
  Qed.
  Print Assumptions C04_leaf.
  (* the general form: any related style / inputs *)
  Theorem C04_leaf_related : forall k st st' i i' measure measure', 0 < k ->
    style_rel k st st' -> input_rel k i i' -> measure_homog k measure measure' ->
    result_rel (output_rel k) k (compute_leaf_layout i st measure) (compute_leaf_layout i' st' measure').
  Proof. intros k st st' i i' m m' Hk. apply (leaf_homog k Hk). Qed.
  Print Assumptions C04_leaf_related.

  (* the unrounded Layout of a one-node tree (compute_root_layout + dispatch + compute_leaf_layout, Model/Root.v) *)
  Theorem C04_root_leaf : forall k st av measure measure', 0 < k -> measure_homog k measure measure' ->
    result_rel (layout_rel k) k (root_leaf st measure av) (root_leaf (style_scale k st) measure' (savail_scale k av)).
  Proof.
    intros k st av m m' Hk Hm. apply (root_leaf_homog k Hk); [apply style_rel_scale | apply savail_rel_scale | exact Hm].
  Qed.
  Print Assumptions C04_root_leaf.

  (* `related` means `equal to the scaled value` (here for the sizes of a LayoutOutput) *)
  Theorem C04_related_is_scaled : forall k o o',
    output_rel k o o' <->
    sz_rel dl (out_size (output_scale k o)) (out_size o') /\
    sz_rel dl (out_content_size (output_scale k o)) (out_content_size o') /\
    margins_can_collapse_through o' = margins_can_collapse_through o /\
    pt_rel (op_rel (sc k)) (first_baselines o) (first_baselines o') /\
    mset_rel k (top_margin o) (top_margin o') /\ mset_rel k (bottom_margin o) (bottom_margin o').
  Proof. exact output_rel_iff. Qed.
  Print Assumptions C04_related_is_scaled.

  (* the hypothesis on measure functions is satisfiable: the harness's Fixed(w,h) and Echo(base) measure functions with
     the scaled context are homogeneous; and the one-function equational reading implies the relational one *)
  Theorem C04_measure_examples : forall k w h base, 0 < k ->
    measure_homog k (measure_fixed w h) (measure_fixed (x_scale k w) (x_scale k h)) /\
    measure_homog k (measure_echo base) (measure_echo (x_scale k base)).
  Proof. intros k w h base Hk. split; [apply measure_fixed_homog | apply measure_echo_homog; exact Hk]. Qed.
  Print Assumptions C04_measure_examples.
  Theorem C04_measure_equational : forall k m m',
    measure_proper m' ->
    (forall kd av, sz_rel dl (size_scale k (m kd av)) (m' (osize_scale k kd) (savail_scale k av))) ->
    measure_homog k m m'.
  Proof. exact measure_homog_of_eq. Qed.
  Print Assumptions C04_measure_equational.

  (* ---- non-vacuity (computed): a content-box block leaf with a scrollbar, percentage padding / margin / max-height, an
     echoing measure function, a definite parent and available width: the call succeeds (Some, one measure call) and every
     output length of the 4x scaled run is 4x the original; same through compute_root_layout *)
  Definition ex04_style : Style XQ :=
    mkStyle DBlock Relative ContentBox (mkPoint Visible Scroll) (Fin 12)
            (mkSize Auto Auto) (mkSize Auto (Length (Fin 5))) (mkSize (Length (Fin 90)) (Percent (Fin (1#2)))) None
            (mkRect (Length (Fin 3)) Auto (Length (Fin 7)) (Percent (Fin (1#4))))
            (mkRect (LpLength (Fin 1)) (LpLength (Fin 2)) (LpLength (Fin 3)) (LpPercent (Fin (1#10))))
            (mkRect (LpLength (Fin 1)) (LpLength (Fin 1)) (LpLength (Fin 1)) (LpLength (Fin 1))).
  Definition ex04_input : LayoutInput XQ :=
    mkInput PerformLayout InherentSize (mkSize None None) (mkSize (Some (Fin 200)) (Some (Fin 100)))
            (mkSize (Definite (Fin 200)) MaxContent).
  Definition ex04_view (r : option (LayoutOutput XQ * list (MeasureCall XQ))) :=
    option_map (fun p => (x_red (width (out_size (fst p))), x_red (height (out_size (fst p))),
                          x_red (width (out_content_size (fst p))), length (snd p))) r.
  Example C04_leaf_example :
    measure_homog 4 (measure_echo (Fin 40)) (measure_echo (x_scale 4 (Fin 40))) /\
    ex04_view (compute_leaf_layout ex04_input ex04_style (measure_echo (Fin 40))) = Some (Fin 57, Fin 45, Fin 43, 1%nat) /\
    ex04_view (compute_leaf_layout (input_scale 4 ex04_input) (style_scale 4 ex04_style) (measure_echo (x_scale 4 (Fin 40))))
      = Some (Fin 228, Fin 180, Fin 172, 1%nat).
  Proof. split; [apply measure_echo_homog; reflexivity | split; vm_compute; reflexivity]. Qed.
  Definition ex04_lview (r : option (Layout XQ * list (MeasureCall XQ))) :=
    option_map (fun p => (x_red (px (l_location (fst p))), x_red (py (l_location (fst p))), x_red (width (l_size (fst p))),
                          x_red (height (l_size (fst p))), length (snd p))) r.
  Definition ex04_avail : Size (AvailableSpace XQ) := mkSize (Definite (Fin 200)) MaxContent.
  Example C04_root_leaf_example :
    ex04_lview (root_leaf ex04_style (measure_echo (Fin 40)) ex04_avail) = Some (Fin 0, Fin 0, Fin 95, Fin 45, 1%nat) /\
    ex04_lview (root_leaf (style_scale 4 ex04_style) (measure_echo (x_scale 4 (Fin 40))) (savail_scale 4 ex04_avail))
      = Some (Fin 0, Fin 0, Fin 380, Fin 180, 1%nat).
  Proof. split; vm_compute; reflexivity. Qed.
  (* both premises of C04_measure_equational hold of the fixed-size measure function *)
  Example C04_measure_equational_premises : forall k w h,
    measure_proper (measure_fixed (x_scale k w) (x_scale k h)) /\
    (forall kd av, sz_rel dl (size_scale k (measure_fixed w h kd av))
                            (measure_fixed (x_scale k w) (x_scale k h) (osize_scale k kd) (savail_scale k av))).
  Proof.
    intros k w h. split.
    - intros kd kd' av av' [Hw Hh] _. unfold measure_fixed. split; cbn [width height].
      + destruct (width kd), (width kd'); cbn in Hw |- *; try contradiction; [exact Hw|apply dl_refl].
      + destruct (height kd), (height kd'); cbn in Hh |- *; try contradiction; [exact Hh|apply dl_refl].
    - intros kd av. unfold measure_fixed, size_scale, osize_scale. destruct kd as [[a|] [b|]]; split; cbn; apply dl_refl.
  Qed.
End LeafKernels.

(* ------------------------------------------------------------------------------------------------------------ *)
(** * Absolutely positioned children (geometry of Model/AbsPosBase.v) *)
Module AbsKernels.
  Import TV.Gen.AbsPosEnums TV.Model.AbsPosBase TV.Gen.AbsPosGen TV.Model.AbsPos TV.Model.ScaleAbs TV.Proofs.ScaleAbsProofs.

  (* block: perform_absolute_layout_on_absolute_children (block.rs) for one child: container geometry, static position,
     resolved child inputs and the measured size scaled => location, size and margins scaled *)
  Theorem C04_abs_block : forall k ct sp i measure measure', 0 < k -> abs_measure_homog k measure measure' ->
    absout_rel k (abs_block ct sp i measure)
                 (abs_block (container_scale k ct) (apoint_scale k sp) (absin_scale k i) measure').
  Proof.
    intros k ct sp i m m' Hk Hm.
    apply (abs_block_homog k Hk); [apply container_rel_scale | apply apt_rel_scale | apply absin_rel_scale | exact Hm].
  Qed.
  Print Assumptions C04_abs_block.
  (* flex: perform_absolute_layout_on_absolute_children (flexbox.rs) *)
  Theorem C04_abs_flex : forall k c i measure measure', 0 < k -> abs_measure_homog k measure measure' ->
    absout_rel k (abs_flex c i measure) (abs_flex (flexc_scale k c) (absin_scale k i) measure').
  Proof.
    intros k c i m m' Hk Hm. apply (abs_flex_homog k Hk); [apply flexc_rel_scale | apply absin_rel_scale | exact Hm].
  Qed.
  Print Assumptions C04_abs_flex.
  (* grid: align_and_position_item (grid/alignment.rs) for an absolute child with auto grid lines *)
  Theorem C04_abs_grid : forall k ct ji ai i measure measure', 0 < k -> abs_measure_homog k measure measure' ->
    absout_rel k (abs_grid ct ji ai i measure) (abs_grid (container_scale k ct) ji ai (absin_scale k i) measure').
  Proof.
    intros k ct ji ai i m m' Hk Hm. apply (abs_grid_homog k Hk); [apply container_rel_scale | apply absin_rel_scale | exact Hm].
  Qed.
  Print Assumptions C04_abs_grid.

  (* the same from the child's STYLE (lengths scaled, percentages / aspect ratio / enums untouched): resolution included *)
  Theorem C04_abs_styles : forall k ct sp dir wr jc ais ji ai st measure measure', 0 < k ->
    abs_measure_homog k measure measure' ->
    absout_rel k (abs_block_style ct sp st measure)
                 (abs_block_style (container_scale k ct) (apoint_scale k sp) (absstyle_scale k st) measure') /\
    absout_rel k (abs_flex_style (flex_constants ct dir wr jc ais) st measure)
                 (abs_flex_style (flex_constants (container_scale k ct) dir wr jc ais) (absstyle_scale k st) measure') /\
    absout_rel k (abs_grid_style ct ji ai st measure)
                 (abs_grid_style (container_scale k ct) ji ai (absstyle_scale k st) measure').
  Proof.
    intros k ct sp dir wr jc ais ji ai st m m' Hk Hm. split; [|split].
    - apply (abs_block_style_homog k Hk); [apply container_rel_scale | apply apt_rel_scale | apply absstyle_rel_scale | exact Hm].
    - apply (abs_flex_style_homog k Hk); [apply (rel_flex_constants k); apply container_rel_scale | apply absstyle_rel_scale | exact Hm].
    - apply (abs_grid_style_homog k Hk); [apply container_rel_scale | apply absstyle_rel_scale | exact Hm].
  Qed.
  Print Assumptions C04_abs_styles.

  Theorem C04_abs_related_is_scaled : forall k o o',
    absout_rel k o o' <->
    apt_rel dl (o_location (absout_scale k o)) (o_location o') /\ asz_rel dl (o_size (absout_scale k o)) (o_size o') /\
    arc_rel dl (o_margin (absout_scale k o)) (o_margin o').
  Proof. exact absout_rel_iff. Qed.
  Print Assumptions C04_abs_related_is_scaled.

  (* ---- non-vacuity: a homogeneous measure function for the absolute kernels, and one absolutely positioned child
     (content-box, 40 wide, 30% max width, percentage left inset, bottom inset, a top margin, padding and border 1) in a
     200x100 container with border 2, padding 5 and a 15px horizontal scrollbar, in all three container kinds, k = 5/2 *)
  Definition abs_measure_fixed (w h : XQ) : Size (option XQ) -> Size XQ :=
    fun kd => mkSize (match s_width kd with Some v => v | None => w end) (match s_height kd with Some v => v | None => h end).
  Example C04_abs_measure_example : forall k w h,
    abs_measure_homog k (abs_measure_fixed w h) (abs_measure_fixed (x_scale k w) (x_scale k h)).
  Proof.
    intros k w h kd kd' [Hw Hh]. unfold abs_measure_fixed. split; cbn [s_width s_height].
    - destruct (s_width kd), (s_width kd'); cbn in Hw; try contradiction; [exact Hw|apply sc_self].
    - destruct (s_height kd), (s_height kd'); cbn in Hh; try contradiction; [exact Hh|apply sc_self].
  Qed.
  Definition ex_ct : @Container XQ :=
    mkContainer (mkSize (Fin 200) (Fin 100)) (mkRect (Fin 2) (Fin 2) (Fin 2) (Fin 2)) (mkRect (Fin 5) (Fin 5) (Fin 5) (Fin 5))
                (mkPoint (Fin 0) (Fin 15)).
  Definition ex_abs_st : AbsStyle XQ :=
    mkAbsStyle (mkSize (DLength (Fin 40)) DAuto) (mkSize DAuto DAuto) (mkSize (DPercent (Fin (3#10))) DAuto)
               (mkRect (DPercent (Fin (1#10))) DAuto DAuto (DLength (Fin 8)))
               (mkRect DAuto DAuto (DLength (Fin 3)) DAuto)
               (mkRect (DLength (Fin 1)) (DLength (Fin 1)) (DLength (Fin 1)) (DLength (Fin 1)))
               (mkRect (DLength (Fin 1)) (DLength (Fin 1)) (DLength (Fin 1)) (DLength (Fin 1)))
               None BS_ContentBox None None Pos_Absolute.
  Definition ex_abs_view (o : AbsOut XQ) :=
    (x_red (p_x (o_location o)), x_red (p_y (o_location o)), x_red (s_width (o_size o)), x_red (s_height (o_size o))).
  Example C04_abs_example :
    let k := 5 # 2 in let sp := mkPoint (Fin 7) (Fin 9) in
    let m := abs_measure_fixed (Fin 25) (Fin 10) in let m' := abs_measure_fixed (x_scale k (Fin 25)) (x_scale k (Fin 10)) in
    ex_abs_view (abs_block_style ex_ct sp ex_abs_st m) = (Fin (108 # 5), Fin 2, Fin 44, Fin 10) /\
    ex_abs_view (abs_block_style (container_scale k ex_ct) (apoint_scale k sp) (absstyle_scale k ex_abs_st) m') = (Fin 54, Fin 5, Fin 110, Fin 25) /\
    ex_abs_view (abs_flex_style (flex_constants ex_ct FD_Row false (Some AC_Center) AI_End) ex_abs_st m) = (Fin (498 # 5), Fin (-22), Fin 44, Fin 10) /\
    ex_abs_view (abs_flex_style (flex_constants (container_scale k ex_ct) FD_Row false (Some AC_Center) AI_End) (absstyle_scale k ex_abs_st) m')
      = (Fin 249, Fin (-55), Fin 110, Fin 25) /\
    ex_abs_view (abs_grid_style ex_ct (Some AI_Center) None ex_abs_st m) = (Fin (108 # 5), Fin 65, Fin 44, Fin 10) /\
    ex_abs_view (abs_grid_style (container_scale k ex_ct) (Some AI_Center) None (absstyle_scale k ex_abs_st) m') = (Fin 54, Fin (325 # 2), Fin 110, Fin 25).
  Proof. repeat split; vm_compute; reflexivity. Qed.
End AbsKernels.

(* ------------------------------------------------------------------------------------------------------------ *)
(** * Where homogeneity fails *)
From TV Require Import Model.FlexFraction Proofs.FlexFractionProofs Proofs.ScaleNotes Model.Rounding.
From TV Require Model.Cache.

(* KNOWN FINDING flex-intrinsic-shrink-factor-floor.  determine_container_main_size (flexbox.rs, min-/max-content
   branch), per item (Model/FlexFraction.v): the floor f32_max(1.0, flex_shrink * inner_flex_basis) compares a length
   with 1, so the target size of an item whose content contribution is below its flex basis is not homogeneous.
   Witness: flex_shrink 1/2, flex basis 1, content 1/2, k = 4 (target 1/2, scaled 0 instead of 2); replayed on the
   implementation by `vh c04 witness`. *)
Theorem C04_flex_intrinsic_refuted :
  exists k cc fb ifb g s, 0 < k /\ finite cc /\ finite fb /\ finite ifb /\ finite g /\ finite s /\
    ~ sc k (item_target_size cc fb ifb g s)
           (item_target_size (x_scale k cc) (x_scale k fb) (x_scale k ifb) g s).
Proof. exact flex_intrinsic_not_homogeneous. Qed.
Print Assumptions C04_flex_intrinsic_refuted.
(* concrete values of three witnesses: flex_shrink 1/2 (1/2 -> 0, expected 2); flex_shrink 1, basis 1/2 (3/8 -> 1,
   expected 3/2: `flex_shrink >= 1` does not make the step homogeneous); flex_shrink 0 (-4 -> -24, expected -8: the
   contribution basis + basis * diff is quadratic in the lengths) *)
Theorem C04_flex_intrinsic_witness_values :
  (xeq (item_target_size (Fin (1#2)) (Fin 1) (Fin 1) (Fin 1) (Fin (1#2))) (Fin (1#2)) /\
   xeq (item_target_size (x_scale 4 (Fin (1#2))) (x_scale 4 (Fin 1)) (x_scale 4 (Fin 1)) (Fin 1) (Fin (1#2))) (Fin 0)) /\
  (xeq (item_target_size (Fin (1#4)) (Fin (1#2)) (Fin (1#2)) (Fin 1) (Fin 1)) (Fin (3#8)) /\
   xeq (item_target_size (x_scale 4 (Fin (1#4))) (x_scale 4 (Fin (1#2))) (x_scale 4 (Fin (1#2))) (Fin 1) (Fin 1)) (Fin 1)) /\
  (xeq (item_target_size (Fin 2) (Fin 4) (Fin 4) (Fin 1) (Fin 0)) (Fin (-4)) /\
   xeq (item_target_size (x_scale 2 (Fin 2)) (x_scale 2 (Fin 4)) (x_scale 2 (Fin 4)) (Fin 1) (Fin 0)) (Fin (-24))).
Proof. exact (conj flex_witness_shrink_half (conj flex_witness_shrink_one flex_witness_shrink_zero)). Qed.
Print Assumptions C04_flex_intrinsic_witness_values.
(* the complement, proved: the step IS homogeneous when the content contribution is not below the flex basis ... *)
Theorem C04_flex_intrinsic_diff_nonneg : forall k cc cc' fb fb' ifb ifb' g g' s s', 0 < k ->
  sc k cc cc' -> sc k fb fb' -> sc k ifb ifb' -> dl g g' -> dl s s' ->
  finite cc -> finite fb -> finite g ->
  ltb (sub cc fb) zero = false ->
  sc k (item_target_size cc fb ifb g s) (item_target_size cc' fb' ifb' g' s').
Proof. intros k cc cc' fb fb' ifb ifb' g g' s s' Hk. apply (flex_homog_diff_nonneg k Hk). Qed.
Print Assumptions C04_flex_intrinsic_diff_nonneg.
(* ... and when it is below but the floor is inactive at both scales (flex_shrink * inner_flex_basis >= 1 before and
   after scaling) *)
Theorem C04_flex_intrinsic_floor_inactive : forall k cc cc' fb fb' ifb ifb' g g' s s', 0 < k ->
  sc k cc cc' -> sc k fb fb' -> sc k ifb ifb' -> dl g g' -> dl s s' ->
  finite cc -> finite fb -> finite ifb -> finite s ->
  ltb (sub cc fb) zero = true ->
  leb one (mul s ifb) = true -> leb one (mul s' ifb') = true ->
  sc k (item_target_size cc fb ifb g s) (item_target_size cc' fb' ifb' g' s').
Proof. intros k cc cc' fb fb' ifb ifb' g g' s s' Hk. apply (flex_homog_floor_inactive k Hk). Qed.
Print Assumptions C04_flex_intrinsic_floor_inactive.
Example C04_flex_premises_satisfiable :
  ltb (sub (Fin 30) (Fin 20)) zero = false /\
  (ltb (sub (Fin 90) (Fin 100)) zero = true /\ leb one (mul (Fin (1#2)) (Fin 100)) = true /\
   leb one (mul (Fin (1#2)) (x_scale 2 (Fin 100))) = true).
Proof. exact flex_homog_premises_ok. Qed.

(* pixel rounding is not homogeneous (round(2 * 0.3) = 1, 2 * round(0.3) = 0), on the primitive and on the generated
   rounding pass: the reason the property speaks of UNROUNDED output lengths *)
Theorem C04_rounding_refuted :
  (exists k x, 0 < k /\ finite x /\ ~ sc k (fround x) (fround (x_scale k x))) /\
  (exists k w, 0 < k /\ finite w /\
     ~ sc k (size_width (round_node zero zero (lay_w w))) (size_width (round_node zero zero (lay_w (x_scale k w))))).
Proof. exact (conj fround_not_homogeneous round_layout_not_homogeneous). Qed.
Print Assumptions C04_rounding_refuted.

(* absolute thresholds: AvailableSpace::is_roughly_equal (|a - b| < f32::EPSILON, the cache compatibility of C02) and
   the grid track sizing loop (`space > THRESHOLD`) are not invariant; scaling the lengths by k amounts to scaling the
   threshold by 1/k; is_roughly_equal is invariant when the two values are equal or at least EPSILON apart at both scales
   (the case for every pair the oracle produces).  LIMITATION: the cache is not part of the kernels above. *)
Theorem C04_threshold_note :
  (exists k a b, 0 < k /\ finite a /\ finite b /\
     Cache.roughly a b = true /\ Cache.roughly (x_scale k a) (x_scale k b) = false) /\
  (exists k space, 0 < k /\ finite space /\
     above_threshold (Fin (1#100)) space = true /\ above_threshold (Fin (1#100)) (x_scale k space) = false) /\
  (forall k t t' space space', 0 < k -> sc k t t' -> sc k space space' ->
     above_threshold t' space' = above_threshold t space) /\
  (forall k a b, 0 < k -> finite a -> finite b ->
     (xeq a b \/ (Cache.roughly a b = false /\ Cache.roughly (x_scale k a) (x_scale k b) = false)) ->
     Cache.roughly (x_scale k a) (x_scale k b) = Cache.roughly a b).
Proof. exact (conj roughly_not_invariant (conj threshold_not_invariant (conj threshold_exact roughly_invariant_far))). Qed.
Print Assumptions C04_threshold_note.

(* ============================================================================================================ *)
(** * Container kernels.  Each kernel is a Num-generic Gallina model tied to the implementation bit for bit by its own
      property's correspondence (flex: C07, block: C10, grid tracks: C09), re-run by ./check C04 with its own seed.
      Statements: related inputs give related outputs; `X_rel k x (X_scale k x)` holds for every x, so each theorem
      instantiates to f (scale k x) ~ scale k (f x).  Loops are fuelled: the fuel is a function of the number of items /
      tracks, hence the same on both sides.  No finiteness premise anywhere. *)

From TV Require Gen.FlexGen Model.Flex Model.ScaleFlex Proofs.ScaleFlex Proofs.FlexProofs.
From TV Require Gen.BlockGen Model.Block Model.ScaleBlock Proofs.ScaleBlock.
From TV Require Gen.GridTracksGen Model.GridTracks Model.ScaleGrid Proofs.ScaleGrid.

(* ------------------------------------------------------------------------------------------------------------ *)
(** ** Flexbox main axis (Model/Flex.v over the regenerated Gen/FlexGen.v) *)
Module FlexKernels.
  Import TV.Gen.FlexGen TV.Model.Flex TV.Model.ScaleFlex TV.Proofs.ScaleKit TV.Proofs.ScaleFlex.
  Import ListNotations.
  Local Open Scope Q_scope.

  (* the three generated tables: sum_axis_gaps and compute_alignment_offset are lengths, the alignment fallback
     (a decision on `free_space <= 0`) is invariant *)
  Theorem C04_flex_tables : forall k f f' gap gap' n mode safe rev first, 0 < k -> sc k f f' -> sc k gap gap' ->
    sc k (sum_axis_gaps gap n) (sum_axis_gaps gap' n) /\
    apply_alignment_fallback f' n mode safe = apply_alignment_fallback f n mode safe /\
    sc k (compute_alignment_offset f n gap mode rev first) (compute_alignment_offset f' n gap' mode rev first).
  Proof.
    intros k f f' gap gap' n mode safe rev first Hk Hf Hg. split; [|split].
    - apply (rel_sum_axis_gaps k Hk). exact Hg.
    - apply (rel_apply_alignment_fallback k Hk). exact Hf.
    - apply (rel_compute_alignment_offset k Hk); assumption.
  Qed.
  Print Assumptions C04_flex_tables.

  (* resolve_flexible_lengths (9.7: freeze inflexible items, then the fuelled freeze / violation loop): same fuel
     exhaustion behaviour (None / Some), every field of every item related (target sizes, outer target sizes and
     violations scaled, frozen flags equal) *)
  Theorem C04_flex_resolve_flexible_lengths : forall k items gap inner_main, 0 < k ->
    op_rel (items_rel k) (resolve_flexible_lengths items gap inner_main)
                         (resolve_flexible_lengths (map (item_scale k) items) (x_scale k gap) (opt_scale k inner_main)).
  Proof.
    intros k items gap im Hk.
    apply (resolve_flexible_lengths_homog k Hk); [apply items_rel_scale | apply sc_self | apply op_rel_scale].
  Qed.
  Print Assumptions C04_flex_resolve_flexible_lengths.
  Theorem C04_flex_resolve_flexible_lengths_related : forall k items items' gap gap' im im', 0 < k ->
    items_rel k items items' -> sc k gap gap' -> op_rel (sc k) im im' ->
    op_rel (items_rel k) (resolve_flexible_lengths items gap im) (resolve_flexible_lengths items' gap' im').
  Proof. intros k items items' gap gap' im im' Hk. apply (resolve_flexible_lengths_homog k Hk). Qed.
  Print Assumptions C04_flex_resolve_flexible_lengths_related.

  (* distribute_remaining_free_space (9.5: auto margins, else justify-content through the generated tables) *)
  Theorem C04_flex_distribute_remaining_free_space : forall k items gap inner_main justify reverse, 0 < k ->
    items_rel k (distribute_remaining_free_space items gap inner_main justify reverse)
                (distribute_remaining_free_space (map (item_scale k) items) (x_scale k gap) (x_scale k inner_main) justify reverse).
  Proof.
    intros k items gap im jc rev Hk.
    apply (distribute_remaining_free_space_homog k Hk); [apply items_rel_scale | apply sc_self | apply sc_self].
  Qed.
  Print Assumptions C04_flex_distribute_remaining_free_space.

  (* main-axis locations of the items of a line; the main size each child's layout returned is an oracle value *)
  Theorem C04_flex_line_positions : forall k main_start reverse l, 0 < k ->
    Forall2 (sc k) (line_positions main_start reverse l) (line_positions (x_scale k main_start) reverse (map (placed_scale k) l)).
  Proof. intros k ms rev l Hk. apply (line_positions_homog k); [apply sc_self | apply placed_rel_scale]. Qed.
  Print Assumptions C04_flex_line_positions.

  (* the composition used by the C07 correspondence: 9.7, then 9.5 on its result, then the locations *)
  Theorem C04_flex_line : forall k items items' gap gap' im im' justify reverse ms ms' sizes sizes', 0 < k ->
    items_rel k items items' -> sc k gap gap' -> sc k im im' -> sc k ms ms' -> Forall2 (sc k) sizes sizes' ->
    op_rel (Forall2 (sc k))
      (option_map (fun r => line_positions ms reverse (combine (distribute_remaining_free_space r gap im justify reverse) sizes))
                  (resolve_flexible_lengths items gap (Some im)))
      (option_map (fun r => line_positions ms' reverse (combine (distribute_remaining_free_space r gap' im' justify reverse) sizes'))
                  (resolve_flexible_lengths items' gap' (Some im'))).
  Proof.
    intros k items items' gap gap' im im' jc rev ms ms' sizes sizes' Hk Hi Hg Him Hms Hsz.
    eapply rel_option_map; [apply (resolve_flexible_lengths_homog k Hk); eassumption|].
    intros r r' Hr. apply (line_positions_homog k); [exact Hms|].
    apply (combine_placed_rel k). apply (distribute_remaining_free_space_homog k Hk); assumption. exact Hsz.
  Qed.
  Print Assumptions C04_flex_line.

  (* the `op_rel` of the two theorems above relates None (loop out of fuel) to None; that reading is excluded: the loop
     terminates within its fuel for ALL values (C07_loop_terminates), so both runs return items, and they are related *)
  Theorem C04_flex_resolve_flexible_lengths_total : forall k items gap inner_main, 0 < k ->
    exists r r', resolve_flexible_lengths items gap inner_main = Some r /\
                 resolve_flexible_lengths (map (item_scale k) items) (x_scale k gap) (opt_scale k inner_main) = Some r' /\
                 items_rel k r r'.
  Proof.
    intros k items gap im Hk.
    pose proof (resolve_flexible_lengths_homog k Hk items (map (item_scale k) items) gap (x_scale k gap) im (opt_scale k im)
                  (items_rel_scale k items) (sc_self k gap) (op_rel_scale k im)) as H.
    destruct (TV.Proofs.FlexProofs.loop_terminates items gap im) as [r Er].
    destruct (TV.Proofs.FlexProofs.loop_terminates (map (item_scale k) items) (x_scale k gap) (opt_scale k im)) as [r' Er'].
    rewrite Er, Er' in H. exists r, r'. repeat split; assumption.
  Qed.
  Print Assumptions C04_flex_resolve_flexible_lengths_total.
  (* three items (grow 1 with max 50 and margin 4, grow 2, grow 0 / shrink 1/2 with min 10), gap 6: growing into 300 and
     shrinking into 100, original and scaled by 1/4 *)
  Definition ex_item (b g s mn : Q) (mx : option Q) (ms : Q) : FlexItem XQ :=
    mkItem (Fin b) (Fin b) (Fin b) (Fin (b + ms)) (Fin mn) (option_map Fin mx) (Fin g) (Fin s) (Fin ms) (Fin 0) false false (Fin 0)
           false (Fin 0) (Fin 0) (Fin 0) (Fin 0).
  Definition ex_items : list (FlexItem XQ) :=
    [ex_item 40 1 1 0 (Some 50) 4; ex_item 60 2 1 0 None 0; ex_item 30 0 (1#2) 10 None 0].
  Definition ex_targets (r : option (list (FlexItem XQ))) := option_map (map (fun c => (x_red (fi_target c), fi_frozen c))) r.
  Definition ex_scaled (k : Q) (im : Q) := resolve_flexible_lengths (map (item_scale k) ex_items) (x_scale k (Fin 6)) (opt_scale k (Some (Fin im))).
  Example C04_flex_example :
    ex_targets (resolve_flexible_lengths ex_items (Fin 6) (Some (Fin 300))) = Some [(Fin 50, true); (Fin 204, true); (Fin 30, true)] /\
    ex_targets (ex_scaled (1#4) 300) = Some [(Fin (25 # 2), true); (Fin 51, true); (Fin (15 # 2), true)] /\
    ex_targets (resolve_flexible_lengths ex_items (Fin 6) (Some (Fin 100))) = Some [(Fin 24, true); (Fin 36, true); (Fin 24, true)] /\
    ex_targets (ex_scaled (1#4) 100) = Some [(Fin 6, true); (Fin 9, true); (Fin 6, true)].
  Proof. repeat split; vm_compute; reflexivity. Qed.
End FlexKernels.

(* ------------------------------------------------------------------------------------------------------------ *)
(** ** Block flow (Model/Block.v over the regenerated Gen/BlockGen.v) *)
Module BlockKernels.
  Import TV.Gen.BlockGen TV.Model.Block TV.Model.ScaleBlock TV.Proofs.ScaleKit TV.Proofs.ScaleBlock.
  Local Open Scope Q_scope.

  (* CollapsibleMarginSet (src/tree/layout.rs, regenerated): every operation *)
  Theorem C04_block_margin_sets : forall k s s' o o' m m', 0 < k -> bms_rel k s s' -> bms_rel k o o' -> sc k m m' ->
    bms_rel k ms_ZERO ms_ZERO /\ bms_rel k (ms_from_margin m) (ms_from_margin m') /\
    bms_rel k (ms_collapse_with_margin s m) (ms_collapse_with_margin s' m') /\
    bms_rel k (ms_collapse_with_set s o) (ms_collapse_with_set s' o') /\ sc k (ms_resolve s) (ms_resolve s').
  Proof.
    intros k s s' o o' m m' Hk Hs Ho Hm. repeat split.
    all: first [ apply (rel_ms_ZERO k) | apply (rel_ms_from_margin k Hk); assumption
               | apply (rel_ms_collapse_with_margin k Hk); assumption | apply (rel_ms_collapse_with_set k Hk); assumption
               | apply (rel_ms_resolve k); assumption ].
  Qed.
  Print Assumptions C04_block_margin_sets.

  (* generate_item_list: the children's styles resolved against the container's content box *)
  Theorem C04_block_generate_item_list : forall k styles inner_size, 0 < k ->
    Forall2 (bitem_rel k) (generate_item_list styles inner_size)
                          (generate_item_list (map (bstyle_scale k) styles) (bsz_map (opt_scale k) inner_size)).
  Proof.
    intros k sts nis Hk. apply (generate_item_list_homog k Hk); [apply bstyles_rel_scale | apply bsz_rel_scale; apply op_rel_scale].
  Qed.
  Print Assumptions C04_block_generate_item_list.

  (* perform_final_layout_on_in_flow_children: the whole loop.  Every child's LayoutOutput is an oracle value of the
     model and is scaled as well (sizes, content sizes, both margin sets; the collapse-through flag is kept).  Result:
     every item's location, size, resolved margins, static position, the known dimensions and the available width
     passed to the child, both collapsed margin sets are scaled; order / in-flow / collapse-through flags are equal;
     content size, intrinsic height, first / last margin sets of the container are scaled *)
  Theorem C04_block_inflow : forall k P xs, 0 < k ->
    binflow_rel k (block_inflow P xs) (block_inflow (bparams_scale k P) (map (bpair_scale k) xs)).
  Proof. intros k P xs Hk. apply (block_inflow_homog k Hk); [apply bparams_rel_scale | apply bpairs_rel_scale]. Qed.
  Print Assumptions C04_block_inflow.
  Theorem C04_block_inflow_related : forall k P P' xs xs', 0 < k ->
    bparams_rel k P P' -> Forall2 (bpair_rel k) xs xs' -> binflow_rel k (block_inflow P xs) (block_inflow P' xs').
  Proof. intros k P P' xs xs' Hk. apply (block_inflow_homog k Hk). Qed.
  Print Assumptions C04_block_inflow_related.

  (* compute_inner's decisions are INVARIANT: which of the container's margins collapse with its children's, whether
     its style prevents it from being collapsed through, and whether it can be collapsed through *)
  Theorem C04_block_decisions_invariant : forall k st inp rs rs', 0 < k -> Forall2 (bres_rel k) rs rs' ->
    block_own_collapse (bstyle_scale k st) (binput_scale k inp) = block_own_collapse st inp /\
    block_prevent_ct (bstyle_scale k st) (binput_scale k inp) = block_prevent_ct st inp /\
    block_can_collapse_through (bstyle_scale k st) (binput_scale k inp) rs' = block_can_collapse_through st inp rs.
  Proof.
    intros k st inp rs rs' Hk Hrs. pose proof (bstyle_rel_scale k st) as Hst. pose proof (binput_rel_scale k inp) as Hin.
    split; [|split].
    - apply (block_own_collapse_invariant k Hk); assumption.
    - apply (block_prevent_ct_invariant k Hk); assumption.
    - apply (block_can_collapse_through_invariant k Hk); assumption.
  Qed.
  Print Assumptions C04_block_decisions_invariant.

  (* ... and its lengths are scaled: the loop constants derived from the style, the content box handed to the items,
     the outer height from the intrinsic height, the two margin sets of the container's LayoutOutput *)
  Theorem C04_block_compute_inner : forall k st st' inp inp' w w' h h' io io', 0 < k ->
    bstyle_rel k st st' -> binput_rel k inp inp' -> sc k w w' -> sc k h h' -> binflow_rel k io io' ->
    bparams_rel k (block_params st inp w) (block_params st' inp' w') /\
    bsz_rel (op_rel (sc k)) (block_node_inner_size st inp) (block_node_inner_size st' inp') /\
    sc k (block_outer_height st inp h) (block_outer_height st' inp' h') /\
    bms_rel k (fst (block_output_margins st inp io)) (fst (block_output_margins st' inp' io')) /\
    bms_rel k (snd (block_output_margins st inp io)) (snd (block_output_margins st' inp' io')).
  Proof.
    intros k st st' inp inp' w w' h h' io io' Hk Hst Hin Hw Hh Hio. split; [|split; [|split]].
    - apply (block_params_homog k Hk); assumption.
    - apply (block_node_inner_size_homog k Hk); assumption.
    - apply (block_outer_height_homog k Hk); assumption.
    - apply (block_output_margins_homog k Hk); assumption.
  Qed.
  Print Assumptions C04_block_compute_inner.

  (* the composition compute_inner performs around the loop (a restatement over XQ of what the runner of the C10
     correspondence K2, Model/BlockRun.v run_case2, composes -- that runner filters display:none outputs itself, block_container
     expects them already filtered): items from the
     children's styles, loop constants from the container's style, the loop, then the container's outer height, margin
     sets and collapse-through flag (block_container, Model/ScaleBlock.v) -- from the container's style, its inputs, its
     outer width, the children's styles and the children's LayoutOutputs, all scaled *)
  Theorem C04_block_container : forall k st inp w styles outs, 0 < k ->
    let r := block_container st inp w styles outs in
    let r' := block_container (bstyle_scale k st) (binput_scale k inp) (x_scale k w) (map (bstyle_scale k) styles) (map (bout_scale k) outs) in
    binflow_rel k (fst (fst (fst r))) (fst (fst (fst r'))) /\ sc k (snd (fst (fst r))) (snd (fst (fst r'))) /\
    bms_rel k (fst (snd (fst r))) (fst (snd (fst r'))) /\ bms_rel k (snd (snd (fst r))) (snd (snd (fst r'))) /\
    snd r' = snd r.
  Proof.
    intros k st inp w styles outs Hk.
    apply (block_container_homog k Hk); [apply bstyle_rel_scale | apply binput_rel_scale | apply sc_self | apply bstyles_rel_scale | apply bouts_rel_scale].
  Qed.
  Print Assumptions C04_block_container.
End BlockKernels.

(* ------------------------------------------------------------------------------------------------------------ *)
(** ** Grid tracks (Model/GridTracks.v over the regenerated Gen/GridTracksGen.v) *)
Module GridKernels.
  Import TV.Gen.GridTracksGen TV.Model.GridTracks TV.Model.ScaleGrid TV.Proofs.ScaleKit TV.Proofs.ScaleGrid.
  Import ListNotations.
  Local Open Scope Q_scope.

  (* compute_explicit_grid_size_in_axis: the number of explicit tracks -- in particular the number of repetitions of
     repeat(auto-fill | auto-fit, ..), floor / ceil of a quotient of two lengths -- is invariant *)
  Theorem C04_grid_explicit_count : forall k template inner gap size_is_maximum, 0 < k ->
    explicit_grid_size (map (tsf_scale k) template) (opt_scale k inner) (sfn_scale k gap) size_is_maximum
    = explicit_grid_size template inner gap size_is_maximum.
  Proof.
    intros k tpl inner gap mx Hk.
    apply (explicit_grid_size_invariant k Hk); [apply Forall2_self; apply tsf_rel_scale | apply op_rel_scale | apply sfn_rel_scale].
  Qed.
  Print Assumptions C04_grid_explicit_count.

  (* initialize_grid_tracks (structure of the track vector) and initialize_track_sizes (11.4) *)
  Theorem C04_grid_initialize_tracks : forall k counts template autos gap has_items inner, 0 < k ->
    tracks_rel k (initialize_grid_tracks counts template autos gap has_items)
                 (initialize_grid_tracks counts (map (tsf_scale k) template) (map (nrt_scale k) autos) (sfn_scale k gap) has_items) /\
    tracks_rel k (initialize_track_sizes inner (initialize_grid_tracks counts template autos gap has_items))
                 (initialize_track_sizes (opt_scale k inner)
                    (initialize_grid_tracks counts (map (tsf_scale k) template) (map (nrt_scale k) autos) (sfn_scale k gap) has_items)).
  Proof.
    intros k counts tpl autos gap hi inner Hk.
    assert (H : tracks_rel k (initialize_grid_tracks counts tpl autos gap hi)
                  (initialize_grid_tracks counts (map (tsf_scale k) tpl) (map (nrt_scale k) autos) (sfn_scale k gap) hi)).
    { apply (initialize_grid_tracks_homog k); [apply Forall2_self; apply tsf_rel_scale | apply Forall2_self; apply nrt_rel_scale | apply sfn_rel_scale]. }
    split; [exact H|]. apply (initialize_track_sizes_homog k Hk); [apply op_rel_scale | exact H].
  Qed.
  Print Assumptions C04_grid_initialize_tracks.

  (* THE THRESHOLD.  distribute_space_up_to_limits with the threshold as an explicit argument (`_t tau`; `_t threshold` is
     the model's function, by reflexivity) is homogeneous when the threshold is scaled like a length ... *)
  Theorem C04_grid_threshold_forms :
    distribute_space_up_to_limits_t (T := XQ) threshold = distribute_space_up_to_limits /\
    maximise_tracks_t (T := XQ) threshold = maximise_tracks /\
    track_sizing_algorithm_t (T := XQ) threshold = track_sizing_algorithm.
  Proof. repeat split; reflexivity. Qed.
  Print Assumptions C04_grid_threshold_forms.
  Theorem C04_grid_distribute_related : forall k tau tau' sp sp' ts ts' aff aff' pr pr' pp pp' lim lim', 0 < k ->
    sc k tau tau' -> affected_inv k aff aff' -> tfun_dl k pr pr' -> tfun_sc k pp pp' -> tfun_sc k lim lim' ->
    sc k sp sp' -> tracks_rel k ts ts' ->
    sc k (fst (distribute_space_up_to_limits_t tau sp ts aff pr pp lim))
         (fst (distribute_space_up_to_limits_t tau' sp' ts' aff' pr' pp' lim')) /\
    tracks_rel k (snd (distribute_space_up_to_limits_t tau sp ts aff pr pp lim))
                 (snd (distribute_space_up_to_limits_t tau' sp' ts' aff' pr' pp' lim')).
  Proof.
    intros k tau tau' sp sp' ts ts' aff aff' pr pr' pp pp' lim lim' Hk Ht Ha Hpr Hpp Hlim Hsp Hts.
    apply (distribute_space_up_to_limits_homog k Hk tau tau' Ht aff aff' pr pr' pp pp' lim lim'); assumption.
  Qed.
  Print Assumptions C04_grid_distribute_related.
  (* ... which for the real, fixed THRESHOLD is the precise statement  dist THRESHOLD (scale k x) ~ scale k (dist (THRESHOLD / k) x):
     scaling the lengths by k is scaling the threshold by 1 / k (here as maximise_tracks calls it: every track affected,
     proportion 1, base size against the fit-content-limited growth limit) *)
  Theorem C04_grid_distribute_threshold : forall k inner sp ts, 0 < k ->
    let lim := fit_content_limited_growth_limit in
    let r := distribute_space_up_to_limits_t (Fin (DISTRIBUTE_THRESHOLD_Q / k)) sp ts (fun _ => true) (fun _ => one) base_size (lim inner) in
    let r' := distribute_space_up_to_limits (x_scale k sp) (map (track_scale k) ts) (fun _ => true) (fun _ => one) base_size
                                            (lim (opt_scale k inner)) in
    sc k (fst r) (fst r') /\ tracks_rel k (snd r) (snd r').
  Proof.
    intros k inner sp ts Hk lim r r'. subst r r'. change (distribute_space_up_to_limits (T := XQ)) with (distribute_space_up_to_limits_t (T := XQ) threshold).
    apply (distribute_space_up_to_limits_homog k Hk _ _ (threshold_div_scale k Hk)).
    - intros t t' _. reflexivity.
    - intros t t' _. apply dl_refl.
    - intros t t' Ht. apply Ht.
    - intros t t' Ht. apply (rel_fit_content_limited_growth_limit k Hk); [apply op_rel_scale | exact Ht].
    - apply sc_self.
    - apply tracks_rel_scale.
  Qed.
  Print Assumptions C04_grid_distribute_threshold.

  (* maximise_tracks (11.6): the same two statements *)
  Theorem C04_grid_maximise_related : forall k tau tau' inner inner' a a' ts ts', 0 < k ->
    sc k tau tau' -> op_rel (sc k) inner inner' -> gavail_rel k a a' -> tracks_rel k ts ts' ->
    tracks_rel k (maximise_tracks_t tau inner a ts) (maximise_tracks_t tau' inner' a' ts').
  Proof. intros k tau tau' inner inner' a a' ts ts' Hk. apply (maximise_tracks_homog k Hk). Qed.
  Print Assumptions C04_grid_maximise_related.
  Theorem C04_grid_maximise_threshold : forall k inner a ts, 0 < k ->
    tracks_rel k (maximise_tracks_t (Fin (DISTRIBUTE_THRESHOLD_Q / k)) inner a ts)
                 (maximise_tracks (opt_scale k inner) (gavail_scale k a) (map (track_scale k) ts)).
  Proof.
    intros k inner a ts Hk. change (maximise_tracks (T := XQ)) with (maximise_tracks_t (T := XQ) threshold).
    apply (maximise_tracks_homog k Hk); [apply threshold_div_scale; exact Hk | apply op_rel_scale | apply gavail_rel_scale | apply tracks_rel_scale].
  Qed.
  Print Assumptions C04_grid_maximise_threshold.
  (* corollary: homogeneous whenever the unscaled run gives the same result with the threshold THRESHOLD / k as with
     THRESHOLD (e.g. whenever every comparison with the threshold is decided by a margin of more than a factor max(k, 1/k)) *)
  Theorem C04_grid_maximise_insensitive : forall k inner a ts, 0 < k ->
    maximise_tracks_t (Fin (DISTRIBUTE_THRESHOLD_Q / k)) inner a ts = maximise_tracks inner a ts ->
    tracks_rel k (maximise_tracks inner a ts) (maximise_tracks (opt_scale k inner) (gavail_scale k a) (map (track_scale k) ts)).
  Proof. exact maximise_tracks_insensitive. Qed.
  Print Assumptions C04_grid_maximise_insensitive.
  Example C04_grid_insensitive_premise_satisfiable :
    maximise_tracks_t (Fin (DISTRIBUTE_THRESHOLD_Q / 2)) None (Definite (Fin 1)) [thr_witness_track]
    = maximise_tracks None (Definite (Fin 1)) [thr_witness_track].
  Proof. exact insensitive_premise_ok. Qed.

  (* KNOWN FINDING grid-track-threshold-absolute, now on the kernels themselves: with the fixed threshold neither is
     homogeneous.  Witness: one column minmax(0px, 1px) in a container 1/16 px wide grows to 1/16; at k = 1/8 the free
     space 1/128 is below 0.01, the loop does not run and the column stays 0 (expected 1/128).  Replayed on the
     implementation (`vh c04 gridwitness`, lib/props/c04.py): column 0.0625 px, scaled 0 px instead of 0.0078125 px. *)
  Theorem C04_grid_maximise_refuted :
    (exists k inner a ts, 0 < k /\
       ~ tracks_rel k (maximise_tracks inner a ts) (maximise_tracks (opt_scale k inner) (gavail_scale k a) (map (track_scale k) ts))) /\
    (exists k sp ts, 0 < k /\
       ~ tracks_rel k (snd (distribute_space_up_to_limits sp ts (fun _ => true) (fun _ => one) base_size growth_limit))
                      (snd (distribute_space_up_to_limits (x_scale k sp) (map (track_scale k) ts) (fun _ => true) (fun _ => one)
                                                          base_size growth_limit))).
  Proof. exact (conj maximise_tracks_not_homogeneous distribute_not_homogeneous). Qed.
  Print Assumptions C04_grid_maximise_refuted.
  Theorem C04_grid_maximise_witness_values :
    map (fun t => x_red (base_size t)) (maximise_tracks None (Definite (Fin (1#16))) [thr_witness_track]) = [Fin (1#16)] /\
    map (fun t => x_red (base_size t))
        (maximise_tracks (opt_scale (1#8) None) (gavail_scale (1#8) (Definite (Fin (1#16)))) (map (track_scale (1#8)) [thr_witness_track]))
      = [Fin 0].
  Proof. exact thr_witness_values. Qed.
  Print Assumptions C04_grid_maximise_witness_values.

  (* distribute_item_space_to_base_size (11.5.1, as a kernel): both absolute constants (0.01 and 0.000001) as lengths *)
  Theorem C04_grid_distribute_item_space_threshold : forall k flex use_ff space ts aff aff' ct, 0 < k ->
    affected_inv k aff aff' ->     (* the `is_affected` closure decides alike on related tracks: it reads kinds / sizing functions *)
    distribute_item_space_to_base_size_t (T := XQ) threshold base_threshold = distribute_item_space_to_base_size /\
    tracks_rel k (distribute_item_space_to_base_size_t (Fin (DISTRIBUTE_THRESHOLD_Q / k)) (Fin (BASE_SIZE_THRESHOLD_Q / k))
                                                        flex use_ff space ts aff growth_limit ct)
                 (distribute_item_space_to_base_size flex use_ff (x_scale k space) (map (track_scale k) ts) aff' growth_limit ct).
  Proof.
    intros k flex uff sp ts aff aff' ct Hk Haff. split; [reflexivity|].
    change (distribute_item_space_to_base_size (T := XQ)) with (distribute_item_space_to_base_size_t (T := XQ) threshold base_threshold).
    apply (distribute_item_space_to_base_size_scaled k); assumption.
  Qed.
  Print Assumptions C04_grid_distribute_item_space_threshold.

  (* find_size_of_fr (11.7.1, the fuelled restart loop; the hypothetical fr size starts at infinity, a fixed point) *)
  Theorem C04_grid_find_size_of_fr : forall k ts space, 0 < k ->
    sc k (find_size_of_fr ts space) (find_size_of_fr (map (track_scale k) ts) (x_scale k space)).
  Proof. intros k ts sp Hk. apply (find_size_of_fr_homog k Hk); [apply tracks_rel_scale | apply sc_self]. Qed.
  Print Assumptions C04_grid_find_size_of_fr.

  (* expand_flexible_tracks (11.7): definite, min-content and max-content available space; the max-content
     contributions of the items crossing flexible tracks are oracle values, scaled too *)
  Theorem C04_grid_expand_flexible_tracks : forall k axis_min axis_max avail items ts, 0 < k ->
    tracks_rel k (expand_flexible_tracks axis_min axis_max avail items ts)
                 (expand_flexible_tracks (opt_scale k axis_min) (opt_scale k axis_max) (gavail_scale k avail)
                                         (map (fitem_scale k) items) (map (track_scale k) ts)).
  Proof.
    intros k mn mx a items ts Hk.
    apply (expand_flexible_tracks_homog k Hk); [apply op_rel_scale | apply op_rel_scale | apply gavail_rel_scale | apply fitems_rel_scale | apply tracks_rel_scale].
  Qed.
  Print Assumptions C04_grid_expand_flexible_tracks.

  (* stretch_auto_tracks (11.8) *)
  Theorem C04_grid_stretch_auto_tracks : forall k axis_min avail ts, 0 < k ->
    tracks_rel k (stretch_auto_tracks axis_min avail ts)
                 (stretch_auto_tracks (opt_scale k axis_min) (gavail_scale k avail) (map (track_scale k) ts)).
  Proof.
    intros k mn a ts Hk. apply (stretch_auto_tracks_homog k Hk); [apply op_rel_scale | apply gavail_rel_scale | apply tracks_rel_scale].
  Qed.
  Print Assumptions C04_grid_stretch_auto_tracks.

  (* align_tracks (justify-content / align-content: offsets of tracks and gutters) *)
  Theorem C04_grid_align_tracks : forall k content_box padding border ts style, 0 < k ->
    tracks_rel k (align_tracks content_box padding border ts style)
                 (align_tracks (x_scale k content_box) (x_scale k padding) (x_scale k border) (map (track_scale k) ts) style).
  Proof. intros k cb ps bs ts style Hk. apply (align_tracks_homog k Hk); try apply sc_self. apply tracks_rel_scale. Qed.
  Print Assumptions C04_grid_align_tracks.

  (* the whole of track_sizing_algorithm (11.4, 11.5 as an ARGUMENT assumed homogeneous, 11.6, 11.7, 11.8) with the
     threshold of 11.6 scaled along.  PARTIAL as a statement about the real algorithm: step 11.5
     (resolve_intrinsic_track_sizes, which also calls distribute_space_up_to_limits and has a second absolute
     threshold 0.000001) is a premise here, not proved. *)
  Theorem C04_grid_track_sizing_partial : forall k mn mx stretch a inner intr intr' items ts, 0 < k ->
    (forall x x', tracks_rel k x x' -> tracks_rel k (intr x) (intr' x')) ->
    tracks_rel k (track_sizing_algorithm_t (Fin (DISTRIBUTE_THRESHOLD_Q / k)) mn mx stretch a inner intr items ts)
                 (track_sizing_algorithm (opt_scale k mn) (opt_scale k mx) stretch (gavail_scale k a) (opt_scale k inner) intr'
                                         (map (fitem_scale k) items) (map (track_scale k) ts)).
  Proof.
    intros k mn mx stretch a inner intr intr' items ts Hk Hintr.
    change (track_sizing_algorithm (T := XQ)) with (track_sizing_algorithm_t (T := XQ) threshold).
    apply (track_sizing_algorithm_homog k Hk); try apply op_rel_scale; try assumption.
    - apply threshold_div_scale. exact Hk.
    - apply gavail_rel_scale.
    - apply fitems_rel_scale.
    - apply tracks_rel_scale.
  Qed.
  Print Assumptions C04_grid_track_sizing_partial.

  (* ---- non-vacuity of the premises above: the `affected` predicates the callers pass are invariant; the 11.5 premise of
     C04_grid_track_sizing_partial is met by flush + maximise; and a three-track run (fixed-limit, auto, minmax) where the
     threshold-insensitive form applies, original and scaled by 1/8.
     NOTE on fuel: distribute_loop / fr_loop return their current state when the fuel runs out (no marker).  The fuel is a
     function of the track count only, so both runs of a homogeneity statement run out together and the statements stay true;
     that the fuel suffices is C09_distribute_terminates / C09_intrinsic_distribute_terminates / C09_fr_terminates (finite
     inputs), not repeated here. *)
  Example C04_grid_affected_inv_examples : forall k,
    affected_inv k (fun _ => true) (fun _ => true) /\
    affected_inv k (fun t => is_flexible t) (fun t => is_flexible t) /\
    affected_inv k (fun t => is_intrinsic (maxf t)) (fun t => is_intrinsic (maxf t)) /\
    affected_inv k (fun t => is_min_content (minf t) || is_auto (minf t)) (fun t => is_min_content (minf t) || is_auto (minf t)).
  Proof.
    intros k. repeat split; intros t t' Ht.
    - apply (rel_is_flexible k); exact Ht.
    - apply (rel_is_intrinsic k). apply Ht.
    - destruct Ht as (_ & _ & Hmin & _). rewrite (rel_is_min_content k _ _ Hmin), (rel_is_auto k _ _ Hmin). reflexivity.
  Qed.
  Example C04_grid_track_sizing_premise_examples : forall k inner a, 0 < k ->
    (forall x x', tracks_rel k x x' -> tracks_rel k (flush_incurred_to_base x) (flush_incurred_to_base x')) /\
    (forall x x', tracks_rel k x x' ->
       tracks_rel k (maximise_tracks_t (Fin (DISTRIBUTE_THRESHOLD_Q / k)) inner a x)
                    (maximise_tracks (opt_scale k inner) (gavail_scale k a) x')).
  Proof.
    intros k inner a Hk. split; intros x x' Hx.
    - apply (rel_flush_incurred_to_base k); exact Hx.
    - change (maximise_tracks (T := XQ)) with (maximise_tracks_t (T := XQ) threshold).
      apply (maximise_tracks_homog k Hk); [apply threshold_div_scale; exact Hk | apply op_rel_scale | apply gavail_rel_scale | exact Hx].
  Qed.
  Definition ex_track (mn mx : sfn XQ) (b g : XQ) : track XQ := mk_track KTrack false mn mx zero b g zero zero zero false.
  Definition ex_tracks : list (track XQ) :=
    [ex_track (SLength (Fin 0)) (SLength (Fin 40)) (Fin 0) (Fin 40); ex_track SAuto SAuto (Fin 10) PInf;
     ex_track (SLength (Fin 20)) (SLength (Fin 25)) (Fin 20) (Fin 25)].
  Definition bases (ts : list (track XQ)) := map (fun t => x_red (base_size t)) ts.
  Example C04_grid_insensitive_example :
    maximise_tracks_t (Fin (DISTRIBUTE_THRESHOLD_Q / (1#8))) None (Definite (Fin 300)) ex_tracks = maximise_tracks None (Definite (Fin 300)) ex_tracks /\
    bases (maximise_tracks None (Definite (Fin 300)) ex_tracks) = [Fin 45; Fin 230; Fin 25] /\
    bases (maximise_tracks (opt_scale (1#8) None) (gavail_scale (1#8) (Definite (Fin 300))) (map (track_scale (1#8)) ex_tracks))
      = [Fin (45 # 8); Fin (115 # 4); Fin (25 # 8)].
  Proof. repeat split; vm_compute; reflexivity. Qed.
End GridKernels.

(* ------------------------------------------------------------------------------------------------------------ *)
(** * Whole trees: homogeneity through the engine skeleton (Model/Engine.v)

   An algorithm (a resumption over the LayoutPartialTree interface) is HOMOGENEOUS w.r.t. relations RS / RI / RO / RL on
   styles / inputs / outputs / stored layouts when related own style, related child styles and a related input give
   resumptions that run in lockstep (Model/EngineRel.v AlgRel): same shape, same child addressed, related queries, related
   SetLayouts, related results -- and, GIVEN related answers, related continuations.  For homogeneous algorithms the engine
   (dispatch, display:none handling, hidden layout, exact-key memo with any cache contents) maps related trees and inputs to
   related outputs and related trees: every node's stored unrounded layout of the scaled tree is the scaled layout.
   The relations are parameters (closure hypotheses: run mode and display:none invariant, HIDDEN and the zero layout
   self-related, the memo key respects the relation on inputs); the numeric content is in the instances below. *)
From TV Require Model.Engine Model.EngineRel Proofs.EngineRelProofs.
From TV Require Model.BlockAlg Model.BlockEngine Model.BlockEngineRel Model.BlockEngineExample.
From TV Require Proofs.BlockAlgRel Proofs.EngineHomog Proofs.EngineExamples.
From TV Require Model.BlockLeaf Model.BlockTree.

Module EngineLevel.
  Import TV.Model.Engine TV.Model.EngineRel TV.Proofs.EngineRelProofs.

  (* the general invariant: ANY pair of related trees (related cache entries and stored layouts at every node, e.g. after a
     common history of passes), memoised evaluation with the same fuel *)
  Theorem C04_engine :
    forall (S In Out Lay : Type) (mode : In -> RunMode) (in_eqb : In -> In -> bool) (is_none : S -> bool) (hidden_out : Out)
           (zero_lay : Lay) (algo : S -> list S -> In -> Alg In Out Lay)
           (RS : S -> S -> Prop) (RI : In -> In -> Prop) (RO : Out -> Out -> Prop) (RL : Lay -> Lay -> Prop),
      (forall i i', RI i i' -> mode i' = mode i) -> (forall s s', RS s s' -> is_none s' = is_none s) ->
      RO hidden_out hidden_out -> RL zero_lay zero_lay ->
      (forall i1 i1' i2 i2', RI i1 i1' -> RI i2 i2' -> in_eqb i1' i2' = in_eqb i1 i2) ->
      Homogeneous S In Out Lay RS RI RO RL algo ->
      forall f t t' i i', trel S In Out Lay RS RI RO RL t t' -> RI i i' ->
        oprel (res_rel S In Out Lay RS RI RO RL)
              (memo S In Out Lay mode in_eqb is_none hidden_out zero_lay algo f t i)
              (memo S In Out Lay mode in_eqb is_none hidden_out zero_lay algo f t' i').
  Proof.
    intros S In Out Lay mode in_eqb is_none hidden_out zero_lay algo RS RI RO RL Hm Hn Hh Hz Hk HA f t t' i i' Ht Hi.
    apply (memo_rel S In Out Lay mode in_eqb is_none hidden_out zero_lay algo algo RS RI RO RL Hm Hn Hh Hz Hk HA); assumption.
  Qed.
  Print Assumptions C04_engine.

  (* the cache-free evaluation (no hypothesis on the key) *)
  Theorem C04_engine_plain :
    forall (S In Out Lay : Type) (mode : In -> RunMode) (is_none : S -> bool) (hidden_out : Out)
           (algo : S -> list S -> In -> Alg In Out Lay)
           (RS : S -> S -> Prop) (RI : In -> In -> Prop) (RO : Out -> Out -> Prop) (RL : Lay -> Lay -> Prop),
      (forall i i', RI i i' -> mode i' = mode i) -> (forall s s', RS s s' -> is_none s' = is_none s) -> RO hidden_out hidden_out ->
      Homogeneous S In Out Lay RS RI RO RL algo ->
      forall f t t' i i', skrel S RS t t' -> RI i i' ->
        oprel RO (plain S In Out Lay mode is_none hidden_out algo f t i) (plain S In Out Lay mode is_none hidden_out algo f t' i').
  Proof.
    intros S In Out Lay mode is_none hidden_out algo RS RI RO RL Hm Hn Hh HA f t t' i i' Ht Hi.
    apply (plain_rel S In Out Lay mode is_none hidden_out algo algo RS RI RO RL Hm Hn Hh HA); assumption.
  Qed.
  Print Assumptions C04_engine_plain.

  (* the simplest reading: one pass over freshly built trees; the root output and the stored layout of EVERY node (as the
     preorder list, and at every path) are related *)
  Theorem C04_engine_fresh :
    forall (S In Out Lay : Type) (mode : In -> RunMode) (in_eqb : In -> In -> bool) (is_none : S -> bool) (hidden_out : Out)
           (zero_lay : Lay) (algo : S -> list S -> In -> Alg In Out Lay)
           (RS : S -> S -> Prop) (RI : In -> In -> Prop) (RO : Out -> Out -> Prop) (RL : Lay -> Lay -> Prop),
      (forall i i', RI i i' -> mode i' = mode i) -> (forall s s', RS s s' -> is_none s' = is_none s) ->
      RO hidden_out hidden_out -> RL zero_lay zero_lay ->
      (forall i1 i1' i2 i2', RI i1 i1' -> RI i2 i2' -> in_eqb i1' i2' = in_eqb i1 i2) ->
      Homogeneous S In Out Lay RS RI RO RL algo ->
      forall f k k' i i' o t1, skrel S RS k k' -> RI i i' ->
        memo S In Out Lay mode in_eqb is_none hidden_out zero_lay algo f (fresh S In Out Lay zero_lay k) i = Some (o, t1) ->
        exists o' t1',
          memo S In Out Lay mode in_eqb is_none hidden_out zero_lay algo f (fresh S In Out Lay zero_lay k') i' = Some (o', t1') /\
          RO o o' /\ Forall2 RL (lays S In Out Lay t1) (lays S In Out Lay t1') /\
          forall p, oprel (fun u u' => RL (lay_of S In Out Lay u) (lay_of S In Out Lay u'))
                          (subtree S In Out Lay t1 p) (subtree S In Out Lay t1' p).
  Proof.
    intros S In Out Lay mode in_eqb is_none hidden_out zero_lay algo RS RI RO RL Hm Hn Hh Hz Hk HA f k k' i i' o t1 Hkk Hi E.
    pose proof (memo_fresh_rel S In Out Lay mode in_eqb is_none hidden_out zero_lay algo algo RS RI RO RL Hm Hn Hh Hz Hk HA
                               f k k' i i' Hkk Hi) as H.
    rewrite E in H. unfold oprel in H.
    destruct (memo S In Out Lay mode in_eqb is_none hidden_out zero_lay algo f (fresh S In Out Lay zero_lay k') i') as [[o' t1']|];
      [|contradiction].
    destruct H as [Ho Ht]. cbn [fst snd] in Ho, Ht. exists o', t1'. split; [reflexivity|]. split; [exact Ho|].
    split; [apply (trel_lays S In Out Lay RS RI RO RL); exact Ht|].
    intros p. pose proof (trel_at S In Out Lay RS RI RO RL p t1 t1' Ht) as Hp. unfold oprel in *.
    destruct (subtree S In Out Lay t1 p), (subtree S In Out Lay t1' p); try contradiction; [|exact I].
    destruct Hp as [_ [_ [Hl _]]]. exact Hl.
  Qed.
  Print Assumptions C04_engine_fresh.

  (* any sequence of layout passes with related root inputs, from any related trees *)
  Theorem C04_engine_passes :
    forall (S In Out Lay : Type) (mode : In -> RunMode) (in_eqb : In -> In -> bool) (is_none : S -> bool) (hidden_out : Out)
           (zero_lay : Lay) (algo : S -> list S -> In -> Alg In Out Lay)
           (RS : S -> S -> Prop) (RI : In -> In -> Prop) (RO : Out -> Out -> Prop) (RL : Lay -> Lay -> Prop),
      (forall i i', RI i i' -> mode i' = mode i) -> (forall s s', RS s s' -> is_none s' = is_none s) ->
      RO hidden_out hidden_out -> RL zero_lay zero_lay ->
      (forall i1 i1' i2 i2', RI i1 i1' -> RI i2 i2' -> in_eqb i1' i2' = in_eqb i1 i2) ->
      Homogeneous S In Out Lay RS RI RO RL algo ->
      forall ps ps', Forall2 (fun p p' => fst p = fst p' /\ RI (snd p) (snd p')) ps ps' ->
      forall t t', trel S In Out Lay RS RI RO RL t t' ->
        trel S In Out Lay RS RI RO RL
             (fold_left (pass S In Out Lay mode in_eqb is_none hidden_out zero_lay algo) ps t)
             (fold_left (pass S In Out Lay mode in_eqb is_none hidden_out zero_lay algo) ps' t').
  Proof.
    intros S In Out Lay mode in_eqb is_none hidden_out zero_lay algo RS RI RO RL Hm Hn Hh Hz Hk HA.
    apply (passes_rel S In Out Lay mode in_eqb is_none hidden_out zero_lay algo algo RS RI RO RL Hm Hn Hh Hz Hk HA).
  Qed.
  Print Assumptions C04_engine_passes.

  (* the premise is closed under TaffyView::compute_child_layout's dispatch, and leaves satisfy it when their kernel does *)
  Theorem C04_homogeneous_dispatch :
    forall (S In Out Lay : Type) (RS : S -> S -> Prop) (RI : In -> In -> Prop) (RO : Out -> Out -> Prop) (RL : Lay -> Lay -> Prop)
           (sel : S -> list S -> bool) (a1 a2 : S -> list S -> In -> Alg In Out Lay),
      (forall s s' st st', RS s s' -> Forall2 RS st st' -> sel s' st' = sel s st) ->
      Homogeneous S In Out Lay RS RI RO RL a1 -> Homogeneous S In Out Lay RS RI RO RL a2 ->
      Homogeneous S In Out Lay RS RI RO RL (fun s st i => if sel s st then a1 s st i else a2 s st i).
  Proof. intros S In Out Lay RS RI RO RL sel a1 a2. apply AlgoRel_dispatch. Qed.
  Print Assumptions C04_homogeneous_dispatch.

  Theorem C04_homogeneous_leaf :
    forall (S In Out Lay : Type) (RS : S -> S -> Prop) (RI : In -> In -> Prop) (RO : Out -> Out -> Prop) (RL : Lay -> Lay -> Prop)
           (leaf : S -> In -> Out),
      (forall s s' i i', RS s s' -> RI i i' -> RO (leaf s i) (leaf s' i')) ->
      Homogeneous S In Out Lay RS RI RO RL (fun s _ i => Ret In Out Lay (leaf s i)).
  Proof. intros S In Out Lay RS RI RO RL leaf. apply AlgoRel_leaf. Qed.
  Print Assumptions C04_homogeneous_leaf.
End EngineLevel.

(* ------------------------------------------------------------------------------------------------------------ *)
(** * Whole trees of block containers and leaves (Model/BlockEngine.v): NO premise on the algorithms

   S = a block style + a measure function; containers run Model/BlockAlg.v `block_alg` (compute_inner as a resumption: item
   pipeline translated from source, determine_content_based_container_width's measuring queries, the K2-validated in-flow
   step with the children's outputs as ANSWERS, absolute pass, hidden pass), childless nodes run compute_leaf_layout
   (Model/Leaf.v, behind an adapter).  Relations: bnode_rel k (bstyle_rel k + measure_homog k), bin_rel k, bout_rel k,
   blay_rel k.  The block resumption has two parameters: `pre` (compute_block_layout's preprocessing of the known
   dimensions) and `abs_child` (what the absolute pass does for one item); homogeneity of the resumption is proved for ALL
   parameters satisfying PreRel / AbsChildRel (C04_block_algorithm_homogeneous) and these are discharged for `block_pre`
   (the model of block.rs l.64-122) and `abs_child_simple`.  The real absolute-item routine (C04_abs_block is about its
   kernel, in the vocabulary of Model/AbsPos.v) is not plugged in: AbsChildRel stays a premise for it.  Flex and grid
   containers: Homogeneous remains a premise (C04_engine), and is FALSE for flex in the known-finding class.

   What the theorems of this module are NOT (audit, wave 5c) -- they are PARTIAL with respect to the property:
   * `bl_algo` lays out EVERY node that has children with the block algorithm, whatever its `display` (there is no premise
     display = block): the statements are about trees of block containers and leaves only;
   * the absolute pass uses `abs_child_simple`, a deliberately simple one-query routine, not the translated routine of
     Gen/AbsPosGen.v (in the example below the absolute child, style 10 x 10, gets the box 0 x 0);
   * the memo is the exact-key memo and the root input is given directly (no compute_root_layout);
   * `bl_memo` is not executed by any correspondence runner: K1 of C10 runs Model/BlockTree.v (another assembly of the same
     kernels, with the lossy cache rule), K2 the in-flow kernel with recorded child outputs.  See
     C04_block_engine_agrees_with_K1_model for the (example-level) tie;
   * "both evaluations fail" (None) is possible in the `oprel` conclusions; it is excluded on the examples by computation and in
     general by C01_memo_total for algorithms that address existing children only (not instantiated for bl_algo here). *)
Module BlockTrees.
  Import TV.Gen.BlockGen TV.Model.Block TV.Model.ScaleBlock TV.Proofs.ScaleKit TV.Proofs.ScaleBlock.
  Import TV.Model.Engine TV.Model.EngineRel TV.Proofs.EngineRelProofs.
  Import TV.Model.BlockAlg TV.Model.BlockEngine TV.Model.BlockEngineRel TV.Model.BlockEngineExample.
  Import TV.Proofs.BlockAlgRel TV.Proofs.EngineHomog TV.Proofs.EngineExamples.
  Import TV.Model.BlockLeaf TV.Model.BlockTree.
  Import ListNotations.

  (* the block resumption, any parameters *)
  Theorem C04_block_algorithm_homogeneous :
    forall k (pre : BStyle XQ -> BIn XQ -> BIn XQ) (abs_child : @AbsChild XQ), 0 < k ->
      PreRel k (bstyle_rel k) pre -> AbsChildRel k (bstyle_rel k) abs_child ->
      forall st st' children children' inp inp',
        bstyle_rel k st st' -> Forall2 (bstyle_rel k) children children' -> bin_rel k inp inp' ->
        AlgRel (BIn XQ) (ChildOut XQ) (BLayout XQ) (bin_rel k) (bout_rel k) (blay_rel k)
               (block_alg pre abs_child st children inp) (block_alg pre abs_child st' children' inp').
  Proof.
    intros k pre abs_child Hk Hpre Habs st st' children children' inp inp'.
    apply (block_alg_rel k Hk (bstyle_rel k) (wrel_of_rel k Hk)); assumption.
  Qed.
  Print Assumptions C04_block_algorithm_homogeneous.

  (* ... and the two premises hold for the modelled preprocessing and the simple absolute-item routine *)
  Theorem C04_block_parameters_homogeneous : forall k, 0 < k ->
    PreRel k (bstyle_rel k) block_pre /\ AbsChildRel k (bstyle_rel k) (abs_child_simple (T := XQ)).
  Proof.
    intros k Hk. split; [apply (block_pre_rel k Hk (bstyle_rel k) (wrel_of_rel k Hk))|apply (abs_child_simple_rel k Hk)].
  Qed.
  Print Assumptions C04_block_parameters_homogeneous.

  (* the leaf: C04_leaf through the adapter *)
  Theorem C04_engine_leaf : forall k s s' m m' i i', 0 < k ->
    bstyle_rel k s s' -> TV.Model.Scale.measure_homog k m m' -> bin_rel k i i' -> bout_rel k (leaf_out s m i) (leaf_out s' m' i').
  Proof. intros k s s' m m' i i' Hk. apply (leaf_out_homog k Hk). Qed.
  Print Assumptions C04_engine_leaf.

  (* the engine's algorithm (dispatch on has_children) is homogeneous: no premise *)
  Theorem C04_block_engine_homogeneous : forall k, 0 < k ->
    Homogeneous (BNode XQ) (BIn XQ) (ChildOut XQ) (BLayout XQ) (bnode_rel k) (bin_rel k) (bout_rel k) (blay_rel k)
                (bl_algo block_pre abs_child_simple).
  Proof. intros k Hk. apply (bl_algo_homog_inst k Hk). Qed.
  Print Assumptions C04_block_engine_homogeneous.

  (* hence: any two related trees (related cache entries and stored layouts; in particular both fresh), related inputs, the
     same fuel -- both evaluations fail, or both return, with related outputs and related trees *)
  Theorem C04_block_engine_instance : forall k, 0 < k ->
    forall f t t' i i',
      trel (BNode XQ) (BIn XQ) (ChildOut XQ) (BLayout XQ) (bnode_rel k) (bin_rel k) (bout_rel k) (blay_rel k) t t' -> bin_rel k i i' ->
      oprel (res_rel (BNode XQ) (BIn XQ) (ChildOut XQ) (BLayout XQ) (bnode_rel k) (bin_rel k) (bout_rel k) (blay_rel k))
            (bl_memo block_pre abs_child_simple f t i) (bl_memo block_pre abs_child_simple f t' i').
  Proof.
    intros k Hk. apply (block_engine_homog k Hk).
    - apply (block_pre_rel k Hk (bstyle_rel k) (wrel_of_rel k Hk)).
    - apply (abs_child_simple_rel k Hk).
  Qed.
  Print Assumptions C04_block_engine_instance.

  (* the same for ANY preprocessing and absolute-item routine satisfying the two premises (e.g. the translated absolute
     routine, once AbsChildRel is shown for it) *)
  Theorem C04_block_engine_instance_parametric :
    forall k (pre : BStyle XQ -> BIn XQ -> BIn XQ) (abs_child : @AbsChild XQ), 0 < k ->
      PreRel k (bstyle_rel k) pre -> AbsChildRel k (bstyle_rel k) abs_child ->
      forall f t t' i i',
        trel (BNode XQ) (BIn XQ) (ChildOut XQ) (BLayout XQ) (bnode_rel k) (bin_rel k) (bout_rel k) (blay_rel k) t t' -> bin_rel k i i' ->
        oprel (res_rel (BNode XQ) (BIn XQ) (ChildOut XQ) (BLayout XQ) (bnode_rel k) (bin_rel k) (bout_rel k) (blay_rel k))
              (bl_memo pre abs_child f t i) (bl_memo pre abs_child f t' i').
  Proof. intros k pre abs_child Hk. apply (block_engine_homog k Hk). Qed.
  Print Assumptions C04_block_engine_instance_parametric.

  (* "multiplying every length of the tree by k multiplies every unrounded output length of every node by k": fresh trees,
     the input scaled functionally; blay_rel k l l' says l' is l with every length multiplied by k, up to the equality of
     rationals (blay_rel_scale: blay_rel k l (blay_scale k l)) *)
  Theorem C04_block_engine_scaled_layouts : forall k, 0 < k ->
    forall f (t t' : sk (BNode XQ)) i o t1,
      skrel (BNode XQ) (bnode_rel k) t t' ->
      bl_memo block_pre abs_child_simple f (bl_fresh t) i = Some (o, t1) ->
      exists o' t1',
        bl_memo block_pre abs_child_simple f (bl_fresh t') (bin_scale k i) = Some (o', t1') /\
        bout_rel k o o' /\
        Forall2 (blay_rel k) (lays (BNode XQ) (BIn XQ) (ChildOut XQ) (BLayout XQ) t1) (lays (BNode XQ) (BIn XQ) (ChildOut XQ) (BLayout XQ) t1').
  Proof.
    intros k Hk f t t' i o t1 Ht E.
    pose proof (C04_block_engine_instance k Hk f (bl_fresh t) (bl_fresh t') i (bin_scale k i) (bl_fresh_rel k t t' Ht) (bin_rel_scale k i)) as H.
    rewrite E in H. unfold oprel in H.
    destruct (bl_memo block_pre abs_child_simple f (bl_fresh t') (bin_scale k i)) as [[o' t1']|]; [|contradiction].
    destruct H as [Ho Ht1]. cbn [fst snd] in Ho, Ht1. exists o', t1'. split; [reflexivity|]. split; [exact Ho|].
    apply (trel_lays (BNode XQ) (BIn XQ) (ChildOut XQ) (BLayout XQ) (bnode_rel k) (bin_rel k) (bout_rel k) (blay_rel k)). exact Ht1.
  Qed.
  Print Assumptions C04_block_engine_scaled_layouts.

  (* non-vacuity: the tree of Model/BlockEngineExample.v (a block root with a measured leaf, a nested block container with
     two measured leaves and a display:none child, an absolute child, a percentage-width leaf) and the same tree with every
     length multiplied by 5/2 satisfy the premises, both evaluations succeed (vm_compute), the (x, y, width, height) of the
     eight nodes are as listed, and every field of every stored layout and of the root output is multiplied by 5/2 *)
  Example C04_block_engine_example :
    skrel (BNode XQ) (bnode_rel (5 # 2)) ex_tree (ex_tree_scaled (5 # 2)) /\
    skrel (BNode XQ) (bnode_rel (5 # 2)) ex_subtree (ex_subtree_scaled (5 # 2)) /\
    bin_rel (5 # 2) ex_input (bin_scale (5 # 2) ex_input) /\
    ex_boxes ex_tree ex_input
             [box 0 0 0 0; box 6 10 200 24; box 6 40 200 44; box 4 4 52 22; box 0 0 0 0; box 4 26 192 14; box 6 84 0 0; box 6 84 100 12] = true /\
    ex_root_size ex_tree ex_input 212 102 = true /\
    ex_scaled_ok (5 # 2) ex_tree (ex_tree_scaled (5 # 2)) ex_input = true /\
    (* the container B alone under max-content: its width is content-based (52 + 8), found by measuring queries *)
    ex_root_size ex_subtree ex_input_max 60 44 = true /\
    ex_scaled_ok (5 # 2) ex_subtree (ex_subtree_scaled (5 # 2)) ex_input_max = true.
  Proof.
    split; [apply ex_scaled_rel; reflexivity|]. split; [apply ex_scaled_rel; reflexivity|]. split; [apply bin_rel_scale|].
    repeat split; vm_compute; reflexivity.
  Qed.
  Print Assumptions C04_block_engine_example.

  (* two PASSES (C04_engine_passes): `pass` maps a failed evaluation to "tree unchanged", so its conclusion could hold because
     nothing happened; here neither pass fails on either tree, the stored layouts change between the passes, and after the
     second pass every stored layout of the scaled tree is 5/2 times the original's *)
  Definition ex_input2 : BIn XQ := root_bin (mkSize (Some (qz 120)) None) (mkSize (Definite (qz 120)) (Definite (qz 400))).
  Definition ex_two_passes (k : Q) (t t' : sk (BNode XQ)) : bool :=
    match ex_run t ex_input_max, ex_run t' (bin_scale k ex_input_max) with
    | Some (_, t1), Some (_, t1') =>
        match bl_memo block_pre abs_child_simple ex_fuel t1 ex_input2, bl_memo block_pre abs_child_simple ex_fuel t1' (bin_scale k ex_input2) with
        | Some (o, t2), Some (o', t2') =>
            list_eqb blay_eqb (map (blay_scale k) (ex_lays t2)) (ex_lays t2') && bout_eqb (bout_scale k o) o'
            && negb (list_eqb blay_eqb (ex_lays t1) (ex_lays t2)) && bsz_eqb (co_size o) (mkSize (qz 120) (qz 44))
        | _, _ => false
        end
    | _, _ => false
    end.
  Example C04_block_engine_passes_example : ex_two_passes (5 # 2) ex_subtree (ex_subtree_scaled (5 # 2)) = true.
  Proof. vm_compute. reflexivity. Qed.
  Definition ex_pass := pass (BNode XQ) (BIn XQ) (ChildOut XQ) (BLayout XQ) bi_mode bin_eqb bn_is_none hidden_child_out zero_blay
                             (bl_algo block_pre abs_child_simple).
  Example C04_block_engine_passes_fold :
    list_eqb blay_eqb
      (map (blay_scale (5 # 2)) (ex_lays (fold_left ex_pass [(ex_fuel, ex_input_max); (ex_fuel, ex_input2)] (bl_fresh ex_subtree))))
      (ex_lays (fold_left ex_pass [(ex_fuel, bin_scale (5 # 2) ex_input_max); (ex_fuel, bin_scale (5 # 2) ex_input2)]
                          (bl_fresh (ex_subtree_scaled (5 # 2))))) = true.
  Proof. vm_compute. reflexivity. Qed.

  (* TIE of this engine instance to the K-checked block model.  bl_memo (Engine.memo + BlockAlg.block_inner_alg + the leaf
     adapter) is NOT what a runner executes: the correspondence K1 of C10 runs Model/BlockTree.v `block_root_layout` (its own
     compute_inner with the lossy cache rule and Model/BlockLeaf.v leaves), K2 runs the in-flow kernel with recorded child
     outputs.  The two share block_resolve / generate_item / block_params / inflow_step / block_outer_height /
     block_output_margins / block_can_collapse_through; there is no lemma equating them.  As a check that they are not two
     different algorithms: on a block container of three leaves (fixed-width leaf, display:none leaf, leaf with min-width and
     max-height; padding 3, border 1) both give the same container size and the same child boxes, for the content-based width
     (max-content: 60 x 44) and for the stretch-fit width (definite 300: 300 x 44) *)
  Definition xC := (ex_style DBlock true PRelative (mkSize (len 50) Auto) auto2 auto2 1 0 0, EFixed (qz 40) (qz 20)).
  Definition xD := (ex_style DNone true PRelative (mkSize (len 70) (len 70)) auto2 auto2 1 0 0, EFixed (qz 5) (qz 5)).
  Definition xG := (ex_style DBlock true PRelative auto2 (mkSize (len 20) Auto) (mkSize Auto (len 8)) 2 1 0, EFixed (qz 10) (qz 30)).
  Definition xB := ex_style DBlock true PRelative auto2 auto2 auto2 3 1 6.
  Definition to_m (m : ExMeasure) : Measure XQ := match m with EFixed w h => MFixed w h | EEcho _ => MNone end.
  Definition xkids := [xC; xD; xG].
  Definition xtree : sk (BNode XQ) := sk_map ex_node (SNode _ (xB, EFixed (qz 0) (qz 0)) (map (fun c => SNode _ c []) xkids)).
  Definition xav : BSize (Avail XQ) := mkSize MaxContent MaxContent.
  Definition xav2 : BSize (Avail XQ) := mkSize (Definite (qz 300)) (Definite (qz 400)).
  Definition k1 (a : BSize (Avail XQ)) := block_root_layout xB a (map (fun c => (fst c, to_m (snd c))) xkids).
  Definition eng (a : BSize (Avail XQ)) := bl_memo block_pre abs_child_simple 6 (bl_fresh xtree) (root_bin (root_known xB a) a).
  Definition k1_boxes (a : BSize (Avail XQ)) :=
    map (fun r => (ir_x r, ir_y r, s_w (ir_size r), s_h (ir_size r))) (io_results (to_inflow (k1 a))).
  Definition eng_agrees (a : BSize (Avail XQ)) : bool :=
    match eng a with
    | Some (o, t1) => bsz_eqb (co_size o) (to_size (k1 a)) &&
                      match boxes t1 with [_; c; _; g] => list_eqb box_eqb [c; g] (k1_boxes a) | _ => false end
    | None => false
    end.
  Example C04_block_engine_agrees_with_K1_model : eng_agrees xav = true /\ eng_agrees xav2 = true.
  Proof. split; vm_compute; reflexivity. Qed.
End BlockTrees.

(* ------------------------------------------------------------------------------------------------------------ *)
(** * Whole trees with the REAL absolute-item routine and the root glue (wave 5)

   `abs_child_block` (Model/BlockAbs.v) is block.rs `perform_absolute_layout_on_absolute_children` for one item, built from the
   TRANSLATED kernel Gen/AbsPosGen.v (block_abs_area, block_resolve, block_known, block_place -- the terms C04_abs_block /
   C04_abs_styles are about) plus the hand glue of the one query's inputs and of the stored layout.  AbsChildRel is PROVED for it
   (C04_block_absolute_routine_homogeneous), so the `_parametric` theorems above apply without premise on the algorithms.
   `block_layout_pass` / `block_layout_passes` (Model/BlockRoot.v) add compute_root_layout: the root's known dimensions
   (Model/Root.v root_known_dimensions), the one memoised query, the root's own layout (root_assemble).  This instance --
   `bl_memo block_pre abs_child_block` under compute_root_layout over F32 -- is what the whole-tree correspondence
   `vh blocktree cases` vs Model/BlockEngineRun.v compares with TaffyTree::compute_layout_with_measure bit for bit. *)
From TV Require Model.BlockAbs Model.BlockRoot Model.BlockAbsExample Proofs.BlockAbsRel Proofs.BlockRootRel.
Module BlockTreesReal.
  Import TV.Gen.BlockGen TV.Model.Block TV.Model.ScaleBlock TV.Proofs.ScaleKit TV.Proofs.ScaleBlock.
  Import TV.Model.Engine TV.Model.EngineRel TV.Proofs.EngineRelProofs.
  Import TV.Model.BlockAlg TV.Model.BlockEngine TV.Model.BlockEngineRel TV.Model.BlockEngineExample.
  Import TV.Model.BlockAbs TV.Model.BlockRoot TV.Model.BlockAbsExample.
  Import TV.Proofs.BlockAlgRel TV.Proofs.EngineHomog TV.Proofs.EngineExamples TV.Proofs.BlockAbsRel TV.Proofs.BlockRootRel.
  Import ListNotations.

  (* the premise of the parametric theorems holds for the real routine *)
  Theorem C04_block_absolute_routine_homogeneous : forall k, 0 < k ->
    AbsChildRel k (bstyle_rel k) (abs_child_block (T := XQ)).
  Proof. exact abs_child_block_homog. Qed.
  Print Assumptions C04_block_absolute_routine_homogeneous.

  Theorem C04_block_engine_real_homogeneous : forall k, 0 < k ->
    Homogeneous (BNode XQ) (BIn XQ) (ChildOut XQ) (BLayout XQ) (bnode_rel k) (bin_rel k) (bout_rel k) (blay_rel k)
                (bl_algo block_pre abs_child_block).
  Proof.
    intros k Hk. apply (bl_algo_homog k Hk).
    - apply (block_pre_rel k Hk (bstyle_rel k) (wrel_of_rel k Hk)).
    - apply (abs_child_block_homog k Hk).
  Qed.
  Print Assumptions C04_block_engine_real_homogeneous.

  (* the general invariant: any related trees (caches, stored layouts), related inputs, same fuel *)
  Theorem C04_block_engine_real_instance : forall k, 0 < k ->
    forall f t t' i i',
      trel (BNode XQ) (BIn XQ) (ChildOut XQ) (BLayout XQ) (bnode_rel k) (bin_rel k) (bout_rel k) (blay_rel k) t t' -> bin_rel k i i' ->
      oprel (res_rel (BNode XQ) (BIn XQ) (ChildOut XQ) (BLayout XQ) (bnode_rel k) (bin_rel k) (bout_rel k) (blay_rel k))
            (bl_memo block_pre abs_child_block f t i) (bl_memo block_pre abs_child_block f t' i').
  Proof.
    intros k Hk. apply (block_engine_homog k Hk).
    - apply (block_pre_rel k Hk (bstyle_rel k) (wrel_of_rel k Hk)).
    - apply (abs_child_block_homog k Hk).
  Qed.
  Print Assumptions C04_block_engine_real_instance.

  (* a whole layout pass on a fresh tree, compute_root_layout included: scaled tree (every style length, every measure
     function) and scaled available space -- both passes fail (fuel) or both succeed, and EVERY node's stored unrounded layout,
     the root's too, is the original one with every length multiplied by k *)
  Theorem C04_block_layout_pass : forall k, 0 < k ->
    forall f (t t' : sk (BNode XQ)) av av',
      skrel (BNode XQ) (bnode_rel k) t t' -> bsz_rel (bav_rel k) av av' ->
      oprel (Forall2 (blay_rel k)) (block_layout_pass block_pre abs_child_block f t av) (block_layout_pass block_pre abs_child_block f t' av').
  Proof.
    intros k Hk. apply (block_layout_pass_homog k Hk).
    - apply (block_pre_rel k Hk (bstyle_rel k) (wrel_of_rel k Hk)).
    - apply (abs_child_block_homog k Hk).
  Qed.
  Print Assumptions C04_block_layout_pass.

  (* any sequence of layout passes on the same tree (caches and stored layouts carried over), starting from ANY related trees *)
  Theorem C04_block_layout_passes : forall k, 0 < k ->
    forall f avs avs', Forall2 (bsz_rel (bav_rel k)) avs avs' -> forall t t',
      trel (BNode XQ) (BIn XQ) (ChildOut XQ) (BLayout XQ) (bnode_rel k) (bin_rel k) (bout_rel k) (blay_rel k) t t' ->
      oprel (Forall2 (Forall2 (blay_rel k))) (block_passes block_pre abs_child_block f t avs) (block_passes block_pre abs_child_block f t' avs').
  Proof.
    intros k Hk. apply (block_passes_homog k Hk).
    - apply (block_pre_rel k Hk (bstyle_rel k) (wrel_of_rel k Hk)).
    - apply (abs_child_block_homog k Hk).
  Qed.
  Print Assumptions C04_block_layout_passes.

  (* non-vacuity (Model/BlockAbsExample.v): a scroll container (8 px scrollbar gutter) with an in-flow leaf, an absolute leaf
     sized by its left / right insets with a percentage top inset, an absolute leaf at the bottom right corner with an auto
     margin and a max-height, an absolute block CONTAINER at its static position with a percentage left inset, and a
     percentage-width leaf; k = 5/2; one pass and two passes in a row (definite, then max-content x min-content) *)
  Example C04_block_layout_pass_example :
    skrel (BNode XQ) (bnode_rel (5 # 2)) exr_tree (exr_tree_scaled (5 # 2)) /\
    bsz_rel (bav_rel (5 # 2)) exr_avail (bavs_scale (5 # 2) exr_avail) /\
    exr_boxes exr_tree exr_avail
      [(Fin 0, Fin 0, Fin 212, Fin 52); (Fin 6, Fin 10, Fin 192, Fin 24); (Fin 11, Fin (7 # 2), Fin 172, Fin 34);
       (Fin 163, Fin 35, Fin 40, Fin 16); (Fin (103 # 2), Fin 41, Fin 56, Fin 28); (Fin 3, Fin 3, Fin 52, Fin 22);
       (Fin 6, Fin 34, Fin 96, Fin 12)] = true /\
    exr_scaled_ok (5 # 2) exr_tree (exr_tree_scaled (5 # 2)) exr_avail = true /\
    exr_scaled_ok (5 # 2) exr_tree (exr_tree_scaled (5 # 2)) exr_avail_max = true /\
    exr_two_passes_scaled_ok (5 # 2) exr_tree (exr_tree_scaled (5 # 2)) exr_avail exr_avail_max = true.
  Proof.
    split; [apply ex_scaled_rel; reflexivity|]. split; [apply bsz_rel_scale; apply bav_rel_scale|].
    repeat split; vm_compute; reflexivity.
  Qed.
  Print Assumptions C04_block_layout_pass_example.
End BlockTreesReal.

(* ------------------------------------------------------------------------------------------------------------ *)
(** * Whole FLEX containers, and whole trees of block containers, flex containers and leaves (wave 6)

   `flex_alg` (Model/FlexAlg.v) is ALL of compute_flexbox_layout as a resumption over the engine interface (every measure_child_size /
   perform_child_layout a query, every set_unrounded_layout a stored layout), tied bit for bit to the implementation by `vh flexalg`.
   The relational proof (Proofs/FlexRelKit.v one lemma per loop combinator; FlexRelItems.v, FlexRelCross.v, FlexRelFinal.v one per phase:
   item generation, flex base sizes with their measuring queries, line collection, container main size -- all three branches --, flexible
   lengths, hypothetical cross sizes, baselines, line cross sizes, align-content stretch, used cross sizes, main-axis distribution, cross-axis
   margins / alignment, container cross size, line offsets, the final pass with its walk order, the absolute pass through the translated
   kernel, the hidden pass) walks both runs in lockstep.  There is exactly ONE absolute length in the whole algorithm: the floor
   `f32_max(1.0, flex_shrink * inner_flex_basis)` of determine_container_main_size (known finding flex-intrinsic-shrink-factor-floor).
   `flex_alg_t tau` (Model/FlexAlgT.v) is flex_alg with that constant as a parameter. *)
From TV Require Model.FlexAlgBase Model.FlexAlg Model.FlexAlgT Model.FlexAlgRel Model.BlockFlexEngine Model.BlockFlexK Model.BlockFlexExample.
From TV Require Proofs.FlexRelFinal Proofs.FlexHomog Proofs.BlockFlexRel Proofs.BlockFlexExamples.
Module FlexTrees.
  Import TV.Model.Common TV.Model.Leaf TV.Model.Scale TV.Model.FlexAlgBase TV.Model.FlexAlg TV.Model.FlexAlgT TV.Model.FlexAlgRel.
  Import TV.Model.Engine TV.Model.EngineRel TV.Proofs.EngineRelProofs.
  Import TV.Model.BlockFlexEngine TV.Model.BlockFlexK TV.Model.BlockFlexExample.
  Import TV.Proofs.FlexRelFinal TV.Proofs.FlexHomog TV.Proofs.BlockFlexRel TV.Proofs.BlockFlexExamples.
  Import ListNotations.

  Notation FAlgRel k := (AlgRel (FIn XQ) (LayoutOutput XQ) (FLay XQ) (fin_rel k) (output_rel k) (flay_rel k)).

  (* the floor-parametrised form at the source's constant IS the model's function *)
  Theorem C04_flex_floor_form : forall (s : FStyle XQ) st i, flex_alg_t one s st i = flex_alg s st i.
  Proof. intros. reflexivity. Qed.
  Print Assumptions C04_flex_floor_form.

  (* COUNTERFACTUAL (audit 7b): the right-hand side `flex_alg_t tau'` with tau' = k * tau is NOT the implementation's function unless k = 1
     (the source's floor is the constant 1.0; no runner executes flex_alg_t for tau <> one) -- this is a lemma about the model that locates
     the defect, used at tau = tau' (C04_flex_algorithm_homogeneous_partial, C04_blockflex_engine_partial) and at k = 1 (C12), not the
     property.  As such it is exact: scaling every length of the container's style, of its children's styles, of the input AND the floor by k > 0 scales every
     query the algorithm issues, every layout it stores and its result by k, given scaled answers.  No premise on styles, inputs or answers
     (NaN and infinities included); the floor only has to be positive. *)
  Theorem C04_flex_algorithm_floor_as_length : forall k tau tau', 0 < k -> sc k tau tau' -> gtb tau zero = true ->
    AlgoRel (FStyle XQ) (FIn XQ) (LayoutOutput XQ) (FLay XQ) (fstyle_rel k) (fin_rel k) (output_rel k) (flay_rel k)
            (flex_alg_t tau) (flex_alg_t tau').
  Proof. exact flex_alg_t_homogeneous. Qed.
  Print Assumptions C04_flex_algorithm_floor_as_length.

  (* PARTIAL: `flex_alg` itself -- the floor 1.0 at both scales -- on the class where the floor cannot be reached: the container's main
     size is not computed from its items' content contributions (its inner main size is known, or the main-axis available space is
     definite, or it wraps under a min-content constraint): `flex_main_not_intrinsic`, a function of the container's style and input only.
     Missing: the intrinsic branch of determine_container_main_size, where the statement is FALSE (next theorem). *)
  Theorem C04_flex_algorithm_homogeneous_partial : forall k s s' st st' i i', 0 < k ->
    fstyle_rel k s s' -> Forall2 (fstyle_rel k) st st' -> fin_rel k i i' -> flex_main_not_intrinsic s i = true ->
    FAlgRel k (flex_alg s st i) (flex_alg s' st' i').
  Proof. exact flex_alg_homogeneous_partial. Qed.
  Print Assumptions C04_flex_algorithm_homogeneous_partial.

  (* the class is invariant under the scaling *)
  Theorem C04_flex_main_not_intrinsic_invariant : forall k s s' i i', 0 < k -> fstyle_rel k s s' -> fin_rel k i i' ->
    flex_main_not_intrinsic s' i' = flex_main_not_intrinsic s i.
  Proof. exact flex_main_not_intrinsic_rel. Qed.
  Print Assumptions C04_flex_main_not_intrinsic_invariant.

  (* REFUTED outside the class, on the whole resumption, with the witness of C04_flex_intrinsic_refuted: a row container under max-content
     with one item (flex-basis 1, flex-shrink 1/2, flex-grow 1) whose content is 1/2 x 10; everything x 4 *)
  Theorem C04_flex_algorithm_homogeneous_refuted :
    exists k s st i, 0 < k /\
      ~ FAlgRel k (flex_alg s st i) (flex_alg (fstyle_scale k s) (map (fstyle_scale k) st) (fin_scale k i)).
  Proof. exact flex_alg_not_homogeneous. Qed.
  Print Assumptions C04_flex_algorithm_homogeneous_refuted.
  (* its values: the container's width is 1/2, and 0 (expected 2) after scaling *)
  Theorem C04_flex_algorithm_witness_values :
    option_map (fun r => out_size (fst r)) (alg_run _ _ _ 20 (wit_oracle (Fin (1#2)) (Fin 10)) (flex_alg wit_container [wit_item (Fin 1)] wit_input))
      = Some (mkSize (Fin (1#2)) (Fin 10)) /\
    option_map (fun r => out_size (fst r)) (alg_run _ _ _ 20 (wit_oracle (Fin 2) (Fin 40)) (flex_alg wit_container [wit_item (Fin 4)] wit_input))
      = Some (mkSize (Fin 0) (Fin 40)).
  Proof. exact (conj wit_run_1 wit_run_4). Qed.
  Print Assumptions C04_flex_algorithm_witness_values.

  (* `related` is `scaled` *)
  Theorem C04_flex_scaled_is_related : forall k (s : FStyle XQ) (i : FIn XQ) (l : FLay XQ),
    fstyle_rel k s (fstyle_scale k s) /\ fin_rel k i (fin_scale k i) /\ flay_rel k l (flay_scale k l).
  Proof. intros. exact (conj (fstyle_rel_scale k s) (conj (fin_rel_scale k i) (flay_rel_scale k l))). Qed.
  Print Assumptions C04_flex_scaled_is_related.

  (* ---- whole trees: the engine of Model/BlockFlexK.v (leaves: compute_leaf_layout with the node's measure function; display:flex nodes with
     children: flex_alg_t tau; other nodes with children: the block algorithm with the real preprocessing and absolute routine) *)
  Notation trelk k := (trel (BFNode XQ) (FIn XQ) (LayoutOutput XQ) (FLay XQ) (bfnode_rel k) (fin_rel k) (output_rel k) (flay_rel k)).
  Notation res_relk k := (res_rel (BFNode XQ) (FIn XQ) (LayoutOutput XQ) (FLay XQ) (bfnode_rel k) (fin_rel k) (output_rel k) (flay_rel k)).

  (* the premise of C04_engine, for the two engines that differ by the floor *)
  Theorem C04_blockflex_algorithm_floor_as_length : forall k tau tau', 0 < k -> sc k tau tau' -> gtb tau zero = true ->
    AlgoRel (BFNode XQ) (FIn XQ) (LayoutOutput XQ) (FLay XQ) (bfnode_rel k) (fin_rel k) (output_rel k) (flay_rel k)
            (bfn_algo tau BlockEngine.block_pre BlockAbs.abs_child_block) (bfn_algo tau' BlockEngine.block_pre BlockAbs.abs_child_block).
  Proof. intros k tau tau' Hk. exact (bfn_algo_homog_real k Hk tau tau'). Qed.
  Print Assumptions C04_blockflex_algorithm_floor_as_length.

  (* COUNTERFACTUAL like C04_flex_algorithm_floor_as_length (the engine with floor k * tau is not the implementation's for k <> 1); no premise
     on the tree: the conclusion of C04_engine (any related trees -- caches and stored layouts included, e.g. both fresh --,
     related inputs, same fuel: both evaluations fail or both return, related outputs and related trees: EVERY stored layout and cache entry
     scaled) for the engine with floor tau on the tree and the engine with floor k * tau on the scaled tree *)
  Theorem C04_blockflex_engine_floor_as_length : forall k tau tau', 0 < k -> sc k tau tau' -> gtb tau zero = true ->
    forall f t t' i i', trelk k t t' -> fin_rel k i i' ->
      oprel (res_relk k) (bf_memo_t tau f t i) (bf_memo_t tau' f t' i').
  Proof.
    intros k tau tau' Hk Ht Hp. unfold bf_memo_t. apply (bf_engine_threshold k Hk tau tau'); try assumption.
    - apply (BlockAlgRel.block_pre_rel k Hk (ScaleBlock.bstyle_rel k) (BlockAlgRel.wrel_of_rel k Hk)).
    - apply (BlockAbsRel.abs_child_block_homog k Hk).
  Qed.
  Print Assumptions C04_blockflex_engine_floor_as_length.

  (* PARTIAL: the engine of the implementation (floor 1.0 at both scales) under the premise that NO FLEX CONTAINER OF THE SCALED TREE IS IN
     THE EXCLUDED CLASS, in its exact form: the evaluation of the scaled tree does not depend on the floor being 1 or k (a floored item is
     the only thing that can make the two evaluations differ).  Missing: trees with an intrinsically sized flex container one of whose items
     has content contribution < flex basis and flex_shrink * inner_flex_basis < max(1, k): there the statement is false (C04_blockflex_engine_refuted). *)
  Theorem C04_blockflex_engine_partial : forall k, 0 < k ->
    forall f t t' i i', trelk k t t' -> fin_rel k i i' ->
      bf_memo_t (Fin k) f t' i' = bf_memo f t' i' ->
      oprel (res_relk k) (bf_memo f t i) (bf_memo f t' i').
  Proof. exact bf_engine_partial. Qed.
  Print Assumptions C04_blockflex_engine_partial.

  (* the functional reading on fresh trees: scaled tree (every style length, every measure function) and scaled input -- the run succeeds iff
     the original does, and the root output and EVERY node's stored unrounded layout are the original ones x k *)
  Theorem C04_blockflex_engine_scaled_layouts_partial : forall k, 0 < k ->
    forall f (t t' : sk (BFNode XQ)) i o t1,
      skrel (BFNode XQ) (bfnode_rel k) t t' ->
      bf_memo_t (Fin k) f (bfk_fresh t') (fin_scale k i) = bf_memo f (bfk_fresh t') (fin_scale k i) ->
      bf_memo f (bfk_fresh t) i = Some (o, t1) ->
      exists o' t1',
        bf_memo f (bfk_fresh t') (fin_scale k i) = Some (o', t1') /\ output_rel k o o' /\
        Forall2 (flay_rel k) (lays (BFNode XQ) (FIn XQ) (LayoutOutput XQ) (FLay XQ) t1) (lays (BFNode XQ) (FIn XQ) (LayoutOutput XQ) (FLay XQ) t1').
  Proof. exact bf_engine_scaled_layouts. Qed.
  Print Assumptions C04_blockflex_engine_scaled_layouts_partial.

  (* non-vacuity (Model/BlockFlexExample.v): 10 nodes -- block root, leaf, FLEX ROW container stretched by the block root (definite main size)
     with a growing item (flex-basis 40), a fixed-width item, a nested FLEX COLUMN container sized by content (intrinsic main size when it is
     measured), a display:none child and an absolute child --, k = 5/2: the premises hold, both sides evaluated, boxes as listed, every field
     of every stored layout and the root output x 5/2 *)
  Example C04_blockflex_engine_example :
    skrel (BFNode XQ) (bfnode_rel (5 # 2)) fx_tree (fx_tree_scaled (5 # 2)) /\
    fin_rel (5 # 2) fx_input (fin_scale (5 # 2) fx_input) /\
    bf_memo_t (Fin (5 # 2)) fx_fuel (bfk_fresh (fx_tree_scaled (5 # 2))) (fin_scale (5 # 2) fx_input)
      = bf_memo fx_fuel (bfk_fresh (fx_tree_scaled (5 # 2))) (fin_scale (5 # 2) fx_input) /\
    fx_boxes fx_tree fx_input
      [fbox 0 0 0 0; fbox 4 4 300 10; fbox 4 14 300 42; fbox 3 3 188 36; fbox 202 3 64 36; fbox 272 3 25 36; fbox 0 0 25 8; fbox 0 10 25 8;
       fbox 0 0 0 0; fbox 2 3 10 10] = true /\
    fx_scaled_ok (5 # 2) fx_tree (fx_tree_scaled (5 # 2)) fx_input = true.
  Proof.
    split; [apply fx_scaled_rel; reflexivity|]. split; [apply fin_rel_scale|].
    split; [exact fx_insensitive_52|]. split; [exact fx_boxes_ok|exact fx_scaled_ok_52].
  Qed.
  Print Assumptions C04_blockflex_engine_example.

  (* REFUTED without the premise: the two-node tree of the known finding (a flex row root sized by content, one item flex-basis 1,
     flex-shrink 1/2, flex-grow 1, measured 1/2 x 10), k = 4: root width 1/2, and 0 instead of 2 for the scaled tree -- 2 with the floor scaled *)
  Theorem C04_blockflex_engine_refuted :
    skrel (BFNode XQ) (bfnode_rel 4) fw_tree (fw_tree_scaled 4) /\ fin_rel 4 fw_input (fin_scale 4 fw_input) /\
    ~ oprel (res_relk 4) (bf_memo fx_fuel (bfk_fresh fw_tree) fw_input) (bf_memo fx_fuel (bfk_fresh (fw_tree_scaled 4)) (fin_scale 4 fw_input)) /\
    fx_root_width one fw_tree fw_input = Some (Fin (1#2)) /\ fx_root_width one (fw_tree_scaled 4) (fin_scale 4 fw_input) = Some (Fin 0) /\
    fx_root_width (Fin 4) (fw_tree_scaled 4) (fin_scale 4 fw_input) = Some (Fin 2).
  Proof.
    split; [apply fx_scaled_rel; reflexivity|]. split; [apply fin_rel_scale|]. split; [exact fw_not_related|exact fw_widths].
  Qed.
  Print Assumptions C04_blockflex_engine_refuted.
End FlexTrees.

(* ------------------------------------------------------------------------------------------------------------ *)
(** * The block + flex engine of `FlexTrees` IS the engine `vh taffytree` runs, on trees without grid containers (audit, wave 7b)

   `bf_memo` / `bfn_algo` (Model/BlockFlexK.v) have NO correspondence runner of their own: no `vh` command evaluates them.  The engine that IS
   run against the implementation, whole trees and several passes, is Model/TaffyRoot.v `real_memo` = Model/Engine.v `memo` over
   `real_algo` = `taffy_algo taffy_dispatch block_pre abs_child_block taffy_leaf` (Model/TaffyEngineRun.v, `vh taffytree cases`, run by
   `./check C01 / C05 / C06`).  The theorems below connect the two by PROOF instead of by hand composition:
     - `bfn_emb` (Model/BlockFlexTaffy.v) reads a BFNode as a style of the complete engine (grid-only fields = Style::DEFAULT);
     - node level: the two dispatches select the same resumption (leaf / flex_alg / block_alg with the same preprocessing and absolute
       routine) unless the node is a display:grid node WITH children (BlockFlexK lays it out as a block container; the complete engine
       runs grid_alg) -- display:none nodes are answered by the engine before any algorithm is selected;
     - memo key: the same function (every field of the LayoutInput, numbers compared with the instance's `eqb`);
     - engine level: on every tree -- any cache contents, any stored layouts -- whose skeleton has no display:grid node with children the two
       memoised evaluations return the same output and the same tree (styles embedded, caches and stored layouts identical), or both fail;
     - hence the whole-tree theorems of `FlexTrees` hold verbatim for `real_memo`.
   What is NOT covered by this tie: the runner compares keys by REPRESENTATION (`f32_seqb`, Model/TaffyKey.v) where these theorems use the
   instance's numeric `eqb` (they differ on NaN and on the sign of zero only: a NaN key never hits here); the runner is over binary32, the
   theorems over XQ; `compute_root_layout` (Model/TaffyRoot.v taffy_compute_root) is not composed in (the Examples hand the root `root_fin`);
   the insensitivity premise of the `_partial` theorems still mentions `bf_memo_t (Fin k)`, a function the implementation does not compute. *)
From TV Require Model.TaffyEngine Model.TaffyRoot Model.BlockFlexTaffy Model.BlockFlexExample2 Proofs.EngineMap Proofs.BlockFlexTaffy Proofs.BlockFlexTaffyClass.
Module FlexTreesK.
  Import TV.Model.Common TV.Model.Leaf TV.Model.Scale TV.Model.FlexAlgBase TV.Model.FlexAlgRel.
  Import TV.Model.Engine TV.Model.EngineRel.
  Import TV.Model.BlockFlexEngine TV.Model.BlockFlexK TV.Model.BlockFlexExample TV.Model.TaffyEngine TV.Model.TaffyRoot TV.Model.BlockFlexTaffy.
  Import TV.Model.BlockFlexExample2 TV.Proofs.BlockFlexRel TV.Proofs.BlockFlexExamples TV.Proofs.BlockFlexTaffy.
  Import ListNotations.

  (* node level, any `Num`: same resumption *)
  Theorem C04_blockflex_node_is_taffy_node : forall (T : Type) (HN : Num T) (n : BFNode T) (kids : list (BFNode T)) (i : FIn T),
    (kids = [] \/ display (bfn_core n) <> DGrid) -> bfn_is_none n = false ->
    real_algo (bfn_emb n) (map bfn_emb kids) i = bfn_algo one BlockEngine.block_pre BlockAbs.abs_child_block n kids i.
  Proof. intros T HN n kids i. exact (bfn_algo_is_real_algo n kids i). Qed.
  Print Assumptions C04_blockflex_node_is_taffy_node.

  (* the memo key is the same function *)
  Theorem C04_blockflex_memo_key_is_taffy_key : forall (T : Type) (HN : Num T) (a b : FIn T),
    BlockFlexK.fin_eqb a b = TaffyEngine.fin_eqb_with Num.eqb a b.
  Proof. intros. reflexivity. Qed.
  Print Assumptions C04_blockflex_memo_key_is_taffy_key.

  (* engine level, any `Num`, ANY tree (warm caches, stored layouts) without grid containers: lockstep *)
  Theorem C04_blockflex_engine_is_taffy_engine :
    forall (T : Type) (HN : Num T) fuel (t : tree (BFNode T) (FIn T) (LayoutOutput T) (FLay T)) (i : FIn T),
      sk_good (BFNode T) bfn_taffy_ok (skel _ _ _ _ t) ->
      real_memo Num.eqb fuel (tree_map (BFNode T) (TStyle T) (FIn T) (LayoutOutput T) (FLay T) bfn_emb t) i
      = option_map bf_result_emb (bf_memo fuel t i).
  Proof. intros T HN fuel t i. exact (bf_memo_is_real_memo fuel t i). Qed.
  Print Assumptions C04_blockflex_engine_is_taffy_engine.

  (* C04_blockflex_engine_scaled_layouts_partial about the K-run engine: fresh trees of the complete engine that are embeddings of grid-free
     block + flex trees (the scaled tree is grid-free because the relation keeps `display`: Proofs/BlockFlexTaffyClass.v) *)
  Theorem C04_taffy_engine_scaled_layouts_partial : forall k, 0 < k ->
    forall f (t t' : sk (BFNode XQ)) i o T1,
      sk_goodb t = true ->
      skrel (BFNode XQ) (bfnode_rel k) t t' ->
      bf_memo_t (Fin k) f (bfk_fresh t') (fin_scale k i) = bf_memo f (bfk_fresh t') (fin_scale k i) ->
      real_memo Num.eqb f (taffy_fresh (sk_map bfn_emb t)) i = Some (o, T1) ->
      exists o' T1',
        real_memo Num.eqb f (taffy_fresh (sk_map bfn_emb t')) (fin_scale k i) = Some (o', T1') /\ output_rel k o o' /\
        Forall2 (flay_rel k) (lays (TStyle XQ) (FIn XQ) (LayoutOutput XQ) (FLay XQ) T1) (lays (TStyle XQ) (FIn XQ) (LayoutOutput XQ) (FLay XQ) T1').
  Proof. exact BlockFlexTaffyClass.real_engine_scaled_layouts'. Qed.
  Print Assumptions C04_taffy_engine_scaled_layouts_partial.

  (* non-vacuity: the example trees of `FlexTrees` are in the class (10 nodes: block root, leaf, flex row, flex column, hidden and absolute
     child; the 2-node witness of the refutation), at both scales; the complete engine evaluates the embedded 10-node tree to the same root
     output and the same stored layouts as `bf_memo` (computed on both sides, not through the theorem) *)
  Example C04_blockflex_example_trees_are_taffy_trees :
    sk_goodb fx_tree = true /\ sk_goodb (fx_tree_scaled (5 # 2)) = true /\ sk_goodb fw_tree = true /\ sk_goodb (fw_tree_scaled 4) = true /\
    match real_memo Num.eqb fx_fuel (taffy_fresh (sk_map bfn_emb fx_tree)) fx_input, bf_memo fx_fuel (bfk_fresh fx_tree) fx_input with
    | Some (o, T1), Some (o', t1) =>
        fout_eqb o o' && BX.list_eqb flay_eqb (lays _ _ _ _ T1) (lays _ _ _ _ t1) && (10 =? length (lays _ _ _ _ T1))%nat
    | _, _ => false
    end = true.
  Proof. repeat split; vm_compute; reflexivity. Qed.
  Print Assumptions C04_blockflex_example_trees_are_taffy_trees.

  (* the restriction to grid-free trees is NEEDED: a display:grid root (width 300, padding 4) with two leaf children is a grid container for
     the complete engine (rows 36 and 8 high: the first child's box is 64 x 36 at (9, 4), the second at y = 40) and a block container for
     BlockFlexK (64 x 29, the second at y = 33); the tree is outside the class *)
  Example C04_blockflex_grid_container_excluded_example :
    sk_goodb gx_tree = false /\ real_vs_bf gx_tree fx_input = Some false /\
    real_boxes gx_tree fx_input = [fbox 0 0 0 0; fbox 9 4 64 36; fbox 4 40 300 8] /\
    fx_boxes gx_tree fx_input [fbox 0 0 0 0; fbox 9 4 64 29; fbox 4 33 300 8] = true.
  Proof. repeat split; vm_compute; reflexivity. Qed.
  Print Assumptions C04_blockflex_grid_container_excluded_example.

  (* ---- non-vacuity of the premises of the `_partial` theorems of `FlexTrees` where they BITE (audit finding: in the 10-node tree of
     C04_blockflex_engine_example the floor is never read on its negative side -- an infinite floor changes nothing there, so the
     insensitivity premise held for want of a reader) *)

  (* the insensitivity premise of C04_blockflex_engine_partial on a tree where the floor IS read: fx_tree2 (Model/BlockFlexExample2.v) has a
     flex ROW container sized by content whose first item has flex-basis 40 > content 25, flex-shrink 1 -- the floored quantity
     max(tau, shrink * basis) is evaluated (an infinite floor, or floor 100, changes the layout) and is the same at floor 1 and floor 5/2
     (40, resp. 100 on the scaled tree); both sides evaluate, every stored layout and the root output x 5/2; also an instance of the K-tied
     form (the trees are grid-free, the complete engine computes the same layouts) *)
  Example C04_blockflex_engine_example_floor_read :
    skrel (BFNode XQ) (bfnode_rel (5 # 2)) fx_tree2 (fx_tree2_scaled (5 # 2)) /\
    bf_memo_t (Fin (5 # 2)) fx_fuel (bfk_fresh (fx_tree2_scaled (5 # 2))) (fin_scale (5 # 2) fx_input)
      = bf_memo fx_fuel (bfk_fresh (fx_tree2_scaled (5 # 2))) (fin_scale (5 # 2) fx_input) /\
    fx_floor_insensitive PInf fx_tree2 fx_input = false /\
    fx_floor_insensitive (Fin 100) fx_tree2 fx_input = false /\
    fx_scaled_ok (5 # 2) fx_tree2 (fx_tree2_scaled (5 # 2)) fx_input = true /\
    sk_goodb fx_tree2 = true /\ sk_goodb (fx_tree2_scaled (5 # 2)) = true /\
    real_vs_bf fx_tree2 fx_input = Some true /\ real_vs_bf (fx_tree2_scaled (5 # 2)) (fin_scale (5 # 2) fx_input) = Some true.
  Proof.
    split; [apply fx_scaled_rel; reflexivity|].
    split; [vm_compute; reflexivity|]. repeat split; vm_compute; reflexivity.
  Qed.
  Print Assumptions C04_blockflex_engine_example_floor_read.

  (* the premise of C04_flex_algorithm_homogeneous_partial on ONE flex container run through `alg_run` (the resumption answered by an
     oracle that returns the known dimensions, 30k x 12k where unknown): row container of width 200, max-height 90, padding 3,
     border 1/2/3/1, gap 6, two content-box items with padding and border (flex-basis 40; width 60, min-height 20, grow 1), definite
     available space: the class premise holds, the container is 209 x 38 with the items at (4, 6) 45 x 28 and (55, 6) 149 x 28, and the
     run at k = 4 (styles, input and answers x 4) returns the output and both stored layouts x 4 *)
  Example C04_flex_algorithm_partial_example :
    FlexAlgT.flex_main_not_intrinsic ex_cont ex_in = true /\
    run_boxes (run_k 1 ex_cont [ex_a; ex_b] ex_in)
      = Some (Fin 209, Fin 38, [(0%nat, (Fin 4, Fin 6, Fin 45, Fin 28)); (1%nat, (Fin 55, Fin 6, Fin 149, Fin 28))]) /\
    scaled_run_eqb 4 (run_k 1 ex_cont [ex_a; ex_b] ex_in)
                     (run_k 4 (fstyle_scale 4 ex_cont) (map (fstyle_scale 4) [ex_a; ex_b]) (fin_scale 4 ex_in)) = true.
  Proof. repeat split; vm_compute; reflexivity. Qed.
  Print Assumptions C04_flex_algorithm_partial_example.
End FlexTreesK.

(* ------------------------------------------------------------------------------------------------------------ *)
(** * Whole GRID containers (wave 9e, notes/GRIDREL.md)

   `grid_alg` (Model/GridAlg.v: all of compute_grid_layout as a resumption) is proved relational in lockstep for any style relation that
   implies the weak relation `gstyle_wrel k` (Props/C12.v GridContainers uses it at k = 1).  Scaling every length implies the weak relation
   (C04_grid_resolutions_homogeneous), the container preprocessing is homogeneous without premise (C04_grid_pre_homogeneous), and so is every
   phase EXCEPT the track kernels that compare a length with an absolute constant (distribute_space_up_to_limits THRESHOLD = 0.01 and the
   1e-6 of distribute_item_space_to_base_size: the KNOWN FINDING, C04_grid_maximise_refuted).  C04_grid_algorithm_homogeneous_partial states
   the whole algorithm under `thresholds_scale k` = "both constants are invariant under scaling by k", which holds at k = 1 only
   (C04_grid_thresholds_scale_one): for k <> 1 it says that these two constants are the ONLY inhomogeneous ingredients of
   compute_grid_layout in the sense that every lemma of the proof other than the two kernel lemmas is premise-free in k.  Missing for a
   statement that is non-vacuous at k <> 1: `grid_alg_t tau tau2` (the model with both constants as parameters, as Model/FlexAlgT.v does for
   the flex floor) and the tau-parametric composition (the kernels ARE proved tau-parametric: C04_grid_distribute, C04_grid_maximise). *)
From TV Require Model.GridAlgBase Model.GridAlg Model.GridAlgRel Model.GridSizingRel Model.GridRelExample Model.GridRelExampleK.
From TV Require Proofs.GridStyleRel Proofs.GridRelTop Proofs.GridRelExamples.
Module GridContainers.
  Import TV.Model.Common TV.Model.Leaf TV.Model.Scale TV.Model.ScaleGrid TV.Model.FlexAlgBase TV.Model.FlexAlgRel.
  Import TV.Model.GridAlgBase TV.Model.GridAlg TV.Model.GridAlgRel TV.Model.GridSizingRel TV.Model.GridRelExample TV.Model.GridRelExampleK.
  Import TV.Model.Engine TV.Model.EngineRel.
  Import TV.Proofs.GridStyleRel TV.Proofs.GridRelTop TV.Proofs.GridRelExamples.
  Import ListNotations.

  Theorem C04_grid_scaled_is_related : forall (k : Q) (s : GStyle XQ), gstyle_rel k s (gstyle_scale k s).
  Proof. exact gstyle_rel_scale. Qed.

  (* every resolution grid_alg performs on a style -- its own or a child's -- is homogeneous *)
  Theorem C04_grid_resolutions_homogeneous : forall (k : Q) (s s' : GStyle XQ), (0 < k)%Q -> gstyle_rel k s s' -> gstyle_wrel k s s'.
  Proof. exact (fun k s s' Hk => gwrel_of_rel k Hk s s'). Qed.

  (* compute_grid_layout l.50-138: padding, border, min / max / preferred size, gutter, inset, available grid space, outer / inner size *)
  Theorem C04_grid_pre_homogeneous : forall (k : Q) (s s' : GStyle XQ) (i i' : GIn XQ),
    (0 < k)%Q -> gstyle_rel k s s' -> fin_rel k i i' -> pre_rel k (grid_pre s i) (grid_pre s' i').
  Proof. exact (fun k s s' i i' => grid_pre_homogeneous k s s' i i'). Qed.

  Theorem C04_grid_thresholds_scale_one : thresholds_scale 1.
  Proof. exact thresholds_scale_one. Qed.

  (* PARTIAL: see the header -- the premise `thresholds_scale k` is the known finding; it holds at k = 1 only *)
  Theorem C04_grid_algorithm_homogeneous_partial : forall k : Q, (0 < k)%Q -> thresholds_scale k ->
    Homogeneous (GStyle XQ) (GIn XQ) (LayoutOutput XQ) (GLay XQ) (gstyle_rel k) (fin_rel k) (output_rel k) (flay_rel k) grid_alg.
  Proof. exact grid_alg_homogeneous_thresholds. Qed.

  (* computed, k = 4, on the instance of Model/GridRelExample.v (thresholds not reached): styles, input and answers x 4 give the result and
     the stored layouts x 4 (item a 144 x 64, item b 248 x 64); the comparison fails against the run at k = 2 *)
  Example C04_grid_algorithm_example :
    ge_scaled_same 4 (ge_run ge_container [ge_a; ge_b]) (ge_run_k 4 ge_container [ge_a; ge_b]) = true /\
    ge_sizes (ge_run_k 4 ge_container [ge_a; ge_b]) = [(0%nat, gq 144, gq 64); (1%nat, gq 248, gq 64)] /\
    ge_scaled_same 4 (ge_run ge_container [ge_a; ge_b]) (ge_run_k 2 ge_container [ge_a; ge_b]) = false.
  Proof. exact ge_scaled_4. Qed.

  Print Assumptions C04_grid_scaled_is_related.
  Print Assumptions C04_grid_resolutions_homogeneous.
  Print Assumptions C04_grid_pre_homogeneous.
  Print Assumptions C04_grid_thresholds_scale_one.
  Print Assumptions C04_grid_algorithm_homogeneous_partial.
  Print Assumptions C04_grid_algorithm_example.
End GridContainers.
