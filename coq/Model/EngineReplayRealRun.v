(* Runner of the EVENT-LEVEL engine correspondence over the REAL cache (C15 / C01; notes/REALHIST.md): a history of TaffyTree API
   calls is replayed on the forest of `gtree`s (Model/EngineForestG.v: mutators = edit + `gmark_dirty`, dirty = `rdirty`) whose caches
   are `rcache` (Model/EngineReal.v = src/tree/cache.rs: one final entry, nine slots, the LOSSY test `Cache.compat` on binary32, the
   `is_empty` flag behind `clear`), with the real algorithms replayed from the recorded script table (Model/EngineReplay.v).  For
   every compute_layout the traced `memo_real` reports every compute_cached_layout call (node, input, hit/miss), its Return, every
   compute_hidden_layout and set_unrounded_layout; after every call TaffyTree::dirty of every live node.  The implementation runs
   WITHOUT the exact-key hook.

   case = [nnodes; (parent or -1, none)*nnodes; nkeys; KEY*nkeys; nentries; entries; ops each prefixed by its length]
   KEY  = kwf kwb khf khb awk awb ahk ahb  (Model/CacheRun.v `dec_key`: C02's encoding), the key of input k at position k
   entries / ops as in Model/EngineReplayRun.v; outputs are names id*2^64 + w*2^32 + h (Model/EngineReplayReal.v)
   output = the output format of Model/EngineReplayRun.v, with one model-only integer after the -2 of every pass:
            -(1000 + number of LOSSY hits of the pass) (ghost counter `n_lossy`; lib/engine_k.py strips and sums them) *)
From Coq Require Import List Bool Arith NArith ZArith Lia.
From TV Require Import Num.Num Num.F32 Gen.CacheGen Model.Cache Model.CacheRun Model.Engine Model.EngineReal Model.EngineForest
  Model.EngineForestG Model.EngineReplay Model.EngineReplayRun Model.EngineReplayReal.
Import ListNotations.

Fixpoint parse_keys (k : nat) (l : list Z) : ktable * list Z :=
  match k with
  | O => ([], l)
  | S k' =>
      match l with
      | a :: b :: c :: d :: e :: f :: g :: h :: r =>
          let '(ks, r') := parse_keys k' r in (dec_key a b c d e f g h :: ks, r')
      | _ => ([], l)
      end
  end.

Definition lossy_total (t : rrtree) : N := sum_stats RS RLay rr_cache n_lossy t.

Definition rr_layout (tb : table) (kt : ktable) (t : rrtree) (tag : N) : option (rrtree * list Z) :=
  match rr_memo_tr tb kt 64 t tag with
  | Some (_, t', evs) =>
      Some (t', map enc_event evs ++ [enc_event (ESetLayout RS RIn (gstyle RS RLay rr_cache t)); (-2)%Z;
                                       (- (1000 + Z.of_N (lossy_total t' - lossy_total t)))%Z])
  | None => None
  end.

Definition run_case_real (c : list Z) : list Z :=
  match c with
  | n :: rest =>
      let '(f0, r1) := gbuild_nodes RS RLay rr_cache rr_new rs_id r_new_style tt (Z.to_nat n) rest 0%N [] in
      match r1 with
      | nk :: r2 =>
          let '(kt, r3) := parse_keys (Z.to_nat nk) r2 in
          match r3 with
          | nt :: r4 =>
              let '(tb, ops) := parse_table (Z.to_nat nt) r4 in
              grun_ops_out RS RLay rr_cache rr_new rr_clear rr_dirty rs_id r_new_style r_restyle r_rectx tt (rr_layout tb kt) f0 ops
          | [] => []
          end
      | [] => []
      end
  | [] => []
  end.
