(* The forest layer shared by the engine correspondences: a history of TaffyTree API calls, given as integers by the
   harness (harness/src/eng.rs and engev.rs use the same op encoding), replayed on a FOREST of engine-skeleton trees
   (Model/Engine.v: mutate = edit + mark_dirty with its early exit; the layout pass is a parameter).  Which node every
   mutator edits / marks dirty, what happens to detached subtrees (they become roots and keep their caches) and the
   dirty flags reported after every call are defined here once, for every instance of the engine:
     Model/EngineRun.v        toy algorithm (dirty-flag correspondence)
     Model/EngineReplayRun.v  the real algorithms' behaviour replayed from recorded scripts (event-level correspondence)
   Definitions only. *)
From Coq Require Import List Bool Arith NArith ZArith Lia.
From TV Require Import Model.Engine.
Import ListNotations.

Fixpoint remove_at {A} (l : list A) (k : nat) : list A :=
  match l, k with
  | [], _ => []
  | _ :: r, O => r
  | a :: r, S k' => a :: remove_at r k'
  end.
Fixpoint insert_at {A} (l : list A) (k : nat) (x : A) : list A :=
  match k, l with
  | O, _ => x :: l
  | S k', a :: r => a :: insert_at r k' x
  | S _, [] => [x]
  end.
Definition rot {A} (l : list A) : list A := match l with [] => [] | a :: r => r ++ [a] end.

(* [len; x1..xlen; len'; ...] -> [[x1..xlen]; ...] *)
Fixpoint take_ops (fuel : nat) (l : list Z) : list (list Z) :=
  match fuel with
  | O => []
  | S f' => match l with
            | [] => []
            | len :: r => firstn (Z.to_nat len) r :: take_ops f' (skipn (Z.to_nat len) r)
            end
  end.

Section Forest.
  Variables (S In Out Lay : Type).
  Variable sid : S -> N.                      (* the node id carried by a style *)
  Variable new_style : N -> bool -> S.        (* style of a freshly created leaf: id, display:none *)
  Variable restyle : S -> bool -> S.          (* set_style: old style, display:none of the new one *)
  Variable rectx : S -> S.                    (* set_node_context *)
  Variable zero_lay : Lay.
  Notation tree := (Engine.tree S In Out Lay).
  (* compute_layout(root) with the root input tag: the new tree and the (encoded) events of the pass *)
  Variable do_layout : tree -> N -> option (tree * list Z).

  Definition forest := list tree.
  Definition leaf (id : N) (none : bool) : tree := Node S In Out Lay (new_style id none) (cempty In Out) zero_lay [].

  Fixpoint find (t : tree) (id : N) {struct t} : option (list nat) :=
    match t with
    | Node _ _ _ _ s _ _ kids =>
        if N.eqb (sid s) id then Some []
        else (fix go (ks : list tree) (k : nat) : option (list nat) :=
                match ks with
                | [] => None
                | c :: r => match find c id with Some p => Some (k :: p) | None => go r (Datatypes.S k) end
                end) kids 0
    end.

  (* locate a node: index of its root in the forest and path below it *)
  Fixpoint locate (f : forest) (id : N) (k : nat) : option (nat * list nat) :=
    match f with
    | [] => None
    | t :: r => match find t id with Some p => Some (k, p) | None => locate r id (Datatypes.S k) end
    end.

  Definition set_root (f : forest) (k : nat) (t : tree) : forest := replace_nth k t f.

  Definition subtree_at (f : forest) (id : N) : option tree :=
    match locate f id 0 with
    | Some (k, p) => match nth_error f k with Some t => subtree S In Out Lay t p | None => None end
    | None => None
    end.

  (* "edit the node, then mark_dirty it" at the node with this id *)
  Definition mutate_id (f : forest) (id : N) (e : edit S In Out Lay) : forest :=
    match locate f id 0 with
    | Some (k, p) => match nth_error f k with Some t => set_root f k (mutate S In Out Lay t p e) | None => f end
    | None => f
    end.

  Definition kids_of_id (f : forest) (id : N) : list tree :=
    match subtree_at f id with Some t => kids_of S In Out Lay t | None => [] end.

  Definition parent_of (f : forest) (id : N) : option N :=
    match locate f id 0 with
    | Some (k, p) =>
        match p with
        | [] => None
        | _ => match nth_error f k with
               | Some t => match subtree S In Out Lay t (removelast p) with
                           | Some par => Some (sid (style_of S In Out Lay par))
                           | None => None end
               | None => None end
        end
    | None => None
    end.

  (* detach the child at index idx of parent (it becomes a root and keeps its caches); parent is marked dirty *)
  Definition detach_idx (f : forest) (par : N) (idx : nat) : forest :=
    let ks := kids_of_id f par in
    match nth_error ks idx with
    | Some ch => mutate_id f par (ESetKids _ _ _ _ (remove_at ks idx)) ++ [ch]
    | None => f
    end.

  Definition index_of (ks : list tree) (id : N) : option nat :=
    (fix go (l : list tree) (k : nat) :=
       match l with [] => None | c :: r => if N.eqb (sid (style_of S In Out Lay c)) id then Some k else go r (Datatypes.S k) end) ks 0.

  Definition restyle_id (f : forest) (id : N) (g : S -> S) : forest :=
    match subtree_at f id with
    | Some t => mutate_id f id (ESetStyle _ _ _ _ (g (style_of S In Out Lay t)))
    | None => f
    end.

  (* one API call; the second component is what the layout pass logged (empty for every other call) *)
  Definition step_op (f : forest) (o : list Z) : forest * list Z :=
    match o with
    | [0; n; none]%Z =>                                     (* set_style *)
        (restyle_id f (Z.to_N n) (fun s => restyle s (Z.eqb none 1)), [])
    | [1; p; nid; none]%Z =>                                (* add_child(p, new leaf) *)
        (mutate_id f (Z.to_N p) (ESetKids _ _ _ _ (kids_of_id f (Z.to_N p) ++ [leaf (Z.to_N nid) (Z.eqb none 1)])), [])
    | [2; p; idx; nid; none]%Z =>                           (* insert_child_at_index *)
        (mutate_id f (Z.to_N p) (ESetKids _ _ _ _ (insert_at (kids_of_id f (Z.to_N p)) (Z.to_nat idx) (leaf (Z.to_N nid) (Z.eqb none 1)))), [])
    | [3; p; idx]%Z => (detach_idx f (Z.to_N p) (Z.to_nat idx), [])   (* remove_child_at_index *)
    | [4; p; idx; nid; none]%Z =>                           (* replace_child_at_index: old child becomes a root *)
        let ks := kids_of_id f (Z.to_N p) in
        match nth_error ks (Z.to_nat idx) with
        | Some old => (mutate_id f (Z.to_N p) (ESetKids _ _ _ _ (replace_nth (Z.to_nat idx) (leaf (Z.to_N nid) (Z.eqb none 1)) ks)) ++ [old], [])
        | None => (f, [])
        end
    | [5; p]%Z => (mutate_id f (Z.to_N p) (ESetKids _ _ _ _ (rot (kids_of_id f (Z.to_N p)))), [])   (* set_children, rotated *)
    | [6; n; p]%Z =>                                        (* remove_child(old parent, n) then add_child(p, n) *)
        let f1 := match parent_of f (Z.to_N n) with
                  | Some par => match index_of (kids_of_id f par) (Z.to_N n) with Some idx => detach_idx f par idx | None => f end
                  | None => f end in
        match locate f1 (Z.to_N n) 0 with
        | Some (k, []) =>
            match nth_error f1 k with
            | Some sub => let f2 := remove_at f1 k in
                          (mutate_id f2 (Z.to_N p) (ESetKids _ _ _ _ (kids_of_id f2 (Z.to_N p) ++ [sub])), [])
            | None => (f1, []) end
        | _ => (f1, [])
        end
    | [7; n]%Z =>                                           (* remove(n): parent marked dirty, children become roots *)
        let f1 := match parent_of f (Z.to_N n) with
                  | Some par => match index_of (kids_of_id f par) (Z.to_N n) with Some idx => detach_idx f par idx | None => f end
                  | None => f end in
        match locate f1 (Z.to_N n) 0 with
        | Some (k, []) => match nth_error f1 k with
                          | Some sub => (remove_at f1 k ++ kids_of S In Out Lay sub, [])
                          | None => (f1, []) end
        | _ => (f1, [])
        end
    | [8; n]%Z => (restyle_id f (Z.to_N n) rectx, [])       (* set_node_context *)
    | [9; n]%Z => (mutate_id f (Z.to_N n) (ENone _ _ _ _), [])     (* mark_dirty *)
    | [10; r; tag]%Z =>                                     (* compute_layout(root r) *)
        match locate f (Z.to_N r) 0 with
        | Some (k, []) => match nth_error f k with
                          | Some t => match do_layout t (Z.to_N tag) with
                                      | Some (t', evs) => (set_root f k t', evs)
                                      | None => (f, [(-99)%Z]) end
                          | None => (f, []) end
        | _ => (f, [])
        end
    | _ => (f, [])
    end.

  (* dirty flags of all live nodes, sorted by id *)
  Fixpoint flags (t : tree) : list (N * bool) :=
    match t with Node _ _ _ _ s c _ kids => (sid s, is_empty In Out c) :: flat_map flags kids end.
  Fixpoint insert_sorted (x : N * bool) (l : list (N * bool)) : list (N * bool) :=
    match l with [] => [x] | y :: r => if N.leb (fst x) (fst y) then x :: l else y :: insert_sorted x r end.
  Definition all_flags (f : forest) : list Z :=
    map (fun p : N * bool => if snd p then 1%Z else 0%Z) (fold_right insert_sorted [] (flat_map flags f)).

  (* initial forest from (parent, none) pairs: nodes are numbered in pre-order, so children attach in order *)
  Fixpoint build_nodes (k : nat) (l : list Z) (id : N) (f : forest) : forest * list Z :=
    match k with
    | O => (f, l)
    | Datatypes.S k' =>
        match l with
        | par :: none :: r =>
            let nd := leaf id (Z.eqb none 1) in
            let f' := if (par <? 0)%Z then f ++ [nd]
                      else match locate f (Z.to_N par) 0 with
                           | Some (j, p) => match nth_error f j with
                                            | Some t => set_root f j (update S In Out Lay t p
                                                          (fun u => match u with Node _ _ _ _ s c l0 ks => Node S In Out Lay s c l0 (ks ++ [nd]) end))
                                            | None => f end
                           | None => f end in
            build_nodes k' r (id + 1)%N f'
        | _ => (f, l)
        end
    end.

  (* replay the ops (each prefixed by its length): the output is the dirty flags of the initial forest, then per call
     -1, what the pass logged, the dirty flags *)
  Definition run_ops_out (f0 : forest) (ops : list Z) : list Z :=
    let opl := take_ops (length ops) ops in
    snd (fold_left (fun (st : forest * list Z) o =>
                      let '(f', evs) := step_op (fst st) o in
                      (f', snd st ++ (-1)%Z :: evs ++ all_flags f')) opl (f0, all_flags f0)).
End Forest.
