(* C14 -- concrete histories: a reachable non-trivial well-formed state (non-vacuity of WF / pre), and what happens
   when the precondition is ignored. *)
From Coq Require Import NArith List Bool Arith Lia.
From TV Require Import Model.Tree Proofs.TreeLists Proofs.TreeSlotMap Proofs.TreeProofs.
Import ListNotations.

Definition k1 : key := (1, 1%N).
Definition k2 : key := (2, 1%N).
Definition k3 : key := (3, 1%N).
Definition k2' : key := (2, 3%N).      (* slot 2 after one remove: version 1 -> 2 (vacant) -> 3 *)

(* three leaves; 2 and 3 attached under 1 (3 inserted in front); 2 removed; its slot reused by a new node
   that is then adopted by 3 through set_children together with ... nothing else *)
Definition good_history : list op :=
  [ONewLeaf; ONewLeaf; ONewLeaf; OAddChild k1 k2; OInsertChild k1 0 k3; ORemove k2; ONewLeafCtx 7; OSetChildren k3 [k2']].

Ltac solve_pre :=
  vm_compute;
  repeat match goal with
         | |- _ /\ _ => split
         | |- True => exact I
         | |- NoDup _ => constructor
         | |- ~ _ => intro
         | |- forall _, _ => intro
         | H : In _ _ |- _ => simpl in H
         | H : False |- _ => destruct H
         | H : _ \/ _ |- _ => destruct H
         | H : (_, _) = ?c |- _ => is_var c; subst c
         | |- _ \/ _ => first [left; reflexivity | right]
         | |- _ = _ => reflexivity
         end.

Ltac pre_step :=
  split; [ solve_pre | let t' := fresh "t" in let out := fresh "out" in let H := fresh "H" in
                       intros t' out H; vm_compute in H; inversion H; subst t' out; clear H ].

Lemma good_history_pre : pre_hist tree_new good_history.
Proof.
  unfold good_history. cbn [pre_hist]. repeat pre_step. exact I.
Qed.

Lemma good_history_run :
  exists t, run tree_new good_history = Ok (t, [RKey k1; RKey k2; RKey k3; RUnit; RUnit; RKey k2; RKey k2'; RUnit]) /\ WF t /\
            children t k1 = Ok [k3] /\ children t k3 = Ok [k2'] /\ parent t k2' = Ok (Some k3) /\ parent t k3 = Ok (Some k1) /\
            parent t k1 = Ok None /\ total_node_count t = 3 /\
            sm_get (t_nodes t) k2 = None /\ get_node_context t k2' = Some 7%N.
Proof.
  destruct (history good_history tree_new [] tree_new_WF good_history_pre) as [_ [t [outs [Hr [W _]]]]].
  change (run_acc (Ok (tree_new, [])) good_history) with (run tree_new good_history) in Hr.
  exists t. vm_compute in Hr. inversion Hr. subst t. clear Hr.
  split; [vm_compute; reflexivity|]. split; [exact W|]. vm_compute. repeat split; reflexivity.
Qed.

(* attaching an attached node with add_child: nothing fails, but the node is now listed by two parents while parent()
   names only the second one: the invariant is lost, and the observations no longer form a forest *)
Definition bad_history : list op := [ONewLeaf; ONewLeaf; ONewLeaf; OAddChild k1 k3; OAddChild k2 k3].

Lemma bad_history_breaks :
  exists t outs, run tree_new bad_history = Ok (t, outs) /\
                 children t k1 = Ok [k3] /\ children t k2 = Ok [k3] /\ parent t k3 = Ok (Some k2) /\ ~ WF t.
Proof.
  eexists _, _. split; [vm_compute; reflexivity|]. split; [vm_compute; reflexivity|].
  split; [vm_compute; reflexivity|]. split; [vm_compute; reflexivity|].
  intros W. destruct (wf_down _ W k1 [k3]) as [_ Hd]; [vm_compute; reflexivity|].
  specialize (Hd k3 (or_introl eq_refl)). vm_compute in Hd. discriminate.
Qed.

(* ... and the precondition is what rules it out *)
Lemma bad_history_violates_pre :
  exists t outs, run tree_new (firstn 4 bad_history) = Ok (t, outs) /\ ~ pre (abs t) (OAddChild k2 k3).
Proof.
  eexists _, _. split; [vm_compute; reflexivity|]. intros [_ [_ Hd]]. vm_compute in Hd. discriminate.
Qed.
