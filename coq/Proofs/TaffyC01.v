(* The engine theorems of C01, instantiated for the complete engine (Model/TaffyRoot.v `real_algo` = taffy_algo with the real dispatch,
   block_pre, abs_child_block, taffy_leaf): every interface hypothesis is discharged by Proofs/TaffyIface.v, the key exactness by
   Proofs/TaffyKey.v for every exact equality `teq` of numbers. *)
From Coq Require Import ZArith Bool List Arith.
From TV Require Import Model.Common Model.Leaf Model.FlexAlgBase Model.BlockFlexEngine Model.TaffyEngine Model.TaffyRoot.
From TV Require Import Model.Engine Model.EngineLayouts Proofs.EngineMemo Proofs.EngineDirty Proofs.EngineHistory Proofs.EngineNoScribble
  Proofs.EngineLayoutsMemo Proofs.EngineLayoutsHistory.
From TV Require Import Proofs.TaffyIface Proofs.TaffyKey.
Import ListNotations.
Close Scope Z_scope.

Section TaffyC01.
  Context {T : Type} `{Num T}.
  Variable teq : T -> T -> bool.
  Hypothesis teq_eq : forall a b, teq a b = true -> a = b.
  Notation TS := (TStyle T).
  Notation Out := (LayoutOutput T).
  Notation key := (fin_eqb_with teq).
  Notation Z0 := (f_with_order (T := T) 0).

  Theorem taffy_root_output_equals_fresh t0 ops f f' i o o' t1 t2 :
    Inv TS (FIn T) Out (FLay T) qi_mode t_is_none output_HIDDEN real_algo t0 ->
    run_ok TS (FIn T) Out (FLay T) qi_mode key t_is_none output_HIDDEN Z0 real_algo t0 ops ->
    memo TS (FIn T) Out (FLay T) qi_mode key t_is_none output_HIDDEN Z0 real_algo f
         (run_ops TS (FIn T) Out (FLay T) qi_mode key t_is_none output_HIDDEN Z0 real_algo t0 ops) i = Some (o, t1) ->
    memo TS (FIn T) Out (FLay T) qi_mode key t_is_none output_HIDDEN Z0 real_algo f'
         (fresh TS (FIn T) Out (FLay T) Z0 (skel TS (FIn T) Out (FLay T) (run_ops TS (FIn T) Out (FLay T) qi_mode key t_is_none output_HIDDEN Z0 real_algo t0 ops))) i
      = Some (o', t2) ->
    o = o'.
  Proof.
    apply (relayout_equals_fresh TS (FIn T) Out (FLay T) qi_mode key t_is_none output_HIDDEN Z0 real_algo
             (fin_eqb_with_eq teq teq_eq) real_algo_WF real_algo_H1).
  Qed.

  Lemma style_of_fresh_skel (t : tree TS (FIn T) Out (FLay T)) :
    style_of TS (FIn T) Out (FLay T) (fresh TS (FIn T) Out (FLay T) Z0 (skel TS (FIn T) Out (FLay T) t)) = style_of TS (FIn T) Out (FLay T) t.
  Proof. destruct t. reflexivity. Qed.

  (* compute_root_layout on top: the ROOT's stored layout, too *)
  Theorem taffy_compute_root_equals_fresh t0 ops f f' avail r1 r2 :
    Inv TS (FIn T) Out (FLay T) qi_mode t_is_none output_HIDDEN real_algo t0 ->
    run_ok TS (FIn T) Out (FLay T) qi_mode key t_is_none output_HIDDEN Z0 real_algo t0 ops ->
    real_compute_root teq f (run_ops TS (FIn T) Out (FLay T) qi_mode key t_is_none output_HIDDEN Z0 real_algo t0 ops) avail = Some r1 ->
    real_compute_root teq f' (taffy_fresh (skel TS (FIn T) Out (FLay T) (run_ops TS (FIn T) Out (FLay T) qi_mode key t_is_none output_HIDDEN Z0 real_algo t0 ops))) avail
      = Some r2 ->
    lay_of TS (FIn T) Out (FLay T) r1 = lay_of TS (FIn T) Out (FLay T) r2.
  Proof.
    intros HI Hok. unfold real_compute_root, taffy_compute_root, taffy_fresh. rewrite style_of_fresh_skel.
    set (R := run_ops TS (FIn T) Out (FLay T) qi_mode key t_is_none output_HIDDEN Z0 real_algo t0 ops).
    unfold taffy_memo. fold (real_algo (T := T)).
    destruct (memo _ _ _ _ _ _ _ _ _ _ f R _) as [[o t1]|] eqn:M1; [|discriminate].
    destruct (memo _ _ _ _ _ _ _ _ _ _ f' (fresh _ _ _ _ _ _) _) as [[o' t2]|] eqn:M2; [|discriminate].
    intros E1 E2. injection E1 as <-. injection E2 as <-.
    rewrite (taffy_root_output_equals_fresh t0 ops f f' _ o o' t1 t2 HI Hok M1 M2).
    destruct t1, t2. reflexivity.
  Qed.

  (* ---- calm trees: the stored layouts of every node below the root *)
  Notation CS := (CalmStyle (T := T)).
  Theorem calm_layouts_equal_fresh t0 ops f f' i o o' t1 t2 :
    Inv CS (FIn T) Out (FLay T) qi_mode calm_is_none output_HIDDEN calm_algo t0 ->
    Coh CS (FIn T) Out (FLay T) qi_mode calm_is_none output_HIDDEN Z0 calm_algo t0 ->
    run_ok_l CS (FIn T) Out (FLay T) qi_mode key calm_is_none output_HIDDEN Z0 calm_algo t0 ops ->
    qi_mode i = PerformLayout ->
    memo CS (FIn T) Out (FLay T) qi_mode key calm_is_none output_HIDDEN Z0 calm_algo f
         (run_ops CS (FIn T) Out (FLay T) qi_mode key calm_is_none output_HIDDEN Z0 calm_algo t0 ops) i = Some (o, t1) ->
    memo CS (FIn T) Out (FLay T) qi_mode key calm_is_none output_HIDDEN Z0 calm_algo f'
         (fresh CS (FIn T) Out (FLay T) Z0 (skel CS (FIn T) Out (FLay T) (run_ops CS (FIn T) Out (FLay T) qi_mode key calm_is_none output_HIDDEN Z0 calm_algo t0 ops))) i
      = Some (o', t2) ->
    o = o' /\ lkids (FLay T) (lays CS (FIn T) Out (FLay T) t1) = lkids (FLay T) (lays CS (FIn T) Out (FLay T) t2).
  Proof.
    intros HI HC Hok Hm M1 M2.
    destruct (relayout_layouts_equal_fresh CS (FIn T) Out (FLay T) qi_mode key calm_is_none output_HIDDEN Z0 calm_algo
                (fin_eqb_with_eq teq teq_eq) calm_algo_WF calm_algo_H1 calm_algo_H3 calm_algo_NS calm_algo_HQ
                t0 ops f f' i o o' t1 t2 HI HC Hok Hm M1 M2) as [Eo [El _]].
    split; assumption.
  Qed.
End TaffyC01.
