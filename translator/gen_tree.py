"""Fingerprints of the TaffyTree structural methods that coq/Model/Tree.v transcribes by hand
(src/tree/taffy_tree.rs).  Nothing is translated here: the model is tied to the code by the correspondence
check of C14; a changed fingerprint only escalates that check to its thorough budget.  The generated file
records which methods were found (the translator refuses if one of them disappears)."""
from rustparse import *

SRC = 'src/tree/taffy_tree.rs'

METHODS = ['new', 'with_capacity', 'new_leaf', 'new_leaf_with_context', 'new_with_children', 'clear', 'remove',
           'set_node_context', 'get_node_context', 'add_child', 'insert_child_at_index', 'set_children', 'remove_child',
           'remove_child_at_index', 'remove_children_range', 'replace_child_at_index', 'child_at_index',
           'total_node_count', 'parent', 'children', 'mark_dirty']


class Refuse(Exception):
    pass


def generate(repo):
    src = open(repo + '/' + SRC).read()
    toks = tokenize(src)
    # the inherent impl block: `impl < NodeContext > TaffyTree < NodeContext > {`
    idxs = [i for i in range(len(toks)) if seq_at(toks, i, ['impl', '<', 'NodeContext', '>', 'TaffyTree', '<', 'NodeContext', '>', '{'])]
    if len(idxs) != 1:
        raise Refuse('expected exactly one inherent `impl<NodeContext> TaffyTree<NodeContext>` block, found %d' % len(idxs))
    b = idxs[0] + 8
    e = match_brace(toks, b)
    body = toks[b:e + 1]
    fps = {}
    for m in METHODS:
        params, fb, _ = find_fn(body, m)
        fps['TaffyTree::' + m] = norm_tokens(params) + ' => ' + norm_tokens(fb)
    # child_count lives in the TraversePartialTree impl
    ti = [i for i in range(len(toks)) if seq_at(toks, i, ['TraversePartialTree', 'for', 'TaffyTree', '<', 'NodeContext', '>'])]
    if len(ti) != 1:
        raise Refuse('TraversePartialTree impl for TaffyTree not found')
    params, fb, _ = find_fn(toks, 'child_count', ti[0])
    fps['TaffyTree::child_count'] = norm_tokens(fb)
    # the struct fields the model mirrors
    si = [i for i in range(len(toks)) if seq_at(toks, i, ['pub', 'struct', 'TaffyTree'])]
    if len(si) != 1:
        raise Refuse('struct TaffyTree not found')
    j = si[0]
    while toks[j][1] != '{':
        j += 1
    fps['TaffyTree::struct'] = norm_tokens([t for t in toks[j:match_brace(toks, j) + 1] if not t[1].startswith('///')])
    out = ['(* GENERATED on every run by /verif/translator/gen_tree.py from %s -- do not edit. *)' % SRC,
           '(* The methods of TaffyTree that Model/Tree.v transcribes (found in the source; fingerprinted). *)',
           'From Coq Require Import String List.', 'Import ListNotations.', 'Open Scope string_scope.',
           'Definition taffy_tree_methods : list string := [%s].' % '; '.join('"%s"' % k for k in sorted(fps))]
    return '\n'.join(out) + '\n', fps


TARGETS = {'TreeMethodsGen.v': generate}
