(* The cache-free layout-writing evaluation plain_l (Model/EngineLayouts.v) on its own:
   fuel monotonicity; it never changes the skeleton; its output is the output of [plain]; it is defined whenever
   [plain] is; a ComputeSize evaluation of a box-generating node writes nothing (NS + HQ); and DETERMINACY:
   for a PerformLayout input the layouts it leaves below the node depend only on the skeleton, not on the layouts
   stored before (WF + H1 + H3 + NS + HQ). *)
From Coq Require Import List Bool Arith Lia.
From TV Require Import Model.Engine Model.EngineLayouts Proofs.EngineMemo Proofs.EngineDirty Proofs.EngineNoScribble.
Import ListNotations.

Section LayoutsPlain.
  Variables (S In Out Lay : Type).
  Variable mode : In -> RunMode.
  Variable is_none : S -> bool.
  Variable hidden_out : Out.
  Variable zero_lay : Lay.
  Variable algo : S -> list S -> In -> Alg In Out Lay.

  Notation st := (st S Lay).
  Notation STNode := (STNode S Lay).
  Notation sstyle := (sstyle S Lay).
  Notation slay := (slay S Lay).
  Notation skids := (skids S Lay).
  Notation sset := (sset S Lay).
  Notation sk_of := (sk_of S Lay).
  Notation szero := (szero S Lay zero_lay).
  Notation Alg := (Alg In Out Lay).
  Notation run_plain_l := (run_plain_l S In Out Lay).
  Notation plain_l := (plain_l S In Out Lay mode is_none hidden_out zero_lay algo).
  Notation run_plain := (run_plain S In Out Lay).
  Notation plain := (plain S In Out Lay mode is_none hidden_out algo).
  Notation nones := (nones S is_none).
  Notation NoHiddenSize := (NoHiddenSize In Out Lay mode).
  Notation SetsLast := (SetsLast In Out Lay).
  Notation WFAlg := (WFAlg In Out Lay mode).
  Notation Visits := (Visits In Out Lay mode).
  Notation SizeOnly := (SizeOnly In Out Lay mode).

  (* ---------- the cache-less tree ---------- *)
  Lemma st_ind' (P : st -> Prop) :
    (forall s l kids, Forall P kids -> P (STNode s l kids)) -> forall x, P x.
  Proof.
    intros H. fix IH 1. intros [s l kids]. apply H.
    induction kids as [|k kids IHk]; constructor; [apply IH | exact IHk].
  Qed.

  Lemma st_eq a b : sstyle a = sstyle b -> slay a = slay b -> skids a = skids b -> a = b.
  Proof. destruct a, b; cbn; intros; subst; reflexivity. Qed.

  Lemma sk_of_style x y : sk_of x = sk_of y -> sstyle x = sstyle y.
  Proof. destruct x, y; cbn; intros H; injection H; auto. Qed.

  Lemma sk_of_sset x l : sk_of (sset x l) = sk_of x.
  Proof. destruct x; reflexivity. Qed.

  Lemma sk_of_szero x : sk_of (szero x) = sk_of x.
  Proof.
    induction x as [s l kids IH] using st_ind'. cbn. f_equal.
    rewrite map_map. apply map_ext_Forall. exact IH.
  Qed.

  Lemma szero_sk x : forall y, sk_of x = sk_of y -> szero x = szero y.
  Proof.
    induction x as [s l kids IH] using st_ind'. intros [s' l' kids'] H. cbn in H. injection H as Hs Hk. subst s'.
    cbn. f_equal. revert kids' Hk. induction IH as [|k kids Hk0 _ IHk]; intros [|k' kids'] Hk; cbn in Hk; try discriminate.
    - reflexivity.
    - injection Hk as H1 H2. cbn. f_equal; [apply Hk0; exact H1 | apply IHk; exact H2].
  Qed.

  Lemma szero_sset x l : szero (sset x l) = szero x.
  Proof. destruct x; reflexivity. Qed.

  Lemma map_sstyle_sk (kids : list st) : map (Engine.sstyle S) (map sk_of kids) = map sstyle kids.
  Proof. rewrite map_map. apply map_ext. intros [s l k]. reflexivity. Qed.

  Lemma nones_map (kids : list st) n x : nth_error kids n = Some x -> is_none (sstyle x) = nones (map sstyle kids) n.
  Proof. intros H. unfold EngineLayouts.nones. rewrite nth_error_map, H. reflexivity. Qed.

  Lemma nth_error_same_length {A B} (l : list A) (l' : list B) n a :
    length l = length l' -> nth_error l n = Some a -> exists b, nth_error l' n = Some b.
  Proof.
    intros Hlen H. destruct (nth_error l' n) as [b|] eqn:E; [eauto|].
    apply nth_error_None in E. assert (n < length l) by (apply nth_error_Some; congruence). lia.
  Qed.

  Lemma list_eq_nth {A} (l l' : list A) :
    length l = length l' -> (forall n a b, nth_error l n = Some a -> nth_error l' n = Some b -> a = b) -> l = l'.
  Proof.
    revert l'. induction l as [|a l IH]; intros [|b l'] Hlen H; cbn in Hlen; try discriminate; [reflexivity|].
    f_equal; [apply (H 0); reflexivity|]. apply IH; [lia|]. intros n. apply (H (Datatypes.S n)).
  Qed.

  (* ---------- monotonicity in the fuel ---------- *)
  Lemma run_plain_l_mono (ev1 ev2 : st -> In -> option (Out * st)) :
    (forall x i p, ev1 x i = Some p -> ev2 x i = Some p) ->
    forall a kids p, run_plain_l ev1 kids a = Some p -> run_plain_l ev2 kids a = Some p.
  Proof.
    intros Hev a. induction a as [o0|c i k IH|c l k IH]; intros kids p H; cbn in *.
    - exact H.
    - destruct (nth_error kids c) as [x|]; [|discriminate].
      destruct (ev1 x i) as [[o1 x1]|] eqn:E; [|discriminate].
      rewrite (Hev _ _ _ E). apply IH. exact H.
    - destruct (nth_error kids c); [|discriminate]. apply IH. exact H.
  Qed.

  Lemma plain_l_eq f s l kids i :
    plain_l (Datatypes.S f) (STNode s l kids) i =
    match mode i with
    | PerformHiddenLayout => Some (hidden_out, szero (STNode s l kids))
    | _ => if is_none s then Some (hidden_out, szero (STNode s l kids))
           else match run_plain_l (plain_l f) kids (algo s (map sstyle kids) i) with
                | Some (o, kids') => Some (o, STNode s l kids')
                | None => None
                end
    end.
  Proof. reflexivity. Qed.

  Lemma plain_l_S f : forall x i p, plain_l f x i = Some p -> plain_l (Datatypes.S f) x i = Some p.
  Proof.
    induction f as [|f IH]; intros x i p H; [discriminate|].
    destruct x as [s l kids]. rewrite plain_l_eq in H. rewrite plain_l_eq.
    destruct (mode i); try exact H.
    - destruct (is_none s); [exact H|].
      destruct (run_plain_l (plain_l f) kids (algo s (map sstyle kids) i)) as [[o k']|] eqn:E; [|discriminate].
      rewrite (run_plain_l_mono _ _ IH _ _ _ E). exact H.
    - destruct (is_none s); [exact H|].
      destruct (run_plain_l (plain_l f) kids (algo s (map sstyle kids) i)) as [[o k']|] eqn:E; [|discriminate].
      rewrite (run_plain_l_mono _ _ IH _ _ _ E). exact H.
  Qed.

  Lemma plain_l_mono f f' x i p : f <= f' -> plain_l f x i = Some p -> plain_l f' x i = Some p.
  Proof. intros Hle Hp. induction Hle as [|m Hle IHle]; [exact Hp|]. apply plain_l_S. exact IHle. Qed.

  (* the shape of one step, for every non-hidden mode *)
  Lemma plain_l_step f s l kids i :
    mode i <> PerformHiddenLayout ->
    plain_l (Datatypes.S f) (STNode s l kids) i =
    if is_none s then Some (hidden_out, szero (STNode s l kids))
    else match run_plain_l (plain_l f) kids (algo s (map sstyle kids) i) with
         | Some (o, kids') => Some (o, STNode s l kids')
         | None => None
         end.
  Proof. intros Hm. cbn [EngineLayouts.plain_l]. destruct (mode i); try reflexivity. congruence. Qed.

  Lemma plain_step f s kids i :
    mode i <> PerformHiddenLayout ->
    plain (Datatypes.S f) (SNode S s kids) i =
    if is_none s then Some hidden_out else run_plain (plain f) kids (algo s (map (Engine.sstyle S) kids) i).
  Proof. intros Hm. cbn [Engine.plain]. destruct (mode i); try reflexivity. congruence. Qed.

  (* ---------- the skeleton is never changed ---------- *)
  Lemma run_plain_l_sk (ev : st -> In -> option (Out * st)) :
    (forall x i o r, ev x i = Some (o, r) -> sk_of r = sk_of x) ->
    forall a kids o kids', run_plain_l ev kids a = Some (o, kids') -> map sk_of kids' = map sk_of kids.
  Proof.
    intros Hev a. induction a as [o0|c i k IH|c l k IH]; intros kids o kids' H; cbn in H.
    - injection H as <- <-. reflexivity.
    - destruct (nth_error kids c) as [x|] eqn:En; [|discriminate].
      destruct (ev x i) as [[o1 x1]|] eqn:Ee; [|discriminate].
      rewrite (IH _ _ _ _ H), map_replace_nth, (Hev _ _ _ _ Ee).
      apply replace_nth_same. rewrite nth_error_map, En. reflexivity.
    - destruct (nth_error kids c) as [x|] eqn:En; [|discriminate].
      rewrite (IH _ _ _ H), map_replace_nth, sk_of_sset.
      apply replace_nth_same. rewrite nth_error_map, En. reflexivity.
  Qed.

  Lemma plain_l_sk f : forall x i o r, plain_l f x i = Some (o, r) -> sk_of r = sk_of x.
  Proof.
    induction f as [|f IH]; intros x i o r H; [discriminate|].
    destruct x as [s l kids]. cbn [EngineLayouts.plain_l] in H.
    assert (Hz : Some (hidden_out, szero (STNode s l kids)) = Some (o, r) -> sk_of r = sk_of (STNode s l kids)).
    { intros E. injection E as <- <-. exact (sk_of_szero (STNode s l kids)). }
    assert (Hr : (if is_none s then Some (hidden_out, szero (STNode s l kids))
                  else match run_plain_l (plain_l f) kids (algo s (map sstyle kids) i) with
                       | Some (o, kids') => Some (o, STNode s l kids') | None => None end) = Some (o, r) ->
                 sk_of r = sk_of (STNode s l kids)).
    { destruct (is_none s); [exact Hz|].
      destruct (run_plain_l (plain_l f) kids _) as [[o1 k1]|] eqn:E; [|discriminate].
      intros E1. injection E1 as <- <-. cbn. f_equal. eapply run_plain_l_sk; [exact IH|exact E]. }
    destruct (mode i); auto.
  Qed.

  (* ---------- output = output of [plain]; defined whenever [plain] is ---------- *)
  Lemma run_plain_l_out (evl : st -> In -> option (Out * st)) (evp : sk S -> In -> option Out) :
    (forall x i o r, evl x i = Some (o, r) -> evp (sk_of x) i = Some o /\ sk_of r = sk_of x) ->
    forall a kids o kids', run_plain_l evl kids a = Some (o, kids') -> run_plain evp (map sk_of kids) a = Some o.
  Proof.
    intros Hev a. induction a as [o0|c i k IH|c l k IH]; intros kids o kids' H; cbn in H |- *.
    - injection H as <- <-. reflexivity.
    - rewrite nth_error_map. destruct (nth_error kids c) as [x|] eqn:En; [|discriminate]. cbn.
      destruct (evl x i) as [[o1 x1]|] eqn:Ee; [|discriminate].
      destruct (Hev _ _ _ _ Ee) as [Hp Hs]. rewrite Hp.
      specialize (IH _ _ _ _ H). rewrite map_replace_nth, Hs in IH.
      rewrite replace_nth_same in IH; [exact IH|]. rewrite nth_error_map, En. reflexivity.
    - rewrite nth_error_map. destruct (nth_error kids c) as [x|] eqn:En; [|discriminate]. cbn.
      specialize (IH _ _ _ H). rewrite map_replace_nth, sk_of_sset in IH.
      rewrite replace_nth_same in IH; [exact IH|]. rewrite nth_error_map, En. reflexivity.
  Qed.

  Lemma plain_l_out f : forall x i o r, plain_l f x i = Some (o, r) -> plain f (sk_of x) i = Some o.
  Proof.
    induction f as [|f IH]; intros x i o r H; [discriminate|].
    destruct x as [s l kids]. cbn [EngineLayouts.plain_l] in H. cbn [EngineLayouts.sk_of Engine.plain].
    assert (Hr : (if is_none s then Some (hidden_out, szero (STNode s l kids))
                  else match run_plain_l (plain_l f) kids (algo s (map sstyle kids) i) with
                       | Some (o, kids') => Some (o, STNode s l kids') | None => None end) = Some (o, r) ->
                 (if is_none s then Some hidden_out
                  else run_plain (plain f) (map sk_of kids) (algo s (map (Engine.sstyle S) (map sk_of kids)) i)) = Some o).
    { destruct (is_none s); [intros E; injection E as <- _; reflexivity|].
      destruct (run_plain_l (plain_l f) kids _) as [[o1 k1]|] eqn:E; [|discriminate].
      intros E1. injection E1 as <- _. rewrite map_sstyle_sk.
      eapply run_plain_l_out; [|exact E]. intros x0 i0 o0 r0 E0. split; [eapply IH; eauto|eapply plain_l_sk; eauto]. }
    destruct (mode i); auto. injection H as <- _. reflexivity.
  Qed.

  Lemma run_plain_l_complete (evl : st -> In -> option (Out * st)) (evp : sk S -> In -> option Out) :
    (forall x i o, evp (sk_of x) i = Some o -> exists r, evl x i = Some (o, r)) ->
    (forall x i o r, evl x i = Some (o, r) -> sk_of r = sk_of x) ->
    forall a kids o, run_plain evp (map sk_of kids) a = Some o -> exists kids', run_plain_l evl kids a = Some (o, kids').
  Proof.
    intros Hev Hsk a. induction a as [o0|c i k IH|c l k IH]; intros kids o H; cbn in H |- *.
    - injection H as <-. eauto.
    - rewrite nth_error_map in H. destruct (nth_error kids c) as [x|] eqn:En; [|discriminate]. cbn in H.
      destruct (evp (sk_of x) i) as [o1|] eqn:Ee; [|discriminate].
      destruct (Hev _ _ _ Ee) as [r Er]. rewrite Er. apply IH.
      rewrite map_replace_nth, (Hsk _ _ _ _ Er), replace_nth_same; [exact H|]. rewrite nth_error_map, En. reflexivity.
    - rewrite nth_error_map in H. destruct (nth_error kids c) as [x|] eqn:En; [|discriminate]. cbn in H.
      apply IH. rewrite map_replace_nth, sk_of_sset, replace_nth_same; [exact H|]. rewrite nth_error_map, En. reflexivity.
  Qed.

  Lemma plain_l_complete f : forall x i o, plain f (sk_of x) i = Some o -> exists r, plain_l f x i = Some (o, r).
  Proof.
    induction f as [|f IH]; intros x i o H; [discriminate|].
    destruct x as [s l kids]. cbn [EngineLayouts.sk_of Engine.plain] in H. cbn [EngineLayouts.plain_l].
    assert (Hr : (if is_none s then Some hidden_out
                  else run_plain (plain f) (map sk_of kids) (algo s (map (Engine.sstyle S) (map sk_of kids)) i)) = Some o ->
                 exists r, (if is_none s then Some (hidden_out, szero (STNode s l kids))
                  else match run_plain_l (plain_l f) kids (algo s (map sstyle kids) i) with
                       | Some (o, kids') => Some (o, STNode s l kids') | None => None end) = Some (o, r)).
    { destruct (is_none s); [intros E; injection E as <-; eauto|].
      rewrite map_sstyle_sk. intros E.
      destruct (run_plain_l_complete _ _ IH (plain_l_sk f) _ _ _ E) as [k' Ek]. rewrite Ek. eauto. }
    destruct (mode i); auto. injection H as <-. eauto.
  Qed.

  (* ---------- what an evaluation does to the node's own stored layout ---------- *)
  Lemma plain_l_own f x i o r :
    mode i <> PerformHiddenLayout -> is_none (sstyle x) = false -> plain_l f x i = Some (o, r) ->
    slay r = slay x /\ sstyle r = sstyle x.
  Proof.
    intros Hm Hn H. destruct f as [|f]; [discriminate|]. destruct x as [s l kids]. cbn in Hn.
    rewrite (plain_l_step f s l kids i Hm), Hn in H.
    destruct (run_plain_l (plain_l f) kids _) as [[o1 k1]|]; [|discriminate]. injection H as <- <-. split; reflexivity.
  Qed.

  Lemma plain_l_none f x i o r :
    is_none (sstyle x) = true -> plain_l f x i = Some (o, r) -> o = hidden_out /\ r = szero x.
  Proof.
    intros Hn H. destruct f as [|f]; [discriminate|]. destruct x as [s l kids]. cbn in Hn.
    cbn [EngineLayouts.plain_l] in H. rewrite Hn in H. destruct (mode i); injection H as <- <-; split; reflexivity.
  Qed.

  Lemma plain_l_none_ex f x i : is_none (sstyle x) = true -> plain_l (Datatypes.S f) x i = Some (hidden_out, szero x).
  Proof.
    intros Hn. destruct x as [s l kids]. cbn in Hn. cbn [EngineLayouts.plain_l]. rewrite Hn. destruct (mode i); reflexivity.
  Qed.

  (* the node's own stored layout is irrelevant for what happens below it *)
  Lemma plain_l_sset f y l i o r :
    plain_l f y i = Some (o, r) -> exists r', plain_l f (sset y l) i = Some (o, r') /\ skids r' = skids r.
  Proof.
    intros H. destruct f as [|f]; [discriminate|]. destruct y as [s l0 kids]. cbn [EngineLayouts.sset].
    cbn [EngineLayouts.plain_l] in H |- *.
    assert (Hz : Some (hidden_out, szero (STNode s l0 kids)) = Some (o, r) ->
                 exists r', Some (hidden_out, szero (STNode s l kids)) = Some (o, r') /\ skids r' = skids r).
    { intros E. injection E as <- <-. eexists. split; reflexivity. }
    assert (Hr : (if is_none s then Some (hidden_out, szero (STNode s l0 kids))
                  else match run_plain_l (plain_l f) kids (algo s (map sstyle kids) i) with
                       | Some (o, kids') => Some (o, STNode s l0 kids') | None => None end) = Some (o, r) ->
                 exists r', (if is_none s then Some (hidden_out, szero (STNode s l kids))
                  else match run_plain_l (plain_l f) kids (algo s (map sstyle kids) i) with
                       | Some (o, kids') => Some (o, STNode s l kids') | None => None end) = Some (o, r') /\ skids r' = skids r).
    { destruct (is_none s); [exact Hz|].
      destruct (run_plain_l (plain_l f) kids _) as [[o1 k1]|]; [|discriminate].
      intros E. injection E as <- <-. eexists. split; reflexivity. }
    destruct (mode i); auto.
  Qed.

  (* ================================================================================================
     interface hypotheses
     ================================================================================================ *)
  Hypothesis WF : forall s sts i, WFAlg (algo s sts i).
  Hypothesis H1 : forall s sts i, mode i = PerformLayout -> Visits (seq 0 (length sts)) (algo s sts i).
  Hypothesis H3 : forall s sts i, mode i = PerformLayout -> SetsLast (nones sts) (seq 0 (length sts)) (algo s sts i).
  Hypothesis NS : forall s sts i, mode i = ComputeSize -> SizeOnly (algo s sts i).
  Hypothesis HQ : forall s sts i, NoHiddenSize (nones sts) (algo s sts i).

  (* ---------- a size query to a box-generating node writes no layout (NS + HQ) ---------- *)
  Lemma run_plain_l_pure (ev : st -> In -> option (Out * st)) (none : nat -> bool) :
    (forall x i o r, mode i = ComputeSize -> is_none (sstyle x) = false -> ev x i = Some (o, r) -> r = x) ->
    forall a kids o kids', SizeOnly a -> NoHiddenSize none a ->
      (forall n x, nth_error kids n = Some x -> is_none (sstyle x) = none n) ->
      run_plain_l ev kids a = Some (o, kids') -> kids' = kids.
  Proof.
    intros Hev a. induction a as [o0|c i k IH|c l k IH]; intros kids o kids' HS HN Hk H; cbn in H.
    - injection H as <- <-. reflexivity.
    - inversion HS as [|c0 i0 k0 Hm Hks]; subst. inversion HN as [|c0 i0 k0 Hc Hkn|]; subst.
      destruct (nth_error kids c) as [x|] eqn:En; [|discriminate].
      destruct (ev x i) as [[o1 x1]|] eqn:Ee; [|discriminate].
      assert (Hx : is_none (sstyle x) = false) by (rewrite (Hk _ _ En); auto).
      rewrite (Hev _ _ _ _ Hm Hx Ee), (replace_nth_same _ _ _ En) in H.
      eapply IH; eauto.
    - inversion HS.
  Qed.

  Lemma plain_l_pure f : forall x i o r,
    mode i = ComputeSize -> is_none (sstyle x) = false -> plain_l f x i = Some (o, r) -> r = x.
  Proof.
    induction f as [|f IH]; intros x i o r Hm Hn H; [discriminate|].
    destruct x as [s l kids]. cbn in Hn.
    rewrite plain_l_step, Hn in H by congruence.
    destruct (run_plain_l (plain_l f) kids _) as [[o1 k1]|] eqn:E; [|discriminate]. injection H as <- <-.
    f_equal. eapply (run_plain_l_pure _ (nones (map sstyle kids)) IH); [apply NS; exact Hm|apply HQ| |exact E].
    intros n x. apply nones_map.
  Qed.

  (* ---------- determinacy ---------- *)
  (* two child lists during two runs of the same resumption: same skeleton; the children that are no longer waiting
     for their PerformLayout query agree below; those not waiting for their SetLayout agree in their own layout *)
  Definition drel (none : nat -> bool) (pv ps : list nat) (xs ys : list st) : Prop :=
    length xs = length ys /\
    forall n x y, nth_error xs n = Some x -> nth_error ys n = Some y ->
      sk_of x = sk_of y /\ is_none (sstyle x) = none n /\
      (~ List.In n pv -> skids x = skids y) /\ (~ List.In n ps -> slay x = slay y).

  Definition det_at (f : nat) : Prop :=
    forall x y i o1 r1 o2 r2, mode i = PerformLayout -> sk_of x = sk_of y ->
      plain_l f x i = Some (o1, r1) -> plain_l f y i = Some (o2, r2) -> o1 = o2 /\ skids r1 = skids r2.

  Lemma plain_l_out_det f x y i o1 r1 o2 r2 :
    sk_of x = sk_of y -> plain_l f x i = Some (o1, r1) -> plain_l f y i = Some (o2, r2) -> o1 = o2.
  Proof.
    intros Hs H1' H2'. apply plain_l_out in H1'. apply plain_l_out in H2'. rewrite Hs in H1'. congruence.
  Qed.

  Lemma run_plain_l_det f (none : nat -> bool) : det_at f ->
    forall a xs ys pv ps o1 xs' o2 ys',
      WFAlg a -> NoHiddenSize none a -> Visits pv a -> SetsLast none ps a -> drel none pv ps xs ys ->
      run_plain_l (plain_l f) xs a = Some (o1, xs') -> run_plain_l (plain_l f) ys a = Some (o2, ys') ->
      o1 = o2 /\ xs' = ys'.
  Proof.
    intros Hdet a. induction a as [o0|c i k IH|c l k IH]; intros xs ys pv ps o1 xs' o2 ys' HWF HNH HV HSL [Hlen HR] Hx Hy;
      cbn in Hx, Hy.
    - injection Hx as <- <-. injection Hy as <- <-. split; [reflexivity|].
      inversion HV; subst. inversion HSL; subst.
      apply list_eq_nth; [exact Hlen|]. intros n a b Ea Eb.
      destruct (HR _ _ _ Ea Eb) as [R1 [_ [R3 R4]]].
      apply st_eq; [apply sk_of_style; exact R1|apply R4; intros []|apply R3; intros []].
    - inversion HWF as [|c0 i0 k0 Hm Hkw|]; subst. inversion HNH as [|c0 i0 k0 Hc Hkn|]; subst.
      inversion HV as [|pv0 c0 i0 k0 Hkv|]; subst. inversion HSL as [|ps0 c0 i0 k0 Hks|]; subst.
      destruct (nth_error xs c) as [x|] eqn:Ex; [|discriminate].
      destruct (nth_error ys c) as [y|] eqn:Ey; [|discriminate].
      destruct (plain_l f x i) as [[oa ra]|] eqn:Ea; [|discriminate].
      destruct (plain_l f y i) as [[ob rb]|] eqn:Eb; [|discriminate].
      destruct (HR _ _ _ Ex Ey) as [C1 [C2 [C3 C4]]].
      assert (Eo : oa = ob) by (eapply plain_l_out_det; eauto). subst ob.
      eapply (IH oa (replace_nth c ra xs) (replace_nth c rb ys)); [apply Hkw|apply Hkn|apply Hkv|apply Hks| |exact Hx|exact Hy].
      split; [rewrite (length_replace_nth _ _ _ _ Ex), (length_replace_nth _ _ _ _ Ey); exact Hlen|].
      intros n x' y' Ex' Ey'. destruct (Nat.eq_dec c n) as [<-|Hne].
      + rewrite (nth_error_replace_same _ _ _ _ Ex) in Ex'. rewrite (nth_error_replace_same _ _ _ _ Ey) in Ey'.
        injection Ex' as <-. injection Ey' as <-.
        pose proof (plain_l_sk _ _ _ _ _ Ea) as Sa. pose proof (plain_l_sk _ _ _ _ _ Eb) as Sb.
        split; [congruence|]. split; [rewrite (sk_of_style _ _ Sa); exact C2|]. split.
        * intros Hnin. destruct (mode i) eqn:Em.
          -- apply (Hdet _ _ _ _ _ _ _ Em C1 Ea Eb).
          -- assert (Hx0 : is_none (sstyle x) = false) by (rewrite C2; auto).
             assert (Hy0 : is_none (sstyle y) = false) by (rewrite <- (sk_of_style _ _ C1); exact Hx0).
             rewrite (plain_l_pure _ _ _ _ _ Em Hx0 Ea), (plain_l_pure _ _ _ _ _ Em Hy0 Eb). apply C3. exact Hnin.
          -- congruence.
        * intros Hnin. destruct (none c) eqn:Enc; [exfalso; apply Hnin; left; reflexivity|].
          assert (Hx0 : is_none (sstyle x) = false) by exact C2.
          assert (Hy0 : is_none (sstyle y) = false) by (rewrite <- (sk_of_style _ _ C1); exact Hx0).
          destruct (plain_l_own _ _ _ _ _ Hm Hx0 Ea) as [-> _]. destruct (plain_l_own _ _ _ _ _ Hm Hy0 Eb) as [-> _].
          apply C4. exact Hnin.
      + rewrite (nth_error_replace_other _ _ _ _ _ Ex Hne) in Ex'. rewrite (nth_error_replace_other _ _ _ _ _ Ey Hne) in Ey'.
        destruct (HR _ _ _ Ex' Ey') as [D1 [D2 [D3 D4]]].
        split; [exact D1|]. split; [exact D2|]. split.
        * intros Hnin. apply D3. intros Hin. apply Hnin. destruct (mode i); try exact Hin.
          apply in_in_remove; [congruence|exact Hin].
        * intros Hnin. apply D4. intros Hin. apply Hnin. destruct (none c); [right|]; exact Hin.
    - inversion HWF as [| |c0 l0 k0 Hkw]; subst. inversion HNH as [| |c0 l0 k0 Hkn]; subst.
      inversion HV as [| |pv0 c0 l0 k0 Hkv]; subst. inversion HSL as [| |ps0 c0 l0 k0 Hks]; subst.
      destruct (nth_error xs c) as [x|] eqn:Ex; [|discriminate].
      destruct (nth_error ys c) as [y|] eqn:Ey; [|discriminate].
      destruct (HR _ _ _ Ex Ey) as [C1 [C2 [C3 C4]]].
      eapply (IH (replace_nth c (sset x l) xs) (replace_nth c (sset y l) ys)); [exact Hkw|exact Hkn|exact Hkv|exact Hks| |exact Hx|exact Hy].
      split; [rewrite (length_replace_nth _ _ _ _ Ex), (length_replace_nth _ _ _ _ Ey); exact Hlen|].
      intros n x' y' Ex' Ey'. destruct (Nat.eq_dec c n) as [<-|Hne].
      + rewrite (nth_error_replace_same _ _ _ _ Ex) in Ex'. rewrite (nth_error_replace_same _ _ _ _ Ey) in Ey'.
        injection Ex' as <-. injection Ey' as <-. rewrite !sk_of_sset.
        split; [exact C1|]. split; [destruct x; exact C2|]. split.
        * intros Hnin. destruct x, y; cbn in *. apply C3. exact Hnin.
        * intros _. destruct x, y; reflexivity.
      + rewrite (nth_error_replace_other _ _ _ _ _ Ex Hne) in Ex'. rewrite (nth_error_replace_other _ _ _ _ _ Ey Hne) in Ey'.
        destruct (HR _ _ _ Ex' Ey') as [D1 [D2 [D3 D4]]].
        split; [exact D1|]. split; [exact D2|]. split; [exact D3|].
        intros Hnin. apply D4. intros Hin. apply Hnin. apply in_in_remove; [congruence|exact Hin].
  Qed.

  Lemma drel_init (xs ys : list st) :
    map sk_of xs = map sk_of ys ->
    drel (nones (map sstyle xs)) (seq 0 (length (map sstyle xs))) (seq 0 (length (map sstyle xs))) xs ys.
  Proof.
    intros Hs. split.
    - rewrite <- (map_length sk_of xs), Hs, map_length. reflexivity.
    - intros n x y Ex Ey.
      assert (Hin : List.In n (seq 0 (length (map sstyle xs)))).
      { apply in_seq. rewrite map_length. split; [lia|]. cbn. apply nth_error_Some. congruence. }
      split; [|split; [apply nones_map; exact Ex|split; intros C; contradiction]].
      assert (E : nth_error (map sk_of xs) n = nth_error (map sk_of ys) n) by (rewrite Hs; reflexivity).
      rewrite !nth_error_map, Ex, Ey in E. cbn in E. congruence.
  Qed.

  Theorem plain_l_det_same : forall f, det_at f.
  Proof.
    induction f as [|f IH]; intros x y i o1 r1 o2 r2 Hm Hs Hx Hy; [discriminate|].
    destruct x as [s l kids], y as [s' l' kids']. cbn in Hs. injection Hs as Hs Hk. subst s'.
    rewrite plain_l_step in Hx, Hy by congruence.
    destruct (is_none s) eqn:En.
    - assert (E1 : o1 = hidden_out /\ r1 = szero (STNode s l kids)) by (split; congruence).
      assert (E2 : o2 = hidden_out /\ r2 = szero (STNode s l' kids')) by (split; congruence).
      destruct E1 as [-> ->]. destruct E2 as [-> ->]. split; [reflexivity|].
      rewrite (szero_sk (STNode s l kids) (STNode s l' kids')); [reflexivity|]. cbn. f_equal. exact Hk.
    - assert (Hst : map sstyle kids' = map sstyle kids) by (rewrite <- !map_sstyle_sk, Hk; reflexivity).
      rewrite Hst in Hy.
      destruct (run_plain_l (plain_l f) kids _) as [[oa ka]|] eqn:Ea; [|discriminate].
      destruct (run_plain_l (plain_l f) kids' _) as [[ob kb]|] eqn:Eb; [|discriminate].
      injection Hx as <- <-. injection Hy as <- <-. cbn.
      eapply (run_plain_l_det f (nones (map sstyle kids)) IH); [apply WF|apply HQ|apply H1; exact Hm|apply H3; exact Hm| |exact Ea|exact Eb].
      apply drel_init. exact Hk.
  Qed.

  (* the stored layouts a PerformLayout evaluation leaves below a node are a function of the skeleton and the input *)
  Theorem plain_l_det f f' x y i o1 r1 o2 r2 :
    mode i = PerformLayout -> sk_of x = sk_of y ->
    plain_l f x i = Some (o1, r1) -> plain_l f' y i = Some (o2, r2) -> o1 = o2 /\ skids r1 = skids r2.
  Proof.
    intros Hm Hs Hx Hy.
    apply (plain_l_mono f (Nat.max f f')) in Hx; [|lia]. apply (plain_l_mono f' (Nat.max f f')) in Hy; [|lia].
    eapply plain_l_det_same; eauto.
  Qed.
End LayoutsPlain.
