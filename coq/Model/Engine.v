(* Engine skeleton: what TaffyView::compute_child_layout, compute_cached_layout, compute_hidden_layout and
   TaffyTree::mark_dirty / the mutators do with the tree, the per-node caches and the stored layouts.
   The container and leaf algorithms are a PARAMETER: a resumption over the LayoutPartialTree interface.
   Definitions only; theorems are in Proofs/Engine*.v.

   Transcribed from: src/tree/taffy_tree.rs (TaffyView::compute_child_layout l.346-394, mark_dirty l.867-890,
   the mutators' "edit, then mark_dirty" shape), src/compute/mod.rs (compute_cached_layout, compute_hidden_layout),
   src/tree/cache.rs (one final-layout entry, latest wins; measure entries; clear).  The cache here is the
   EXACT-KEY memo (entries keyed by the complete input, as the cfg(taffy_verif) hook implements); the real lossy
   compatibility test is modelled in Model/Cache.v (C02). *)
From Coq Require Import List Bool Arith Lia.
Import ListNotations.

Inductive RunMode := PerformLayout | ComputeSize | PerformHiddenLayout.

Definition replace_nth {A} (n : nat) (x : A) (l : list A) : list A := firstn n l ++ x :: skipn (S n) l.

Section Engine.
  Variables (S In Out Lay : Type).
  Variable mode : In -> RunMode.
  Variable in_eqb : In -> In -> bool.      (* key equality of the memo *)
  Variable is_none : S -> bool.            (* display: none *)
  Variable hidden_out : Out.               (* LayoutOutput::HIDDEN *)
  Variable zero_lay : Lay.                 (* Layout::with_order(0) *)

  (* an algorithm is a resumption: it may query a child (compute_child_layout), store a child's layout
     (set_unrounded_layout) and finally returns its own output; children are addressed by position *)
  Inductive Alg :=
  | Ret (o : Out)
  | Query (c : nat) (i : In) (k : Out -> Alg)
  | SetLayout (c : nat) (l : Lay) (k : Alg).

  (* own style (incl. measure data), the children's styles, the input *)
  Variable algo : S -> list S -> In -> Alg.

  (* ---- cache: one final-layout entry (latest wins) + measure entries ---- *)
  Record cache := { final : option (In * Out); meas : list (In * Out) }.
  Definition cempty : cache := {| final := None; meas := [] |}.
  Definition is_empty (c : cache) : bool :=
    match final c, meas c with None, [] => true | _, _ => false end.
  Fixpoint assoc (l : list (In * Out)) (i : In) : option Out :=
    match l with
    | [] => None
    | (i', o) :: r => if in_eqb i' i then Some o else assoc r i
    end.
  Definition cget (c : cache) (i : In) : option Out :=
    match mode i with
    | PerformLayout => match final c with Some (i', o) => if in_eqb i' i then Some o else None | None => None end
    | ComputeSize => assoc (meas c) i
    | PerformHiddenLayout => None
    end.
  Definition cstore (c : cache) (i : In) (o : Out) : cache :=
    match mode i with
    | PerformLayout => {| final := Some (i, o); meas := meas c |}
    | ComputeSize => {| final := final c; meas := (i, o) :: meas c |}
    | PerformHiddenLayout => c
    end.

  (* ---- tree with per-node style, cache and stored (unrounded) layout ---- *)
  Inductive tree := Node (s : S) (c : cache) (l : Lay) (kids : list tree).
  Definition style_of (t : tree) : S := match t with Node s _ _ _ => s end.
  Definition cache_of (t : tree) : cache := match t with Node _ c _ _ => c end.
  Definition lay_of (t : tree) : Lay := match t with Node _ _ l _ => l end.
  Definition kids_of (t : tree) : list tree := match t with Node _ _ _ k => k end.
  Definition set_lay (t : tree) (l : Lay) : tree := match t with Node s c _ k => Node s c l k end.
  Definition set_cache (t : tree) (c : cache) : tree := match t with Node s _ l k => Node s c l k end.
  Definition dirty (t : tree) : bool := is_empty (cache_of t).      (* TaffyTree::dirty *)

  (* skeleton: what a freshly built tree with the same shape, styles and measure data is *)
  Inductive sk := SNode (s : S) (kids : list sk).
  Fixpoint skel (t : tree) : sk := match t with Node s _ _ kids => SNode s (map skel kids) end.
  Definition sstyle (t : sk) : S := match t with SNode s _ => s end.
  Fixpoint fresh (t : sk) : tree := match t with SNode s kids => Node s cempty zero_lay (map fresh kids) end.

  (* compute_hidden_layout: clear the cache, zero the layout, recurse with LayoutInput::HIDDEN *)
  Fixpoint hide (t : tree) : tree :=
    match t with Node s _ _ kids => Node s cempty zero_lay (map hide kids) end.

  (* ---- cache-free evaluation: the output only (pure function of the skeleton) ---- *)
  Fixpoint run_plain (ev : sk -> In -> option Out) (kids : list sk) (a : Alg) : option Out :=
    match a with
    | Ret o => Some o
    | Query c i k =>
        match nth_error kids c with
        | Some t => match ev t i with Some o => run_plain ev kids (k o) | None => None end
        | None => None
        end
    | SetLayout c _ k => match nth_error kids c with Some _ => run_plain ev kids k | None => None end
    end.

  Fixpoint plain (fuel : nat) (t : sk) (i : In) : option Out :=
    match fuel with
    | O => None
    | Datatypes.S f =>
        match t with
        | SNode s kids =>
            match mode i with
            | PerformHiddenLayout => Some hidden_out
            | _ => if is_none s then Some hidden_out
                   else run_plain (plain f) kids (algo s (map sstyle kids) i)
            end
        end
    end.

  (* ---- memoised evaluation over the concrete tree (TaffyView::compute_child_layout) ---- *)
  Fixpoint run_memo (ev : tree -> In -> option (Out * tree)) (kids : list tree) (a : Alg)
    : option (Out * list tree) :=
    match a with
    | Ret o => Some (o, kids)
    | Query c i k =>
        match nth_error kids c with
        | Some t =>
            match ev t i with
            | Some (o, t') => run_memo ev (replace_nth c t' kids) (k o)
            | None => None
            end
        | None => None
        end
    | SetLayout c l k =>
        match nth_error kids c with
        | Some t => run_memo ev (replace_nth c (set_lay t l) kids) k
        | None => None
        end
    end.

  Fixpoint memo (fuel : nat) (t : tree) (i : In) : option (Out * tree) :=
    match fuel with
    | O => None
    | Datatypes.S f =>
        match t with
        | Node s c l kids =>
            match mode i with
            | PerformHiddenLayout => Some (hidden_out, hide t)      (* not cached *)
            | _ =>
                match cget c i with
                | Some o => Some (o, t)                             (* hit: nothing below is touched *)
                | None =>
                    if is_none s then
                      (* dispatch arm (Display::None, _): hidden layout, then the result is stored *)
                      Some (hidden_out, Node s (cstore cempty i hidden_out) zero_lay (map hide kids))
                    else
                      match run_memo (memo f) kids (algo s (map style_of kids) i) with
                      | Some (o, kids') => Some (o, Node s (cstore c i o) l kids')
                      | None => None
                      end
                end
            end
        end
    end.

  (* ---- dirty propagation: TaffyTree::mark_dirty with its AlreadyEmpty early exit ----
     [md t p] clears the cache of the node at path p; the boolean tells the caller (the parent level) whether the
     node's cache was non-empty, i.e. whether the walk continues upwards *)
  Fixpoint md (t : tree) (p : list nat) : tree * bool :=
    match t with
    | Node s c l kids =>
        match p with
        | [] => (Node s cempty l kids, negb (is_empty c))
        | x :: p' =>
            match nth_error kids x with
            | Some ch =>
                let (ch', cont) := md ch p' in
                let kids' := replace_nth x ch' kids in
                if cont then (Node s cempty l kids', negb (is_empty c))
                else (Node s c l kids', false)
            | None => (t, false)
            end
        end
    end.
  Definition mark_dirty (t : tree) (p : list nat) : tree := fst (md t p).

  (* unconditional clearing of every cache on the path (what mark_dirty is meant to achieve) *)
  Fixpoint clear_path (t : tree) (p : list nat) : tree :=
    match t with
    | Node s c l kids =>
        match p with
        | [] => Node s cempty l kids
        | x :: p' =>
            match nth_error kids x with
            | Some ch => Node s cempty l (replace_nth x (clear_path ch p') kids)
            | None => t
            end
        end
    end.

  (* subtree access / update by path *)
  Fixpoint subtree (t : tree) (p : list nat) : option tree :=
    match p with
    | [] => Some t
    | x :: p' => match nth_error (kids_of t) x with Some ch => subtree ch p' | None => None end
    end.
  Fixpoint update (t : tree) (p : list nat) (f : tree -> tree) : tree :=
    match p with
    | [] => f t
    | x :: p' =>
        match t with
        | Node s c l kids =>
            match nth_error kids x with
            | Some ch => Node s c l (replace_nth x (update ch p' f) kids)
            | None => t
            end
        end
    end.

  (* ---- the mutators of TaffyTree on one tree: "edit the node at path p, then mark_dirty it" ----
     set_style / set_node_context:  edit = replace the style (which carries the measure data)
     add_child / insert_child_at_index / set_children / remove_child(_at_index) / remove_children_range /
     replace_child_at_index:         edit = replace the child list of the node (attached subtrees keep their caches)
     mark_dirty:                     edit = identity *)
  Inductive edit :=
  | ESetStyle (s : S)
  | ESetKids (kids : list tree)
  | ENone.
  Definition apply_edit (e : edit) (t : tree) : tree :=
    match t, e with
    | Node _ c l kids, ESetStyle s => Node s c l kids
    | Node s c l _, ESetKids kids => Node s c l kids
    | _, ENone => t
    end.
  Definition mutate (t : tree) (p : list nat) (e : edit) : tree := mark_dirty (update t p (apply_edit e)) p.

  (* one API call on a tree: a mutation at a path, or compute_layout with a root input *)
  Inductive op :=
  | OMutate (p : list nat) (e : edit)
  | OLayout (fuel : nat) (i : In).
  Definition step (t : tree) (o : op) : tree :=
    match o with
    | OMutate p e => mutate t p e
    | OLayout f i => match memo f t i with Some (_, t') => t' | None => t end
    end.
  Definition run_ops (t : tree) (ops : list op) : tree := fold_left step ops t.
End Engine.
