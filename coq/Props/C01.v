(* C01 -- incremental relayout equals a from-scratch layout.
   Engine-skeleton theorems: they hold for EVERY container/leaf algorithm (a resumption over the tree interface)
   satisfying the two interface hypotheses WF and H1 (validated against the implementation's event trace on every
   run), for the exact-key memo (the cfg(taffy_verif) hook; the real lossy key is a known finding).
   Proved at the level of the value a layout call returns (LayoutOutput of the root: size, baselines, margins)
   and of cache validity everywhere in the tree.  The per-node STORED layouts are not covered by a theorem:
   C01_layouts_refuted_for_scribbling_algorithms shows why (and names the known finding). *)
From Coq Require Import List Bool Arith NArith.
From TV Require Import Model.Engine Model.EngineToy Proofs.EngineMemo Proofs.EngineDirty Proofs.EngineHistory
  Proofs.EngineScribble Proofs.EngineToyProofs Proofs.EngineNoScribble.
Import ListNotations.

(* a memoised evaluation returns what the cache-free evaluation of the same skeleton returns, keeps every cache entry
   of every node valid, and leaves shape/styles untouched *)
Theorem C01_memo_sound :
  forall (S In Out Lay : Type) (mode : In -> RunMode) (in_eqb : In -> In -> bool) (is_none : S -> bool)
         (hidden_out : Out) (zero_lay : Lay) (algo : S -> list S -> In -> Alg In Out Lay),
    (forall a b, in_eqb a b = true -> a = b) ->
    forall f t i o t',
      Valid S In Out Lay mode is_none hidden_out algo t ->
      memo S In Out Lay mode in_eqb is_none hidden_out zero_lay algo f t i = Some (o, t') ->
      (exists f', plain S In Out Lay mode is_none hidden_out algo f' (skel S In Out Lay t) i = Some o) /\
      Valid S In Out Lay mode is_none hidden_out algo t' /\
      skel S In Out Lay t' = skel S In Out Lay t.
Proof. intros until algo. intros Hk f t i o t'. apply memo_sound. exact Hk. Qed.

(* after ANY history of mutators ("edit the node, then mark_dirty" with the early exit) at nodes without a display:none
   ancestor, interleaved with layout passes, a further layout returns exactly what a freshly built tree with the same
   shape, styles and measure data returns *)
Theorem C01_root_output_equals_fresh :
  forall (S In Out Lay : Type) (mode : In -> RunMode) (in_eqb : In -> In -> bool) (is_none : S -> bool)
         (hidden_out : Out) (zero_lay : Lay) (algo : S -> list S -> In -> Alg In Out Lay),
    (forall a b, in_eqb a b = true -> a = b) ->
    (forall s st i, WFAlg In Out Lay mode (algo s st i)) ->
    (forall s st i, mode i = PerformLayout -> Visits In Out Lay mode (seq 0 (length st)) (algo s st i)) ->
    forall t0 ops f f' i o o' t1 t2,
      Inv S In Out Lay mode is_none hidden_out algo t0 ->
      run_ok S In Out Lay mode in_eqb is_none hidden_out zero_lay algo t0 ops ->
      memo S In Out Lay mode in_eqb is_none hidden_out zero_lay algo f
           (run_ops S In Out Lay mode in_eqb is_none hidden_out zero_lay algo t0 ops) i = Some (o, t1) ->
      memo S In Out Lay mode in_eqb is_none hidden_out zero_lay algo f'
           (fresh S In Out Lay zero_lay (skel S In Out Lay (run_ops S In Out Lay mode in_eqb is_none hidden_out zero_lay algo t0 ops))) i
        = Some (o', t2) ->
      o = o'.
Proof. intros until algo. intros Hk HWF HH1. intros. eapply relayout_equals_fresh; eauto. Qed.

(* a freshly built tree satisfies the invariant the theorem starts from *)
Theorem C01_fresh_inv :
  forall (S In Out Lay : Type) (mode : In -> RunMode) (is_none : S -> bool) (hidden_out : Out) (zero_lay : Lay)
         (algo : S -> list S -> In -> Alg In Out Lay) k,
    Inv S In Out Lay mode is_none hidden_out algo (fresh S In Out Lay zero_lay k).
Proof. intros. apply Inv_fresh. Qed.

(* invalidating any node without changing anything never changes the result *)
Theorem C01_mark_dirty_noop :
  forall (S In Out Lay : Type) (mode : In -> RunMode) (in_eqb : In -> In -> bool) (is_none : S -> bool)
         (hidden_out : Out) (zero_lay : Lay) (algo : S -> list S -> In -> Alg In Out Lay),
    (forall a b, in_eqb a b = true -> a = b) ->
    (forall s st i, WFAlg In Out Lay mode (algo s st i)) ->
    (forall s st i, mode i = PerformLayout -> Visits In Out Lay mode (seq 0 (length st)) (algo s st i)) ->
    forall t p f f' i o o' t1 t2,
      Inv S In Out Lay mode is_none hidden_out algo t -> visible_path S In Out Lay is_none t p ->
      memo S In Out Lay mode in_eqb is_none hidden_out zero_lay algo f (mutate S In Out Lay t p (ENone S In Out Lay)) i = Some (o, t1) ->
      memo S In Out Lay mode in_eqb is_none hidden_out zero_lay algo f' t i = Some (o', t2) ->
      o = o'.
Proof. intros until algo. intros Hk HWF HH1. intros. eapply mark_dirty_is_harmless; eauto. Qed.

(* the stored per-node layouts are NOT history independent for algorithms that write child layouts in ComputeSize
   mode: three nodes, no mutation, two passes with different root inputs vs one fresh pass *)
Theorem C01_layouts_refuted_for_scribbling_algorithms :
  option_map leaf_lay (after [1%N; 3%N]) = Some (Some 3%N) /\
  option_map leaf_lay (after [3%N]) = Some (Some 2%N) /\
  option_map (skel TS TIn TOut TLay) (after [1%N; 3%N]) = option_map (skel TS TIn TOut TLay) (after [3%N]).
Proof.
  destruct scribble_witness as [A B]. destruct scribble_same_skeleton as [C D].
  split; [exact A|]. split; [exact B|]. rewrite C, D. reflexivity.
Qed.

(* the positive counterpart: an algorithm that, asked for a size, issues only size queries and stores no layout
   (NoScribble) leaves every stored layout of the subtree untouched when it answers a ComputeSize query (trees without
   display:none nodes: hidden layout zeroes layouts in every run mode). taffy's block algorithm is not such an algorithm:
   the harness counts its offending set_unrounded_layout calls on every traced pass (evidence key
   layouts_written_under_a_ComputeSize_query_in_those_traces) *)
Theorem C01_size_queries_write_no_layout_for_nonscribbling_algorithms :
  forall (S In Out Lay : Type) (mode : In -> RunMode) (in_eqb : In -> In -> bool) (is_none : S -> bool)
         (hidden_out : Out) (zero_lay : Lay) (algo : S -> list S -> In -> Alg In Out Lay),
    (forall s st i, mode i = ComputeSize -> SizeOnly In Out Lay mode (algo s st i)) ->
    forall f t i o t',
      mode i = ComputeSize -> NoNone S In Out Lay is_none t ->
      memo S In Out Lay mode in_eqb is_none hidden_out zero_lay algo f t i = Some (o, t') ->
      lays S In Out Lay t' = lays S In Out Lay t /\ NoNone S In Out Lay is_none t'.
Proof. intros until algo. intros HNS f t i o t' Hm HN H. eapply size_query_writes_no_layout; eauto. Qed.

(* the hypotheses are satisfiable: the toy instance, and a concrete well-formed history on it *)
Example C01_hypotheses_satisfiable :
  (forall a b, t_in_eqb a b = true -> a = b) /\
  (forall s st i, WFAlg TIn TOut TLay t_mode (t_algo' s st i)) /\
  (forall s st i, t_mode i = PerformLayout -> Visits TIn TOut TLay t_mode (seq 0 (length st)) (t_algo' s st i)) /\
  run_ok TS TIn TOut TLay t_mode t_in_eqb t_is_none 0%N 0%N t_algo' ex_tree ex_ops.
Proof. split; [exact t_in_eqb_eq|]. split; [exact t_algo_WF|]. split; [exact t_algo_H1|exact ex_run_ok]. Qed.

Print Assumptions C01_memo_sound.
Print Assumptions C01_root_output_equals_fresh.
Print Assumptions C01_fresh_inv.
Print Assumptions C01_mark_dirty_noop.
Print Assumptions C01_layouts_refuted_for_scribbling_algorithms.
Print Assumptions C01_size_queries_write_no_layout_for_nonscribbling_algorithms.
