(* Vocabulary of the fuel-sufficiency statements (Props/C03.v, Proofs/FuelProofs.v).  Definitions only.

   `peq p q`: two sizing programs (Model/GridAlg.v, the free monad `Prog`) are the same tree of tree calls with the same
   results at the leaves.  It is Leibniz equality up to the extensionality of the continuations (the framework uses no
   functional-extensionality axiom, so "the loop with more fuel is the same program" is stated with `peq`). *)
From Coq Require Import List.
From TV Require Import Num.Num Model.Common Model.Leaf Model.GridAlgBase Model.GridAlg.
Import ListNotations.

Section FuelDefs.
  Context {T : Type} `{Num T}.

  Inductive peq {A : Type} : Prog A -> Prog A -> Prop :=
  | peq_ret a : peq (PRet a) (PRet a)
  | peq_measure c kn pa av ax (k k' : T -> Prog A) :
      (forall v, peq (k v) (k' v)) -> peq (PMeasure c kn pa av ax k) (PMeasure c kn pa av ax k')
  | peq_baseline c pa (k k' : T -> option T -> Prog A) :
      (forall h b, peq (k h b) (k' h b)) -> peq (PBaseline c pa k) (PBaseline c pa k').
End FuelDefs.
