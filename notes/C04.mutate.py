"""Mutation experiment for ./check C04 (never touches /repo: a scratch worktree /tmp/c04-repo is created and removed).
usage: python3 notes/C04.mutate.py [name ...]      results are printed as one line per mutation"""
import json
import os
import re
import subprocess
import sys
import time

ROOT = os.path.dirname(os.path.dirname(os.path.abspath(__file__)))
R = '/tmp/c04-repo'

MUT = {
    # non-homogeneous: absolute 1px fudge on the measured width when the available width is definite
    'M1_leaf_plus_one': ('src/compute/leaf.rs', [(
        '.unwrap_or(measured_size + content_box_inset.sum_axes())',
        '.unwrap_or(measured_size + content_box_inset.sum_axes() + Size { width: if matches!(available_space.width, AvailableSpace::Definite(_)) { 1.0 } else { 0.0 }, height: 0.0 })')]),
    # non-homogeneous: flex gaps floored at 1px
    'M2_flex_gap_max_one': ('src/compute/flexbox.rs', [(
        'gap * (num_items - 1) as f32', 'gap.max(1.0) * (num_items - 1) as f32')]),
    # non-homogeneous: grid stretch_auto_tracks ignores free space up to half a pixel
    'M3_grid_stretch_half_px': ('src/compute/grid/track_sizing.rs', [(
        '''        if free_space > 0.0 {
            let extra_space_per_auto_track = free_space / num_auto_tracks as f32;''',
        '''        if free_space > 0.5 {
            let extra_space_per_auto_track = free_space / num_auto_tracks as f32;''')]),
    # non-homogeneous: block auto-margin centering loses a constant
    'M4_block_auto_margin_minus_const': ('src/compute/block.rs', [(
        '                    free_x_space / auto_margin_count as f32\n',
        '                    (free_x_space - 1.0).max(0.0) / auto_margin_count as f32\n')]),
    # HOMOGENEOUS (wrong CSS, but scales): percentage padding of flex items resolved against the height
    'M5_flex_item_padding_percent_of_height': ('src/compute/flexbox.rs', [(
        '''                .padding()
                .resolve_or_zero(constants.node_inner_size.width, |val, basis| tree.calc(val, basis));
            let border = child_style''',
        '''                .padding()
                .resolve_or_zero(constants.node_inner_size.height, |val, basis| tree.calc(val, basis));
            let border = child_style''')]),
}


def sh(cmd, **kw):
    return subprocess.run(cmd, shell=True, stdout=subprocess.PIPE, stderr=subprocess.STDOUT, text=True, **kw)


def main():
    names = sys.argv[1:] or list(MUT)
    sh('git -C /repo worktree remove --force %s' % R)
    r = sh('git -C /repo worktree add %s HEAD' % R)
    if r.returncode != 0:
        print(r.stdout)
        sys.exit(1)
    results = {}
    try:
        for name in names:
            sh('git -C %s checkout -- .' % R)
            path, edits = MUT[name]
            src = open(os.path.join(R, path)).read()
            for old, new in edits:
                if src.count(old) != 1:
                    print('%s: pattern occurs %d times in %s' % (name, src.count(old), path))
                    sys.exit(1)
                src = src.replace(old, new)
            open(os.path.join(R, path), 'w').write(src)
            t0 = time.time()
            r = sh('timeout 1500 ./check C04', cwd=ROOT, env=dict(os.environ, VERIF_REPO=R))
            viol = [l for l in r.stdout.split('\n') if l.startswith('VIOLATION')]
            what = []
            for v in viol:
                m = re.search(r'replay=(\S+)', v)
                if m:
                    try:
                        what.append(json.load(open(m.group(1)))['what'][:260])
                    except Exception as ex:  # noqa
                        what.append(str(ex))
            results[name] = {'exit': r.returncode, 'violations': len(viol), 'what': what, 'seconds': round(time.time() - t0)}
            print('%s exit=%d violations=%d (%ds)' % (name, r.returncode, len(viol), time.time() - t0))
            for w in what:
                print('    ' + w)
            sys.stdout.flush()
    finally:
        sh('git -C /repo worktree remove --force %s' % R)
        # restore the evidence / generated files of the unmutated tree
        sh('timeout 900 ./check C04', cwd=ROOT)
    print(json.dumps(results, indent=1))


if __name__ == '__main__':
    main()
