//! C03 search: whole-engine totality fuzz.  `vh c03 fuzz <seed> <start> <n>` lays out generated trees one by one and prints
//! `OK <idx>` after each; a panic is caught and printed as `PANIC <idx> <message>`; a non-finite output as `NONFINITE <idx>`.
//! Aborts (allocation blow-up) and hangs are observed by the driver: the last `START <idx>` without `OK` names the case.
use crate::rng::Rng;
use crate::treegen::*;
use std::io::Write;
use taffy::prelude::*;

pub fn cfg_for(tier: u64) -> GenCfg {
    let mut cfg = GenCfg::default();
    if tier > 0 {
        cfg.max_nodes = 24;
        cfg.max_children = 6;
    }
    cfg
}

/// Structured family aimed at loop exit conditions that depend on an exact numeric coincidence (random styles never hit them):
/// a flex line whose min- and max-violations cancel exactly (total violation == 0 with individual violations != 0), items
/// with flex factors summing to exactly 1 / to 0, zero-sized containers, grids whose fr tracks / limits tie exactly.
fn coincidence_case(rng: &mut Rng) -> (NodeSpec, Size<AvailableSpace>, bool) {
    let n = 2 + rng.below(3) as usize;
    let share = *rng.pick(&[10.0f32, 25.0, 50.0, 64.0]);
    let d = *rng.pick(&[1.0f32, 5.0, 10.0, 0.5]);
    let total = share * n as f32;
    let column = rng.chance(1, 2);
    let kind = rng.below(4);
    let mut children = vec![];
    for k in 0..n {
        let mut s = Style { flex_grow: 1.0, flex_shrink: 1.0, flex_basis: length(0.0), ..Default::default() };
        let (mn, mx): (Option<f32>, Option<f32>) = match kind {
            // one item lifted by d to its min, another cut by d to its max: the violations cancel
            0 => match k { 0 => (Some(share + d), None), 1 => (None, Some(share - d)), _ => (None, None) },
            // shrinking variant
            1 => {
                s.flex_basis = length(2.0 * share);
                match k { 0 => (Some(share + d), None), 1 => (None, Some(share - d)), _ => (None, None) }
            }
            // flex factors summing to exactly 1 / to less than 1
            2 => {
                s.flex_grow = 1.0 / n as f32;
                (None, None)
            }
            // everything frozen from the start: zero factors, min > max
            _ => {
                s.flex_grow = 0.0;
                s.flex_shrink = 0.0;
                (Some(share + d), Some(share - d))
            }
        };
        let dim = |v: Option<f32>| v.map(Dimension::length).unwrap_or(Dimension::auto());
        if column {
            s.min_size.height = dim(mn);
            s.max_size.height = dim(mx);
        } else {
            s.min_size.width = dim(mn);
            s.max_size.width = dim(mx);
        }
        children.push(NodeSpec::leaf(s));
    }
    let mut root = Style { display: Display::Flex, ..Default::default() };
    root.flex_direction = if column { FlexDirection::Column } else { FlexDirection::Row };
    root.size = if column { Size { width: auto(), height: length(total) } } else { Size { width: length(total), height: auto() } };
    (NodeSpec { style: root, ctx: None, children }, Size::MAX_CONTENT, rng.chance(1, 2))
}

/// Structured family around auto-repeat tracks and content distribution (random templates rarely combine them with sparse
/// occupancy): a grid with `repeat(auto-fit | auto-fill, fixed)` on one or both axes, a definite size that fits 2..6 repetitions
/// with free space left over, every `justify-content` / `align-content` value, and only a few items pinned to lines so that
/// auto-fit tracks collapse -- a lone item in a track that is not the first, no in-flow item at all with an absolute child
/// anchored between lines, occupied first and last track only.  The divisions by (number of tracks - 1) and by the number of
/// tracks in the distributed-alignment offsets, and the fallback alignments that guard them, are exercised with 0, 1 and 2
/// non-collapsed tracks.
fn autorepeat_case(rng: &mut Rng) -> (NodeSpec, Size<AvailableSpace>, bool) {
    let contents = [
        None,
        Some(AlignContent::Start),
        Some(AlignContent::End),
        Some(AlignContent::FlexStart),
        Some(AlignContent::FlexEnd),
        Some(AlignContent::Center),
        Some(AlignContent::Stretch),
        Some(AlignContent::SpaceBetween),
        Some(AlignContent::SpaceEvenly),
        Some(AlignContent::SpaceAround),
    ];
    let track = *rng.pick(&[10.0f32, 20.0, 25.0, 40.0]);
    let reps = 2 + rng.below(5) as usize;
    let gap = *rng.pick(&[0.0f32, 0.0, 5.0, 10.0]);
    let slack = *rng.pick(&[0.0f32, 5.0, 13.0, 30.0]);
    let extent = track * reps as f32 + gap * (reps as f32 - 1.0) + slack.min(track - 1.0);
    let both = rng.chance(1, 3);
    let cols = both || rng.chance(1, 2);
    let rows = both || !cols;
    let kind = |rng: &mut Rng| if rng.chance(3, 4) { GridTrackRepetition::AutoFit } else { GridTrackRepetition::AutoFill };
    let mut root = Style { display: Display::Grid, ..Default::default() };
    if cols {
        root.grid_template_columns = vec![TrackSizingFunction::Repeat(kind(rng), vec![length(track)])];
        root.size.width = length(extent);
        root.justify_content = *rng.pick(&contents);
        root.gap.width = length(gap);
    }
    if rows {
        root.grid_template_rows = vec![TrackSizingFunction::Repeat(kind(rng), vec![length(track)])];
        root.size.height = length(extent);
        root.align_content = *rng.pick(&contents);
        root.gap.height = length(gap);
    }
    if rng.chance(1, 4) {
        root.grid_auto_flow = *rng.pick(&[GridAutoFlow::Column, GridAutoFlow::RowDense, GridAutoFlow::ColumnDense]);
    }
    // occupancy pattern: which lines carry an item
    let pattern = rng.below(6);
    let lines: Vec<i16> = match pattern {
        0 => vec![],                                                         // nothing in flow
        1 => vec![2 + rng.below(reps as u64 - 1) as i16],                   // a lone item, not in the first track
        2 => vec![1, reps as i16],                                          // first and last track only
        3 => vec![reps as i16],                                             // last track only
        4 => vec![1],                                                       // first track only
        _ => (0..1 + rng.below(3)).map(|_| 1 + rng.below(reps as u64) as i16).collect(),
    };
    let mut children = vec![];
    for l in &lines {
        let mut s = Style { size: Size { width: length(5.0), height: length(5.0) }, ..Default::default() };
        if cols {
            s.grid_column = Line { start: line(*l), end: GridPlacement::Auto };
        }
        if rows {
            s.grid_row = Line { start: line(*l), end: GridPlacement::Auto };
        }
        children.push(NodeSpec::leaf(s));
    }
    // an absolute child anchored between two lines (its containing block is made of track offsets), sometimes a hidden one
    if pattern == 0 || rng.chance(1, 3) {
        let a = 1 + rng.below(reps as u64) as i16;
        let b = a + 1 + rng.below(2) as i16;
        let mut s = Style { position: Position::Absolute, ..Default::default() };
        if rng.chance(1, 2) {
            s.inset = Rect { left: length(1.0), right: length(1.0), top: length(1.0), bottom: length(1.0) };
        } else {
            s.size = Size { width: length(4.0), height: length(4.0) };
        }
        if cols {
            s.grid_column = Line { start: line(a), end: if rng.chance(1, 2) { line(b) } else { GridPlacement::Auto } };
        }
        if rows {
            s.grid_row = Line { start: line(a), end: if rng.chance(1, 2) { line(b) } else { GridPlacement::Auto } };
        }
        children.push(NodeSpec::leaf(s));
    }
    if rng.chance(1, 6) {
        children.push(NodeSpec::leaf(Style { display: Display::None, grid_column: Line { start: line(2), end: GridPlacement::Auto }, ..Default::default() }));
    }
    (NodeSpec { style: root, ctx: None, children }, Size::MAX_CONTENT, rng.chance(1, 2))
}

pub fn case(seed: u64, idx: u64) -> (NodeSpec, Size<AvailableSpace>, bool) {
    let mut rng = Rng::new(seed.wrapping_mul(0x9E37_79B9).wrapping_add(idx));
    if idx % 10 == 7 {
        return coincidence_case(&mut rng);
    }
    if idx % 10 == 3 {
        return autorepeat_case(&mut rng);
    }
    let mut cfg = cfg_for(0);
    // a third of the cases concentrate on grids with line placements
    if idx % 3 == 0 {
        cfg.displays = vec![Display::Grid];
        cfg.p_hidden = 100;
        cfg.p_absolute = 150;
        cfg.max_depth = 2;
    }
    cfg.fractional = idx % 2 == 1;
    let t = tree(&mut rng, &cfg);
    let a = avail(&mut rng, &cfg);
    let rounding = rng.chance(1, 2);
    (t, a, rounding)
}

fn all_finite(t: &TaffyTree<Ctx>, ids: &[NodeId]) -> bool {
    ids.iter().all(|id| layout_floats(t.layout(*id).unwrap()).iter().all(|x| x.is_finite()) && layout_floats(t.unrounded_layout(*id)).iter().all(|x| x.is_finite()))
}

pub fn run_one(seed: u64, idx: u64, verbose: bool) -> Result<bool, String> {
    let (spec, a, rounding) = case(seed, idx);
    if verbose {
        println!("{:#?}\navail={:?} rounding={}", spec, a, rounding);
    }
    let r = std::panic::catch_unwind(|| {
        let mut t: TaffyTree<Ctx> = TaffyTree::new();
        if !rounding {
            t.disable_rounding();
        }
        let mut ids = vec![];
        let root = build(&mut t, &spec, &mut ids);
        compute(&mut t, root, a);
        all_finite(&t, &ids)
    });
    match r {
        Ok(f) => Ok(f),
        Err(e) => Err(e.downcast_ref::<String>().cloned().or_else(|| e.downcast_ref::<&str>().map(|s| s.to_string())).unwrap_or_default()),
    }
}

pub fn main(args: &[String]) {
    if std::env::var("VH_BACKTRACE").is_err() {
        std::panic::set_hook(Box::new(|_| {}));
    }
    match args[0].as_str() {
        "fuzz" => {
            let seed: u64 = args[1].parse().unwrap();
            let start: u64 = args[2].parse().unwrap();
            let n: u64 = args[3].parse().unwrap();
            let out = std::io::stdout();
            for idx in start..start + n {
                {
                    let mut o = out.lock();
                    writeln!(o, "START {idx}").unwrap();
                    o.flush().unwrap();
                }
                match run_one(seed, idx, false) {
                    Ok(true) => println!("OK {idx}"),
                    Ok(false) => println!("NONFINITE {idx}"),
                    Err(m) => println!("PANIC {idx} {}", m.replace('\n', " ")),
                }
            }
        }
        "indexerrors" => {
            // "accessor and mutator calls with out-of-range child indices return an error rather than panic": every
            // index-taking method of TaffyTree, on parents with 0..3 children, with every index / range around the bounds.
            // One line per call that does not behave: `PANIC <method> <args>` / `ACCEPTED <method> <args>` / `CHANGED ...`
            use std::panic::{catch_unwind, AssertUnwindSafe};
            let mut calls = 0u64;
            for n in 0usize..4 {
                let build = || {
                    let mut t: TaffyTree<()> = TaffyTree::new();
                    let kids: Vec<NodeId> = (0..n).map(|_| t.new_leaf(Style::DEFAULT).unwrap()).collect();
                    let p = t.new_with_children(Style::DEFAULT, &kids).unwrap();
                    let extra = t.new_leaf(Style::DEFAULT).unwrap();
                    (t, p, kids, extra)
                };
                let mut probe = |name: &str, arg: String, f: &dyn Fn(&mut TaffyTree<()>, NodeId, NodeId) -> bool| {
                    calls += 1;
                    let (mut t, p, kids, extra) = build();
                    let r = catch_unwind(AssertUnwindSafe(|| f(&mut t, p, extra)));
                    match r {
                        Err(_) => println!("PANIC {name} {arg} (parent has {n} children)"),
                        Ok(true) => println!("ACCEPTED {name} {arg} (parent has {n} children)"),
                        Ok(false) => {
                            if t.children(p).unwrap() != kids || t.parent(extra).is_some() {
                                println!("CHANGED {name} {arg}: the error path modified the tree (parent has {n} children)");
                            }
                        }
                    }
                };
                for idx in [n, n + 1, n + 7, usize::MAX] {
                    probe("child_at_index", format!("{idx}"), &|t, p, _| t.child_at_index(p, idx).is_ok());
                    probe("remove_child_at_index", format!("{idx}"), &|t, p, _| t.remove_child_at_index(p, idx).is_ok());
                    probe("replace_child_at_index", format!("{idx}"), &|t, p, e| t.replace_child_at_index(p, idx, e).is_ok());
                    if idx > n {
                        probe("insert_child_at_index", format!("{idx}"), &|t, p, e| t.insert_child_at_index(p, idx, e).is_ok());
                    }
                }
                for (a, b) in [(0, n + 1), (n, n + 1), (n + 1, n + 1), (n + 1, n + 3), (0, usize::MAX)] {
                    probe("remove_children_range", format!("{a}..{b}"), &|t, p, _| t.remove_children_range(p, a..b).is_ok());
                }
                if n >= 1 {
                    probe("remove_children_range", format!("{}..{}", n, n - 1), &|t, p, _| t.remove_children_range(p, n..n - 1).is_ok());
                }
            }
            println!("INDEXERRORS calls {calls}");
        }
        "corpus" => {
            // regression corpus: minimal reproducers of repaired defects (known_findings.json, status fixed)
            let which: usize = args[1].parse().unwrap();
            let leaf = |row: Line<GridPlacement>, col: Line<GridPlacement>| {
                NodeSpec::leaf(Style { grid_row: row, grid_column: col, size: Size::from_lengths(10.0, 10.0), ..Default::default() })
            };
            let auto = GridPlacement::Auto;
            let l = |i: i16| GridPlacement::from_line_index(i);
            let grid = |children: Vec<NodeSpec>, cols: u16, rows: u16| NodeSpec {
                style: Style {
                    display: Display::Grid,
                    grid_template_columns: (0..cols).map(|_| length(10.0)).collect(),
                    grid_template_rows: (0..rows).map(|_| length(10.0)).collect(),
                    ..Default::default()
                },
                ctx: None,
                children,
            };
            let spec = match which {
                // grid_row: auto / -3
                0 => grid(vec![leaf(Line { start: auto, end: l(-3) }, Line { start: auto, end: auto })], 0, 0),
                // auto / -1 column on an empty explicit grid
                1 => grid(vec![leaf(Line { start: auto, end: auto }, Line { start: auto, end: l(-1) })], 0, 0),
                // two children grid_row: -2 (last_of_type axis mix-up)
                2 => grid(
                    vec![
                        leaf(Line { start: l(-2), end: auto }, Line { start: auto, end: auto }),
                        leaf(Line { start: l(-2), end: auto }, Line { start: auto, end: auto }),
                    ],
                    0,
                    0,
                ),
                // grid_column: 0 / span 3 on a 2x2 grid (span estimate ignored the line-0 -> auto conversion: hang)
                3 => grid(vec![leaf(Line { start: auto, end: auto }, Line { start: l(0), end: GridPlacement::Span(3) })], 2, 2),
                // repeat(2, 10px 20px) repeat(auto-fit, 30px) rows in a 100x100 grid: more tracks created than counted
                4 => {
                    let mut g = grid(vec![leaf(Line { start: auto, end: auto }, Line { start: auto, end: auto })], 0, 0);
                    g.style.size = Size::from_lengths(100.0, 100.0);
                    g.style.grid_template_rows = vec![
                        TrackSizingFunction::Repeat(GridTrackRepetition::Count(2), vec![length(10.0), length(20.0)]),
                        TrackSizingFunction::Repeat(GridTrackRepetition::AutoFit, vec![length(30.0)]),
                    ];
                    g
                }
                // 100x100 grid, rows repeat(auto-fit, 10px), no columns, no in-flow child: occupancy matrix is 0x0
                5 | 6 => {
                    let kids = if which == 5 { vec![] } else { vec![NodeSpec::leaf(Style { display: Display::None, ..Default::default() })] };
                    let mut g = grid(kids, 0, 0);
                    g.style.size = Size::from_lengths(100.0, 100.0);
                    g.style.grid_template_rows = vec![TrackSizingFunction::Repeat(GridTrackRepetition::AutoFit, vec![length(10.0)])];
                    g
                }
                _ => std::process::exit(3),
            };
            let r = std::panic::catch_unwind(|| {
                let mut t: TaffyTree<Ctx> = TaffyTree::new();
                let mut ids = vec![];
                let root = build(&mut t, &spec, &mut ids);
                compute(&mut t, root, Size::MAX_CONTENT);
                all_finite(&t, &ids)
            });
            println!("CORPUS {} {}", which, match r { Ok(true) => "OK", Ok(false) => "NONFINITE", Err(_) => "PANIC" });
        }
        "hidden-grid-demo" => {
            // C05: a display:none child with a definite grid line must not create implicit tracks
            let mut t: TaffyTree<Ctx> = TaffyTree::new();
            let vis = t.new_leaf(Style { size: Size::from_lengths(7.0, 7.0), ..Default::default() }).unwrap();
            let hid = t
                .new_leaf(Style {
                    display: Display::None,
                    grid_row: Line { start: GridPlacement::from_line_index(5), end: GridPlacement::Auto },
                    ..Default::default()
                })
                .unwrap();
            let root = t
                .new_with_children(
                    Style { display: Display::Grid, grid_auto_rows: vec![length(7.0)], ..Default::default() },
                    &[vis, hid],
                )
                .unwrap();
            compute(&mut t, root, Size::MAX_CONTENT);
            println!("HEIGHT {}", t.layout(root).unwrap().size.height);
        }
        "one" => {
            let seed: u64 = args[1].parse().unwrap();
            let idx: u64 = args[2].parse().unwrap();
            println!("{:?}", run_one(seed, idx, true));
        }
        _ => std::process::exit(2),
    }
}
