"""C09 -- grid tracks: T (Gen/GridTracksGen.v: THRESHOLDs, track-counting tables, AlignContent) + proofs (Props/C09.v)
+ K (vh c09 cases: whole-API through detailed_layout_info vs Model/GridIntrinsicRun.v -- the whole track_sizing_algorithm with
  the full step 11.5 of Model/GridIntrinsic.v -- over F32, bit for bit; the stage-1 class also vs Model/GridTracksRun.v)
+ search (vh c09 oracle: the property's clauses on DetailedGridInfo for a broad generator; known classes classified)."""
from ..common import *
from ..stages import *

CLAUSES = ['count', 'fixed', 'gutter', 'outer', 'fill']


def shape(c):
    """Cheap shape histogram of a K case (from the C ints): what the templates and items contain."""
    # Wk W Hk H avail(2x2) pad*4 bor*4 gap(2x2) jc ac | templates ... | autos | items
    out = set()
    if c[0] == 1 or c[2] == 1:
        out.add('indefinite container axis')
    if any(c[8:16]):
        out.add('padding/border')
    if c[16] == 1 or c[18] == 1:
        out.add('percent gap')
    if c[20] or c[21]:
        out.add('content alignment')
    i = 22
    for axis in range(2):
        n = c[i]
        i += 1
        for _ in range(n):
            k = c[i]
            i += 1
            if k == 1:
                i += 1
            nt = 1
            if k >= 1:
                nt = c[i]
                i += 1
                out.add(['', 'repeat(count)', 'auto-fill', 'auto-fit'][k])
            for _ in range(nt):
                mn, _, mx, _ = c[i:i + 4]
                i += 4
                if mx == 2:
                    out.add('fr')
                if mn == 5 or mx == 5:
                    out.add('auto')
                if mn == 1 or mx == 1:
                    out.add('percent')
                if mn == 0 and mx == 0:
                    out.add('px')
                if mn == 6 or mx == 6:
                    out.add('min-content')
                if mn == 7 or mx == 7:
                    out.add('max-content')
                if mx in (3, 4):
                    out.add('fit-content')
                if mn in (5, 6, 7) and mx in (0, 1):
                    out.add('minmax(intrinsic, fixed)')
    for axis in range(2):
        n = c[i]
        i += 1 + 4 * n
        if n:
            out.add('grid-auto tracks')
    n = c[i]
    i += 1
    spans = set()
    for k in range(n):
        it = c[i + 13 * k:i + 13 * k + 13]
        spans.add(max(it[2], it[4]))
        if it[0] == 1:
            out.add('text item (min-content != max-content)')
        if any(it[7:11]):
            out.add('item margins')
        if it[11] or it[12]:
            out.add('item overflow hidden')
    for sp in spans:
        out.add('max item span %d' % sp)
    return out


def run(rep, tier, seed, replay=None):
    res, changed = proof_stage(rep, 'C09', extra_trusted=[
        'modelled by hand (tied by K only): Model/GridTracks.v = compute_explicit_grid_size_in_axis, initialize_grid_tracks, '
        'initialize_track_sizes, distribute_space_up_to_limits, maximise_tracks, find_size_of_fr, expand_flexible_tracks, '
        'stretch_auto_tracks, distribute_item_space_to_base_size, align_tracks; Model/GridIntrinsic.v = resolve_intrinsic_track_sizes in full '
        '(ItemBatcher, span-1 fast path, the six distribution steps, distribute_item_space_to_growth_limit, flush_planned_*), the items\' '
        'content sizes as an oracle (K runs it with fixed-size leaves: contribution = fixed size, minimum capped by spanned_fixed_track_limit)',
        'the inner loops of 11.5 (distribute_space_up_to_limits with arbitrary filters / flex-factor proportions / infinite limits) carry the fuel '
        '2*len+8: enough on every K case (bit-exact agreement); proved enough over exact rationals for finite space and well-formed tracks '
        '(C09_distribute_terminates for 11.6, C09_intrinsic_distribute_terminates for every affected-filter / proportion of 11.5); NOT proved for '
        'binary32, NaN / infinite space, or that every call site inside 11.5 meets the well-formedness premise.  distribute_loop / fr_loop / '
        'batch_loop return their current state when the fuel runs out and the runners print no marker: exhaustion would look like a normal '
        'result and could only surface as a disagreement with the implementation (audit wave 5c, notes/AUDIT.md C09)',
        'numeric theorems are over exact rationals (XQ); the F32 run of the same definitions is compared bit for bit but no rounding-error '
        'analysis connects the two',
        'u16 track counts modelled as N (no wrap-around below 65536 tracks)',
        'K3 (`vh gridalg cases`): Model/GridAlg.v = ALL of compute_grid_layout as a resumption (children answered with the outputs recorded on the '
        'implementation): the item contribution protocol of grid_item.rs (known dimensions, available space, the three cached contributions), '
        'the order in which 11.5 / 11.7 ask for them, baselines, re-runs, alignment gutter adjustment, final positioning -- hand model, tied by K only'])
    mine = [k for k in changed if k.startswith('gen_gridtracks:')]
    rc, out, binp, dt = build_harness('release')
    if rc != 0:
        rep.add_broken('build', 'harness', out[-1500:])
        return
    n = 1200 if tier == 'quick' else 9000
    if mine:
        n = max(n, 3000)
        rep.cov['fingerprint_escalation'] = mine
    # ---- K
    if replay and 'case' in replay:
        rc, out = vh(binp, ['c09', 'one'] + replay['case'], timeout=60)
    else:
        rc, out = vh(binp, ['c09', 'cases', seed, n], timeout=90)
    hung = None
    lines = [l for l in out.split('\n') if l[:2] in ('C ', 'R ')]
    if lines and lines[-1].startswith('C '):
        # the implementation did not return (hang / abort / panic) on the last case printed
        hung = [int(x) for x in lines[-1].split()[1:]]
        out = '\n'.join(lines[:-1])
    try:
        cases, impl = parse_cr(out)
    except RuntimeError as ex:
        cases, impl = [], []
        rep.add_broken('correspondence', 'vh c09 cases', str(ex))
    # `O` lines: the case once more in the stage-1 encoding (follows its R line) when it is in the stage-1 class
    old_cases, old_impl, last_r = [], [], None
    for l in out.split('\n'):
        if l.startswith('R '):
            last_r = [int(x) for x in l.split()[1:]]
        elif l.startswith('O ') and last_r is not None:
            old_cases.append([int(x) for x in l.split()[1:]])
            old_impl.append(last_r)
    if hung is not None:
        how = 'does not terminate (killed after 90 s)' if rc == 124 else 'aborts (exit code %s)' % rc
        rep.add_broken('correspondence', 'vh c09 cases', 'the implementation %s on a K case' % how)
        rep.add_violation('compute_layout %s on a grid of the K class (no DetailedGridInfo is produced; the model terminates: '
                          'C09_distribute_terminates / fuelled find_size_of_fr)' % how,
                          {'case': hung, 'cmd': 'timeout 20 vh c09 one ' + ' '.join(map(str, hung))})
        rc = 0 if cases else rc
    if rc != 0 or not cases:
        rep.add_broken('correspondence', 'vh c09 cases', 'harness failed (rc=%s): %s' % (rc, out[-600:]))
    bad = []
    if cases:
        try:
            with Lock('coq'):
                rcm, outm, _ = coq_make(['Model/GridTracksRun.vo', 'Model/GridIntrinsicRun.vo'])
            if rcm != 0:
                raise RuntimeError(outm[-1500:])
            # K2: every case through the whole track_sizing_algorithm with the full step 11.5 (Model/GridIntrinsic.v)
            model = run_model('C09', 'From TV Require Import Model.GridIntrinsicRun.', 'run_case2', cases, scope='Z', elem='list Z', batch=200)
            bad = diff_results(rep, 'DetailedGridInfo (track counts, sizes, gutters), container size, item offsets vs Model.GridIntrinsicRun '
                                    '(track_sizing_algorithm_full) over F32', cases, impl, model)
            # K1: the stage-1 class also through the stage-1 runner (resolve_intrinsic_span1: what the q_axis witnesses use)
            if old_cases:
                k1 = old_cases if tier != 'quick' or mine else old_cases[:150]
                model1 = run_model('C09a', 'From TV Require Import Model.GridTracksRun.', 'run_case', k1, scope='Z', elem='list Z', batch=200)
                bad += diff_results(rep, 'stage-1 class vs Model.GridTracksRun (resolve_intrinsic_span1) over F32', k1, old_impl[:len(k1)], model1)
                rep.cov['stage1_runner_cases'] = len(k1)
        except RuntimeError as ex:
            rep.add_broken('correspondence', 'model evaluation', str(ex)[-1500:])
    # ---- K3: the WHOLE of compute_grid_layout as a resumption (Model/GridAlg.v) vs the event trace of the implementation on random trees
    #      (children of every kind, spans, baselines, re-runs): every f32 payload of every child query / stored layout / output.  C09 owns the
    #      grid arithmetic: here a payload-only disagreement fails the check (C05 / C06 run the same K and fail on structure only).
    if not replay:
        from . import _gridalg as GA
        samples_before = list(rep.cov.get('samples', []))
        GA.gridalg_k(rep, 'C09', binp, seed + 9090, 2000 if (mine or tier != 'quick') else 500, family=0, payload_is_broken=True)
        grid_samples = [x for x in rep.cov.get('samples', []) if x not in samples_before]
    else:
        grid_samples = []
    hist = {}
    for c in cases:
        for s in shape(c):
            hist[s] = hist.get(s, 0) + 1
    distinct = len(set(tuple(c) for c in cases))
    rep.cov['distinct_nontrivial'] = distinct
    rep.cov['rule'] = ('K case = border-box root grid container (length padding/border, px or % gap, any align/justify-content, no min/max size); each '
                       'axis either of definite size or auto under a max-content / min-content / definite available space; templates and grid-auto '
                       'tracks of px | % | fr | auto | min-content | max-content | fit-content(px|%) | minmax(px|%|auto|min-content|max-content, '
                       'px|%|fr|auto|min-content|max-content|fit-content) | repeat(n, ..) | repeat(auto-fill|auto-fit, fixed); 1-5 leaves of fixed px '
                       'size (border-box, no padding/border/min/max/aspect-ratio) with px margins, overflow visible or hidden, placed on explicit CSS '
                       'lines spanning 1-3 tracks (lines may fall outside the explicit grid => implicit tracks on both sides).  For such a leaf the '
                       'min-/max-content contributions are its fixed size and the minimum contribution that size capped by spanned_fixed_track_limit '
                       '(computed by the runner).  Half of the stage-2 cases additionally contain "text" leaves (no size style, measured: min-content width = glyph size, '
                       'max-content width = n * glyph size, minimum contribution = the automatic minimum size) in grids with a definite height and rigid rows, so '
                       'that min-content, max-content and minimum contributions differ.  Compared: the 3 track counts, every track size and gutter bit pattern of both axes, container '
                       'size, every item location.  One third of the random cases is the stage-1 class (span 1, no intrinsic keywords), also '
                       'evaluated by the stage-1 runner (a prefix of 150 in the quick tier).  distinct = distinct C vectors; each compares >= 9 numbers.  The 12 corpus cases '
                       '(witnesses of the refuted statements incl. the 11.5 leak, repaired mixed-repeat count) come first.')
    rep.cov['input_distribution'] = hist
    rep.cov['samples'] = [{'case': c, 'impl': a} for c, a in list(zip(cases, impl))[:2] + list(zip(cases, impl))[-2:]] + grid_samples
    rep.cov['samples'].append({'theorem': 'C09_fr_fill_partial : Forall track_ok tracks -> finite S -> snd (fr_exit tracks S) = true -> '
                                          'x_leb (Fin 1) (final_flex_factor_sum tracks S) = true -> '
                                          'x_leb S (fsum (map base_size (expand_flexible_tracks amin amax (Definite S) items tracks))) = true'})
    rep.cov['samples'].append({'theorem': 'C09_intrinsic_preserves_fixed_partial : (forall it, In it items -> alone it i) -> nth_error tracks i = Some t -> '
                                          'rigid inner t -> calm v t -> exists t\', nth_error (resolve_intrinsic_track_sizes contrib inner avail items tracks) i '
                                          '= Some t\' /\\ rigid inner t\' /\\ calm v t\''})
    rep.cov['samples'].append({'theorem': 'C09_intrinsic_monotone : Forall inv tracks -> Forall2 (fun t t\' => x_leb (base_size t) (base_size t\') = true) '
                                          'tracks (resolve_intrinsic_track_sizes contrib inner avail items tracks)  -- for every oracle `contrib`'})
    rep.cov['samples'].append({'theorem': 'C09_tracks_match_counts : explicit counts = explicit_grid_size template inner gapf mx -> '
                                          'count_tracks (initialize_grid_tracks counts template autos gap has_items) = N.to_nat (counts_len counts) /\\ length .. = 2 * .. + 1'})
    # ---- replay of one oracle hit
    if replay and 'index' in replay:
        rc, out = vh(binp, ['c09', 'show', replay['seed'], replay['index'], replay.get('oracle_n', 0)], timeout=60)
        if rc == 124:
            rep.add_violation('compute_layout does not terminate on this oracle case', dict(replay))
            return
        for l in out.split('\n'):
            if l.startswith('FAIL '):
                p = l.split(' ', 3)
                rep.add_violation('clause "%s" of C09 fails on the implementation: %s' % (p[2], p[3] if len(p) > 3 else ''), dict(replay))
                break
        return
    # ---- search: the property's clauses on the implementation (always; larger when something is broken)
    no = 1500 if tier == 'quick' else 40000
    if rep.broken or mine:
        no = max(no, 12000)
    rc, out = vh(binp, ['c09', 'oracle', seed, no], timeout=240 if tier == 'quick' else 1500)
    if rc != 0:
        starts = re.findall(r'^START (-?\d+)', out, re.M)
        if starts and not re.search(r'^ORACLE ', out, re.M):
            how = 'does not terminate' if rc == 124 else 'aborts (exit code %s)' % rc
            idx = int(starts[-1])
            rep.add_violation('compute_layout %s on oracle case %d' % (how, idx),
                              {'cmd': 'timeout 20 vh c09 show %d %d %d' % (seed, idx, no), 'seed': seed, 'index': idx, 'oracle_n': no, 'clause': 'hang'})
    fails, knowns = [], {}
    for l in out.split('\n'):
        if l.startswith('FAIL '):
            p = l.split(' ', 3)
            fails.append((int(p[1]), p[2], p[3] if len(p) > 3 else ''))
        elif l.startswith('KNOWN '):
            p = l.split(' ', 3)
            knowns.setdefault(p[2], []).append((int(p[1]), p[3] if len(p) > 3 else ''))
    m = re.search(r'ORACLE (\d+) count=(\d+) fixed=(\d+) gutter=(\d+) outer=(\d+) fill=(\d+) fails=(\d+) known=(\d+) panics=(\d+)', out)
    if m:
        rep.cov['oracle'] = {'containers': int(m.group(1)), 'clauses_checked': dict(zip(CLAUSES, [int(m.group(i)) for i in range(2, 7)])),
                             'fails': int(m.group(7)), 'known': int(m.group(8)), 'panics': int(m.group(9))}
        rep.cov['evaluations'] = rep.cov.get('evaluations', 0) + int(m.group(1))
    elif rc != 0 or not fails:
        rep.add_broken('search', 'vh c09 oracle', out[-600:])
    # the witnesses of the _refuted theorems must still fail on the implementation
    rc, wout = vh(binp, ['c09', 'witness'], timeout=30)
    wk = set(re.findall(r'^KNOWN \d+ (\S+)', wout, re.M))
    kf = {f['id']: f for f in known_findings('C09') if f.get('status') == 'known'}
    cls_to_id = {'fr-floor-remaining-lt-1': 'fr-fill-floored-track', 'threshold-overshoot': 'distribute-threshold-overshoot',
                 'intrinsic-beyond-limits-leak': 'intrinsic-beyond-limits-leak'}
    for cls, fid in cls_to_id.items():
        hits = knowns.get(cls, [])
        if cls in wk and fid in kf:
            rep.known.append('%s (witness of the _refuted theorem reproduces on the implementation; %d further oracle hits of this class)'
                             % (kf[fid]['line'], len(hits)))
        elif fid in kf:
            rep.cov.setdefault('stale_known_findings', []).append(fid)
            log('[C09] known finding %s no longer reproduces on the implementation (stale entry)' % fid)
        else:
            # a class without a committed known finding is a violation like any other
            for idx, msg in hits[:2]:
                fails.append((idx, cls, msg))
    # one violation per clause first, at most 4
    done = set()
    for idx, clause, msg in fails:
        if clause in done or len(rep.violations) >= 4:
            continue
        done.add(clause)
        rep.add_violation('clause "%s" of C09 fails on the implementation: %s' % (clause, msg),
                          {'cmd': 'vh c09 show %d %d %d' % (seed, idx, no), 'seed': seed, 'index': idx, 'oracle_n': no, 'clause': clause})
    if bad:
        rep.cov['disagreeing_cases'] = [{'case': c, 'cmd': 'vh c09 one ' + ' '.join(map(str, c))} for c, a, b in bad[:3]]
