(* The statements of Props/C12.v (section GridContainers) and Props/C04.v (module GridContainers) about whole grid containers, in the form the
   Props files state them.  Composition: Proofs/GridRelBatch.v (step 11.5) -> Proofs/GridRelSizing.v (m_track_sizing, m_size_grid) = `SizingRel k`
   under `thresholds_scale k` -> Proofs/GridRelAlg.v (front, run, final phase). *)
From Coq Require Import QArith Bool List ZArith Lia.
From TV Require Import Num.Num Num.QNum Model.Common Model.Leaf Model.BoxSizing Gen.GridTracksGen Model.GridTracks Model.GridIntrinsic.
From TV Require Import Model.GridAlgBase Model.GridAlg Model.FlexAlgBase Model.FlexAlgRel Model.GridAlgRel Model.GridSizingRel Model.GridRelExample.
From TV Require Import Model.Scale Model.ScaleGrid Model.Engine Model.EngineRel.
From TV Require Import Proofs.ScalePrim Proofs.ScaleKit Proofs.ScaleProofs Proofs.ScaleGrid Proofs.FlexHomog Proofs.FlexBoxSizing.
From TV Require Import Proofs.GridRelKit Proofs.GridStyleRel Proofs.GridRelFront Proofs.GridRelFinal Proofs.GridRelItems Proofs.GridRelKernels
     Proofs.GridRelBatch Proofs.GridRelSizing Proofs.GridRelAlg Proofs.GridRelExamples.
Import ListNotations.
Close Scope Z_scope.

(* ---- the sizing program *)
Theorem grid_sizing_rel k : (0 < k)%Q -> thresholds_scale k -> SizingRel k.
Proof.
  intros Hk [Ht Ht2] st st' P P' i i' s0 s0' Hst HP Hi Hs.
  exact (rel_m_size_grid k Hk Ht (rel_m_resolve_intrinsic k Hk Ht Ht2) st st' P P' i i' s0 s0' Hst HP Hi Hs).
Qed.

Theorem thresholds_scale_one : thresholds_scale 1.
Proof. split; [exact thr_one|exact base_thr_one]. Qed.

Theorem grid_sizing_rel_one : SizingRel 1.
Proof. exact (grid_sizing_rel 1 Q01 thresholds_scale_one). Qed.

(* ---- C12 *)
Theorem grid_rewrite_is_leaf_rewrite (s : GStyle XQ) :
  gs_core (g_to_border_box s) = to_border_box (gs_core s) /\ (g_eligibleb s = true -> eligible (gs_core s) /\ gs_replaced s = false).
Proof. split; [reflexivity|]. intros E. split; [exact (gel_core s E)|exact (gel_not_replaced s E)]. Qed.

Theorem grid_alg_box_sizing_blind s s' st st' i i' :
  gbb_rel s s' -> Forall2 gbb_rel st st' -> fin_rel 1 i i' -> GAlgRel 1 (grid_alg s st i) (grid_alg s' st' i').
Proof. exact (fun Hs Hst Hi => grid_alg_box_sizing_blind_given_sizing s s' st st' i i' grid_sizing_rel_one Hs Hst Hi). Qed.

(* the premise of C12_engine, for grid containers: any node, the class `g_eligibleb` *)
Theorem grid_alg_engine_box_sizing_blind :
  BoxSizingBlind (GStyle XQ) (GIn XQ) (LayoutOutput XQ) (GLay XQ) (fun _ => True) g_to_border_box (fun s => g_eligibleb s = true)
                 (fin_rel 1) (output_rel 1) (flay_rel 1) grid_alg.
Proof.
  intros s s' st st' i i' [_ Hs] Hst Hi. apply grid_alg_box_sizing_blind; [exact Hs| |exact Hi].
  eapply Forall2_impl; [|exact Hst]. intros x y [_ H]. exact H.
Qed.

(* ---- C04 *)
Theorem gstyle_rel_scale k s : gstyle_rel k s (gstyle_scale k s).
Proof.
  unfold gstyle_rel, gstyle_scale.
  cbn [gs_core gs_inset gs_template_columns gs_template_rows gs_auto_columns gs_auto_rows gs_flow gs_gap gs_align_items gs_justify_items
       gs_align_content gs_justify_content gs_row gs_column gs_align_self gs_justify_self gs_replaced].
  repeat match goal with |- _ /\ _ => split end; try reflexivity; try apply style_rel_scale;
    first [repeat split; cbn; apply lpa_rel_scale | split; cbn; apply lp_rel_scale
          | apply Forall2_self; apply tsf_rel_scale | apply Forall2_self; apply nrt_rel_scale].
Qed.

Theorem grid_alg_homogeneous_thresholds k : (0 < k)%Q -> thresholds_scale k ->
  Homogeneous (GStyle XQ) (GIn XQ) (LayoutOutput XQ) (GLay XQ) (gstyle_rel k) (fin_rel k) (output_rel k) (flay_rel k) grid_alg.
Proof. intros Hk Ht. exact (grid_alg_homogeneous_given_sizing k Hk (grid_sizing_rel k Hk Ht)). Qed.

(* ---- the computed instance *)
Theorem grid_example :
  g_eligibleb ge_container = true /\ g_eligibleb ge_a = true /\
  gbb_rel ge_container (g_to_border_box ge_container) /\ Forall2 gbb_rel [ge_a; ge_b] [g_to_border_box ge_a; ge_b] /\
  (width (size (gs_core (g_to_border_box ge_container))), box_sizing (gs_core (g_to_border_box ge_container)),
   size (gs_core (g_to_border_box ge_a))) =
  (Length (gq 100 + (gq 3 + gq 1 + (gq 3 + gq 1)))%num, BorderBox,
   mkSize (Length (gq 30 + (gq 2 + gq 1 + (gq 2 + gq 1)))%num) (Length (gq 10 + (gq 2 + gq 1 + (gq 2 + gq 1)))%num)) /\
  ge_sizes (ge_run ge_container [ge_a; ge_b]) = [(0, gq 36, gq 16); (1, gq 62, gq 16)] /\
  ge_same (ge_run ge_container [ge_a; ge_b]) (ge_run (g_to_border_box ge_container) [g_to_border_box ge_a; ge_b]) = true /\
  ge_same (ge_run ge_container [ge_a; ge_b]) (ge_run (g_to_border_box ge_container) [ge_a; ge_b]) = true /\
  ge_same (ge_run ge_container [ge_a; ge_b]) (ge_run ge_container [g_to_border_box ge_a; ge_b]) = true /\
  ge_same (ge_run ge_container [ge_a; ge_b]) (ge_run ge_container [ge_b; ge_b]) = false.
Proof.
  destruct ge_classes as (C1 & C2 & _). destruct ge_gbb_rels as [G1 G2].
  repeat split; try assumption; first [exact ge_rewrite_changes|exact ge_run_values|exact ge_same_all|exact ge_same_container|exact ge_same_item|exact ge_same_detects].
Qed.

(* ---- the item-contribution functions at k = 1 *)
Theorem grid_item_contributions_blind ax (inner inner' area area' : Size (option XQ)) (g g' : @GItem XQ) ts ts' :
  sz_rel (op_rel (sc 1)) inner inner' -> sz_rel (op_rel (sc 1)) area area' -> gitem_rel 1 g g' -> tracks_rel 1 ts ts' ->
  sz_rel (op_rel (sc 1)) (item_known_dimensions inner area g) (item_known_dimensions inner' area' g') /\
  ProgRel 1 (sc 1) (min_content_contribution ax inner g area) (min_content_contribution ax inner' g' area') /\
  ProgRel 1 (sc 1) (max_content_contribution ax inner g area) (max_content_contribution ax inner' g' area') /\
  ProgRel 1 (pair_rel (sc 1) (gitem_rel 1)) (minimum_contribution ax inner g ts area) (minimum_contribution ax inner' g' ts' area').
Proof.
  intros Hin Har Hg Hts.
  split; [apply (rel_item_known_dimensions 1 Q01); assumption|].
  split; [apply (rel_min_content_contribution 1 Q01); assumption|].
  split; [apply (rel_max_content_contribution 1 Q01); assumption|].
  apply (rel_minimum_contribution 1 Q01); assumption.
Qed.

Theorem grid_final_rel_one st st' P P' cc rc oof oof' zc zc' :
  gstyle_wrel 1 st st' -> pre_rel 1 P P' -> Forall2 (oof_rel 1) oof oof' -> sized_rel 1 (fst zc) (fst zc') -> snd zc' = snd zc ->
  GAlgRel 1 (grid_final st P cc rc oof zc) (grid_final st' P' cc rc oof' zc').
Proof. exact (grid_final_rel 1 Q01 st st' P P' cc rc oof oof' zc zc'). Qed.
