(* C11 -- geometry records, style dimensions and their resolution: the hand-written vocabulary that the
   generated kernels (Gen/AbsPosGen.v) are expressed in.  Definitions only.
   Mirrors: src/geometry.rs (Rect/Size/Point/Line/InBothAbsAxis, map, *_components, sum_axes, Add/Sub impls,
   Size::{unwrap_or, or, f32_max}, From<Point> for Size), src/util/resolve.rs + src/style/dimension.rs
   (maybe_resolve / resolve_to_option / resolve_or_zero of Dimension, LengthPercentageAuto, LengthPercentage:
   one `Dim` type serves the three, a LengthPercentage is simply never DAuto).
   The MaybeMath impls, maybe_apply_aspect_ratio and the flex-direction accessors are NOT here: they are
   translated from source into Gen/AbsPosGen.v. *)
From Coq Require Import ZArith NArith QArith Bool List.
From TV Require Import Num.Num Gen.AbsPosEnums.
Set Implicit Arguments.

Record Size (A : Type) := mkSize { s_width : A; s_height : A }.
Record Rect (A : Type) := mkRect { r_left : A; r_right : A; r_top : A; r_bottom : A }.
Record Point (A : Type) := mkPoint { p_x : A; p_y : A }.
Record Line (A : Type) := mkLine { l_start : A; l_end : A }.
Record InBoth (A : Type) := mkInBoth { ib_horizontal : A; ib_vertical : A }.

Definition size_map {A B} (f : A -> B) (s : Size A) : Size B := mkSize (f (s_width s)) (f (s_height s)).
Definition rect_map {A B} (f : A -> B) (r : Rect A) : Rect B :=
  mkRect (f (r_left r)) (f (r_right r)) (f (r_top r)) (f (r_bottom r)).
Definition line_map {A B} (f : A -> B) (l : Line A) : Line B := mkLine (f (l_start l)) (f (l_end l)).
Definition point_map {A B} (f : A -> B) (p : Point A) : Point B := mkPoint (f (p_x p)) (f (p_y p)).
Definition size_zip2 {A B C} (f : A -> B -> C) (a : Size A) (b : Size B) : Size C :=
  mkSize (f (s_width a) (s_width b)) (f (s_height a) (s_height b)).
Definition size_zip3 {A B C D} (f : A -> B -> C -> D) (a : Size A) (b : Size B) (c : Size C) : Size D :=
  mkSize (f (s_width a) (s_width b) (s_width c)) (f (s_height a) (s_height b) (s_height c)).
Definition size_set_width {A} (s : Size A) (v : A) : Size A := mkSize v (s_height s).
Definition size_set_height {A} (s : Size A) (v : A) : Size A := mkSize (s_width s) v.
Definition rect_horizontal_components {A} (r : Rect A) : Line A := mkLine (r_left r) (r_right r).
Definition rect_vertical_components {A} (r : Rect A) : Line A := mkLine (r_top r) (r_bottom r).
Definition point_to_size {A} (p : Point A) : Size A := mkSize (p_x p) (p_y p).
Definition opt_or {A} (a b : option A) : option A := match a with Some _ => a | None => b end.
Definition opt_unwrap_or {A} (a : option A) (d : A) : A := match a with Some x => x | None => d end.
Definition opt_is_some {A} (a : option A) : bool := match a with Some _ => true | None => false end.
Definition opt_is_none {A} (a : option A) : bool := match a with Some _ => false | None => true end.
Definition size_unwrap_or {A} (s : Size (option A)) (alt : Size A) : Size A := size_zip2 (@opt_unwrap_or A) s alt.
Definition size_or {A} (s alt : Size (option A)) : Size (option A) := size_zip2 (@opt_or A) s alt.
Definition b2n (b : bool) : N := if b then 1%N else 0%N.

Section WithNum.
  Context {T : Type} `{Num T}.

  Definition rect_add (a b : Rect T) : Rect T :=
    mkRect (add (r_left a) (r_left b)) (add (r_right a) (r_right b)) (add (r_top a) (r_top b)) (add (r_bottom a) (r_bottom b)).
  Definition size_sub (a b : Size T) : Size T := mkSize (sub (s_width a) (s_width b)) (sub (s_height a) (s_height b)).
  Definition size_add (a b : Size T) : Size T := mkSize (add (s_width a) (s_width b)) (add (s_height a) (s_height b)).
  Definition rect_horizontal_axis_sum (r : Rect T) : T := add (r_left r) (r_right r).
  Definition rect_vertical_axis_sum (r : Rect T) : T := add (r_top r) (r_bottom r).
  Definition rect_sum_axes (r : Rect T) : Size T := mkSize (rect_horizontal_axis_sum r) (rect_vertical_axis_sum r).
  Definition line_sum (l : Line T) : T := add (l_start l) (l_end l).
  Definition size_zero : Size T := mkSize zero zero.
  Definition size_f32_max (a b : Size T) : Size T := mkSize (fmax (s_width a) (s_width b)) (fmax (s_height a) (s_height b)).
  Definition u8_as_f32 (n : N) : T := of_Z (Z.of_N n).

  (* Dimension / LengthPercentageAuto / LengthPercentage *)
  Inductive Dim := DAuto | DLength (v : T) | DPercent (p : T).
  (* MaybeResolve<Option<f32>, Option<f32>>: `context.map(|dim| dim * self.0.value())` *)
  Definition dim_maybe_resolve (d : Dim) (ctx : option T) : option T :=
    match d with
    | DAuto => None
    | DLength v => Some v
    | DPercent p => match ctx with Some dim => Some (mul dim p) | None => None end
    end.
  (* LengthPercentageAuto::resolve_to_option(context: f32): `Some(context * self.0.value())` *)
  Definition dim_resolve_to_option (d : Dim) (ctx : T) : option T :=
    match d with
    | DAuto => None
    | DLength v => Some v
    | DPercent p => Some (mul ctx p)
    end.
  Definition dim_resolve_or_zero (d : Dim) (ctx : option T) : T := opt_unwrap_or (dim_maybe_resolve d ctx) zero.
End WithNum.
Arguments Dim : clear implicits.
Arguments DAuto {T}.
Arguments DLength {T} v.
Arguments DPercent {T} p.

(* ---- the interfaces of the generated kernels (Gen/AbsPosGen.v) *)
(* the style of the absolutely positioned child, as the accessors of CoreStyle / *ItemStyle return it *)
Record AbsStyle (T : Type) := mkAbsStyle {
  st_size : Size (Dim T); st_min_size : Size (Dim T); st_max_size : Size (Dim T);
  st_inset : Rect (Dim T); st_margin : Rect (Dim T); st_padding : Rect (Dim T); st_border : Rect (Dim T);
  st_aspect_ratio : option T; st_box_sizing : BoxSizing;
  st_align_self : option AlignItems; st_justify_self : option AlignItems; st_position : Position }.

(* what <kind>_resolve computes from the style: every value that depends on `child_style` *)
Record AbsIn (T : Type) := mkAbsIn {
  ai_aspect_ratio : option T;
  ai_margin : Rect (option T);          (* None = auto *)
  ai_inset : Rect (option T);           (* None = auto; left/right/top/bottom *)
  ai_padding : Rect T; ai_border : Rect T;
  ai_pb_sum : Size T;                   (* padding_border_sum *)
  ai_size : Size (option T);            (* style size: resolved, aspect ratio applied, box-sizing adjusted *)
  ai_min0 : Size (option T);            (* min size: resolved (+ aspect ratio in block/flex), box-sizing adjusted; before the padding+border floor *)
  ai_max : Size (option T);
  ai_align_self : option AlignItems; ai_justify_self : option AlignItems; ai_position : Position }.

(* the `location`, `size`, `margin` fields of the Layout passed to set_unrounded_layout *)
Record AbsOut (T : Type) := mkAbsOut { o_location : Point T; o_size : Size T; o_margin : Rect T }.

(* the fields of flexbox.rs `AlgoConstants` read by perform_absolute_layout_on_absolute_children *)
Record FlexConstants (T : Type) := mkFlexConstants {
  fc_container_size : Size T; fc_border : Rect T; fc_scrollbar_gutter : Point T; fc_content_box_inset : Rect T;
  fc_dir : FlexDirection; fc_is_row : bool; fc_is_wrap_reverse : bool;
  fc_justify_content : option AlignContent; fc_align_items : AlignItems }.
