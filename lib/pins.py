"""Pinned statements.  `coq/Props/EXPECTED.json` lists, for every property, every Theorem / Example of `coq/Props/Cxx.v`
with two hashes:

  stmt   sha256 of the statement text (comments stripped, whitespace normalised), from the keyword to the final period;
  defs   sha256 of the *definition closure* of the statement: every hand-written Definition / Fixpoint / Inductive / Record /
         Class / Instance / Notation-abbreviation / Variable / Hypothesis sentence (in coq/Num, Model, Proofs, Props -- not
         coq/Gen, which is regenerated from /repo and tracked by the translator fingerprints) whose name occurs in the
         statement, transitively.  Names are resolved textually among the files the Props file requires (transitively), so
         a name defined in several required files pulls in all of them (over-approximation: more sensitive, never less).

`check_props` (lib/common.py) recomputes both for the property being checked and reports a broken obligation (kind `pin`)
when a pinned theorem has disappeared, when a statement or anything in its definition closure has changed, or when the
Props file contains a theorem that is not pinned.  So a silently weakened statement -- or a silently weakened predicate the
statement is written with (`in_domain`, `run_ok`, `expected`, `leaf_spec`, ...) -- breaks the check until somebody
deliberately re-pins with `./check --write-pins` (and the diff of EXPECTED.json shows in review which statements moved).

RUNNERS.  The correspondence evaluates functions of `coq/Model/*Run.v` (`run_case`, ...): decoders, the call of the model, the
encoders.  They are mentioned by no theorem, so the statement pins do not see them -- a runner changed to print a constant (or the
implementation's expected answer) would keep every check green.  Section `runners` of EXPECTED.json therefore pins, for every
`Model/*Run.v` file, `text` = sha256 of ALL its sentences (comments stripped, whitespace normalised) and `defs` = sha256 of the
definition closure of that text (same machinery).  `verify_runners(pid)` recomputes the pins of the runners property `pid` uses --
the `Model.<Name>Run` modules named in lib/props/<pid>.py or in any lib module it imports (transitively) -- and `proof_stage`
reports a difference as a broken obligation of kind `pin`.

Not covered: string notations (`Notation "a =? b" := ...`, all in coq/Num/Num.v), `Ltac`, implicit-argument / scope
declarations, and opaque lemmas (they cannot change what a statement means)."""
import hashlib
import json
import os
import re

ROOT = os.path.dirname(os.path.dirname(os.path.abspath(__file__)))
COQ = os.path.join(ROOT, 'coq')
EXPECTED = os.path.join(COQ, 'Props', 'EXPECTED.json')
HAND_DIRS = ('Num', 'Model', 'Proofs', 'Props')

IDENT = re.compile(r"[A-Za-z_][A-Za-z0-9_']*")
ATTR = r"(?:(?:Local|Global|Polymorphic|Monomorphic|Program|Cumulative|NonCumulative|Private|#\[[^\]]*\])\s+)*"
DEF_KW = ('Definition|Fixpoint|CoFixpoint|Inductive|CoInductive|Variant|Record|Structure|Class|Instance|Let|Function|'
          'Notation|Abbreviation|Coercion|Variables?|Hypothes[ie]s|Parameters?|Axioms?|Equations')
HEAD = re.compile(r'^' + ATTR + r'(' + DEF_KW + r')\b\s*(.*)$', re.S)
STMT_HEAD = re.compile(r'^' + ATTR + r"(Theorem|Lemma|Example|Corollary|Proposition|Fact|Remark)\s+([A-Za-z_][A-Za-z0-9_']*)", re.S)
REQ = re.compile(r'^(?:From\s+TV\s+)?Require\s+(?:Import\s+|Export\s+)?(.*)$', re.S)


def strip_comments(src):
    out = []
    depth = 0
    i = 0
    instr = False
    while i < len(src):
        ch = src[i]
        if depth == 0 and ch == '"':
            instr = not instr
            out.append(ch)
            i += 1
        elif not instr and src.startswith('(*', i):
            depth += 1
            i += 2
        elif not instr and src.startswith('*)', i) and depth > 0:
            depth -= 1
            i += 2
            if depth == 0:
                out.append(' ')
        else:
            if depth == 0:
                out.append(ch)
            i += 1
    return ''.join(out)


def sentences(src):
    """Vernacular sentences of a .v file (comments stripped): text up to a period followed by whitespace / EOF."""
    code = strip_comments(src)
    res = []
    cur = []
    instr = False
    n = len(code)
    i = 0
    while i < n:
        ch = code[i]
        cur.append(ch)
        if ch == '"':
            instr = not instr
        elif ch == '.' and not instr and (i + 1 == n or code[i + 1] in ' \t\r\n') and not (i > 0 and code[i - 1] == '.'):
            s = ' '.join(''.join(cur).split())
            if s:
                res.append(s)
            cur = []
        i += 1
    s = ' '.join(''.join(cur).split())
    if s:
        res.append(s)
    return res


def defined_names(sentence):
    """Names a definition-like sentence introduces (definition names, mutual `with` names, constructors, record fields,
    variables).  Empty for anything else."""
    m = HEAD.match(sentence)
    if not m:
        return []
    kw, rest = m.group(1), m.group(2)
    names = []
    if kw.startswith('Variable') or kw.startswith('Hypothes') or kw.startswith('Parameter') or kw.startswith('Axiom'):
        # `Variables (a b : T) (c : U).` or `Variable a : T.`
        head = rest.split(':=')[0]
        for grp in re.findall(r'\(([^():]*):', head):
            names += IDENT.findall(grp)
        if not names:
            names += IDENT.findall(head.split(':')[0])
        return names
    if kw in ('Notation', 'Abbreviation'):
        m2 = re.match(r"([A-Za-z_][A-Za-z0-9_']*)", rest)      # only `Notation ident := ...` abbreviations
        return [m2.group(1)] if m2 else []
    m2 = re.match(r"([A-Za-z_][A-Za-z0-9_']*)", rest)
    if m2:
        names.append(m2.group(1))
    names += re.findall(r"\bwith\s+([A-Za-z_][A-Za-z0-9_']*)", rest)
    if kw in ('Inductive', 'CoInductive', 'Variant', 'Record', 'Structure', 'Class'):
        for body in rest.split(':=')[1:]:
            b = body.strip()
            m3 = re.match(r"\|?\s*([A-Za-z_][A-Za-z0-9_']*)", b)
            if m3:
                names.append(m3.group(1))               # first constructor / record constructor
            names += re.findall(r"\|\s*([A-Za-z_][A-Za-z0-9_']*)", b)
            names += re.findall(r"[{;]\s*([A-Za-z_][A-Za-z0-9_']*)\s*(?::|\()", b)     # record fields
    return names


class Index:
    """Definition sentences of the hand-written development, per file, and the Require graph."""

    def __init__(self):
        self.defs = {}      # rel file (without .v, dotted: Model.Cache) -> {name: [sentence, ...]}
        self.inst = {}      # rel file -> [Instance sentences]
        self.req = {}       # rel file -> [dotted module names it requires]
        self.sents = {}
        for d in HAND_DIRS:
            dd = os.path.join(COQ, d)
            if not os.path.isdir(dd):
                continue
            for fn in sorted(os.listdir(dd)):
                if not fn.endswith('.v'):
                    continue
                mod = '%s.%s' % (d, fn[:-2])
                ss = sentences(open(os.path.join(dd, fn)).read())
                self.sents[mod] = ss
                dn = {}
                inst = []
                req = []
                for s in ss:
                    r = REQ.match(s)
                    if r:
                        for tok in r.group(1).rstrip('.').split():
                            tok = tok.strip()
                            if tok.startswith('TV.'):
                                tok = tok[3:]
                            if re.match(r'^(Num|Gen|Model|Proofs|Props)\.[A-Za-z0-9_]+$', tok):
                                req.append(tok)
                        continue
                    h = HEAD.match(s)
                    if not h:
                        continue
                    if h.group(1) == 'Instance':
                        inst.append(s)
                    for nm in defined_names(s):
                        dn.setdefault(nm, []).append(s)
                self.defs[mod] = dn
                self.inst[mod] = inst
                self.req[mod] = req

    def closure_files(self, mod):
        seen = []
        todo = [mod]
        while todo:
            m = todo.pop()
            if m in seen or m not in self.defs:
                continue
            seen.append(m)
            todo += self.req.get(m, [])
        return seen

    def def_closure(self, mod, text):
        files = self.closure_files(mod)
        chosen = set()
        for f in files:
            chosen.update(self.inst[f])
        seen_tok = set()
        todo = [text] + sorted(chosen)
        while todo:
            t = todo.pop()
            for tok in set(IDENT.findall(t)):
                if tok in seen_tok:
                    continue
                seen_tok.add(tok)
                for f in files:
                    for s in self.defs[f].get(tok, ()):
                        if s not in chosen:
                            chosen.add(s)
                            todo.append(s)
        return sorted(chosen)


_IDX = []


def the_index():
    """One Index per process (the files do not change while a check verifies its pins)."""
    if not _IDX:
        _IDX.append(Index())
    return _IDX[0]


def h(text):
    return hashlib.sha256(text.encode()).hexdigest()[:20]


def props_of(idx, pid):
    """{'theorems': {name: {stmt, defs}}, 'examples': {...}} of coq/Props/<pid>.v as it is now."""
    mod = 'Props.%s' % pid
    out = {'theorems': {}, 'examples': {}}
    for s in idx.sents.get(mod, []):
        m = STMT_HEAD.match(s)
        if not m:
            continue
        kind, name = m.group(1), m.group(2)
        # inside a Section the statement also depends on the section's Context: add the Context sentences of the file
        ctx = ' '.join(x for x in idx.sents[mod] if re.match(r'^(Context|Variables?|Hypothes[ie]s)\b', x))
        clos = idx.def_closure(mod, s + ' ' + ctx)
        ent = {'stmt': h(s), 'defs': h('\n'.join(clos)), 'ndefs': len(clos)}
        out['theorems' if kind == 'Theorem' else 'examples'][name] = ent
    return out


LIB = os.path.join(ROOT, 'lib')
RUNNER_REF = re.compile(r'\bModel\.([A-Za-z0-9_]+Run)\b')


def runner_mods():
    return sorted('Model.' + fn[:-2] for fn in os.listdir(os.path.join(COQ, 'Model')) if fn.endswith('Run.v'))


def runner_pin(idx, mod):
    text = '\n'.join(idx.sents.get(mod, []))
    clos = idx.def_closure(mod, text)
    return {'text': h(text), 'defs': h('\n'.join(clos)), 'ndefs': len(clos)}


def _lib_files():
    """module name -> path, for lib/*.py and lib/props/*.py"""
    out = {}
    for d in (LIB, os.path.join(LIB, 'props')):
        for fn in sorted(os.listdir(d)):
            if fn.endswith('.py') and fn != '__init__.py':
                out[fn[:-3]] = os.path.join(d, fn)
    return out


def runners_of(pid):
    """The `Model.<Name>Run` modules property pid's check evaluates: named in lib/props/<pid>.py or in a lib module it imports
    (import lines are matched textually, anywhere in the file -- several checks import their helper inside `run`)."""
    files = _lib_files()
    start = pid.lower()
    if start not in files:
        return []
    seen, todo, found = set(), [start], set()
    while todo:
        m = todo.pop()
        if m in seen:
            continue
        seen.add(m)
        src = open(files[m]).read()
        found.update('Model.' + r for r in RUNNER_REF.findall(src))
        for line in src.split('\n'):
            ls = line.strip()
            if not (ls.startswith('from ') or ls.startswith('import ')):
                continue
            for tok in IDENT.findall(ls):
                if tok in files and tok not in seen:
                    todo.append(tok)
    return sorted(found)


def runner_users():
    """runner module -> properties whose check evaluates it (for the evidence / for humans)."""
    out = {}
    for pid in all_pids():
        for r in runners_of(pid):
            out.setdefault(r, []).append(pid)
    return out


def verify_runners(pid):
    """[(runner, problem)] for the runners property pid uses."""
    try:
        exp = json.load(open(EXPECTED)).get('runners')
    except (OSError, ValueError) as ex:
        return [('EXPECTED.json', 'cannot read coq/Props/EXPECTED.json: %s' % ex)]
    if exp is None:
        return [('EXPECTED.json', 'no section `runners` in coq/Props/EXPECTED.json')]
    used = runners_of(pid)
    if not used:
        return []
    idx = the_index()
    bad = []
    for r in used:
        if r not in idx.sents:
            bad.append((r, 'runner named by the check of %s does not exist (coq/%s.v)' % (pid, r.replace('.', '/'))))
        elif r not in exp:
            bad.append((r, 'runner is not pinned (new or renamed)'))
        else:
            now = runner_pin(idx, r)
            if now['text'] != exp[r]['text']:
                bad.append((r, 'the text of the runner file differs from the pinned one'))
            elif now['defs'] != exp[r]['defs']:
                bad.append((r, 'a definition the runner is written with (transitively) differs from the pinned one'))
    return bad


def all_pids():
    return sorted(fn[:-2] for fn in os.listdir(os.path.join(COQ, 'Props')) if re.match(r'^C\d\d\.v$', fn))


def write_pins():
    idx = Index()
    data = {'comment': 'generated by ./check --write-pins (lib/pins.py); verified by lib/common.py:check_props on every run',
            'properties': {pid: props_of(idx, pid) for pid in all_pids()},
            'runners': {}}
    users = runner_users()
    data['runners'] = {r: dict(runner_pin(idx, r), used_by=users.get(r, [])) for r in runner_mods()}
    with open(EXPECTED, 'w') as f:
        json.dump(data, f, indent=1, sort_keys=True)
        f.write('\n')
    return data


def verify(pid):
    """List of (name, problem) for property pid; empty when the Props file matches the pins."""
    try:
        exp = json.load(open(EXPECTED))['properties']
    except (OSError, ValueError, KeyError) as ex:
        return [('EXPECTED.json', 'cannot read coq/Props/EXPECTED.json: %s' % ex)]
    if pid not in exp:
        return [(pid, 'no pinned statements for this property in coq/Props/EXPECTED.json')]
    now = props_of(the_index(), pid)
    bad = []
    for kind in ('theorems', 'examples'):
        e, n = exp[pid].get(kind, {}), now[kind]
        for name in sorted(e):
            if name not in n:
                bad.append((name, 'pinned %s is no longer in Props/%s.v' % (kind[:-1], pid)))
            elif e[name]['stmt'] != n[name]['stmt']:
                bad.append((name, 'statement text differs from the pinned one'))
            elif e[name]['defs'] != n[name]['defs']:
                bad.append((name, 'a definition the statement is written with (transitively) differs from the pinned one'))
        for name in sorted(n):
            if name not in e:
                bad.append((name, '%s is not pinned (new or renamed)' % kind[:-1]))
    return bad


if __name__ == '__main__':
    import sys
    if len(sys.argv) > 1 and sys.argv[1] == 'write':
        d = write_pins()
        print('pinned %d theorems, %d examples' % (sum(len(v['theorems']) for v in d['properties'].values()),
                                                  sum(len(v['examples']) for v in d['properties'].values())))
    else:
        for p in (sys.argv[1:] or all_pids()):
            for name, why in verify(p) + verify_runners(p):
                print(p, name, why)
