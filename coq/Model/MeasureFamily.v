(* The measure functions of the harness (harness/src/treegen.rs `measure`), transcribed over `Num` so that the Coq side
   of a correspondence check evaluates exactly what the Rust side ran.  Definitions only. *)
From Coq Require Import ZArith List.
From TV Require Import Model.Common.

Inductive MeasureCtx (T : Type) : Type :=
  | MNone                       (* no context: Size::ZERO *)
  | MFixed (w h : T)            (* fixed intrinsic size *)
  | MText (n : Z) (unit : T)    (* n glyphs of unit x unit wrapping at the available width *)
  | MEcho (base : T).           (* width = known | min(available, base), height = width / 2 *)
Arguments MNone {T}. Arguments MFixed {T}. Arguments MText {T}. Arguments MEcho {T}.

Section MeasureFamily.
  Context {T : Type} `{Num T}.

  Definition family_measure (ctx : MeasureCtx T) (known : Size (option T)) (avail : Size (AvailableSpace T)) : Size T :=
    match width known, height known with
    | Some w, Some h => mkSize w h
    | _, _ =>
        let r :=
          match ctx with
          | MNone => mkSize zero zero
          | MFixed w h => mkSize w h
          | MText n unit =>
              let n := of_Z n in
              let max_w := mul n unit in
              let w := opt_unwrap_or (width known)
                         (match width avail with
                          | MinContent => unit
                          | MaxContent => max_w
                          | Definite a => fmax (fmin a max_w) unit
                          end) in
              let per_line := fmax (ffloor (div w unit)) one in
              let lines := fmax (fceil (div n per_line)) one in
              mkSize w (mul lines unit)
          | MEcho base =>
              let w := opt_unwrap_or (width known)
                         (match width avail with
                          | Definite a => fmin a base
                          | _ => base
                          end) in
              mkSize w (div w two)
          end in
        mkSize (opt_unwrap_or (width known) (width r)) (opt_unwrap_or (height known) (height r))
    end.
End MeasureFamily.
