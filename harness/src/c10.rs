//! C10: block flow -- stacking order, fill width, sibling margin collapse.
//!
//! `vh c10 cases <seed> <n>`      K: a block container (root) whose children are leaves; `C` = available space + encoded
//!                                styles, `R` = unrounded layouts as bit patterns (through the public TaffyTree API)
//! `vh c10 case <seed> <idx>`     one K case again (replay) + its tree
//! `vh c10 check-case <seed> <idx>`  the three clauses of the property on one K case (decides a K disagreement on the implementation)
//! `vh c10 oracle <seed> <n>`     search: the three clauses on random block containers with nested block/flex/grid children;
//!                                prints `FAIL <idx> <msg>`, or `KNOWN <idx> <class> <msg>` when the failure is in a known class
//! `vh c10 oracle-one <seed> <idx>`  one oracle case, verbose
//! `vh c10 witness`               the recorded known finding (percentage height + collapse-through)
//!
//! The oracle lays trees out through the public low-level API (compute_root_layout / compute_block_layout / ... on a
//! tree type of its own) so that it can observe the LayoutOutput each child returned (margin sets, collapse-through flag).
use crate::f32ops::canon;
use crate::rng::Rng;
use crate::treegen::{self, Ctx, GenCfg, NodeSpec};
use taffy::prelude::*;
use taffy::{
    compute_block_layout, compute_cached_layout, compute_flexbox_layout, compute_grid_layout, compute_hidden_layout,
    compute_leaf_layout, compute_root_layout, BoxSizing, Cache, CacheTree, CompactLength, Layout, LayoutInput,
    LayoutOutput, Overflow, Point, Rect, RunMode, TextAlign,
};

// ------------------------------------------------------------------------------------------------ encoding

fn enc_raw(c: CompactLength, out: &mut Vec<u64>) {
    let t = c.tag();
    if t == CompactLength::LENGTH_TAG {
        out.push(0);
        out.push(canon(c.value()));
    } else if t == CompactLength::PERCENT_TAG {
        out.push(1);
        out.push(canon(c.value()));
    } else if t == CompactLength::AUTO_TAG {
        out.push(2);
        out.push(0);
    } else {
        panic!("c10: style value outside the modelled class");
    }
}

fn enc_overflow(o: Overflow) -> u64 {
    match o {
        Overflow::Visible => 0,
        Overflow::Clip => 1,
        Overflow::Hidden => 2,
        Overflow::Scroll => 3,
    }
}

/// 57 integers per node; layout documented in coq/Model/BlockRun.v (dec_style)
fn enc_style(s: &Style, ctx: &Option<Ctx>, out: &mut Vec<u64>) {
    let n0 = out.len();
    enc_style_core(s, out);
    match ctx {
        None => out.extend([0, 0, 0]),
        Some(Ctx::Fixed(w, h)) => out.extend([1, canon(*w), canon(*h)]),
        Some(_) => panic!("c10: measure context outside the modelled class"),
    }
    assert_eq!(out.len() - n0, 57);
}

/// the 54 style integers of `enc_style` (everything but the measure data); also used by `vh blocktree`
pub fn enc_style_core(s: &Style, out: &mut Vec<u64>) {
    let n0 = out.len();
    out.push(match s.display {
        Display::Block => 0,
        Display::Flex => 1,
        Display::Grid => 2,
        Display::None => 3,
    });
    out.push(s.item_is_table as u64);
    out.push((s.box_sizing == BoxSizing::ContentBox) as u64);
    out.push(enc_overflow(s.overflow.x));
    out.push(enc_overflow(s.overflow.y));
    out.push(canon(s.scrollbar_width));
    out.push((s.position == Position::Absolute) as u64);
    for v in [s.inset.left, s.inset.right, s.inset.top, s.inset.bottom] {
        enc_raw(v.into_raw(), out);
    }
    for sz in [s.size, s.min_size, s.max_size] {
        enc_raw(sz.width.into_raw(), out);
        enc_raw(sz.height.into_raw(), out);
    }
    match s.aspect_ratio {
        Some(r) => {
            out.push(1);
            out.push(canon(r));
        }
        None => {
            out.push(0);
            out.push(0);
        }
    }
    for v in [s.margin.left, s.margin.right, s.margin.top, s.margin.bottom] {
        enc_raw(v.into_raw(), out);
    }
    for v in [s.padding.left, s.padding.right, s.padding.top, s.padding.bottom] {
        enc_raw(v.into_raw(), out);
    }
    for v in [s.border.left, s.border.right, s.border.top, s.border.bottom] {
        enc_raw(v.into_raw(), out);
    }
    out.push(match s.text_align {
        TextAlign::Auto => 0,
        TextAlign::LegacyLeft => 1,
        TextAlign::LegacyRight => 2,
        TextAlign::LegacyCenter => 3,
    });
    assert_eq!(out.len() - n0, 54);
}

fn enc_avail(a: AvailableSpace, out: &mut Vec<u64>) {
    match a {
        AvailableSpace::Definite(v) => out.extend([0, canon(v)]),
        AvailableSpace::MinContent => out.extend([1, 0]),
        AvailableSpace::MaxContent => out.extend([2, 0]),
    }
}

// ------------------------------------------------------------------------------------------------ K case generator

fn kval(rng: &mut Rng, frac: bool, max: u64) -> f32 {
    if frac {
        rng.below(max * 10 + 1) as f32 / 10.0
    } else {
        rng.below(max * 4 + 1) as f32 / 4.0
    }
}

fn kpct(rng: &mut Rng) -> f32 {
    *rng.pick(&[0.0, 0.1, 0.125, 0.25, 0.5, 0.75, 1.0])
}

fn kdim(rng: &mut Rng, frac: bool, p_auto: u64, p_pct: u64, max: u64) -> Dimension {
    let r = rng.below(100);
    if r < p_auto {
        Dimension::auto()
    } else if r < p_auto + p_pct {
        Dimension::percent(kpct(rng))
    } else {
        Dimension::length(kval(rng, frac, max))
    }
}

fn klp(rng: &mut Rng, frac: bool, max: u64) -> LengthPercentage {
    if rng.chance(1, 8) {
        LengthPercentage::percent(*rng.pick(&[0.0, 0.05, 0.0625, 0.125]))
    } else {
        LengthPercentage::length(kval(rng, frac, max))
    }
}

fn kmargin(rng: &mut Rng, frac: bool) -> LengthPercentageAuto {
    match rng.below(20) {
        0..=4 => LengthPercentageAuto::length(0.0),
        5..=11 => LengthPercentageAuto::length(kval(rng, frac, 20)),
        12..=15 => LengthPercentageAuto::length(-kval(rng, frac, 20)),
        16 => LengthPercentageAuto::percent(*rng.pick(&[0.05, 0.125, 0.25])),
        17 => LengthPercentageAuto::percent(-*rng.pick(&[0.05, 0.125, 0.25])),
        _ => LengthPercentageAuto::auto(),
    }
}

fn koverflow(rng: &mut Rng) -> Overflow {
    *rng.pick(&[Overflow::Visible, Overflow::Clip, Overflow::Hidden, Overflow::Scroll])
}

fn kroot(rng: &mut Rng, frac: bool) -> Style {
    let mut s = Style { display: Display::Block, ..Default::default() };
    s.size = Size { width: kdim(rng, frac, 40, 20, 300), height: kdim(rng, frac, 40, 15, 200) };
    if rng.chance(15, 100) {
        s.min_size = Size { width: kdim(rng, frac, 50, 10, 150), height: kdim(rng, frac, 50, 10, 150) };
    }
    if rng.chance(15, 100) {
        s.max_size = Size { width: kdim(rng, frac, 50, 10, 300), height: kdim(rng, frac, 50, 10, 300) };
    }
    if rng.chance(40, 100) {
        s.padding = Rect { left: klp(rng, frac, 10), right: klp(rng, frac, 10), top: klp(rng, frac, 10), bottom: klp(rng, frac, 10) };
    }
    if rng.chance(30, 100) {
        s.border = Rect { left: klp(rng, frac, 5), right: klp(rng, frac, 5), top: klp(rng, frac, 5), bottom: klp(rng, frac, 5) };
    }
    if rng.chance(25, 100) {
        s.box_sizing = BoxSizing::ContentBox;
    }
    if rng.chance(15, 100) {
        s.overflow = Point { x: koverflow(rng), y: koverflow(rng) };
        s.scrollbar_width = kval(rng, frac, 16);
    }
    s.text_align = *rng.pick(&[TextAlign::Auto, TextAlign::Auto, TextAlign::LegacyLeft, TextAlign::LegacyRight, TextAlign::LegacyCenter]);
    if rng.chance(15, 100) {
        s.margin = Rect { left: kmargin(rng, frac), right: kmargin(rng, frac), top: kmargin(rng, frac), bottom: kmargin(rng, frac) };
    }
    if rng.chance(5, 100) {
        s.aspect_ratio = Some(*rng.pick(&[0.5, 2.0, 1.5]));
    }
    s
}

fn kchild(rng: &mut Rng, frac: bool) -> NodeSpec {
    let mut s = Style::default();
    s.display = match rng.below(100) {
        0..=69 => Display::Block,
        70..=79 => Display::Flex,
        80..=89 => Display::Grid,
        90..=97 => Display::None,
        _ => Display::Block,
    };
    if rng.chance(10, 100) {
        // absolutely positioned child of the restricted class: definite size, all insets auto, length margins
        s.position = Position::Absolute;
        s.size = Size { width: Dimension::length(kval(rng, frac, 60)), height: Dimension::length(kval(rng, frac, 60)) };
        let mut m = |rng: &mut Rng| {
            if rng.chance(1, 2) {
                LengthPercentageAuto::length(0.0)
            } else if rng.chance(1, 3) {
                LengthPercentageAuto::length(-kval(rng, frac, 10))
            } else {
                LengthPercentageAuto::length(kval(rng, frac, 10))
            }
        };
        s.margin = Rect { left: m(rng), right: m(rng), top: m(rng), bottom: m(rng) };
        return NodeSpec { style: s, ctx: None, children: vec![] };
    }
    s.size.width = kdim(rng, frac, 50, 15, 150);
    s.size.height = match rng.below(100) {
        0..=34 => Dimension::auto(),
        35..=59 => Dimension::length(kval(rng, frac, 80)),
        60..=79 => Dimension::length(0.0),
        _ => Dimension::percent(*rng.pick(&[0.0, 0.25, 0.5])),
    };
    if rng.chance(15, 100) {
        s.min_size = Size { width: kdim(rng, frac, 50, 10, 100), height: kdim(rng, frac, 50, 10, 40) };
    }
    if rng.chance(15, 100) {
        s.max_size = Size { width: kdim(rng, frac, 50, 10, 200), height: kdim(rng, frac, 50, 10, 100) };
    }
    if rng.chance(65, 100) {
        s.margin = Rect { left: kmargin(rng, frac), right: kmargin(rng, frac), top: kmargin(rng, frac), bottom: kmargin(rng, frac) };
    }
    if rng.chance(20, 100) {
        s.padding = Rect { left: klp(rng, frac, 8), right: klp(rng, frac, 8), top: klp(rng, frac, 8), bottom: klp(rng, frac, 8) };
    }
    if rng.chance(15, 100) {
        s.border = Rect { left: klp(rng, frac, 4), right: klp(rng, frac, 4), top: klp(rng, frac, 4), bottom: klp(rng, frac, 4) };
    }
    if rng.chance(20, 100) {
        s.box_sizing = BoxSizing::ContentBox;
    }
    if rng.chance(12, 100) {
        s.overflow = Point { x: koverflow(rng), y: koverflow(rng) };
        s.scrollbar_width = kval(rng, frac, 12);
    }
    if rng.chance(5, 100) {
        s.aspect_ratio = Some(*rng.pick(&[0.5, 2.0, 4.0]));
    }
    if rng.chance(5, 100) {
        s.item_is_table = true;
    }
    if rng.chance(10, 100) {
        let mut f = |rng: &mut Rng| match rng.below(5) {
            0 | 1 => LengthPercentageAuto::auto(),
            2 => LengthPercentageAuto::length(kval(rng, frac, 15)),
            3 => LengthPercentageAuto::length(-kval(rng, frac, 15)),
            _ => LengthPercentageAuto::percent(*rng.pick(&[0.1, -0.25, 0.5])),
        };
        s.inset = Rect { left: f(rng), right: f(rng), top: f(rng), bottom: f(rng) };
    }
    let ctx = if rng.chance(45, 100) {
        None
    } else {
        let h = if rng.chance(30, 100) { 0.0 } else { kval(rng, frac, 60) };
        Some(Ctx::Fixed(kval(rng, frac, 120), h))
    };
    NodeSpec { style: s, ctx, children: vec![] }
}

pub fn kcase(seed: u64, idx: u64) -> (NodeSpec, Size<AvailableSpace>) {
    let mut rng = Rng::new(seed.wrapping_mul(0x51_7C_C1_B7).wrapping_add(idx).wrapping_add(0xC10));
    let frac = idx % 2 == 1;
    let style = kroot(&mut rng, frac);
    let n = 1 + rng.below(7) as usize;
    let children = (0..n).map(|_| kchild(&mut rng, frac)).collect();
    let mut one = |rng: &mut Rng| match rng.below(10) {
        0 | 1 => AvailableSpace::MinContent,
        2 | 3 => AvailableSpace::MaxContent,
        _ => AvailableSpace::Definite(kval(rng, frac, 400)),
    };
    let avail = Size { width: one(&mut rng), height: one(&mut rng) };
    (NodeSpec { style, ctx: None, children }, avail)
}

fn kcase_lines(spec: &NodeSpec, avail: Size<AvailableSpace>) -> (String, String) {
    let mut c: Vec<u64> = vec![];
    enc_avail(avail.width, &mut c);
    enc_avail(avail.height, &mut c);
    c.push(spec.children.len() as u64);
    enc_style(&spec.style, &None, &mut c);
    for ch in &spec.children {
        enc_style(&ch.style, &ch.ctx, &mut c);
    }
    let mut t: TaffyTree<Ctx> = TaffyTree::new();
    t.disable_rounding();
    let mut ids = vec![];
    let root = treegen::build(&mut t, spec, &mut ids);
    treegen::compute(&mut t, root, avail);
    let rl = *t.unrounded_layout(root);
    let live_abs = spec.children.iter().any(|c| c.style.position == Position::Absolute && c.style.display != Display::None);
    let mut r: Vec<u64> = vec![canon(rl.size.width), canon(rl.size.height)];
    if live_abs {
        r.extend([0, 0]);
    } else {
        r.extend([canon(rl.content_size.width), canon(rl.content_size.height)]);
    }
    for (i, ch) in spec.children.iter().enumerate() {
        let l = *t.unrounded_layout(ids[1 + i]);
        r.push(l.order as u64);
        if ch.style.display == Display::None {
            // Layout::with_order: everything else must be zero
            let all_zero = treegen::layout_bits(&l)[1..].iter().all(|b| *b == 0);
            r.extend(std::iter::repeat(if all_zero { 0 } else { 1 }).take(18));
        } else if ch.style.position == Position::Absolute {
            r.extend([canon(l.location.x), canon(l.location.y)]);
            r.extend(std::iter::repeat(0).take(16));
        } else {
            r.extend([canon(l.location.x), canon(l.location.y), canon(l.size.width), canon(l.size.height)]);
            r.extend([canon(l.margin.left), canon(l.margin.right), canon(l.margin.top), canon(l.margin.bottom)]);
            r.extend([canon(l.scrollbar_size.width), canon(l.scrollbar_size.height)]);
            r.extend([canon(l.padding.left), canon(l.padding.right), canon(l.padding.top), canon(l.padding.bottom)]);
            r.extend([canon(l.border.left), canon(l.border.right), canon(l.border.top), canon(l.border.bottom)]);
        }
    }
    let j = |v: &Vec<u64>| v.iter().map(|x| x.to_string()).collect::<Vec<_>>().join(" ");
    (format!("C {}", j(&c)), format!("R {}", j(&r)))
}

// ------------------------------------------------------------------------------------------------ recording tree

struct RNode {
    style: Style,
    ctx: Option<Ctx>,
    children: Vec<usize>,
    cache: Cache,
    unrounded: Layout,
    fin: Layout,
}

pub struct RecTree {
    nodes: Vec<RNode>,
    /// every call of compute_child_layout (answered by the cache or not) with what it returned
    log: Vec<(u64, usize, LayoutInput, LayoutOutput)>,
    /// only the calls that actually ran a layout algorithm (cache misses)
    runs: Vec<(u64, usize, LayoutInput)>,
    /// event counter stamping both lists (a run is stamped when it starts, a call when it returns)
    seq: u64,
}

impl RecTree {
    fn new() -> Self {
        RecTree { nodes: vec![], log: vec![], runs: vec![], seq: 0 }
    }
    fn add(&mut self, spec: &NodeSpec) -> usize {
        let idx = self.nodes.len();
        self.nodes.push(RNode {
            style: spec.style.clone(),
            ctx: if spec.children.is_empty() { spec.ctx.clone() } else { None },
            children: vec![],
            cache: Cache::new(),
            unrounded: Layout::with_order(0),
            fin: Layout::with_order(0),
        });
        let kids: Vec<usize> = spec.children.iter().map(|c| self.add(c)).collect();
        self.nodes[idx].children = kids;
        idx
    }
}

pub struct RChildIter<'a>(std::slice::Iter<'a, usize>);
impl Iterator for RChildIter<'_> {
    type Item = NodeId;
    fn next(&mut self) -> Option<NodeId> {
        self.0.next().copied().map(NodeId::from)
    }
}

impl taffy::TraversePartialTree for RecTree {
    type ChildIter<'a> = RChildIter<'a>;
    fn child_ids(&self, n: NodeId) -> Self::ChildIter<'_> {
        RChildIter(self.nodes[usize::from(n)].children.iter())
    }
    fn child_count(&self, n: NodeId) -> usize {
        self.nodes[usize::from(n)].children.len()
    }
    fn get_child_id(&self, n: NodeId, i: usize) -> NodeId {
        NodeId::from(self.nodes[usize::from(n)].children[i])
    }
}
impl taffy::TraverseTree for RecTree {}

impl taffy::LayoutPartialTree for RecTree {
    type CoreContainerStyle<'a>
        = &'a Style
    where
        Self: 'a;
    fn get_core_container_style(&self, n: NodeId) -> &Style {
        &self.nodes[usize::from(n)].style
    }
    fn set_unrounded_layout(&mut self, n: NodeId, layout: &Layout) {
        self.nodes[usize::from(n)].unrounded = *layout;
    }
    fn resolve_calc_value(&self, _val: *const (), _basis: f32) -> f32 {
        0.0
    }
    fn compute_child_layout(&mut self, n: NodeId, inputs: LayoutInput) -> LayoutOutput {
        if inputs.run_mode == RunMode::PerformHiddenLayout {
            return compute_hidden_layout(self, n);
        }
        let out = compute_cached_layout(self, n, inputs, |tree, n, inputs| {
            let i = usize::from(n);
            tree.seq += 1;
            tree.runs.push((tree.seq, i, inputs));
            let display = tree.nodes[i].style.display;
            let has_children = !tree.nodes[i].children.is_empty();
            match (display, has_children) {
                (Display::None, _) => compute_hidden_layout(tree, n),
                (Display::Block, true) => compute_block_layout(tree, n, inputs),
                (Display::Flex, true) => compute_flexbox_layout(tree, n, inputs),
                (Display::Grid, true) => compute_grid_layout(tree, n, inputs),
                (_, false) => {
                    let RNode { style, ctx, .. } = &mut tree.nodes[i];
                    compute_leaf_layout(inputs, &*style, |_, _| 0.0, |kd, av| treegen::measure(kd, av, ctx.as_mut()))
                }
            }
        });
        self.seq += 1;
        self.log.push((self.seq, usize::from(n), inputs, out));
        out
    }
}

impl CacheTree for RecTree {
    fn cache_get(&self, n: NodeId, kd: Size<Option<f32>>, av: Size<AvailableSpace>, rm: RunMode) -> Option<LayoutOutput> {
        self.nodes[usize::from(n)].cache.get(kd, av, rm)
    }
    fn cache_store(&mut self, n: NodeId, kd: Size<Option<f32>>, av: Size<AvailableSpace>, rm: RunMode, out: LayoutOutput) {
        self.nodes[usize::from(n)].cache.store(kd, av, rm, out)
    }
    fn cache_clear(&mut self, n: NodeId) {
        self.nodes[usize::from(n)].cache.clear();
    }
}

impl taffy::LayoutBlockContainer for RecTree {
    type BlockContainerStyle<'a>
        = &'a Style
    where
        Self: 'a;
    type BlockItemStyle<'a>
        = &'a Style
    where
        Self: 'a;
    fn get_block_container_style(&self, n: NodeId) -> &Style {
        &self.nodes[usize::from(n)].style
    }
    fn get_block_child_style(&self, n: NodeId) -> &Style {
        &self.nodes[usize::from(n)].style
    }
}
impl taffy::LayoutFlexboxContainer for RecTree {
    type FlexboxContainerStyle<'a>
        = &'a Style
    where
        Self: 'a;
    type FlexboxItemStyle<'a>
        = &'a Style
    where
        Self: 'a;
    fn get_flexbox_container_style(&self, n: NodeId) -> &Style {
        &self.nodes[usize::from(n)].style
    }
    fn get_flexbox_child_style(&self, n: NodeId) -> &Style {
        &self.nodes[usize::from(n)].style
    }
}
impl taffy::LayoutGridContainer for RecTree {
    type GridContainerStyle<'a>
        = &'a Style
    where
        Self: 'a;
    type GridItemStyle<'a>
        = &'a Style
    where
        Self: 'a;
    fn get_grid_container_style(&self, n: NodeId) -> &Style {
        &self.nodes[usize::from(n)].style
    }
    fn get_grid_child_style(&self, n: NodeId) -> &Style {
        &self.nodes[usize::from(n)].style
    }
}
impl taffy::RoundTree for RecTree {
    fn get_unrounded_layout(&self, n: NodeId) -> &Layout {
        &self.nodes[usize::from(n)].unrounded
    }
    fn set_final_layout(&mut self, n: NodeId, layout: &Layout) {
        self.nodes[usize::from(n)].fin = *layout;
    }
}

// ------------------------------------------------------------------------------------------------ the property, stated on layouts

/// a margin set as the property text describes it: the most positive and the most negative adjoining margin
#[derive(Clone, Copy, Debug, PartialEq)]
struct MS {
    pos: f32,
    neg: f32,
}
impl MS {
    const ZERO: MS = MS { pos: 0.0, neg: 0.0 };
    fn of(m: f32) -> MS {
        if m >= 0.0 {
            MS { pos: m, neg: 0.0 }
        } else {
            MS { pos: 0.0, neg: m }
        }
    }
    /// both a positive and a negative adjoining margin
    fn mixed(self) -> bool {
        self.pos > 0.0 && self.neg < 0.0
    }
    fn union(self, o: MS) -> MS {
        MS { pos: if o.pos > self.pos { o.pos } else { self.pos }, neg: if o.neg < self.neg { o.neg } else { self.neg } }
    }
    fn resolve(self) -> f32 {
        self.pos + self.neg
    }
}

/// positive / negative parts of a reported CollapsibleMarginSet (fields are private: read from its Debug form)
fn parse_set(s: &taffy::CollapsibleMarginSet) -> MS {
    let t = format!("{:?}", s);
    let num = |key: &str| -> f32 {
        let i = t.find(key).expect("margin set debug form") + key.len();
        let rest = &t[i..];
        let end = rest.find(|c: char| c == ',' || c == ' ' || c == '}').unwrap_or(rest.len());
        rest[..end].trim().parse::<f32>().expect("margin set number")
    };
    MS { pos: num("positive: "), neg: num("negative: ") }
}

fn res_lpa(v: LengthPercentageAuto, basis: f32) -> Option<f32> {
    let c = v.into_raw();
    let t = c.tag();
    if t == CompactLength::LENGTH_TAG {
        Some(c.value())
    } else if t == CompactLength::PERCENT_TAG {
        Some(basis * c.value())
    } else {
        None
    }
}
fn res_lp(v: LengthPercentage, basis: Option<f32>) -> f32 {
    let c = v.into_raw();
    if c.tag() == CompactLength::LENGTH_TAG {
        c.value()
    } else {
        basis.map(|b| b * c.value()).unwrap_or(0.0)
    }
}
fn lpa_nonneg(v: LengthPercentageAuto) -> bool {
    let c = v.into_raw();
    c.tag() == CompactLength::AUTO_TAG || c.value() >= 0.0
}

fn tol(a: f32, b: f32) -> f32 {
    0.002 + 2e-5 * a.abs().max(b.abs())
}

pub struct Finding {
    /// id of the known-finding class the failure falls in, if any
    pub known: Option<&'static str>,
    /// (clause, container, earlier/only child, later child)
    pub key: (u8, usize, usize, usize),
    pub msg: String,
}

const CT_CLASS: &str = "ct-positive-height";
const MIXED_CLASS: &str = "mixed-sign-top-set";
const LOSSY_CLASS: &str = "lossy-cache-key";
const CLOBBER_CLASS: &str = "measure-pass-overwrites-child-layouts";

#[derive(Default, Debug, Clone, Copy)]
pub struct Stats {
    pub containers: u64,
    pub order_pairs: u64,
    pub width_checks: u64,
    pub gap_checks: u64,
    pub gaps_through: u64,
    pub known_class_boxes: u64,
}

struct Laid {
    t: RecTree,
    /// last PerformLayout call per node: (inputs of the call, output returned to the parent)
    last: Vec<Option<(LayoutInput, LayoutOutput)>>,
    /// inputs of the last PerformLayout call per node that actually ran (what its children were laid out under)
    last_run: Vec<Option<LayoutInput>>,
    /// stamp at which that run returned
    last_run_end: Vec<u64>,
    live: Vec<bool>,
}

fn lay_out(spec: &NodeSpec, avail: Size<AvailableSpace>) -> Laid {
    let mut t = RecTree::new();
    let root = t.add(spec);
    compute_root_layout(&mut t, NodeId::from(root), avail);
    let mut last = vec![None; t.nodes.len()];
    for (_, n, i, o) in &t.log {
        if i.run_mode == RunMode::PerformLayout {
            last[*n] = Some((*i, *o));
        }
    }
    let mut last_run = vec![None; t.nodes.len()];
    let mut last_run_end = vec![0u64; t.nodes.len()];
    for (q, n, i) in &t.runs {
        if i.run_mode == RunMode::PerformLayout {
            last_run[*n] = Some(*i);
            // the run ends at the first return of this node stamped after its start
            last_run_end[*n] = t.log.iter().find(|(q2, n2, _, _)| n2 == n && q2 > q).map(|e| e.0).unwrap_or(u64::MAX);
        }
    }
    let mut live = vec![false; t.nodes.len()];
    fn mark(t: &RecTree, n: usize, live: &mut Vec<bool>) {
        if t.nodes[n].style.display == Display::None {
            return;
        }
        live[n] = true;
        for c in &t.nodes[n].children {
            mark(t, *c, live);
        }
    }
    mark(&t, root, &mut live);
    Laid { t, last, last_run, last_run_end, live }
}

impl Laid {
    fn inflow(&self, b: usize) -> Vec<usize> {
        self.t.nodes[b].children.iter().copied().filter(|c| self.live[*c] && self.t.nodes[*c].style.position != Position::Absolute).collect()
    }
    fn is_block_container(&self, n: usize) -> bool {
        self.t.nodes[n].style.display == Display::Block && !self.t.nodes[n].children.is_empty()
    }
    fn ct_reported(&self, n: usize) -> bool {
        self.last[n].map(|(_, o)| o.margins_can_collapse_through).unwrap_or(false)
    }
    /// the known class: a block container (compute_inner's test; a leaf's own test includes its height) reports
    /// margins_can_collapse_through although its used height is positive
    fn in_known_class(&self, n: usize) -> bool {
        self.is_block_container(n) && self.ct_reported(n) && self.t.nodes[n].unrounded.size.height > 0.0 && !self.lengths_prevent_ct(n)
    }
    /// CSS: a box whose height or min-height is a positive LENGTH, or that has positive top/bottom padding or border lengths,
    /// can never be collapsed through.  The recorded finding is about heights that become positive in other ways (percentages,
    /// aspect ratio ...); a box with such lengths that still reports collapse-through is a new failure, not the known class.
    fn lengths_prevent_ct(&self, n: usize) -> bool {
        let s = &self.t.nodes[n].style;
        let pos = |c: CompactLength| c.tag() == CompactLength::LENGTH_TAG && c.value() > 0.0;
        pos(s.size.height.into_raw())
            || pos(s.min_size.height.into_raw())
            || pos(s.padding.top.into_raw())
            || pos(s.padding.bottom.into_raw())
            || pos(s.border.top.into_raw())
            || pos(s.border.bottom.into_raw())
    }
    fn subtree_margins_nonneg(&self, n: usize) -> bool {
        let s = &self.t.nodes[n].style;
        lpa_nonneg(s.margin.top) && lpa_nonneg(s.margin.bottom) && self.t.nodes[n].children.iter().all(|c| !self.live[*c] || self.subtree_margins_nonneg(*c))
    }
    /// the children of block container `b` were laid out again (by a size-only run of `b`) after the run that produced
    /// `b`'s final layout returned: their stored layouts belong to a measuring pass
    fn children_overwritten(&self, b: usize) -> bool {
        let end = self.last_run_end[b];
        self.t.nodes[b].children.iter().any(|c| self.t.log.iter().any(|(q, n, i, _)| n == c && *q > end && i.run_mode != RunMode::PerformHiddenLayout))
    }
    fn subtree_has_known_class(&self, n: usize) -> bool {
        self.in_known_class(n) || self.t.nodes[n].children.iter().any(|c| self.live[*c] && self.subtree_has_known_class(*c))
    }

    /// Adjoining margins of box `c` (in-flow child of a block container of outer width `pw`), from styles and the tree:
    /// its own margin, plus -- when it is a block container whose top (bottom) edge touches its first (last) child's margin --
    /// the margins adjoining through that edge.
    fn spec_sets(&self, c: usize, pw: f32) -> (MS, MS) {
        let s = &self.t.nodes[c].style;
        let mt = res_lpa(s.margin.top, pw).unwrap_or(0.0);
        let mb = res_lpa(s.margin.bottom, pw).unwrap_or(0.0);
        let mut top = MS::of(mt);
        let mut bottom = MS::of(mb);
        if self.is_block_container(c) {
            let vmc = self.last_run[c].map(|i| i.vertical_margins_are_collapsible).unwrap_or(Line::FALSE);
            let scroll = |o: Overflow| matches!(o, Overflow::Hidden | Overflow::Scroll);
            let common = !scroll(s.overflow.x) && !scroll(s.overflow.y) && s.position == Position::Relative;
            // the box's own padding / border as resolved in the pass that actually laid it out (a stale cached pass may
            // have had no parent width: the lossy cache key is C01/C02's finding, not this property's)
            let rpw = self.last_run[c].map(|i| i.parent_size.width).unwrap_or(Some(pw));
            let pt = res_lp(s.padding.top, rpw);
            let pb = res_lp(s.padding.bottom, rpw);
            let bt = res_lp(s.border.top, rpw);
            let bb = res_lp(s.border.bottom, rpw);
            // height "auto": the style height does not resolve (percentages have no basis in block flow)
            let h_raw = s.size.height.into_raw();
            let height_unset = !(h_raw.tag() == CompactLength::LENGTH_TAG) && !(s.aspect_ratio.is_some() && !s.size.width.is_auto() && width_resolves(s, pw));
            let cw = self.last[c].map(|(_, o)| o.size.width).unwrap_or(self.t.nodes[c].unrounded.size.width);
            let kids = self.inflow(c);
            if vmc.start && common && pt == 0.0 && bt == 0.0 {
                let mut acc = MS::ZERO;
                for d in &kids {
                    let (t, b) = self.spec_sets(*d, cw);
                    if self.ct_reported(*d) {
                        acc = acc.union(t).union(b);
                    } else {
                        acc = acc.union(t);
                        break;
                    }
                }
                top = top.union(acc);
            }
            if vmc.end && common && pb == 0.0 && bb == 0.0 && height_unset {
                let mut active = MS::ZERO;
                for d in &kids {
                    let (t, b) = self.spec_sets(*d, cw);
                    if self.ct_reported(*d) {
                        active = active.union(t).union(b);
                    } else {
                        active = b;
                    }
                }
                bottom = bottom.union(active);
            }
        }
        (top, bottom)
    }

    /// The three clauses on block container `b`
    fn check_container(&self, b: usize, st: &mut Stats, out: &mut Vec<Finding>) {
        let nb = &self.t.nodes[b];
        let binp = match self.last_run[b] {
            Some(x) => x,
            None => return,
        };
        let bout = match self.last[b] {
            Some((_, o)) => o,
            None => return,
        };
        st.containers += 1;
        // the container's own outer width (its parent may have stored a different size, e.g. for an absolute box)
        let ow = bout.size.width;
        let kids = self.inflow(b);
        for k in &kids {
            if self.in_known_class(*k) {
                st.known_class_boxes += 1;
            }
        }
        let has_inset = |c: usize| {
            let s = &self.t.nodes[c].style;
            !s.inset.top.is_auto() || !s.inset.bottom.is_auto()
        };
        let y = |c: usize| self.t.nodes[c].unrounded.location.y;
        let h = |c: usize| self.t.nodes[c].unrounded.size.height;
        let overwritten = self.children_overwritten(b);
        let known_between = |i: usize, j: usize| {
            if (i..=j).any(|k| self.subtree_has_known_class(kids[k])) {
                Some(CT_CLASS)
            } else if overwritten {
                Some(CLOBBER_CLASS)
            } else {
                None
            }
        };
        // clause 1: document order, no overlap (non-negative margins; as in C10_order_no_overlap_partial every box between the two has a
        // non-negative used height -- a child laid out with a NEGATIVE height, e.g. a flex container whose percentage
        // padding exceeds its size, pulls the following siblings up: a different defect, outside this clause)
        if kids.iter().all(|c| self.subtree_margins_nonneg(*c)) && kids.iter().all(|c| h(*c) >= 0.0) {
            for i in 0..kids.len() {
                for j in i + 1..kids.len() {
                    let (a, c) = (kids[i], kids[j]);
                    if has_inset(a) || has_inset(c) {
                        continue;
                    }
                    st.order_pairs += 1;
                    let bottom_a = y(a) + h(a);
                    if !(y(c) + tol(y(c), bottom_a) >= bottom_a) {
                        out.push(Finding {
                            known: known_between(i, j),
                            key: (1, b, a, c),
                            msg: format!("order/overlap: container #{b}: child #{c} at y={} starts above the bottom edge {} of its earlier sibling #{a}", y(c), bottom_a),
                        });
                    }
                }
            }
        }
        // clause 2: fill width
        let bs = &nb.style;
        let ppw = binp.parent_size.width;
        let gutter = if bs.overflow.y == Overflow::Scroll { bs.scrollbar_width } else { 0.0 };
        let inset_l = res_lp(bs.padding.left, ppw) + res_lp(bs.border.left, ppw);
        let inset_r = res_lp(bs.padding.right, ppw) + res_lp(bs.border.right, ppw) + gutter;
        let inner_w = ow - (inset_l + inset_r);
        for c in &kids {
            let s = &self.t.nodes[*c].style;
            let l = &self.t.nodes[*c].unrounded;
            if !(s.size.width.is_auto() && s.min_size.width.is_auto() && s.max_size.width.is_auto() && s.aspect_ratio.is_none()) {
                continue;
            }
            if s.margin.left.is_auto() || s.margin.right.is_auto() || s.item_is_table {
                continue;
            }
            let expected = inner_w - l.margin.left - l.margin.right;
            let own_pb = res_lp(s.padding.left, Some(ow)) + res_lp(s.padding.right, Some(ow)) + res_lp(s.border.left, Some(ow)) + res_lp(s.border.right, Some(ow));
            let own_gutter = if s.overflow.y == Overflow::Scroll { s.scrollbar_width } else { 0.0 };
            if !(expected >= own_pb + own_gutter + 0.01) {
                continue;
            }
            st.width_checks += 1;
            if !((l.size.width - expected).abs() <= tol(expected, inner_w)) {
                out.push(Finding {
                    known: if overwritten { Some(CLOBBER_CLASS) } else { None },
                    key: (2, b, *c, *c),
                    msg: format!("fill width: container #{b} (content width {inner_w}): child #{c} with auto width and margins {}/{} is {} wide, expected {}", l.margin.left, l.margin.right, l.size.width, expected),
                });
            }
        }
        // clause 3: distance between adjacent siblings that cannot be collapsed through = collapsed adjoining margins
        let mut prev: Option<(usize, usize, MS)> = None; // (position in kids, node, its bottom set)
        let mut pending = MS::ZERO;
        let mut through = 0;
        for (j, c) in kids.iter().enumerate() {
            let (t, bt) = self.spec_sets(*c, ow);
            let honest_through = self.ct_reported(*c) && !(h(*c) > 0.0);
            if honest_through {
                pending = pending.union(t).union(bt);
                through += 1;
                continue;
            }
            if let Some((i, a, ba)) = prev {
                if !has_inset(a) && !has_inset(*c) {
                    let expected = ba.union(pending).union(t).resolve();
                    let gap = y(*c) - (y(a) + h(a));
                    st.gap_checks += 1;
                    if through > 0 {
                        st.gaps_through += 1;
                    }
                    let tl = tol(y(*c), y(a) + h(a)).max(tol(expected, 0.0));
                    if !((gap - expected).abs() <= tl) {
                        // known class: the later sibling's own top set has a positive and a negative member and the distance is
                        // what collapsing its already-resolved sum (instead of its members) with the earlier margins gives
                        let before = ba.union(pending);
                        let as_scalar = before.union(MS::of(t.resolve())).resolve();
                        let mixed = t.mixed() && (gap - as_scalar).abs() <= tl;
                        out.push(Finding {
                            known: if mixed { Some(MIXED_CLASS) } else { known_between(i, j) },
                            key: (3, b, a, *c),
                            msg: format!("margin collapse: container #{b}: distance between #{a} (bottom edge {}) and #{c} (y={}) is {gap}, collapsed adjoining margins give {expected} ({through} collapsed-through boxes between)", y(a) + h(a), y(*c)),
                        });
                    }
                }
            }
            prev = Some((j, *c, bt));
            pending = MS::ZERO;
            through = 0;
        }
    }

    /// kernel-level restatement with the sets the children REPORTED (cannot disagree with a faithful loop): used for diagnosis only
    fn reported_sets(&self, c: usize, pw: f32) -> Option<(MS, MS)> {
        let (_, o) = self.last[c]?;
        let s = &self.t.nodes[c].style;
        let mt = res_lpa(s.margin.top, pw).unwrap_or(0.0);
        let mb = res_lpa(s.margin.bottom, pw).unwrap_or(0.0);
        Some((parse_set(&o.top_margin).union(MS::of(mt)), parse_set(&o.bottom_margin).union(MS::of(mb))))
    }
}

fn enc_opt(v: Option<f32>, out: &mut Vec<u64>) {
    match v {
        Some(x) => out.extend([1, canon(x)]),
        None => out.extend([0, 0]),
    }
}

impl Laid {
    /// K2: one block container of an arbitrary tree with the LayoutOutputs its children returned (recorded) as oracle values.
    /// `C` = inputs of the run that produced its layout + its style + per child (style, recorded output);
    /// `R` = its own LayoutOutput (height, collapse-through flag, margin sets) + per in-flow child the stored layout and the
    /// known dimensions / available width the container passed to it.
    fn k2_lines(&self, b: usize) -> Option<(String, String)> {
        let inp = self.last_run[b]?;
        let (_, bout) = self.last[b]?;
        if inp.sizing_mode != taffy::SizingMode::InherentSize || self.children_overwritten(b) {
            return None;
        }
        let nb = &self.t.nodes[b];
        let mut c: Vec<u64> = vec![];
        enc_opt(inp.known_dimensions.width, &mut c);
        enc_opt(inp.known_dimensions.height, &mut c);
        enc_opt(inp.parent_size.width, &mut c);
        enc_opt(inp.parent_size.height, &mut c);
        c.push(inp.vertical_margins_are_collapsible.start as u64);
        c.push(inp.vertical_margins_are_collapsible.end as u64);
        c.push(nb.children.len() as u64);
        enc_style(&nb.style, &None, &mut c);
        let mut r: Vec<u64> = vec![canon(bout.size.width), canon(bout.size.height), bout.margins_can_collapse_through as u64];
        let (tp, bt) = (parse_set(&bout.top_margin), parse_set(&bout.bottom_margin));
        r.extend([canon(tp.pos), canon(tp.neg), canon(bt.pos), canon(bt.neg)]);
        for ch in &nb.children {
            let cn = &self.t.nodes[*ch];
            enc_style(&cn.style, &None, &mut c);
            let inflow = cn.style.display != Display::None && cn.style.position != Position::Absolute;
            if !inflow {
                c.extend([0; 10]);
                continue;
            }
            let (ci, co) = self.last[*ch]?;
            let (ct, cb) = (parse_set(&co.top_margin), parse_set(&co.bottom_margin));
            c.extend([1, canon(co.size.width), canon(co.size.height), canon(co.content_size.width), canon(co.content_size.height)]);
            c.extend([canon(ct.pos), canon(ct.neg), canon(cb.pos), canon(cb.neg), co.margins_can_collapse_through as u64]);
            let l = &cn.unrounded;
            r.extend([l.order as u64, canon(l.location.x), canon(l.location.y), canon(l.size.width), canon(l.size.height)]);
            r.extend([canon(l.margin.left), canon(l.margin.right), canon(l.margin.top), canon(l.margin.bottom)]);
            enc_opt(ci.known_dimensions.width, &mut r);
            enc_opt(ci.known_dimensions.height, &mut r);
            match ci.available_space.width {
                AvailableSpace::Definite(v) => r.push(canon(v)),
                _ => r.push(u32::MAX as u64 + 1),
            }
        }
        let j = |v: &Vec<u64>| v.iter().map(|x| x.to_string()).collect::<Vec<_>>().join(" ");
        Some((format!("C {}", j(&c)), format!("R {}", j(&r))))
    }
}

fn width_resolves(s: &Style, _pw: f32) -> bool {
    // width: length or percentage (the parent passes a definite parent width in block flow)
    !s.size.width.is_auto()
}

fn check_tree_mode(spec: &NodeSpec, avail: Size<AvailableSpace>, st: &mut Stats, exact_key: bool) -> Vec<Finding> {
    taffy::verif_hooks::set_exact_key(exact_key);
    let laid = lay_out(spec, avail);
    taffy::verif_hooks::set_exact_key(false);
    let mut out = vec![];
    for n in 0..laid.t.nodes.len() {
        if laid.live[n] && laid.is_block_container(n) {
            laid.check_container(n, st, &mut out);
        }
    }
    out
}

/// The clauses on every block container of the tree.  A failure outside the directly recognisable classes is laid out
/// again with the cache matching on the complete LayoutInput (hook `set_exact_key`): if it is gone, it was produced by a
/// cached result computed for different inputs (the lossy cache key recorded under C01/C02), class `lossy-cache-key`.
pub fn check_tree(spec: &NodeSpec, avail: Size<AvailableSpace>, st: &mut Stats) -> Vec<Finding> {
    let mut out = check_tree_mode(spec, avail, st, false);
    if out.iter().any(|f| f.known.is_none()) {
        let mut st2 = Stats::default();
        let exact = check_tree_mode(spec, avail, &mut st2, true);
        for f in out.iter_mut().filter(|f| f.known.is_none()) {
            match exact.iter().find(|g| g.key == f.key) {
                None => f.known = Some(LOSSY_CLASS),
                Some(g) => f.known = g.known,
            }
        }
    }
    out
}

// ------------------------------------------------------------------------------------------------ oracle cases

pub fn ocase(seed: u64, idx: u64) -> (NodeSpec, Size<AvailableSpace>) {
    ocase_mix(seed, idx, 60, None)
}

/// `ocase` with the per-mille rates of position:absolute / display:none children chosen by the caller (K3 of C05 / C06:
/// block containers with absolute and hidden children interleaved between the in-flow ones)
pub fn ocase_mix(seed: u64, idx: u64, p_absolute: u64, p_hidden: Option<u64>) -> (NodeSpec, Size<AvailableSpace>) {
    let mut rng = Rng::new(seed.wrapping_mul(0x2545_F491).wrapping_add(idx).wrapping_add(0x0C10_0000));
    let mut cfg = GenCfg::default();
    if let Some(p) = p_hidden {
        cfg.p_hidden = p;
    }
    // mostly block, with flex / grid children mixed in
    cfg.displays = vec![Display::Block, Display::Block, Display::Block, Display::Block, Display::Flex, Display::Grid];
    cfg.max_nodes = 14;
    cfg.max_children = 5;
    cfg.max_depth = 3;
    cfg.fractional = idx % 4 == 3;
    cfg.negative_margins = idx % 3 != 0; // a third of the cases exercise the order clause (non-negative margins)
    cfg.aspect = idx % 5 == 0;
    cfg.grid_lines = false;
    cfg.p_absolute = p_absolute;
    let mut t = treegen::tree(&mut rng, &cfg);
    t.style.display = Display::Block;
    t.style.position = Position::Relative;
    // margins are generated for a third of the nodes only: make them common, and sizes often empty
    fn tweak(rng: &mut Rng, cfg: &GenCfg, n: &mut NodeSpec, depth: usize) {
        if depth > 0 && rng.chance(1, 2) {
            let neg = cfg.negative_margins;
            n.style.margin.top = treegen::lpa(rng, cfg, 20, true, neg);
            n.style.margin.bottom = treegen::lpa(rng, cfg, 20, true, neg);
        }
        if depth > 0 && rng.chance(1, 4) {
            n.style.size.height = if rng.chance(1, 2) { Dimension::length(0.0) } else { Dimension::auto() };
            n.style.padding = Rect::zero();
            n.style.border = Rect::zero();
            n.style.min_size.height = Dimension::auto();
            if n.children.is_empty() && rng.chance(1, 2) {
                n.ctx = None;
            }
        }
        for c in n.children.iter_mut() {
            tweak(rng, cfg, c, depth + 1);
        }
    }
    tweak(&mut rng, &cfg, &mut t, 0);
    let a = treegen::avail(&mut rng, &cfg);
    (t, a)
}

fn witness_spec() -> (NodeSpec, Size<AvailableSpace>) {
    let empty = NodeSpec::leaf(Style { display: Display::Block, ..Default::default() });
    let child = NodeSpec {
        style: Style { display: Display::Block, size: Size { width: Dimension::auto(), height: Dimension::percent(0.5) }, ..Default::default() },
        ctx: None,
        children: vec![empty],
    };
    let sibling = NodeSpec::leaf(Style { display: Display::Block, size: Size { width: Dimension::auto(), height: Dimension::length(10.0) }, ..Default::default() });
    let root = NodeSpec {
        style: Style { display: Display::Block, size: Size::from_lengths(100.0, 100.0), ..Default::default() },
        ctx: None,
        children: vec![child, sibling],
    };
    (root, Size::MAX_CONTENT)
}

/// A {height 20, margin-bottom -10} followed by B {margin-top 20} whose first child C has margin-top -5 (height 10):
/// the adjoining margins {-10, 20, -5} collapse to 20 - 10 = 10, so B belongs at y = 30
fn witness2_spec() -> (NodeSpec, Size<AvailableSpace>) {
    let lpa = LengthPercentageAuto::length;
    let a = NodeSpec::leaf(Style {
        display: Display::Block,
        size: Size { width: Dimension::auto(), height: Dimension::length(20.0) },
        margin: Rect { left: lpa(0.0), right: lpa(0.0), top: lpa(0.0), bottom: lpa(-10.0) },
        ..Default::default()
    });
    let c = NodeSpec::leaf(Style {
        display: Display::Block,
        size: Size { width: Dimension::auto(), height: Dimension::length(10.0) },
        margin: Rect { left: lpa(0.0), right: lpa(0.0), top: lpa(-5.0), bottom: lpa(0.0) },
        ..Default::default()
    });
    let b = NodeSpec {
        style: Style { display: Display::Block, margin: Rect { left: lpa(0.0), right: lpa(0.0), top: lpa(20.0), bottom: lpa(0.0) }, ..Default::default() },
        ctx: None,
        children: vec![c],
    };
    let root = NodeSpec {
        style: Style { display: Display::Block, size: Size::from_lengths(100.0, 100.0), ..Default::default() },
        ctx: None,
        children: vec![a, b],
    };
    (root, Size::MAX_CONTENT)
}

fn print_findings(idx: u64, fs: &[Finding]) {
    for f in fs.iter().take(4) {
        match f.known {
            Some(class) => println!("KNOWN {idx} {class} {}", f.msg),
            None => println!("FAIL {idx} {}", f.msg),
        }
    }
}

fn d_raw(c: CompactLength) -> String {
    let t = c.tag();
    if t == CompactLength::LENGTH_TAG {
        format!("{}", c.value())
    } else if t == CompactLength::PERCENT_TAG {
        format!("{}%", c.value() * 100.0)
    } else if t == CompactLength::AUTO_TAG {
        "auto".into()
    } else {
        format!("tag{t}")
    }
}

/// the style fields block layout reads, compactly
pub fn describe(s: &Style, ctx: &Option<Ctx>) -> String {
    let mut o = format!("{:?}", s.display).to_lowercase();
    if s.position == Position::Absolute {
        o += " absolute";
    }
    if s.item_is_table {
        o += " table";
    }
    if s.box_sizing == BoxSizing::ContentBox {
        o += " content-box";
    }
    o += &format!(" size=({},{})", d_raw(s.size.width.into_raw()), d_raw(s.size.height.into_raw()));
    if !s.min_size.width.is_auto() || !s.min_size.height.is_auto() {
        o += &format!(" min=({},{})", d_raw(s.min_size.width.into_raw()), d_raw(s.min_size.height.into_raw()));
    }
    if !s.max_size.width.is_auto() || !s.max_size.height.is_auto() {
        o += &format!(" max=({},{})", d_raw(s.max_size.width.into_raw()), d_raw(s.max_size.height.into_raw()));
    }
    if let Some(r) = s.aspect_ratio {
        o += &format!(" aspect={r}");
    }
    let r4 = |l: CompactLength, r: CompactLength, t: CompactLength, b: CompactLength| format!("(l {} r {} t {} b {})", d_raw(l), d_raw(r), d_raw(t), d_raw(b));
    let m = s.margin;
    if m != Rect::zero() {
        o += &format!(" margin={}", r4(m.left.into_raw(), m.right.into_raw(), m.top.into_raw(), m.bottom.into_raw()));
    }
    let m = s.padding;
    if m != Rect::zero() {
        o += &format!(" padding={}", r4(m.left.into_raw(), m.right.into_raw(), m.top.into_raw(), m.bottom.into_raw()));
    }
    let m = s.border;
    if m != Rect::zero() {
        o += &format!(" border={}", r4(m.left.into_raw(), m.right.into_raw(), m.top.into_raw(), m.bottom.into_raw()));
    }
    let m = s.inset;
    if m != Rect::auto() {
        o += &format!(" inset={}", r4(m.left.into_raw(), m.right.into_raw(), m.top.into_raw(), m.bottom.into_raw()));
    }
    if s.overflow.x != Overflow::Visible || s.overflow.y != Overflow::Visible {
        o += &format!(" overflow=({:?},{:?}) scrollbar={}", s.overflow.x, s.overflow.y, s.scrollbar_width);
    }
    if s.text_align != TextAlign::Auto {
        o += &format!(" text-align={:?}", s.text_align);
    }
    if let Some(c) = ctx {
        o += &format!(" measure={:?}", c);
    }
    o
}

pub fn describe_tree(n: &NodeSpec, depth: usize, counter: &mut usize, out: &mut String) {
    out.push_str(&format!("{}#{} {}\n", "  ".repeat(depth), *counter, describe(&n.style, &n.ctx)));
    *counter += 1;
    for c in &n.children {
        describe_tree(c, depth + 1, counter, out);
    }
}

fn dump(laid: &Laid) {
    for (n, nd) in laid.t.nodes.iter().enumerate() {
        let l = &nd.unrounded;
        let s = &nd.style;
        println!(
            "#{n} live={} display={:?} pos={:?} children={:?} loc=({}, {}) size=({}, {}) margin(t,b)=({}, {}) ct_reported={} out={:?}",
            laid.live[n],
            s.display,
            s.position,
            nd.children,
            l.location.x,
            l.location.y,
            l.size.width,
            l.size.height,
            l.margin.top,
            l.margin.bottom,
            laid.ct_reported(n),
            laid.last[n].map(|(_, o)| (o.size, o.top_margin, o.bottom_margin)),
        );
    }
}

pub fn main(args: &[String]) {
    std::panic::set_hook(Box::new(|_| {}));
    let num = |i: usize| -> u64 { args[i].parse().unwrap() };
    match args[0].as_str() {
        "cases" => {
            let (seed, n) = (num(1), num(2));
            for idx in 0..n {
                let (spec, avail) = kcase(seed, idx);
                let (c, r) = kcase_lines(&spec, avail);
                println!("{c}\n{r}");
            }
        }
        "case" => {
            let (spec, avail) = kcase(num(1), num(2));
            let (c, r) = kcase_lines(&spec, avail);
            println!("{c}\n{r}");
            if args.len() > 3 {
                let mut txt = String::new();
                describe_tree(&spec, 0, &mut 0, &mut txt);
                println!("{txt}avail={:?}", avail);
            }
        }
        "kcases2" | "kcases3" => {
            // K2 cases: every eligible block container of the oracle trees 0..n (tagged with tree index and node)
            // K3 (C05 / C06 / C10): the same protocol on trees with many position:absolute and / or display:none nodes;
            // only containers that have such a child AND an in-flow child are printed
            // `kcases3 <seed> <n> <p_absolute> <p_hidden>` (per mille); C06 runs it without hidden children, C05 without absolute
            // ones (so that a defect of one property does not break the other's K), C10 with both
            let mix = args[0] == "kcases3";
            let (seed, n) = (num(1), num(2));
            let (p_abs, p_hid) = if mix && args.len() > 4 { (num(3), num(4)) } else { (300, 250) };
            let only: Option<(u64, usize)> = if !mix && args.len() > 4 { Some((num(3), num(4) as usize)) } else { None };
            for idx in 0..n {
                if let Some((i, _)) = only {
                    if i != idx {
                        continue;
                    }
                }
                let (spec, avail) = if mix { ocase_mix(seed, idx, p_abs, Some(p_hid)) } else { ocase(seed, idx) };
                let r = std::panic::catch_unwind(|| {
                    let laid = lay_out(&spec, avail);
                    let mut v = vec![];
                    for b in 0..laid.t.nodes.len() {
                        if laid.live[b] && laid.is_block_container(b) {
                            if mix {
                                let kids = &laid.t.nodes[b].children;
                                let oof = |c: &usize| {
                                    let s = &laid.t.nodes[*c].style;
                                    s.display == Display::None || s.position == Position::Absolute
                                };
                                if !kids.iter().any(|c| oof(c)) || kids.iter().all(|c| oof(c)) {
                                    continue;
                                }
                            }
                            if let Some((c, r)) = laid.k2_lines(b) {
                                v.push((b, c, r));
                            }
                        }
                    }
                    v
                });
                if let Ok(v) = r {
                    for (b, c, r) in v {
                        if only.map(|(_, node)| node == b).unwrap_or(true) {
                            println!("T {idx} {b}\n{c}\n{r}");
                        }
                    }
                }
            }
        }
        "case-log" => {
            let (spec, avail) = kcase(num(1), num(2));
            let laid = lay_out(&spec, avail);
            for (_, n, i, o) in &laid.t.log {
                println!("#{n} {:?} known={:?} parent={:?} avail={:?} -> size={:?} content={:?} ct={}", i.run_mode, i.known_dimensions, i.parent_size, i.available_space, o.size, o.content_size, o.margins_can_collapse_through);
            }
            dump(&laid);
        }
        "check-case" => {
            let idx = num(2);
            let (spec, avail) = kcase(num(1), idx);
            let mut st = Stats::default();
            let r = std::panic::catch_unwind(|| {
                let mut st = Stats::default();
                check_tree(&spec, avail, &mut st)
            });
            match r {
                Ok(fs) => print_findings(idx, &fs),
                Err(_) => println!("FAIL {idx} panic"),
            }
            let _ = &mut st;
        }
        "oracle" => {
            let (seed, n) = (num(1), num(2));
            let mut st = Stats::default();
            let mut trees = 0u64;
            let mut nfail = 0u64;
            let mut nknown = 0u64;
            let mut shown_fail = 0u64;
            let mut per_class: std::collections::BTreeMap<&'static str, u64> = Default::default();
            for idx in 0..n {
                let (spec, avail) = ocase(seed, idx);
                let r = std::panic::catch_unwind(|| {
                    let mut s = Stats::default();
                    let f = check_tree(&spec, avail, &mut s);
                    (f, s)
                });
                trees += 1;
                match r {
                    Ok((fs, s)) => {
                        st.containers += s.containers;
                        st.order_pairs += s.order_pairs;
                        st.width_checks += s.width_checks;
                        st.gap_checks += s.gap_checks;
                        st.gaps_through += s.gaps_through;
                        st.known_class_boxes += s.known_class_boxes;
                        let k = fs.iter().filter(|f| f.known.is_some()).count() as u64;
                        nknown += k;
                        nfail += fs.len() as u64 - k;
                        // print every unclassified failure (capped) and the first two of each known class
                        let mut show: Vec<&Finding> = vec![];
                        for f in &fs {
                            match f.known {
                                None => {
                                    if shown_fail < 12 {
                                        shown_fail += 1;
                                        show.push(f);
                                    }
                                }
                                Some(c) => {
                                    let e = per_class.entry(c).or_insert(0u64);
                                    *e += 1;
                                    if *e <= 2 {
                                        show.push(f);
                                    }
                                }
                            }
                        }
                        for f in show {
                            match f.known {
                                Some(class) => println!("KNOWN {idx} {class} {}", f.msg),
                                None => println!("FAIL {idx} {}", f.msg),
                            }
                        }
                    }
                    Err(_) => {} // totality is C03's business
                }
            }
            println!(
                "ORACLE trees={trees} containers={} order_pairs={} width_checks={} gap_checks={} gaps_through={} known_class_boxes={} fails={nfail} known={nknown} classes={:?}",
                st.containers, st.order_pairs, st.width_checks, st.gap_checks, st.gaps_through, st.known_class_boxes, per_class
            );
        }
        "oracle-one" => {
            let idx = num(2);
            let (spec, avail) = ocase(num(1), idx);
            let mut txt = String::new();
            describe_tree(&spec, 0, &mut 0, &mut txt);
            println!("{txt}avail={:?}", avail);
            let laid = lay_out(&spec, avail);
            dump(&laid);
            if args.len() > 3 {
                for (q, n, i, o) in &laid.t.log {
                    println!("{q} call #{n} {:?} known={:?} parent={:?} avail={:?} -> size={:?} ct={}", i.run_mode, i.known_dimensions, i.parent_size, i.available_space, o.size, o.margins_can_collapse_through);
                }
                for (q, n, i) in &laid.t.runs {
                    println!("{q} run #{n} {:?} known={:?} parent={:?} avail={:?}", i.run_mode, i.known_dimensions, i.parent_size, i.available_space);
                }
            }
            let mut st = Stats::default();
            print_findings(idx, &check_tree(&spec, avail, &mut st));
            println!("{:?}", st);
        }
        "insetwitness" => {
            // block container 100 wide, two 20-high children, the first `position: relative; top: 30`: a relative inset shifts the box
            // after layout (by design in CSS), so it is drawn over its next sibling; the C10 clauses skip boxes with vertical insets
            let mut t: TaffyTree<Ctx> = TaffyTree::new();
            t.disable_rounding();
            let a = t
                .new_leaf(Style {
                    display: Display::Block,
                    size: Size { width: Dimension::auto(), height: Dimension::length(20.0) },
                    position: Position::Relative,
                    inset: Rect { left: LengthPercentageAuto::auto(), right: LengthPercentageAuto::auto(), top: LengthPercentageAuto::length(30.0), bottom: LengthPercentageAuto::auto() },
                    ..Default::default()
                })
                .unwrap();
            let b = t.new_leaf(Style { display: Display::Block, size: Size { width: Dimension::auto(), height: Dimension::length(20.0) }, ..Default::default() }).unwrap();
            let root = t.new_with_children(Style { display: Display::Block, size: Size { width: Dimension::length(100.0), height: Dimension::auto() }, ..Default::default() }, &[a, b]).unwrap();
            treegen::compute(&mut t, root, Size::MAX_CONTENT);
            println!("INSETWITNESS a_y={} a_h={} b_y={}", t.unrounded_layout(a).location.y, t.unrounded_layout(a).size.height, t.unrounded_layout(b).location.y);
        }
        "witness" => {
            let (spec, avail) = witness_spec();
            // through the public TaffyTree API
            let mut t: TaffyTree<Ctx> = TaffyTree::new();
            t.disable_rounding();
            let mut ids = vec![];
            let root = treegen::build(&mut t, &spec, &mut ids);
            treegen::compute(&mut t, root, avail);
            let child = t.unrounded_layout(ids[1]);
            let sib = t.unrounded_layout(ids[3]);
            println!("WITNESS child_y={} child_h={} sibling_y={}", child.location.y, child.size.height, sib.location.y);
            let laid = lay_out(&spec, avail);
            println!("WITNESS child_ct_reported={} class={}", laid.ct_reported(1), laid.in_known_class(1));
            if let Some((t, b)) = laid.reported_sets(1, 100.0) {
                println!("WITNESS child_sets={:?} {:?}", t, b);
            }
            let mut st = Stats::default();
            print_findings(0, &check_tree(&spec, avail, &mut st));
        }
        "probe-padding" => {
            // observation (not part of C10): Layout.padding of a block child is item.padding, resolved against the container's
            // content box SIZE (top/bottom against its height), while the child itself resolves all four against the width
            let child = NodeSpec::leaf(Style {
                display: Display::Block,
                padding: Rect { left: LengthPercentage::length(0.0), right: LengthPercentage::length(0.0), top: LengthPercentage::percent(0.1), bottom: LengthPercentage::length(0.0) },
                ..Default::default()
            });
            let root = NodeSpec { style: Style { display: Display::Block, size: Size::from_lengths(200.0, 100.0), ..Default::default() }, ctx: None, children: vec![child] };
            let mut t: TaffyTree<Ctx> = TaffyTree::new();
            t.disable_rounding();
            let mut ids = vec![];
            let r = treegen::build(&mut t, &root, &mut ids);
            treegen::compute(&mut t, r, Size::MAX_CONTENT);
            let l = t.unrounded_layout(ids[1]);
            println!("PROBE child height={} (padding-top 10% of width 200 = 20) layout.padding.top={}", l.size.height, l.padding.top);
        }
        "witness2" => {
            let (spec, avail) = witness2_spec();
            let mut t: TaffyTree<Ctx> = TaffyTree::new();
            t.disable_rounding();
            let mut ids = vec![];
            let root = treegen::build(&mut t, &spec, &mut ids);
            treegen::compute(&mut t, root, avail);
            let a = t.unrounded_layout(ids[1]);
            let b = t.unrounded_layout(ids[2]);
            println!("WITNESS2 a_bottom={} b_y={} expected_b_y=30", a.location.y + a.size.height, b.location.y);
            let mut st = Stats::default();
            print_findings(0, &check_tree(&spec, avail, &mut st));
        }
        _ => {
            eprintln!("c10: unknown command");
            std::process::exit(2);
        }
    }
}
