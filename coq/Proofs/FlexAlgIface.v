(* The interface hypotheses of the engine theorems, for the flex resumption (Model/FlexAlg.v `flex_alg`), from its SHAPE
   (Proofs/FlexAlgShape.v `flex_alg_shape`) alone:

     flex_alg_WF     WFAlg: no hidden-mode query                                              (premise WF of C01 / C15 / C05)
     flex_alg_H1     Visits: a PerformLayout evaluation PerformLayout-queries every child     (premise H1)
     flex_alg_H3     SetsLast: ... stores a layout for every child, a display:none child's after its last query   (premise H3)
     flex_alg_HQ     NoHiddenSize: a display:none child never receives a ComputeSize query    (premise HQ)
     flex_alg_SZH    SetsZeroOnHidden: the only layout stored on a display:none child is Layout::with_order(i)     (C05)
     flex_alg_NS_partial   SizeOnly (a ComputeSize evaluation issues only ComputeSize queries and stores nothing) when the container
                     is a column or no child is baseline-aligned
     flex_alg_NS_refuted   and NOT in general: a row with two baseline-aligned children, asked for its size, lays both children out
                     (calculate_children_base_lines, flexbox.rs l.1440, runs before the ComputeSize return of l.359). *)
From Coq Require Import ZArith QArith Bool List Lia.
From TV Require Import Num.QNum Model.Common Model.Leaf Gen.FlexGen Model.Flex Model.FlexLines Model.FlexBase Model.FlexContainer.
From TV Require Import Model.FiltersBase Gen.FiltersGen Model.ItemFilters Model.FlexAlgBase Model.FlexAlgAbs Model.FlexAlg.
From TV Require Import Proofs.FlexAlgStruct Proofs.FlexAlgShape.
From TV Require Import Model.Engine Model.EngineLayouts Proofs.EngineDirty Proofs.EngineNoScribble Proofs.EngineHidden.
Import ListNotations.
Close Scope Z_scope.
Close Scope Q_scope.

(* ------------------------------------------------------------------------------------------------ pending sets *)

Fixpoint minus (p L : list nat) : list nat :=
  match L with
  | [] => p
  | c :: r => minus (remove Nat.eq_dec c p) r
  end.

Lemma In_minus L : forall p x, In x (minus p L) <-> In x p /\ ~ In x L.
Proof.
  induction L as [|c r IH]; intros p x; cbn [minus In]; [tauto|].
  rewrite IH. split.
  - intros [Hin Hn]. apply in_remove in Hin. destruct Hin as [Hin Hne]. split; [exact Hin|]. intros [E|Hr]; [congruence|contradiction].
  - intros [Hin Hn]. split; [apply in_in_remove; [intros E; apply Hn; left; congruence|exact Hin]|intros Hr; apply Hn; right; exact Hr].
Qed.

Lemma minus3_nil p L1 L2 L3 : (forall x, In x p -> In x L1 \/ In x L2 \/ In x L3) -> minus (minus (minus p L1) L2) L3 = [].
Proof.
  intros Hc. destruct (minus (minus (minus p L1) L2) L3) as [|x l] eqn:E; [reflexivity|exfalso].
  assert (Hin : In x (minus (minus (minus p L1) L2) L3)) by (rewrite E; left; reflexivity).
  rewrite !In_minus in Hin. destruct Hin as [[[Hp N1] N2] N3]. destruct (Hc x Hp) as [A|[A|A]]; contradiction.
Qed.

Lemma incl_remove (p p' : list nat) c : incl p' p -> incl (remove Nat.eq_dec c p') (remove Nat.eq_dec c p).
Proof. intros Hi x Hx. apply in_remove in Hx. destruct Hx as [Hx Hne]. apply in_in_remove; [exact Hne|apply Hi; exact Hx]. Qed.

Lemma remove_cons_same (c : nat) p : remove Nat.eq_dec c (c :: p) = remove Nat.eq_dec c p.
Proof. cbn. destruct (Nat.eq_dec c c); [reflexivity|congruence]. Qed.

Section Iface.
  Context {T : Type} `{Num T}.
  Notation Out := (LayoutOutput T).
  Notation FS := (FStyle T).
  Notation Alg := (Engine.Alg (FIn T) Out (FLay T)).
  Notation Ret := (Engine.Ret (FIn T) Out (FLay T)).
  Notation Query := (Engine.Query (FIn T) Out (FLay T)).
  Notation SetLayout := (Engine.SetLayout (FIn T) Out (FLay T)).
  Notation fmode := (@qi_mode T).

  (* ---------------------------------------------------------------------------------------------- shapes and closed predicates *)

  Section Closed.
    Variable P : Alg -> Prop.
    Variable PQ : nat -> FIn T -> Prop.
    Variable PS : nat -> FLay T -> Prop.
    Hypothesis P_ret : forall o, P (Ret o).
    Hypothesis P_query : forall c i k, PQ c i -> (forall o, P (k o)) -> P (Query c i k).
    Hypothesis P_set : forall c l k, PS c l -> P k -> P (SetLayout c l k).

    Lemma IsRet_closed a : IsRet a -> P a.
    Proof. intros [o ->]. apply P_ret. Qed.

    Lemma Pre_closed (IN : nat -> Prop) (BL : Prop) (Tail : Alg -> Prop) a :
      (forall c i, IN c -> qi_mode i = ComputeSize -> PQ c i) ->
      (forall c i, BL -> IN c -> qi_mode i = PerformLayout -> qi_sizing i = ContentSize -> PQ c i) ->
      (forall x, Tail x -> P x) -> Pre IN BL Tail a -> P a.
    Proof.
      intros Hs Hb Ht. induction 1 as [a Ha|c i k Hc Hm Hk IH|c i k Hbl Hc Hm Hsz Hk IH];
        [apply Ht; exact Ha|apply P_query; [apply Hs; assumption|exact IH]|apply P_query; [apply Hb; assumption|exact IH]].
    Qed.

    Lemma QSL_closed (qok : nat -> FIn T -> Prop) (lok : nat -> FLay T -> Prop) (K : Alg -> Prop) L a :
      (forall c i, In c L -> qok c i -> PQ c i) -> (forall c l, In c L -> lok c l -> PS c l) ->
      (forall x, K x -> P x) -> QSL qok lok K L a -> P a.
    Proof.
      intros Hq Hl Hk. induction 1 as [a Ha|c L i lay k Hqi Hli Hki IH]; [apply Hk; exact Ha|].
      apply P_query; [apply Hq; [left; reflexivity|exact Hqi]|]. intros o.
      apply P_set; [apply Hl; [left; reflexivity|apply Hli]|].
      apply IH; intros; [apply Hq|apply Hl]; try (right; assumption); assumption.
    Qed.
  End Closed.

  Lemma hidden_input_mode : qi_mode (hidden_child_input (T := T)) = PerformLayout.
  Proof. reflexivity. Qed.

  (* the whole tail of a non-ComputeSize evaluation, for a closed predicate *)
  Lemma tail_closed (P : Alg -> Prop) (PQ : nat -> FIn T -> Prop) (PS : nat -> FLay T -> Prop) (st : list FS) walk a :
    (forall o, P (Ret o)) -> (forall c i k, PQ c i -> (forall o, P (k o)) -> P (Query c i k)) ->
    (forall c l k, PS c l -> P k -> P (SetLayout c l k)) ->
    (forall c, In c walk <-> in_flow_at st c) ->
    (forall c i, (in_flow_at st c \/ abs_at st c \/ hidden_at st c) -> qi_mode i = PerformLayout -> PQ c i) ->
    (forall c l, (in_flow_at st c \/ abs_at st c) -> PS c l) ->
    (forall c, hidden_at st c -> PS c (f_with_order c)) ->
    QSL q_layout l_any (QSL q_layout l_any (QSLc q_hidden l_with_order IsRet (hidden_nodes st)) (abs_nodes st)) walk a -> P a.
  Proof.
    intros Pr Pq Ps Hw Hq Hl Hh Hs.
    eapply (QSL_closed P PQ PS Pq Ps); [| | |exact Hs].
    - intros c i Hc Hm. apply Hq; [left; apply Hw; exact Hc|exact Hm].
    - intros c l Hc _. apply Hl. left. apply Hw. exact Hc.
    - intros x Hx. eapply (QSL_closed P PQ PS Pq Ps); [| | |exact Hx].
      + intros c i Hc Hm. apply Hq; [right; left; apply abs_nodes_iff; exact Hc|exact Hm].
      + intros c l Hc _. apply Hl. right. apply abs_nodes_iff. exact Hc.
      + intros y Hy. apply QSLc_QSL in Hy. eapply (QSL_closed P PQ PS Pq Ps); [| | |exact Hy].
        * intros c i Hc ->. apply Hq; [right; right; apply hidden_nodes_iff; exact Hc|reflexivity].
        * intros c l Hc ->. apply Hh. apply hidden_nodes_iff. exact Hc.
        * intros z Hz. apply (IsRet_closed P Pr). exact Hz.
  Qed.

  (* ---------------------------------------------------------------------------------------------- WF *)

  Theorem flex_alg_WF (s : FS) (st : list FS) (i : FIn T) : WFAlg (FIn T) Out (FLay T) fmode (flex_alg s st i).
  Proof.
    set (P := WFAlg (FIn T) Out (FLay T) fmode).
    assert (Pr : forall o, P (Ret o)) by (intros; apply WF_ret).
    assert (Pq : forall c j k, qi_mode j <> PerformHiddenLayout -> (forall o, P (k o)) -> P (Query c j k)) by (intros; apply WF_query; assumption).
    assert (Ps : forall c l k, True -> P k -> P (SetLayout c l k)) by (intros; apply WF_set; assumption).
    eapply (Pre_closed P _ Pq); [| | |apply flex_alg_shape].
    - intros c j _ E. rewrite E. discriminate.
    - intros c j _ _ E _. rewrite E. discriminate.
    - intros x [[_ Hr]|[_ (walk & Hw & Hs)]]; [apply (IsRet_closed P Pr); exact Hr|].
      eapply (tail_closed P _ _ st walk x Pr Pq Ps Hw); [| | |exact Hs]; try (intros; exact I).
      intros c j _ E. rewrite E. discriminate.
  Qed.

  (* ---------------------------------------------------------------------------------------------- HQ *)

  Notation fnones := (nones FS f_is_none).

  Lemma in_flow_nones st c : in_flow_at st c -> fnones st c = false.
  Proof. intros (sc & E & A & _). unfold nones. rewrite E. exact A. Qed.
  Lemma abs_nones st c : abs_at st c -> fnones st c = false.
  Proof. intros (sc & E & A & _). unfold nones. rewrite E. exact A. Qed.

  Theorem flex_alg_HQ (s : FS) (st : list FS) (i : FIn T) :
    NoHiddenSize (FIn T) Out (FLay T) fmode (fnones st) (flex_alg s st i).
  Proof.
    set (P := NoHiddenSize (FIn T) Out (FLay T) fmode (fnones st)).
    assert (Pr : forall o, P (Ret o)) by (intros; apply NHS_ret).
    assert (Pq : forall c j k, (qi_mode j = ComputeSize -> fnones st c = false) -> (forall o, P (k o)) -> P (Query c j k))
      by (intros; apply NHS_query; assumption).
    assert (Ps : forall c l k, True -> P k -> P (SetLayout c l k)) by (intros; apply NHS_set; assumption).
    eapply (Pre_closed P _ Pq); [| | |apply flex_alg_shape].
    - intros c j Hc _ _. apply in_flow_nones. exact Hc.
    - intros c j _ _ E _ E'. rewrite E in E'. discriminate.
    - intros x [[_ Hr]|[_ (walk & Hw & Hs)]]; [apply (IsRet_closed P Pr); exact Hr|].
      eapply (tail_closed P _ _ st walk x Pr Pq Ps Hw); [| | |exact Hs]; try (intros; exact I).
      intros c j _ E E'. rewrite E in E'. discriminate.
  Qed.

  (* ---------------------------------------------------------------------------------------------- SetsZeroOnHidden *)

  Theorem flex_alg_SZH : SetsZeroOnHidden FS (FIn T) Out (FLay T) f_is_none flex_alg f_zeroish.
  Proof.
    intros s st i.
    set (P := SZH FS (FIn T) Out (FLay T) f_is_none f_zeroish st).
    assert (Pr : forall o, P (Ret o)) by (intros; apply SZH_ret).
    assert (Pq : forall c (j : FIn T) k, True -> (forall o, P (k o)) -> P (Query c j k)) by (intros; apply SZH_query; assumption).
    assert (Ps : forall c l k, (forall sc, nth_error st c = Some sc -> f_is_none sc = true -> f_zeroish l) -> P k -> P (SetLayout c l k))
      by (intros; apply SZH_set; assumption).
    eapply (Pre_closed P _ Pq); [| | |apply flex_alg_shape]; try (intros; exact I).
    intros x [[_ Hr]|[_ (walk & Hw & Hs)]]; [apply (IsRet_closed P Pr); exact Hr|].
    eapply (tail_closed P _ _ st walk x Pr Pq Ps Hw); [| | |exact Hs]; try (intros; exact I).
    - intros c l [Hc|Hc] sc E N; [rewrite (in_flow_not_none st c Hc sc E) in N|rewrite (abs_not_none st c Hc sc E) in N]; discriminate.
    - intros c _ sc _ _. exists (Z.of_nat c). reflexivity.
  Qed.

  (* ---------------------------------------------------------------------------------------------- H1 *)

  Notation Vis := (Visits (FIn T) Out (FLay T) fmode).

  Lemma Visits_anti a : forall p, Vis p a -> forall p', incl p' p -> Vis p' a.
  Proof.
    induction a as [o|c i k IH|c l k IH]; intros p Hv p' Hi.
    - inversion Hv; subst. destruct p' as [|x r]; [apply Vis_ret|]. exfalso. apply (Hi x). left. reflexivity.
    - inversion Hv as [|? ? ? ? Hk|]; subst. apply Vis_query. intros o. eapply IH; [apply Hk|].
      destruct (qi_mode i); [apply incl_remove; exact Hi|exact Hi|exact Hi].
    - inversion Hv; subst. apply Vis_set. eapply IH; eassumption.
  Qed.

  Lemma Visits_query_any p c i k : (forall o, Vis p (k o)) -> Vis p (Query c i k).
  Proof.
    intros Hk. apply Vis_query. intros o. destruct (qi_mode i); try apply Hk.
    eapply Visits_anti; [apply Hk|]. intros x Hx. apply in_remove in Hx. tauto.
  Qed.

  Lemma QSL_Visits (qok : nat -> FIn T -> Prop) lok (K : Alg -> Prop) : (forall c i, qok c i -> qi_mode i = PerformLayout) ->
    forall L a, QSL qok lok K L a -> forall p, (forall x, K x -> Vis (minus p L) x) -> Vis p a.
  Proof.
    intros Hq. induction 1 as [a Ha|c L i lay k Hqi Hli Hki IH]; intros p Hk; [apply Hk; exact Ha|].
    apply Vis_query. intros o. rewrite (Hq c i Hqi). apply Vis_set. apply IH. exact Hk.
  Qed.

  Theorem flex_alg_H1 (s : FS) (st : list FS) (i : FIn T) : qi_mode i = PerformLayout ->
    Vis (seq 0 (length st)) (flex_alg s st i).
  Proof.
    intros Em. set (p := seq 0 (length st)).
    eapply (Pre_closed (Vis p) (fun _ _ => True)); [| | | |apply flex_alg_shape]; try (intros; exact I).
    - intros c j k _ Hk. apply Visits_query_any. exact Hk.
    - intros x [[E _]|[_ (walk & Hw & Hs)]]; [rewrite Em in E; discriminate|].
      eapply (QSL_Visits q_layout); [intros ? ? E; exact E|exact Hs|]. intros y Hy.
      eapply (QSL_Visits q_layout); [intros ? ? E; exact E|exact Hy|]. intros z Hz.
      apply QSLc_QSL in Hz. eapply (QSL_Visits q_hidden); [intros ? ? ->; reflexivity|exact Hz|]. intros r [o ->].
      unfold p. rewrite minus3_nil; [apply Vis_ret|].
      intros c Hc. apply in_seq in Hc. destruct (classes_cover st c) as [A|[A|A]]; [lia| | |].
      + left. apply Hw. exact A.
      + right. left. apply abs_nodes_iff. exact A.
      + right. right. apply hidden_nodes_iff. exact A.
  Qed.

  (* ---------------------------------------------------------------------------------------------- H3 *)

  Notation SL := (SetsLast (FIn T) Out (FLay T)).

  Lemma SetsLast_anti none a : forall p, SL none p a -> forall p', incl p' p -> SL none p' a.
  Proof.
    induction a as [o|c i k IH|c l k IH]; intros p Hv p' Hi.
    - inversion Hv; subst. destruct p' as [|x r]; [apply SL_ret|]. exfalso. apply (Hi x). left. reflexivity.
    - inversion Hv as [|? ? ? ? Hk|]; subst. apply SL_query. intros o. eapply IH; [apply Hk|].
      destruct (none c); [|exact Hi]. intros x [<-|Hx]; [left; reflexivity|right; apply Hi; exact Hx].
    - inversion Hv; subst. apply SL_set. eapply IH; [eassumption|]. apply incl_remove. exact Hi.
  Qed.

  Lemma QSL_SetsLast none (qok : nat -> FIn T -> Prop) lok (K : Alg -> Prop) :
    forall L a, QSL qok lok K L a -> forall p, (forall x, K x -> SL none (minus p L) x) -> SL none p a.
  Proof.
    induction 1 as [a Ha|c L i lay k Hqi Hli Hki IH]; intros p Hk; [apply Hk; exact Ha|].
    apply SL_query. intros o. apply SL_set.
    replace (remove Nat.eq_dec c (if none c then c :: p else p)) with (remove Nat.eq_dec c p)
      by (destruct (none c); [rewrite remove_cons_same|]; reflexivity).
    apply IH. exact Hk.
  Qed.

  Theorem flex_alg_H3 (s : FS) (st : list FS) (i : FIn T) : qi_mode i = PerformLayout ->
    SL (fnones st) (seq 0 (length st)) (flex_alg s st i).
  Proof.
    intros Em. set (p := seq 0 (length st)).
    eapply (Pre_closed (SL (fnones st) p) (fun c _ => fnones st c = false)); [| | | |apply flex_alg_shape].
    - intros c j k Hn Hk. apply SL_query. rewrite Hn. exact Hk.
    - intros c j Hc _. apply in_flow_nones. exact Hc.
    - intros c j _ Hc _ _. apply in_flow_nones. exact Hc.
    - intros x [[E _]|[_ (walk & Hw & Hs)]]; [rewrite Em in E; discriminate|].
      eapply QSL_SetsLast; [exact Hs|]. intros y Hy.
      eapply QSL_SetsLast; [exact Hy|]. intros z Hz.
      apply QSLc_QSL in Hz. eapply QSL_SetsLast; [exact Hz|]. intros r [o ->].
      unfold p. rewrite minus3_nil; [apply SL_ret|].
      intros c Hc. apply in_seq in Hc. destruct (classes_cover st c) as [A|[A|A]]; [lia| | |].
      + left. apply Hw. exact A.
      + right. left. apply abs_nodes_iff. exact A.
      + right. right. apply hidden_nodes_iff. exact A.
  Qed.

  (* ---------------------------------------------------------------------------------------------- NS, the part that holds *)

  Theorem flex_alg_NS_partial (s : FS) (st : list FS) (i : FIn T) :
    fs_row s = false \/
    Forall (fun sc => falign_is_baseline (opt_unwrap_or (fs_align_self sc) (container_align_items s)) = false) st ->
    qi_mode i = ComputeSize -> SizeOnly (FIn T) Out (FLay T) fmode (flex_alg s st i).
  Proof.
    intros Hno Em.
    assert (NBL : ~ flex_BL s st).
    { intros [Er (sc & Hin & Eb)]. destruct Hno as [E|Hf]; [congruence|].
      rewrite Forall_forall in Hf. rewrite (Hf sc Hin) in Eb. discriminate. }
    set (P := SizeOnly (FIn T) Out (FLay T) fmode).
    assert (Pr : forall o, P (Ret o)) by (intros; apply SO_ret).
    assert (Pq : forall c j k, qi_mode j = ComputeSize -> (forall o, P (k o)) -> P (Query c j k)) by (intros; apply SO_query; assumption).
    eapply (Pre_closed P _ Pq); [| | |apply flex_alg_shape].
    - intros c j _ E. exact E.
    - intros c j Hb. contradiction.
    - intros x [[_ Hr]|[N _]]; [apply (IsRet_closed P Pr); exact Hr|contradiction].
  Qed.
End Iface.

(* ------------------------------------------------------------------------------------------------ NS, refuted *)

(* a checker: walk the resumption with the given answers (the last one is repeated); false as soon as a non-ComputeSize query or a stored
   layout is met *)
Section Check.
  Context {T : Type} `{Num T}.
  Notation Out := (LayoutOutput T).
  Fixpoint size_only_run (fuel : nat) (a : Engine.Alg (FIn T) Out (FLay T)) (answers : list Out) (dflt : Out) : bool :=
    match fuel with
    | O => true
    | S f =>
        match a with
        | Engine.Ret _ _ _ _ => true
        | Engine.Query _ _ _ _ i k =>
            match qi_mode i with
            | ComputeSize => match answers with o :: r => size_only_run f (k o) r dflt | [] => size_only_run f (k dflt) [] dflt end
            | _ => false
            end
        | Engine.SetLayout _ _ _ _ _ _ => false
        end
    end.

  Lemma size_only_run_sound a : SizeOnly (FIn T) Out (FLay T) (@qi_mode T) a ->
    forall fuel answers dflt, size_only_run fuel a answers dflt = true.
  Proof.
    induction 1 as [o|c i k Hm Hk IH]; intros fuel answers dflt; destruct fuel as [|f]; cbn [size_only_run]; try reflexivity.
    rewrite Hm. destruct answers; apply IH.
  Qed.
End Check.

Open Scope Z_scope.
Definition xq (z : Z) : XQ := Fin (inject_Z z).

(* a row container (align-items: baseline) with two 10 x 20 / 10 x 30 children, asked for its size under max-content *)
Definition ns_child (h : Z) : FStyle XQ :=
  mkFStyle (mkStyle DFlex Relative BorderBox (mkPoint Visible Visible) (xq 0)
                    (mkSize (Length (xq 10)) (Length (xq h))) (mkSize Auto Auto) (mkSize Auto Auto) None
                    (mkRect (Length (xq 0)) (Length (xq 0)) (Length (xq 0)) (Length (xq 0)))
                    (mkRect (LpLength (xq 0)) (LpLength (xq 0)) (LpLength (xq 0)) (LpLength (xq 0)))
                    (mkRect (LpLength (xq 0)) (LpLength (xq 0)) (LpLength (xq 0)) (LpLength (xq 0))))
           (mkRect Auto Auto Auto Auto) true false false false None None None None
           (mkSize (LpLength (xq 0)) (LpLength (xq 0))) Auto (xq 0) (xq 1).
Definition ns_container : FStyle XQ :=
  mkFStyle (mkStyle DFlex Relative BorderBox (mkPoint Visible Visible) (xq 0)
                    (mkSize Auto Auto) (mkSize Auto Auto) (mkSize Auto Auto) None
                    (mkRect (Length (xq 0)) (Length (xq 0)) (Length (xq 0)) (Length (xq 0)))
                    (mkRect (LpLength (xq 0)) (LpLength (xq 0)) (LpLength (xq 0)) (LpLength (xq 0)))
                    (mkRect (LpLength (xq 0)) (LpLength (xq 0)) (LpLength (xq 0)) (LpLength (xq 0))))
           (mkRect Auto Auto Auto Auto) true false false false (Some FA_Baseline) None None None
           (mkSize (LpLength (xq 0)) (LpLength (xq 0))) Auto (xq 0) (xq 1).
Definition ns_input : FIn XQ :=
  mkFIn ComputeSize InherentSize AxBoth (mkSize None None) (mkSize None None) (mkSize MaxContent MaxContent) (mkLine false false).
Definition ns_answer : LayoutOutput XQ :=
  mkOutput (mkSize (xq 10) (xq 20)) (mkSize (xq 0) (xq 0)) (mkPoint None None) margin_set_ZERO margin_set_ZERO false.

(* the first event that is not a ComputeSize query, when every query is answered with `ns_answer`: (child, run mode is PerformLayout,
   sizing mode is ContentSize) *)
Fixpoint first_non_size (fuel : nat) (a : Engine.Alg (FIn XQ) (LayoutOutput XQ) (FLay XQ)) : option (nat * bool * bool) :=
  match fuel with
  | O => None
  | S f =>
      match a with
      | Engine.Ret _ _ _ _ => None
      | Engine.Query _ _ _ c i k =>
          match qi_mode i with
          | ComputeSize => first_non_size f (k ns_answer)
          | PerformLayout => Some (c, true, match qi_sizing i with ContentSize => true | _ => false end)
          | PerformHiddenLayout => Some (c, false, false)
          end
      | Engine.SetLayout _ _ _ c _ _ => Some (c, false, false)
      end
  end.

Theorem flex_alg_NS_refuted :
  qi_mode ns_input = ComputeSize /\
  ~ SizeOnly (FIn XQ) (LayoutOutput XQ) (FLay XQ) (@qi_mode XQ) (flex_alg ns_container [ns_child 20; ns_child 30] ns_input) /\
  (* after the two min-content measurements, the next event is a PerformLayout / ContentSize query to child 0: l.1440 *)
  first_non_size 8 (flex_alg ns_container [ns_child 20; ns_child 30] ns_input) = Some (0%nat, true, true).
Proof.
  split; [reflexivity|]. split.
  - intros Hs. pose proof (size_only_run_sound _ Hs 8 [] ns_answer) as E. vm_compute in E. discriminate.
  - vm_compute. reflexivity.
Qed.
