(* A concrete well-behaved instance of the engine skeleton (same carrier types as Model/EngineToy.v), used as the
   non-vacuity witness of the layout-level history theorem: every box-generating child is queried once, in order,
   in the parent's own run mode; in PerformLayout mode its layout is stored right after the query; a display:none
   child receives the canonical hidden-child PerformLayout query followed by set_unrounded_layout(with_order(index)),
   and is left alone in ComputeSize mode.  It satisfies WF, H1, H3, NS and HQ (Proofs/EngineLayoutsToy.v).
   (t_algo of Model/EngineToy.v does not: it stores layouts in every run mode, like taffy's block algorithm.) *)
From Coq Require Import List Bool Arith NArith Lia.
From TV Require Import Model.Engine Model.EngineToy.
Import ListNotations.

Fixpoint lall (st : list TS) (k : nat) (i : TIn) (acc : N) : Alg TIn TOut TLay :=
  match st with
  | [] => Ret _ _ _ acc
  | s :: st' =>
      if t_is_none s then
        match t_mode i with
        | PerformLayout =>
            Query _ _ _ k hidden_child_key (fun _ => SetLayout _ _ _ k (N.of_nat k + 100)%N (lall st' (S k) i acc))
        | _ => lall st' (S k) i acc
        end
      else
        Query _ _ _ k i
              (fun o => match t_mode i with
                        | PerformLayout => SetLayout _ _ _ k (o + 1)%N (lall st' (S k) i (acc + o)%N)
                        | _ => lall st' (S k) i (acc + o)%N
                        end)
  end.

Definition l_algo (s : TS) (st : list TS) (i : TIn) : Alg TIn TOut TLay :=
  match t_mode i with
  | PerformLayout => lall st 0 i (fst s + snd i)%N
  | ComputeSize => lall st 0 i (fst s + snd i + 7)%N
  | PerformHiddenLayout => Ret _ _ _ 0%N
  end.

Definition l_memo := memo TS TIn TOut TLay t_mode t_in_eqb t_is_none 0%N 0%N l_algo.

(* ---- an instance showing that hypothesis HQ cannot be dropped: it satisfies WF, H1, H3 and NS, but node 1 asks its
   display:none child for a size when it is itself asked for a size.  root (id 0, one child): PerformLayout x ->
   child.ComputeSize x ; child.PerformLayout 7 ; child.layout := 1.   middle (id 1, one child): PerformLayout ->
   child.hidden-child query ; child.layout := 50;  ComputeSize x -> child.ComputeSize x.   Everything else: l_algo. *)
Definition q_algo (s : TS) (st : list TS) (i : TIn) : Alg TIn TOut TLay :=
  match fst s, st with
  | 0%N, [_] =>
      match t_mode i with
      | PerformLayout =>
          Query _ _ _ 0 (ComputeSize, snd i)
                (fun _ => Query _ _ _ 0 (PerformLayout, 7%N) (fun o => SetLayout _ _ _ 0 1%N (Ret _ _ _ o)))
      | _ => Ret _ _ _ 0%N
      end
  | 1%N, [_] =>
      match t_mode i with
      | PerformLayout => Query _ _ _ 0 hidden_child_key (fun _ => SetLayout _ _ _ 0 50%N (Ret _ _ _ 0%N))
      | ComputeSize => Query _ _ _ 0 (ComputeSize, snd i) (fun o => Ret _ _ _ o)
      | PerformHiddenLayout => Ret _ _ _ 0%N
      end
  | _, _ => l_algo s st i
  end.

Definition q_memo := memo TS TIn TOut TLay t_mode t_in_eqb t_is_none 0%N 0%N q_algo.
Definition q_sk : sk TS := SNode TS (0%N, false) [SNode TS (1%N, false) [SNode TS (2%N, true) []]].
Definition q_after (inputs : list N) : option ttree :=
  fold_left (fun acc x => match acc with
                          | Some t => match q_memo 8 t (PerformLayout, x) with Some (_, t') => Some t' | None => None end
                          | None => None end) inputs (Some (fresh TS TIn TOut TLay 0%N q_sk)).
(* stored layout of the display:none leaf *)
Definition q_leaf_lay (t : ttree) : option N :=
  match subtree TS TIn TOut TLay t [0; 0] with Some u => Some (lay_of TS TIn TOut TLay u) | None => None end.

(* ---- an instance showing that the ORDER part of H3 cannot be dropped (the `order` defect repaired in the hidden-child
   loops): it satisfies WF, H1, NS, HQ and stores every child's layout, but a node with id 0 and one child stores the
   child's layout BEFORE the (hidden-child) query.  Everything else: l_algo. *)
Definition o_algo (s : TS) (st : list TS) (i : TIn) : Alg TIn TOut TLay :=
  match fst s, st with
  | 0%N, [_] =>
      match t_mode i with
      | PerformLayout => SetLayout _ _ _ 0 50%N (Query _ _ _ 0 hidden_child_key (fun o => Ret _ _ _ (o + snd i)%N))
      | _ => Ret _ _ _ 0%N
      end
  | _, _ => l_algo s st i
  end.
Definition o_memo := memo TS TIn TOut TLay t_mode t_in_eqb t_is_none 0%N 0%N o_algo.
Definition o_sk : sk TS := SNode TS (0%N, false) [SNode TS (1%N, true) []].
Definition o_after (inputs : list N) : option ttree :=
  fold_left (fun acc x => match acc with
                          | Some t => match o_memo 8 t (PerformLayout, x) with Some (_, t') => Some t' | None => None end
                          | None => None end) inputs (Some (fresh TS TIn TOut TLay 0%N o_sk)).
Definition o_child_lay (t : ttree) : option N :=
  match subtree TS TIn TOut TLay t [0] with Some u => Some (lay_of TS TIn TOut TLay u) | None => None end.
