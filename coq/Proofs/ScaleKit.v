(* C04 -- shared kit for the container kernels (Proofs/ScaleFlex.v, ScaleBlock.v, ScaleGrid.v), on top of the primitive
   layer Proofs/ScalePrim.v:
     - the laws of dimensionless numbers (dl): + - * / min max and comparisons respect the equality of rationals;
       dl is the relation `sc 1`, so every law is the k = 1 instance of a law of lengths;
     - is_normal / is_nan / `== infinity` tests are invariant (infinities and NaN are fixed points of the scaling);
     - lifts to lists (Forall2): map, filter, fold_left, fsum, rev, app, forallb, existsb, length, nth_error, firstn, skipn;
     - the structural step tactic `ks k Hk` (one rule per operation; `if` on comparisons is synchronised by proving the
       conditions equal, `match` on options by proving the scrutinees related). *)
From Coq Require Import QArith Qabs Qround Lqa Bool List ZArith Lia.
From TV Require Import Num.Num Num.QNum Model.ScaleBase.
From TV Require Export Proofs.ScalePrim.
Import ListNotations.

(* ------------------------------------------------------------------------------------------------------------ *)
(** * Dimensionless numbers: dl = sc 1 *)

Lemma dl_sc1 a a' : dl a a' <-> sc 1 a a'.
Proof.
  unfold dl, sc. destruct a, a'; cbn; try tauto.
  split; intros E; rewrite E; ring.
Qed.
Lemma Q01 : 0 < 1. Proof. reflexivity. Qed.

Lemma dl_zero : dl zero zero. Proof. apply dl_refl. Qed.
Lemma dl_one : dl one one. Proof. apply dl_refl. Qed.
Lemma dl_add a a' b b' : dl a a' -> dl b b' -> dl (add a b) (add a' b').
Proof. rewrite !dl_sc1. apply sc_add. Qed.
Lemma dl_sub a a' b b' : dl a a' -> dl b b' -> dl (sub a b) (sub a' b').
Proof. rewrite !dl_sc1. apply sc_sub. Qed.
Lemma dl_mul a a' b b' : dl a a' -> dl b b' -> dl (mul a b) (mul a' b').
Proof. rewrite !dl_sc1. intros. apply (sc_mul_dl 1); auto using Q01. apply dl_sc1. assumption. Qed.
Lemma dl_div a a' b b' : dl a a' -> dl b b' -> dl (div a b) (div a' b').
Proof. rewrite !dl_sc1. intros. apply (sc_div_dl 1); auto using Q01. apply dl_sc1. assumption. Qed.
Lemma dl_max a a' b b' : dl a a' -> dl b b' -> dl (fmax a b) (fmax a' b').
Proof. rewrite !dl_sc1. apply sc_max. exact Q01. Qed.
Lemma dl_min a a' b b' : dl a a' -> dl b b' -> dl (fmin a b) (fmin a' b').
Proof. rewrite !dl_sc1. apply sc_min. exact Q01. Qed.
Lemma dl_ltb a a' b b' : dl a a' -> dl b b' -> ltb a' b' = ltb a b.
Proof. apply dl_x_ltb. Qed.
Lemma dl_leb a a' b b' : dl a a' -> dl b b' -> leb a' b' = leb a b.
Proof. rewrite !dl_sc1. apply sc_leb. exact Q01. Qed.
Lemma dl_eqb a a' b b' : dl a a' -> dl b b' -> eqb a' b' = eqb a b.
Proof. rewrite !dl_sc1. apply sc_eqb. exact Q01. Qed.
Lemma dl_gtb a a' b b' : dl a a' -> dl b b' -> gtb a' b' = gtb a b.
Proof. intros. unfold gtb. apply dl_ltb; assumption. Qed.
Lemma dl_trans a b c : dl a b -> dl b c -> dl a c.
Proof. unfold dl. intros H1 H2. eapply xeq_trans; eassumption. Qed.
Lemma dl_sym a b : dl a b -> dl b a.
Proof. unfold dl. apply xeq_sym. Qed.

(* a length relation composed with equalities of rationals on either side *)
Lemma sc_dl_r k a b c : sc k a b -> dl b c -> sc k a c.
Proof. unfold sc, dl. intros H1 H2. eapply xeq_trans; eassumption. Qed.
Lemma sc_dl_l k a b c : dl a b -> sc k b c -> sc k a c.
Proof.
  unfold sc, dl. intros H1 H2. eapply xeq_trans; [eassumption|]. apply x_scale_xeq. exact H1.
Qed.

(* dimensionless * length (flex factor * fr size, percentage * basis) *)
Lemma sc_one k : sc k one one -> k == 1.
Proof. unfold sc. cbn. intros E. lra. Qed.

(* tests *)
Lemma sc_is_normal k a a' : 0 < k -> sc k a a' -> is_normal a' = is_normal a.
Proof.
  unfold sc. intros Hk. destruct a, a'; cbn; intros E; try contradiction; try reflexivity.
  f_equal. apply (qeq_bool_scale k); [exact Hk | exact E | ring].
Qed.
Lemma sc_is_nan_eq k a a' : sc k a a' -> is_nan a' = is_nan a.
Proof. apply sc_is_nan. Qed.
Lemma dl_is_nan a a' : dl a a' -> is_nan a' = is_nan a.
Proof. rewrite dl_sc1. apply sc_is_nan. Qed.
Lemma sc_eqb_infinity k a a' : 0 < k -> sc k a a' -> eqb a' infinity = eqb a infinity.
Proof. intros Hk E. apply (sc_eqb k); [exact Hk | exact E | apply sc_infinity]. Qed.
Lemma sc_neg_zero k : sc k neg_zero neg_zero.
Proof. unfold neg_zero. apply sc_neg. apply sc_zero. Qed.
Lemma dl_neg_zero : dl neg_zero neg_zero.
Proof. apply dl_refl. Qed.

(* floor / ceil of a dimensionless number (auto-repeat count of grid templates) *)
Lemma dl_ffloor a a' : dl a a' -> dl (ffloor a) (ffloor a').
Proof.
  unfold dl. destruct a, a'; cbn; try tauto. intros E. rewrite (Qfloor_comp _ _ E). reflexivity.
Qed.
Lemma dl_fceil a a' : dl a a' -> dl (fceil a) (fceil a').
Proof.
  unfold dl. destruct a, a'; cbn; try tauto. intros E. rewrite (Qceiling_comp _ _ E). reflexivity.
Qed.

(* ------------------------------------------------------------------------------------------------------------ *)
(** * Lists *)

Section Lists.
  Context {A B : Type}.
  Variable RA : A -> A -> Prop.
  Variable RB : B -> B -> Prop.

  Lemma rel_map f f' l l' :
    (forall x x', RA x x' -> RB (f x) (f' x')) -> Forall2 RA l l' -> Forall2 RB (map f l) (map f' l').
  Proof. intros Hf Hl. induction Hl; cbn; constructor; auto. Qed.

  Lemma rel_fold_left f f' l l' (b b' : B) :
    (forall b b' x x', RB b b' -> RA x x' -> RB (f b x) (f' b' x')) ->
    Forall2 RA l l' -> RB b b' -> RB (fold_left f l b) (fold_left f' l' b').
  Proof. intros Hf Hl. revert b b'. induction Hl; cbn; intros; auto. Qed.

  Lemma rel_filter p p' l l' :
    (forall x x', RA x x' -> p' x' = p x) -> Forall2 RA l l' -> Forall2 RA (filter p l) (filter p' l').
  Proof.
    intros Hp Hl. induction Hl; cbn; [constructor|].
    rewrite (Hp _ _ H). destruct (p x); [constructor|]; assumption.
  Qed.

  Lemma rel_forallb p p' l l' :
    (forall x x', RA x x' -> p' x' = p x) -> Forall2 RA l l' -> forallb p' l' = forallb p l.
  Proof. intros Hp Hl. induction Hl; cbn; [reflexivity|]. rewrite (Hp _ _ H), IHHl. reflexivity. Qed.
  Lemma rel_existsb p p' l l' :
    (forall x x', RA x x' -> p' x' = p x) -> Forall2 RA l l' -> existsb p' l' = existsb p l.
  Proof. intros Hp Hl. induction Hl; cbn; [reflexivity|]. rewrite (Hp _ _ H), IHHl. reflexivity. Qed.

  Lemma rel_length l l' : Forall2 RA l l' -> length l' = length l.
  Proof. intros Hl. induction Hl; cbn; congruence. Qed.

  Lemma rel_app l l' m m' : Forall2 RA l l' -> Forall2 RA m m' -> Forall2 RA (l ++ m) (l' ++ m').
  Proof. intros Hl Hm. induction Hl; cbn; [assumption | constructor; assumption]. Qed.

  Lemma rel_rev l l' : Forall2 RA l l' -> Forall2 RA (rev l) (rev l').
  Proof. intros Hl. induction Hl; cbn; [constructor|]. apply rel_app; [assumption | constructor; [assumption | constructor]]. Qed.

  Lemma rel_firstn n l l' : Forall2 RA l l' -> Forall2 RA (firstn n l) (firstn n l').
  Proof. intros Hl. revert n. induction Hl; intros [|n]; cbn; constructor; auto. Qed.
  Lemma rel_skipn n l l' : Forall2 RA l l' -> Forall2 RA (skipn n l) (skipn n l').
  Proof. intros Hl. revert n. induction Hl; intros [|n]; cbn; try constructor; auto. Qed.

  Lemma rel_nth_error n l l' : Forall2 RA l l' -> op_rel RA (nth_error l n) (nth_error l' n).
  Proof. intros Hl. revert n. induction Hl; intros [|n]; cbn; auto. Qed.

  Lemma rel_nth n l l' d d' : Forall2 RA l l' -> RA d d' -> RA (nth n l d) (nth n l' d').
  Proof. intros Hl Hd. revert n. induction Hl; intros [|n]; cbn; auto. Qed.
End Lists.

Lemma rel_fsum k l l' : Forall2 (sc k) l l' -> sc k (fsum l) (fsum l').
Proof.
  intros Hl. unfold fsum. apply (rel_fold_left (sc k) (sc k)); [ | exact Hl | apply sc_neg_zero].
  intros. apply sc_add; assumption.
Qed.
Lemma rel_fsum_dl l l' : Forall2 dl l l' -> dl (fsum l) (fsum l').
Proof.
  intros Hl. unfold fsum. apply (rel_fold_left dl dl); [ | exact Hl | apply dl_neg_zero].
  intros. apply dl_add; assumption.
Qed.

Lemma Forall2_self {A} (R : A -> A -> Prop) (f : A -> A) l : (forall x, R x (f x)) -> Forall2 R l (map f l).
Proof. intros Hf. induction l; cbn; constructor; auto. Qed.
Lemma Forall2_impl {A} (R S : A -> A -> Prop) l l' : (forall x y, R x y -> S x y) -> Forall2 R l l' -> Forall2 S l l'.
Proof. intros HS Hl. induction Hl; constructor; auto. Qed.

(* ------------------------------------------------------------------------------------------------------------ *)
(** * Structural step tactic *)

Ltac split_hyps := repeat match goal with H : _ /\ _ |- _ => destruct H end.

Ltac ks_step k Hk :=
  first [ eassumption |
  lazymatch goal with
  | |- _ /\ _ => split
  | |- True => exact I
  | |- ?x = ?x => reflexivity
  | |- sc _ zero zero => apply sc_zero
  | |- sc _ infinity infinity => apply sc_infinity
  | |- sc _ neg_zero neg_zero => apply sc_neg_zero
  | |- sc _ (add _ _) (add _ _) => apply sc_add
  | |- sc _ (sub _ _) (sub _ _) => apply sc_sub
  | |- sc _ (neg _) (neg _) => apply sc_neg
  | |- sc _ (fmax _ _) (fmax _ _) => apply (sc_max k); [exact Hk | | ]
  | |- sc _ (fmin _ _) (fmin _ _) => apply (sc_min k); [exact Hk | | ]
  | |- sc _ (fabs _) (fabs _) => apply (sc_abs k); [exact Hk | ]
  | |- sc _ (fsum _) (fsum _) => apply rel_fsum
  | |- dl zero zero => apply dl_zero
  | |- dl one one => apply dl_one
  | |- dl two two => apply dl_refl
  | |- dl (of_Z _) (of_Z _) => apply dl_of_Z
  | |- dl (add _ _) (add _ _) => apply dl_add
  | |- dl (sub _ _) (sub _ _) => apply dl_sub
  | |- dl (mul _ _) (mul _ _) => apply dl_mul
  | |- dl (fmax _ _) (fmax _ _) => apply dl_max
  | |- dl (fmin _ _) (fmin _ _) => apply dl_min
  | |- dl (fsum _) (fsum _) => apply rel_fsum_dl
  | |- op_rel _ (Some _) (Some _) => apply rel_Some
  | |- op_rel _ None None => exact I
  | |- op_rel _ (option_map _ _) (option_map _ _) => eapply rel_option_map; [ | intros ? ? ?]
  | |- orb _ _ = orb _ _ => apply f_equal2
  | |- andb _ _ = andb _ _ => apply f_equal2
  | |- negb _ = negb _ => apply f_equal
  | |- is_normal _ = is_normal _ => apply (sc_is_normal k); [exact Hk | ]
  | |- _ (if ?c then _ else _) (if ?c' then _ else _) =>
      let H := fresh "Hc" in assert (H : c' = c); [ | rewrite H; destruct c ]
  end ].

(* the ambiguous rules (a product or quotient can be length*factor, factor*length, length/factor, length/length or
   factor/factor): tried in this order, each alternative must close its side goals by assumption-like steps *)
Ltac ks k Hk := split_hyps; repeat (ks_step k Hk).
