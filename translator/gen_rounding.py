"""Translate the pixel-rounding pass into Gallina over `Num`:

  src/tree/layout.rs      struct Layout            -> Record layout (flattened: location_x, size_width, border_left, ...)
  src/compute/mod.rs      round_layout             -> round_layout_root_cum   (the cumulative x/y the root is entered with)
                          round_layout_inner       -> round_layout_inner_node (the per-node body, statement by statement, in source
                                                      order; `round_content_size` is inlined at its call site) returning the layout
                                                      handed to set_final_layout and the cumulative x/y handed to the recursive call
  src/util/sys.rs         round                    -> must be `value.round()` (f32::round = Num.fround)
  src/tree/taffy_tree.rs  TaffyConfig::default, enable_rounding, disable_rounding, layout, unrounded_layout,
                          compute_layout_with_measure, compute_layout, RoundTree::{get_unrounded_layout, set_final_layout}
                                                   -> the booleans of the rounding-flag state machine

Everything is matched strictly; an unexpected statement, argument or control-flow form raises Refuse (the check then fails
closed).  Arithmetic inside the recognised statements is translated generically (`+ - * /`, unary `-`, `round(..)`, `.round()`,
`.floor()`, `.ceil()`, `.abs()`, `.min()/.max()`, float literals, reads of locals, of `unrounded_layout.*` and of the `layout`
being built), so an edit to a formula changes the term the theorems are about."""
import re
from fractions import Fraction
from rustparse import *

SRC_MOD = 'src/compute/mod.rs'
SRC_TREE = 'src/tree/taffy_tree.rs'
SRC_LAYOUT = 'src/tree/layout.rs'
SRC_SYS = 'src/util/sys.rs'

SUBFIELDS = {'Point<f32>': ['x', 'y'], 'Size<f32>': ['width', 'height'], 'Rect<f32>': ['left', 'right', 'top', 'bottom']}


class Refuse(Exception):
    pass


def default_features(repo):
    txt = open(repo + '/Cargo.toml').read()
    m = re.search(r'(?m)^default\s*=\s*\[(.*?)\]', txt, re.S)
    if not m:
        raise Refuse("Cargo.toml: no default feature list")
    return set(re.findall(r'"([^"]+)"', m.group(1)))


def cfg_enabled(attrs, feats):
    """attrs: attribute texts of a statement / field.  True = compiled in, False = compiled out."""
    on = True
    for a in attrs:
        m = re.match(r'^cfg \( feature = "([a-z_]+)" \)$', a)
        if m:
            on = on and (m.group(1) in feats)
            continue
        if a.startswith('doc') or a.startswith('inline') or a.startswith('must_use') or a.startswith('cfg_attr'):
            continue
        raise Refuse("attribute %r" % a)
    return on


# ----------------------------------------------------------------------------- struct Layout

def layout_fields(repo, feats):
    toks = tokenize(open(repo + '/' + SRC_LAYOUT).read())
    i = 0
    while i < len(toks) and not seq_at(toks, i, ['pub', 'struct', 'Layout', '{']):
        i += 1
    if i >= len(toks):
        raise Refuse("struct Layout not found")
    b = i + 3
    e = match_brace(toks, b)
    p = Parser(toks[b + 1:e])
    fields = []
    while not p.at_end():
        attrs = p.attrs()
        if p.peek() == 'pub':
            p.eat()
        name = p.eat()
        p.eat(':')
        ty = p.ty().replace(' ', '')
        if not p.at_end():
            p.eat(',')
        if cfg_enabled(attrs, feats):
            fields.append((name, ty))
    flat = []
    for name, ty in fields:
        if ty == 'u32':
            flat.append((name, None))
        elif ty in SUBFIELDS:
            for s in SUBFIELDS[ty]:
                flat.append((name, s))
        else:
            raise Refuse("Layout field %s : %s" % (name, ty))
    return fields, flat, norm_tokens(toks[i:e + 1])


def fname(f):
    return f[0] if f[1] is None else '%s_%s' % f


# ----------------------------------------------------------------------------- symbolic execution of the per-node body

def float_lit(txt):
    if not re.match(r'^[0-9]+(\.[0-9]*)?([eE][+-]?[0-9]+)?$', txt):
        raise Refuse("literal %r" % txt)
    q = Fraction(txt)
    if q == 0:
        return 'zero'
    if q == 1:
        return 'one'
    return '(of_Q (%d # %d))' % (q.numerator, q.denominator)


class Exec:
    """Values: ('num', term) | ('sub', base_term_or_None, group)  (a Point/Size/Rect of the layout `base`; base None = the
    layout under construction) | ('lay', base) (a whole layout; base None = under construction) | ('opaque', name)."""

    def __init__(self, flat, ulay):
        self.flat = flat
        self.groups = {}
        for g, s in flat:
            self.groups.setdefault(g, []).append(s)
        self.cur = {}          # field name -> term currently held by the layout under construction
        self.lets = []         # (name, term) in source order
        self.ulay = ulay
        self.init_from = None  # the layout the one under construction was copied from

    def read_field(self, base, g, s):
        if (g, s) not in self.flat:
            raise Refuse("no field %s.%s" % (g, s))
        nm = fname((g, s))
        if base is None:
            return self.cur.get(nm, '(%s %s)' % (nm, self.init_from))
        return '(%s %s)' % (nm, base)

    def val(self, env, a):
        k = a[0]
        if k == 'lit':
            return ('num', float_lit(a[1]))
        if k == 'path':
            if len(a[1]) != 1 or a[1][0] not in env:
                raise Refuse("unknown name %s" % '::'.join(a[1]))
            return env[a[1][0]]
        if k == 'field':
            b = self.val(env, a[1])
            f = a[2]
            if b[0] == 'lay':
                if f not in self.groups or self.groups[f] == [None]:
                    raise Refuse("read of layout field %s" % f)
                return ('sub', b[1], f)
            if b[0] == 'sub':
                return ('num', self.read_field(b[1], b[2], f))
            raise Refuse("field %s of a %s" % (f, b[0]))
        if k == 'un' and a[1] in ('*', '&'):
            return self.val(env, a[2])
        return ('num', self.num(env, a))

    def num(self, env, a):
        k = a[0]
        if k in ('lit', 'path', 'field'):
            v = self.val(env, a)
            if v[0] != 'num':
                raise Refuse("expected a number, got a %s" % v[0])
            return v[1]
        if k == 'bin':
            op = {'+': 'add', '-': 'sub', '*': 'mul', '/': 'div'}.get(a[1])
            if op is None:
                raise Refuse("operator %s" % a[1])
            return '(%s %s %s)' % (op, self.num(env, a[2]), self.num(env, a[3]))
        if k == 'un' and a[1] == '-':
            return '(neg %s)' % self.num(env, a[2])
        if k == 'call' and a[1][0] == 'path':
            nm = a[1][1][-1]
            if nm == 'round' and len(a[2]) == 1 and len(a[1][1]) == 1:
                return '(fround %s)' % self.num(env, a[2][0])
            raise Refuse("call of %s" % '::'.join(a[1][1]))
        if k == 'mcall':
            m = {'round': 'fround', 'floor': 'ffloor', 'ceil': 'fceil', 'abs': 'fabs'}.get(a[2])
            if m and not a[3]:
                return '(%s %s)' % (m, self.num(env, a[1]))
            m = {'min': 'fmin', 'max': 'fmax'}.get(a[2])
            if m and len(a[3]) == 1:
                return '(%s %s %s)' % (m, self.num(env, a[1]), self.num(env, a[3][0]))
            raise Refuse("method %s" % a[2])
        raise Refuse("expression kind %s" % k)

    def assign(self, env, lhs, rhs, tag):
        """layout.G.S = rhs"""
        if not (lhs[0] == 'field' and lhs[1][0] == 'field'):
            raise Refuse("assignment target")
        b = self.val(env, lhs[1])
        if b != ('sub', None, lhs[1][2]):
            raise Refuse("assignment to something other than the layout under construction")
        g, s = lhs[1][2], lhs[2]
        if (g, s) not in self.flat:
            raise Refuse("no field %s.%s" % (g, s))
        t = self.num(env, rhs)
        v = 'layout_' + fname((g, s))
        self.lets.append((v, t))
        self.cur[fname((g, s))] = v

    def snapshot(self):
        fs = []
        for f in self.flat:
            nm = fname(f)
            fs.append('%s := %s' % (nm, self.cur.get(nm, '%s %s' % (nm, self.init_from))))
        return '{| ' + '; '.join(fs) + ' |}'


def is_path(a, name):
    return a == ('path', [name])


def translate_inner(toks, flat, feats, fps):
    params, body, _ = find_fn(toks, 'round_layout_inner')
    fps['round_layout_inner'] = norm_tokens(params) + ' ' + norm_tokens(body)
    pn = param_names(params)
    if len(pn) != 4 or len(set(pn)) != 4:
        raise Refuse("round_layout_inner parameters %r" % pn)
    TREE, NODE, CX, CY = pn        # local names are free; the Gallina parameters are always cumulative_x / cumulative_y
    blk = parse_block(body)
    stmts = list(blk[1])
    if blk[2] is not None:
        stmts.append(('expr', blk[2], blk[3]))
    ex = Exec(flat, 'unrounded_layout')
    env = {TREE: ('opaque', 'tree'), NODE: ('opaque', 'node_id'),
           CX: ('num', 'cumulative_x'), CY: ('num', 'cumulative_y')}
    used = {'cumulative_x', 'cumulative_y', 'unrounded_layout'}   # Gallina names taken
    COUNT = INDEX = None
    final = None          # snapshot handed to set_final_layout
    child_args = None     # terms handed to the recursive call
    child_count_bound = False
    have_u = False
    for st in stmts:
        if st[0] == 'let':
            pat, rhs, attrs = st[1], st[2], st[3]
            if attrs:
                raise Refuse("attribute on let")
            if pat[0] != 'pident':
                raise Refuse("let pattern")
            nm = pat[1]
            if rhs == ('un', '*', ('mcall', ('path', [TREE]), 'get_unrounded_layout', [('path', [NODE])])):
                if have_u:
                    raise Refuse("second read of the unrounded layout")
                have_u = True
                env[nm] = ('lay', 'unrounded_layout')
                continue
            if rhs == ('mcall', ('path', [TREE]), 'child_count', [('path', [NODE])]):
                if child_count_bound:
                    raise Refuse("second child_count")
                env[nm] = ('opaque', 'child_count')
                COUNT = nm
                child_count_bound = True
                continue
            if rhs[0] == 'path' and len(rhs[1]) == 1 and env.get(rhs[1][0], ('x',))[0] == 'lay':
                # let mut layout = unrounded_layout;   (Layout is Copy)
                if env[rhs[1][0]][1] is None or ex.init_from is not None:
                    raise Refuse("copy of the layout under construction")
                ex.init_from = env[rhs[1][0]][1]
                env[nm] = ('lay', None)
                continue
            t = ex.num(env, rhs)
            # Gallina name of the local: the Rust name, except that the (possibly renamed) parameters keep their fixed names
            g = {CX: 'cumulative_x', CY: 'cumulative_y'}.get(nm, nm)
            if (g in used and g not in ('cumulative_x', 'cumulative_y')) or g.startswith('layout_') or not re.match(r'^[a-z_][a-z0-9_]*$', g):
                raise Refuse("local name %s" % nm)
            if g in ('cumulative_x', 'cumulative_y') and nm not in (CX, CY):
                raise Refuse("local name %s" % nm)
            ex.lets.append((g, t))
            env[nm] = ('num', g)
            continue
        if st[0] != 'expr':
            raise Refuse("statement %r" % (st[0],))
        e, attrs = st[1], st[2]
        if not cfg_enabled(attrs, feats):
            continue
        if e[0] == 'assign':
            if e[1] != '=':
                raise Refuse("compound assignment")
            if final is not None:
                raise Refuse("assignment after set_final_layout")
            ex.assign(env, e[2], e[3], 'inner')
            continue
        if e[0] == 'call' and is_path(e[1], 'round_content_size'):
            if final is not None:
                raise Refuse("round_content_size after set_final_layout")
            cps, cbody, _ = find_fn(toks, 'round_content_size')
            fps['round_content_size'] = norm_tokens(cps) + ' ' + norm_tokens(cbody)
            cpn = param_names(cps)
            if len(cpn) != len(e[2]):
                raise Refuse("round_content_size arity")
            cenv = {}
            for p, a in zip(cpn, e[2]):
                v = ex.val(env, a)
                cenv[p] = v
            if [v for v in cenv.values() if v == ('lay', None)] != [('lay', None)]:
                raise Refuse("round_content_size must receive the layout under construction exactly once")
            cb = parse_block(cbody)
            if cb[2] is not None:
                raise Refuse("round_content_size has a tail expression")
            for cst in cb[1]:
                if cst[0] != 'expr' or cst[1][0] != 'assign' or cst[1][1] != '=' or cst[2]:
                    raise Refuse("round_content_size statement %r" % (cst[0],))
                ex.assign(cenv, cst[1][2], cst[1][3], 'content')
            continue
        if e[0] == 'mcall' and is_path(e[1], TREE) and e[2] == 'set_final_layout':
            if final is not None:
                raise Refuse("two set_final_layout calls")
            a = e[3]
            if len(a) != 2 or a[0] != ('path', [NODE]) or a[1][0] != 'un' or a[1][1] != '&' or a[1][2][0] != 'path' \
                    or len(a[1][2][1]) != 1 or env.get(a[1][2][1][0]) != ('lay', None):
                raise Refuse("set_final_layout arguments")
            final = ex.snapshot()
            continue
        if e[0] == 'for':
            if child_args is not None or not child_count_bound:
                raise Refuse("loop over children")
            pat, it, fb = e[1], e[2], e[3]
            if pat[0] != 'pident' or it != ('range', ('lit', '0'), ('path', [COUNT])):
                raise Refuse("children loop must be `for index in 0..child_count`")
            INDEX = pat[1]
            if fb[2] is not None or len(fb[1]) != 2:
                raise Refuse("children loop body")
            s1, s2 = fb[1]
            if s1[0] != 'let' or s1[1][0] != 'pident' or s1[2] != ('mcall', ('path', [TREE]), 'get_child_id', [('path', [NODE]), ('path', [INDEX])]):
                raise Refuse("children loop: child lookup")
            CHILD = s1[1][1]
            if s2[0] != 'expr' or s2[2] or s2[1][0] != 'call' or not is_path(s2[1][1], 'round_layout_inner'):
                raise Refuse("children loop: recursive call")
            args = s2[1][2]
            if len(args) != 4 or args[0] != ('path', [TREE]) or args[1] != ('path', [CHILD]):
                raise Refuse("children loop: recursive call arguments")
            child_args = (ex.num(env, args[2]), ex.num(env, args[3]))
            continue
        raise Refuse("statement form %r" % (e[0],))
    if not have_u or ex.init_from is None or final is None or child_args is None:
        raise Refuse("round_layout_inner: missing read / write / recursion")
    return ex.lets, final, child_args


def translate_root(toks, fps):
    params, body, _ = find_fn(toks, 'round_layout')
    # fingerprint only the part before the nested fn items
    blk = parse_block(body)
    real = [s for s in blk[1] if s[0] != 'item']
    items = [s for s in blk[1] if s[0] == 'item']
    if blk[2] is not None or len(real) != 1 or len(items) != 2:
        raise Refuse("round_layout body")
    st = real[0]
    fps['round_layout'] = repr(st)
    if param_names(params) != ['tree', 'node_id']:
        raise Refuse("round_layout parameters")
    if st[0] != 'expr' or st[1][0] != 'return' or st[1][1][0] != 'call' or not is_path(st[1][1][1], 'round_layout_inner'):
        raise Refuse("round_layout must return round_layout_inner(..)")
    args = st[1][1][2]
    if len(args) != 4 or args[0] != ('path', ['tree']) or args[1] != ('path', ['node_id']):
        raise Refuse("round_layout: arguments")
    ex = Exec([], None)
    return ex.num({}, args[2]), ex.num({}, args[3])


# ----------------------------------------------------------------------------- the flag state machine (taffy_tree.rs)

def bool_expr(a, env):
    if a[0] == 'lit' and a[1] in ('true', 'false'):
        return a[1]
    if a[0] == 'path' and a[1] in (['true'], ['false']):
        return a[1][0]
    if a[0] == 'path' and len(a[1]) == 1 and a[1][0] in env:
        return env[a[1][0]]
    if a == ('field', ('field', ('path', ['self']), 'config'), 'use_rounding'):
        return 'use_rounding'
    if a[0] == 'un' and a[1] == '!':
        return '(negb %s)' % bool_expr(a[2], env)
    raise Refuse("boolean expression %r" % (a,))


def node_slot(a, recv, idvar):
    """&self.nodes[node.into()].SLOT  ->  SLOT"""
    if a[0] == 'un' and a[1] in ('&', '*'):
        a = a[2]
    if a[0] == 'field' and a[1][0] == 'index' and a[1][1] == recv and a[1][2] == ('mcall', ('path', [idvar]), 'into', []):
        return a[2]
    raise Refuse("node slot expression %r" % (a,))


def only_tail(body):
    b = parse_block(body)
    if b[1] or b[2] is None:
        raise Refuse("expected a single tail expression")
    return b[2]


def translate_state(repo, fps):
    toks = tokenize(open(repo + '/' + SRC_TREE).read())
    out = {}
    nodes_self = ('field', ('path', ['self']), 'nodes')
    nodes_view = ('field', ('field', ('path', ['self']), 'taffy'), 'nodes')

    # impl Default for TaffyConfig { fn default() -> Self { Self { use_rounding: true } } }
    i = 0
    while i < len(toks) and not seq_at(toks, i, ['impl', 'Default', 'for', 'TaffyConfig']):
        i += 1
    if i >= len(toks):
        raise Refuse("impl Default for TaffyConfig not found")
    ps, body, _ = find_fn(toks, 'default', i)
    fps['TaffyConfig::default'] = norm_tokens(body)
    t = only_tail(body)
    if t[0] != 'struct' or t[1] != ['Self'] or t[3] is not None or [f for f, _ in t[2]] != ['use_rounding']:
        raise Refuse("TaffyConfig::default")
    out['default_use_rounding'] = bool_expr(t[2][0][1], {})

    for nm in ('enable_rounding', 'disable_rounding'):
        ps, body, _ = find_fn(toks, nm)
        fps['TaffyTree::' + nm] = norm_tokens(body)
        b = parse_block(body)
        if b[2] is not None or len(b[1]) != 1 or b[1][0][0] != 'expr' or b[1][0][1][0] != 'assign' or b[1][0][1][1] != '=':
            raise Refuse(nm)
        if b[1][0][1][2] != ('field', ('field', ('path', ['self']), 'config'), 'use_rounding'):
            raise Refuse(nm + " target")
        out[nm + '_sets'] = bool_expr(b[1][0][1][3], {})

    # pub fn layout(&self, node) -> TaffyResult<&Layout> { if self.config.use_rounding { Ok(&..final_layout) } else { Ok(&..unrounded_layout) } }
    ps, body, _ = find_fn(toks, 'layout')
    fps['TaffyTree::layout'] = norm_tokens(ps) + ' ' + norm_tokens(body)
    if param_names(ps) != ['self', 'node']:
        raise Refuse("TaffyTree::layout parameters")
    t = only_tail(body)

    def branch(b):
        if b is None or b[0] != 'block' or b[1] or b[2] is None:
            raise Refuse("layout(): branch")
        r = b[2]
        if r[0] != 'call' or not is_path(r[1], 'Ok') or len(r[2]) != 1:
            raise Refuse("layout(): branch value")
        slot = node_slot(r[2][0], nodes_self, 'node')
        if slot not in ('final_layout', 'unrounded_layout'):
            raise Refuse("layout(): slot %s" % slot)
        return 'true' if slot == 'final_layout' else 'false'
    if t[0] != 'if':
        raise Refuse("layout(): expected if")
    out['layout_reads_final'] = 'if %s then %s else %s' % (bool_expr(t[1], {}), branch(t[2]), branch(t[3]))

    ps, body, _ = find_fn(toks, 'unrounded_layout')
    fps['TaffyTree::unrounded_layout'] = norm_tokens(ps) + ' ' + norm_tokens(body)
    if param_names(ps) != ['self', 'node'] or node_slot(only_tail(body), nodes_self, 'node') != 'unrounded_layout':
        raise Refuse("TaffyTree::unrounded_layout")

    ps, body, _ = find_fn(toks, 'get_unrounded_layout')
    fps['RoundTree::get_unrounded_layout'] = norm_tokens(ps) + ' ' + norm_tokens(body)
    if param_names(ps) != ['self', 'node'] or node_slot(only_tail(body), nodes_view, 'node') != 'unrounded_layout':
        raise Refuse("RoundTree::get_unrounded_layout must read unrounded_layout")

    ps, body, _ = find_fn(toks, 'set_final_layout')
    fps['RoundTree::set_final_layout'] = norm_tokens(ps) + ' ' + norm_tokens(body)
    b = parse_block(body)
    if param_names(ps) != ['self', 'node_id', 'layout'] or b[2] is not None or len(b[1]) != 1:
        raise Refuse("RoundTree::set_final_layout must be a single assignment")
    st = b[1][0]
    if st[0] != 'expr' or st[1][0] != 'assign' or st[1][1] != '=' or st[1][3] != ('un', '*', ('path', ['layout'])):
        raise Refuse("RoundTree::set_final_layout must store *layout")
    if node_slot(st[1][2], nodes_view, 'node_id') != 'final_layout':
        raise Refuse("RoundTree::set_final_layout must write final_layout only")

    # compute_layout_with_measure: compute_root_layout, then round iff flag
    ps, body, _ = find_fn(toks, 'compute_layout_with_measure')
    fps['TaffyTree::compute_layout_with_measure'] = norm_tokens(body)
    b = parse_block(body)
    env = {}
    phase = 0
    rounds = None
    for st in b[1]:
        if st[0] == 'let' and st[1] == ('pident', 'use_rounding') and phase == 0:
            env['use_rounding'] = bool_expr(st[2], {})
            continue
        if st[0] == 'let' and st[1] == ('pident', 'taffy_view') and phase == 0 and st[2][0] == 'struct' and st[2][1] == ['TaffyView']:
            phase = 1
            continue
        if st[0] == 'expr' and st[1][0] == 'call' and is_path(st[1][1], 'compute_root_layout') and phase == 1:
            if st[1][2] != [('un', '&', ('path', ['taffy_view'])), ('path', ['node_id']), ('path', ['available_space'])]:
                raise Refuse("compute_root_layout arguments")
            phase = 2
            continue
        if st[0] == 'expr' and st[1][0] == 'if' and phase == 2:
            c, th, el = st[1][1], st[1][2], st[1][3]

            def blk_rounds(x):
                if x is None:
                    return 'false'
                if x[0] != 'block' or x[2] is not None:
                    raise Refuse("rounding branch")
                if not x[1]:
                    return 'false'
                if len(x[1]) == 1 and x[1][0][0] == 'expr' and x[1][0][1] == ('call', ('path', ['round_layout']), [('un', '&', ('path', ['taffy_view'])), ('path', ['node_id'])]):
                    return 'true'
                raise Refuse("rounding branch body")
            rounds = 'if %s then %s else %s' % (bool_expr(c, env), blk_rounds(th), blk_rounds(el))
            phase = 3
            continue
        raise Refuse("compute_layout_with_measure statement %r in phase %d" % (st[0], phase))
    if phase != 3 or b[2] != ('call', ('path', ['Ok']), [('tuple', [])]):
        raise Refuse("compute_layout_with_measure: shape")
    out['compute_rounds'] = rounds

    ps, body, _ = find_fn(toks, 'compute_layout')
    fps['TaffyTree::compute_layout'] = norm_tokens(body)
    t = only_tail(body)
    if t[0] != 'mcall' or not is_path(t[1], 'self') or t[2] != 'compute_layout_with_measure' or t[3][:2] != [('path', ['node']), ('path', ['available_space'])]:
        raise Refuse("compute_layout must forward to compute_layout_with_measure")
    return out


def check_round_fn(repo, fps):
    toks = tokenize(open(repo + '/' + SRC_SYS).read())
    # the std implementation is the first `fn round` (mod std); the harness is built with feature "std"
    ps, body, _ = find_fn(toks, 'round')
    fps['sys::round'] = norm_tokens(ps) + ' ' + norm_tokens(body)
    if param_names(ps) != ['value'] or only_tail(body) != ('mcall', ('path', ['value']), 'round', []):
        raise Refuse("util::sys::round is no longer `value.round()`")


def generate(repo):
    feats = default_features(repo)
    if 'std' not in feats or 'taffy_tree' not in feats:
        raise Refuse("default features without std / taffy_tree")
    fps = {}
    fields, flat, fp = layout_fields(repo, feats)
    fps['struct Layout'] = fp
    toks = tokenize(open(repo + '/' + SRC_MOD).read())
    lets, final, child = translate_inner(toks, flat, feats, fps)
    rootx, rooty = translate_root(toks, fps)
    check_round_fn(repo, fps)
    st = translate_state(repo, fps)

    out = []
    w = out.append
    w('(* GENERATED on every run by translator/gen_rounding.py from %s, %s, %s, %s -- do not edit. *)' % (SRC_LAYOUT, SRC_MOD, SRC_SYS, SRC_TREE))
    w('From Coq Require Import ZArith QArith Bool List.')
    w('From TV Require Import Num.Num.')
    w('')
    w('(* struct Layout, nested Point/Size/Rect flattened; `order : u32` as Z *)')
    w('Record layout (T : Type) : Type := mk_layout {')
    for f in flat:
        w('  %s : %s;' % (fname(f), 'Z' if f[1] is None else 'T'))
    out[-1] = out[-1].rstrip(';')
    w('}.')
    w('Arguments mk_layout {T}.')
    for f in flat:
        w('Arguments %s {T}.' % fname(f))
    w('(* every f32 field, in declaration order *)')
    w('Definition layout_floats {T : Type} (l : layout T) : list T :=')
    w('  (' + ' :: '.join('%s l' % fname(f) for f in flat if f[1] is not None) + ' :: nil)%list.')
    w('')
    w('Section RoundingGen.')
    w('  Context {T : Type} `{Num T}.')
    w('')
    w('  (* body of round_layout_inner for one node: (layout passed to set_final_layout, (cumulative_x, cumulative_y) passed')
    w('     to the recursive call on every child) *)')
    w('  Definition round_layout_inner_node (cumulative_x cumulative_y : T) (unrounded_layout : layout T) : layout T * (T * T) :=')
    for nm, t in lets:
        w('    let %s := %s in' % (nm, t))
    w('    (%s,' % final)
    w('     (%s, %s)).' % child)
    w('')
    w('  (* round_layout: the cumulative coordinates the root is entered with *)')
    w('  Definition round_layout_root_cum : T * T := (%s, %s).' % (rootx, rooty))
    w('End RoundingGen.')
    w('')
    w('(* rounding flag *)')
    w('Definition default_use_rounding : bool := %s.' % st['default_use_rounding'])
    w('Definition enable_rounding_sets : bool := %s.' % st['enable_rounding_sets'])
    w('Definition disable_rounding_sets : bool := %s.' % st['disable_rounding_sets'])
    w('(* TaffyTree::layout returns final_layout (true) or unrounded_layout (false) *)')
    w('Definition layout_reads_final (use_rounding : bool) : bool := %s.' % st['layout_reads_final'])
    w('(* compute_layout_with_measure runs round_layout after compute_root_layout *)')
    w('Definition compute_rounds (use_rounding : bool) : bool := %s.' % st['compute_rounds'])
    return '\n'.join(out) + '\n', fps


TARGETS = {'RoundingGen.v': generate}
