"""Translate src/style/compact_length.rs (64-bit `inner` module, tag constants, constructors and
predicates of CompactLength) into Gallina over N.  A usize / pointer is an N below 2^64, an f32 is
its 32-bit pattern (f32_to_bits / f32_from_bits are transmutes, i.e. the identity on patterns)."""
import re
from rustparse import *

SRC = 'src/style/compact_length.rs'


class Refuse(Exception):
    pass


def lit_to_int(txt):
    if txt.startswith('0b'):
        return int(txt[2:], 2)
    if txt.startswith('0x'):
        return int(txt[2:], 16)
    if re.match(r'^[0-9]+$', txt):
        return int(txt)
    raise Refuse("non-integer literal %r in bit-level code" % txt)


class Bits:
    """Render an expression AST as a Gallina term of type N (or bool)."""

    def __init__(self, env, consts, word='w'):
        self.env = dict(env)      # rust local name -> coq term
        self.env.setdefault('self', word)
        self.consts = consts      # set of known constant names
        self.word = word

    def e(self, a):
        k = a[0]
        if k == 'lit':
            return '%d' % lit_to_int(a[1])
        if k == 'path':
            segs = a[1]
            nm = segs[-1]
            if len(segs) == 1 and nm in self.env:
                return self.env[nm]
            if nm in self.consts:
                return nm
            if segs == ['Self', 'ZERO']:
                return 'cl_ZERO'
            raise Refuse("unknown name %s" % '::'.join(segs))
        if k == 'field':
            base, f = a[1], a[2]
            if base == ('path', ['self']) and f in ('tagged_ptr', '0'):
                return self.word
            if f == '0':           # (Self::ZERO).0 , lp.0  : newtype projection
                return self.e(base)
            raise Refuse("field %s" % f)
        if k == 'bin':
            op, l, r = a[1], self.e(a[2]), self.e(a[3])
            if op == '|':
                return '(N.lor %s %s)' % (l, r)
            if op == '&':
                return '(N.land %s %s)' % (l, r)
            if op == '<<':
                return '(wrap64 (N.shiftl %s %s))' % (l, r)
            if op == '>>':
                return '(N.shiftr %s %s)' % (l, r)
            if op == '==':
                return '(N.eqb %s %s)' % (l, r)
            if op == '!=':
                return '(negb (N.eqb %s %s))' % (l, r)
            if op == '||':
                return '(orb %s %s)' % (l, r)
            if op == '&&':
                return '(andb %s %s)' % (l, r)
            raise Refuse("binary operator %s" % op)
        if k == 'cast':
            t = a[2].replace(' ', '')
            inner = self.e(a[1])
            if t in ('usize', 'u64', '*const()'):
                return inner
            if t == 'u32':
                return '(N.land %s (N.ones 32))' % inner
            raise Refuse("cast to %s" % t)
        if k == 'call':
            f = a[1]
            if f[0] != 'path':
                raise Refuse("call of non-path")
            nm = f[1][-1]
            args = [self.e(x) for x in a[2]]
            if nm in ('f32_to_bits', 'f32_from_bits') and len(args) == 1:
                return args[0]
            if nm == 'Self' and len(args) == 1:
                return args[0]
            if nm in ('from_val', 'from_tag', 'from_ptr', 'tag_ptr'):
                return '(%s %s)' % (nm, ' '.join(args))
            if nm in ('length', 'percent', 'fr', 'fit_content_px', 'fit_content_percent', 'auto', 'min_content', 'max_content'):
                return '(cl_%s%s)' % (nm, ''.join(' ' + x for x in args))
            raise Refuse("call of %s" % nm)
        if k == 'mcall':
            recv, nm, args = a[1], a[2], a[3]
            r = self.e(recv)
            if args:
                if nm == 'map_addr':
                    raise Refuse("strict provenance variant selected")
                raise Refuse("method %s with args" % nm)
            if nm in ('tag', 'value', 'calc_tag'):
                return '(%s %s)' % (nm, r)
            if nm == 'ptr':
                return r
            if nm.startswith('is_'):
                return '(cl_%s %s)' % (nm, r)
            raise Refuse("method %s" % nm)
        if k == 'struct':
            if a[1] == ['Self'] and len(a[2]) == 1 and a[2][0][0] == 'tagged_ptr':
                return self.e(a[2][0][1])
            raise Refuse("struct literal")
        if k == 'macro':
            if a[1] == 'matches':
                scrut, pat, guard = a[2]
                if guard is not None:
                    raise Refuse("matches! with guard")
                s = self.e(scrut)
                alts = pat[1] if pat[0] == 'por' else [pat]
                terms = []
                for p in alts:
                    if p[0] != 'ppath' or p[1][-1] not in self.consts:
                        raise Refuse("matches! alternative %r" % (p,))
                    terms.append('(N.eqb %s %s)' % (s, p[1][-1]))
                out = terms[-1]
                for t in reversed(terms[:-1]):
                    out = '(orb %s %s)' % (t, out)
                return out
            raise Refuse("macro %s" % a[1])
        if k == 'block':
            return self.block(a)
        raise Refuse("expression kind %s" % k)

    def block(self, b, guards=None):
        """let-chains + tail; assert macros are collected into guards (list) when given."""
        env_save = dict(self.env)
        body = None
        lets = []
        for st in b[1]:
            if st[0] == 'let':
                pat, rhs = st[1], st[2]
                if pat[0] != 'pident':
                    raise Refuse("let pattern")
                v = self.e(rhs)
                self.env[pat[1]] = v      # substitute (all are pure)
            elif st[0] == 'expr' and st[1][0] == 'macro' and st[1][1] in ('assert_ne', 'assert_eq') and guards is not None:
                x, y = st[1][2]
                t = '(N.eqb %s %s)' % (self.e(x), self.e(y))
                guards.append(t if st[1][1] == 'assert_eq' else '(negb %s)' % t)
            elif st[0] == 'expr' and st[1][0] == 'block' and st[2] and any('feature = "calc"' in x and 'not' not in x for x in st[2]):
                # #[cfg(feature = "calc")] { e }  as statement-position value (uses_percentage)
                body = self.e(st[1])
            elif st[0] == 'expr' and st[1][0] == 'block' and st[2] and any('not ( feature = "calc" )' in x for x in st[2]):
                continue
            else:
                raise Refuse("statement %r" % (st[0],))
        if b[2] is not None:
            if body is None:
                body = self.e(b[2])
            elif not any('not ( feature = "calc" )' in x for x in b[3]):
                raise Refuse("two values in one block")
        if body is None:
            raise Refuse("block without value")
        self.env = env_save
        return body


def region(toks, pred):
    i, b, e = find_block_after(toks, pred)
    return b, e


def generate(repo):
    src = open(repo + '/' + SRC).read()
    toks = tokenize(src)
    out = []
    fps = {}
    w = out.append
    w('(* GENERATED on every run by /verif/translator/gen_compact.py from %s -- do not edit. *)' % SRC)
    w('From Coq Require Import NArith Bool List.')
    w('Import ListNotations.')
    w('Open Scope N_scope.')
    w('(* usize / pointers: N below 2^64.  f32: its 32-bit pattern. `<<` on usize drops bits above 63. *)')
    w('Definition wrap64 (x : N) : N := N.land x (N.ones 64).')

    # --- 64-bit inner module
    def is_inner64(t, i):
        return seq_at(t, i, ['#', '[', 'cfg', '(', 'target_pointer_width', '=', '"64"', ')', ']', 'mod', 'inner'])
    ib, ie = region(toks, is_inner64)
    inner = toks[ib:ie + 1]
    consts = []
    i = 0
    while i < len(inner):
        if inner[i] == ('id', 'const') and inner[i + 1][0] == 'id' and inner[i + 2][1] == ':':
            nm = inner[i + 1][1]
            j = i
            while inner[j][1] != '=':
                j += 1
            k = j
            while inner[k][1] != ';':
                k += 1
            val = parse_expr(inner[j + 1:k])
            if val[0] != 'lit':
                raise Refuse("const %s is not a literal" % nm)
            consts.append((nm, lit_to_int(val[1])))
            i = k
        i += 1
    if [c[0] for c in consts] != ['TAG_MASK', 'CALC_TAG_MASK']:
        raise Refuse("inner module constants changed: %r" % consts)

    # tag constants in impl CompactLength
    tags = []
    for m in re.finditer(r'pub const ([A-Z_]+_TAG): usize = ([0-9a-fxb_]+);', src):
        tags.append((m.group(1), lit_to_int(m.group(2).replace('_', ''))))
    if len(tags) != 9:
        raise Refuse("expected 9 tag constants, found %d" % len(tags))
    for nm, v in consts + tags:
        w('Definition %s : N := %d.' % (nm, v))
    w('Definition all_tags : list N := [%s].' % '; '.join(t[0] for t in tags))
    w('Definition noncalc_tags : list N := [%s].' % '; '.join(t[0] for t in tags if t[0] != 'CALC_TAG'))
    cn = set(c[0] for c in consts + tags)

    # compat::tag_ptr (non strict-provenance variant: the one compiled with default features)
    def is_tagptr(t, i):
        return seq_at(t, i, ['not', '(', 'feature', '=', '"strict_provenance"', ')', ')', ')', ']', 'pub', 'fn', 'tag_ptr'])
    ti, tb, te = find_block_after(toks, is_tagptr)
    params, body, _ = find_fn(toks, 'tag_ptr', ti)
    fps['compat::tag_ptr'] = norm_tokens(body)
    names = param_names(params)
    em = Bits({n: n for n in names}, cn)
    w('Definition tag_ptr (%s : N) : N := %s.' % (' '.join(names), em.block(parse_block(body))))

    for fn in ['from_ptr', 'from_val', 'from_tag', 'calc_tag', 'tag', 'value']:
        params, body, _ = find_fn(inner, fn)
        fps['inner64::' + fn] = norm_tokens(body)
        names = param_names(params)
        env = {n: n for n in names if n != 'self'}
        em = Bits(env, cn, word='w')
        args = ' '.join('w' if n == 'self' else n for n in names)
        w('Definition %s (%s : N) : N := %s.' % (fn, args, em.block(parse_block(body))))

    # --- CompactLength constructors / predicates (outside inner modules)
    def is_impl_cl(t, i):
        return seq_at(t, i, ['impl', 'CompactLength', '{']) and t[i + 3][1] != '#' or (seq_at(t, i, ['impl', 'CompactLength', '{']) and seq_at(t, i + 3, ['///']))
    # second `impl CompactLength {` block (first holds the tag constants)
    idxs = [i for i in range(len(toks)) if seq_at(toks, i, ['impl', 'CompactLength', '{'])]
    if len(idxs) != 2:
        raise Refuse("expected two `impl CompactLength` blocks")
    mb = idxs[1] + 2
    me = match_brace(toks, mb)
    meth = toks[mb:me + 1]
    ctors_val = ['length', 'percent', 'fr', 'fit_content_px', 'fit_content_percent']
    ctors_tag = ['auto', 'min_content', 'max_content']
    for fn in ctors_val + ctors_tag:
        params, body, _ = find_fn(meth, fn)
        fps['CompactLength::' + fn] = norm_tokens(body)
        names = param_names(params)
        em = Bits({n: n for n in names}, cn)
        if names:
            w('Definition cl_%s (%s : N) : N := %s.' % (fn, ' '.join(names), em.block(parse_block(body))))
        else:
            w('Definition cl_%s : N := %s.' % (fn, em.block(parse_block(body))))
    # ZERO (impl TaffyZero for CompactLength)
    m = re.search(r'impl TaffyZero for CompactLength \{\s*const ZERO: Self = Self::length\(0\.0\);\s*\}', src)
    if not m:
        raise Refuse("CompactLength::ZERO is no longer Self::length(0.0)")
    w('Definition cl_ZERO : N := cl_length 0.  (* bit pattern of +0.0f32 is 0 *)')
    # calc
    params, body, _ = find_fn(meth, 'calc')
    fps['CompactLength::calc'] = norm_tokens(body)
    em = Bits({'ptr': 'ptr'}, cn)
    guards = []
    val = em.block(parse_block(body), guards)
    g = guards[-1]
    for t in reversed(guards[:-1]):
        g = '(andb %s %s)' % (t, g)
    w('(* None = the assertion in `calc` fails (panic) *)')
    w('Definition cl_calc (ptr : N) : option N := if %s then Some %s else None.' % (g, val))
    w('Definition cl_calc_value (w : N) : N := w.')
    preds = ['is_calc', 'is_zero', 'is_length_or_percentage', 'is_auto', 'is_min_content', 'is_max_content', 'is_fit_content',
             'is_max_or_fit_content', 'is_max_content_alike', 'is_min_or_max_content', 'is_intrinsic', 'is_fr', 'uses_percentage']
    for fn in preds:
        params, body, _ = find_fn(meth, fn)
        fps['CompactLength::' + fn] = norm_tokens(body)
        em = Bits({}, cn, word='w')
        w('Definition cl_%s (w : N) : bool := %s.' % (fn, em.block(parse_block(body))))
    # fit_content(lp)
    fi = [i for i in range(len(toks)) if seq_at(toks, i, ['impl', 'TaffyFitContent', 'for', 'CompactLength'])]
    params, body, _ = find_fn(toks, 'fit_content', fi[0])
    fps['CompactLength::fit_content'] = norm_tokens(body)
    blk = parse_block(body)
    em = Bits({'lp': 'lp'}, cn)
    # let value = lp.0.value(); match lp.0.tag() { A => f(value), B => g(value), _ => unreachable!() }
    if len(blk[1]) != 1 or blk[1][0][0] != 'let' or blk[2][0] != 'match':
        raise Refuse("fit_content shape changed")
    em.env[blk[1][0][1][1]] = em.e(blk[1][0][2])
    scrut = em.e(blk[2][1])
    arms = blk[2][2]
    term = 'None'
    for pat, guard, ex, _ in reversed(arms):
        if pat[0] == 'pwild':
            if ex[0] != 'macro' or ex[1] != 'unreachable':
                raise Refuse("fit_content default arm")
            term = 'None'
        elif pat[0] == 'ppath' and pat[1][-1] in cn and guard is None:
            term = '(if N.eqb %s %s then Some %s else %s)' % (scrut, pat[1][-1], em.e(ex), term)
        else:
            raise Refuse("fit_content arm")
    w('(* None = unreachable!() *)')
    w('Definition cl_fit_content (lp : N) : option N := %s.' % term)
    w('Definition valued_ctors : list (N -> N) := [%s].' % '; '.join('cl_' + c for c in ctors_val))
    w('Definition tag_only_ctors : list N := [%s].' % '; '.join('cl_' + c for c in ctors_tag))
    return '\n'.join(out) + '\n', fps

TARGETS = {'CompactLengthGen.v': generate}
