(* Block layout kernel (src/compute/block.rs), `Num`-generic, definitions only.
   - the margin set operations come from Gen/BlockGen.v (regenerated from src/tree/layout.rs on every run)
   - `generate_item`      = one element of generate_item_list (l.303-354)
   - `item_known_dims`, `inflow_step`, `block_inflow` = perform_final_layout_on_in_flow_children (l.395-578):
     a fold over the items in which the LayoutOutput returned by `perform_child_layout` for each in-flow item
     is an ORACLE VALUE (`ChildOut`) supplied with the item
   - `block_prevent_ct`, `block_own_collapse`, `block_can_collapse_through`, `block_outer_height`,
     `block_output_margins` = the decisions of compute_inner (l.172-197, 233-236, 270-298)
   Float operations are performed in the order of the Rust source.  calc() values are not modelled. *)
From Coq Require Import ZArith Bool List.
From TV Require Import Num.Num Gen.BlockGen.
Import ListNotations.

Inductive BOverflow := OVisible | OClip | OHidden | OScroll.
Inductive BPosition := PRelative | PAbsolute.
Inductive BTextAlign := TAAuto | TALeft | TARight | TACenter.
Inductive BDisplay := DBlock | DFlex | DGrid | DNone.
(* Dimension / LengthPercentageAuto / LengthPercentage (the latter never Auto) *)
Inductive LPA (T : Type) := Len (v : T) | Pct (v : T) | Auto.
Arguments Len {T}. Arguments Pct {T}. Arguments Auto {T}.
Inductive Avail (T : Type) := Definite (v : T) | MinContent | MaxContent.
Arguments Definite {T}. Arguments MinContent {T}. Arguments MaxContent {T}.
Record BRect (A : Type) := mkRect { r_left : A; r_right : A; r_top : A; r_bottom : A }.
Arguments mkRect {A}. Arguments r_left {A}. Arguments r_right {A}. Arguments r_top {A}. Arguments r_bottom {A}.
Record BSize (A : Type) := mkSize { s_w : A; s_h : A }.
Arguments mkSize {A}. Arguments s_w {A}. Arguments s_h {A}.
Record BLine (A : Type) := mkLine { l_start : A; l_end : A }.
Arguments mkLine {A}. Arguments l_start {A}. Arguments l_end {A}.

Definition is_scroll_container (o : BOverflow) : bool :=
  match o with OVisible | OClip => false | OHidden | OScroll => true end.
Definition overflow_is_scroll (o : BOverflow) : bool := match o with OScroll => true | _ => false end.
Definition overflow_is_visible (o : BOverflow) : bool := match o with OVisible => true | _ => false end.
Definition position_is_absolute (p : BPosition) : bool := match p with PAbsolute => true | _ => false end.

(* The style fields block layout and leaf layout read (Style, src/style/mod.rs) *)
Record BStyle (T : Type) := mkStyle {
  st_display : BDisplay;
  st_is_table : bool;
  st_content_box : bool;                 (* box_sizing == ContentBox *)
  st_overflow_x : BOverflow;
  st_overflow_y : BOverflow;
  st_scrollbar_width : T;
  st_position : BPosition;
  st_inset : BRect (LPA T);
  st_size : BSize (LPA T);
  st_min_size : BSize (LPA T);
  st_max_size : BSize (LPA T);
  st_aspect_ratio : option T;
  st_margin : BRect (LPA T);
  st_padding : BRect (LPA T);
  st_border : BRect (LPA T);
  st_text_align : BTextAlign;
}.
Arguments mkStyle {T}. Arguments st_display {T}. Arguments st_is_table {T}. Arguments st_content_box {T}.
Arguments st_overflow_x {T}. Arguments st_overflow_y {T}. Arguments st_scrollbar_width {T}. Arguments st_position {T}.
Arguments st_inset {T}. Arguments st_size {T}. Arguments st_min_size {T}. Arguments st_max_size {T}.
Arguments st_aspect_ratio {T}. Arguments st_margin {T}. Arguments st_padding {T}. Arguments st_border {T}.
Arguments st_text_align {T}.

(* BlockItem as produced by generate_item_list (the three "computed later" fields are results, see ItemResult) *)
Record Item (T : Type) := mkItem {
  it_order : Z;
  it_is_table : bool;
  it_size : BSize (option T);
  it_min_size : BSize (option T);
  it_max_size : BSize (option T);
  it_overflow_x : BOverflow;
  it_overflow_y : BOverflow;
  it_scrollbar_width : T;
  it_position : BPosition;
  it_inset : BRect (LPA T);
  it_margin : BRect (LPA T);             (* Auto = auto margin *)
  it_padding : BRect T;
  it_border : BRect T;
  it_pb_sum : BSize T;
}.
Arguments mkItem {T}. Arguments it_order {T}. Arguments it_is_table {T}. Arguments it_size {T}. Arguments it_min_size {T}.
Arguments it_max_size {T}. Arguments it_overflow_x {T}. Arguments it_overflow_y {T}. Arguments it_scrollbar_width {T}.
Arguments it_position {T}. Arguments it_inset {T}. Arguments it_margin {T}. Arguments it_padding {T}. Arguments it_border {T}.
Arguments it_pb_sum {T}.

(* What perform_child_layout returned for an in-flow item (LayoutOutput; baselines are not used by block layout) *)
Record ChildOut (T : Type) := mkOut {
  co_size : BSize T;
  co_content_size : BSize T;
  co_top : MarginSet T;
  co_bottom : MarginSet T;
  co_ct : bool;                          (* margins_can_collapse_through *)
}.
Arguments mkOut {T}. Arguments co_size {T}. Arguments co_content_size {T}. Arguments co_top {T}. Arguments co_bottom {T}.
Arguments co_ct {T}.

(* Per item result: the Layout stored by set_unrounded_layout, the item fields written back, what was passed to the child *)
Record ItemResult (T : Type) := mkRes {
  ir_order : Z;
  ir_inflow : bool;
  ir_x : T; ir_y : T;                    (* Layout.location (in-flow items only; zero for absolute ones) *)
  ir_size : BSize T;                     (* Layout.size = item.computed_size *)
  ir_margin : BRect T;                   (* Layout.margin (resolved) *)
  ir_scrollbar : BSize T;
  ir_static_x : T; ir_static_y : T;      (* item.static_position *)
  ir_ct : bool;                          (* item.can_be_collapsed_through *)
  ir_known : BSize (option T);           (* known_dimensions passed to the child *)
  ir_avail_w : T;                        (* available_space.width passed to the child (always Definite) *)
  ir_top_set : MarginSet T;              (* top_margin_set: child's top set collapsed with its own top margin *)
  ir_bottom_set : MarginSet T;
}.
Arguments mkRes {T}. Arguments ir_order {T}. Arguments ir_inflow {T}. Arguments ir_x {T}. Arguments ir_y {T}.
Arguments ir_size {T}. Arguments ir_margin {T}. Arguments ir_scrollbar {T}. Arguments ir_static_x {T}. Arguments ir_static_y {T}.
Arguments ir_ct {T}. Arguments ir_known {T}. Arguments ir_avail_w {T}. Arguments ir_top_set {T}. Arguments ir_bottom_set {T}.

Section Block.
  Context {T : Type} `{Num T}.

  (* ---- util/math.rs MaybeMath, the instances used here *)
  Definition f_maybe_clamp (x : T) (mn mx : option T) : T :=
    match mn, mx with
    | Some mn, Some mx => fmax (fmin x mx) mn
    | None, Some mx => fmin x mx
    | Some mn, None => fmax x mn
    | None, None => x
    end.
  Definition o_maybe_clamp (o : option T) (mn mx : option T) : option T :=
    match o with Some b => Some (f_maybe_clamp b mn mx) | None => None end.
  Definition o_maybe_add (o r : option T) : option T :=
    match o, r with Some l, Some r => Some (add l r) | Some l, None => Some l | None, _ => None end.
  Definition o_maybe_add_f (o : option T) (r : T) : option T := option_map (fun v => add v r) o.
  Definition o_maybe_sub_f (o : option T) (r : T) : option T := option_map (fun v => sub v r) o.
  Definition o_maybe_max_f (o : option T) (r : T) : option T := option_map (fun v => fmax v r) o.
  Definition f_maybe_max (x : T) (r : option T) : T := match r with Some v => fmax x v | None => x end.
  Definition f_maybe_sub (x : T) (r : option T) : T := match r with Some v => sub x v | None => x end.
  Definition o_or (a b : option T) : option T := match a with Some _ => a | None => b end.
  Definition o_unwrap (a : option T) (d : T) : T := match a with Some v => v | None => d end.
  Definition sz_map2 {A B C} (f : A -> B -> C) (a : BSize A) (b : BSize B) : BSize C :=
    mkSize (f (s_w a) (s_w b)) (f (s_h a) (s_h b)).
  Definition sz_maybe_clamp (s mn mx : BSize (option T)) : BSize (option T) :=
    mkSize (o_maybe_clamp (s_w s) (s_w mn) (s_w mx)) (o_maybe_clamp (s_h s) (s_h mn) (s_h mx)).
  Definition sz_none : BSize (option T) := mkSize None None.
  Definition sz_zero : BSize T := mkSize zero zero.
  Definition avail_maybe_sub_f (a : Avail T) (r : T) : Avail T :=
    match a with Definite v => Definite (sub v r) | o => o end.
  Definition avail_into_option (a : Avail T) : option T := match a with Definite v => Some v | _ => None end.

  (* ---- geometry.rs *)
  Definition rect_add (a b : BRect T) : BRect T :=
    mkRect (add (r_left a) (r_left b)) (add (r_right a) (r_right b)) (add (r_top a) (r_top b)) (add (r_bottom a) (r_bottom b)).
  Definition h_sum (r : BRect T) : T := add (r_left r) (r_right r).
  Definition v_sum (r : BRect T) : T := add (r_top r) (r_bottom r).
  Definition sum_axes (r : BRect T) : BSize T := mkSize (h_sum r) (v_sum r).
  Definition rect_zero : BRect T := mkRect zero zero zero zero.
  Definition maybe_apply_aspect_ratio (s : BSize (option T)) (ar : option T) : BSize (option T) :=
    match ar with
    | Some ratio =>
        match s_w s, s_h s with
        | Some w, None => mkSize (Some w) (Some (div w ratio))
        | None, Some h => mkSize (Some (mul h ratio)) (Some h)
        | _, _ => s
        end
    | None => s
    end.

  (* ---- util/resolve.rs, style/dimension.rs *)
  Definition lpa_maybe_resolve (v : LPA T) (ctx : option T) : option T :=
    match v with
    | Len x => Some x
    | Pct p => option_map (fun d => mul d p) ctx
    | Auto => None
    end.
  Definition lpa_resolve_or_zero (v : LPA T) (ctx : option T) : T := o_unwrap (lpa_maybe_resolve v ctx) zero.
  Definition lpa_resolve_to_option (v : LPA T) (ctx : T) : option T :=
    match v with Len x => Some x | Pct p => Some (mul ctx p) | Auto => None end.
  Definition rect_resolve_or_zero (r : BRect (LPA T)) (ctx : option T) : BRect T :=
    mkRect (lpa_resolve_or_zero (r_left r) ctx) (lpa_resolve_or_zero (r_right r) ctx)
           (lpa_resolve_or_zero (r_top r) ctx) (lpa_resolve_or_zero (r_bottom r) ctx).
  (* Rect resolved against a Size: left/right against the width, top/bottom against the height *)
  Definition rect_resolve_or_zero_sz (r : BRect (LPA T)) (ctx : BSize (option T)) : BRect T :=
    mkRect (lpa_resolve_or_zero (r_left r) (s_w ctx)) (lpa_resolve_or_zero (r_right r) (s_w ctx))
           (lpa_resolve_or_zero (r_top r) (s_h ctx)) (lpa_resolve_or_zero (r_bottom r) (s_h ctx)).
  Definition size_maybe_resolve (s : BSize (LPA T)) (ctx : BSize (option T)) : BSize (option T) :=
    mkSize (lpa_maybe_resolve (s_w s) (s_w ctx)) (lpa_maybe_resolve (s_h s) (s_h ctx)).
  (* style.X().maybe_resolve(ctx).maybe_apply_aspect_ratio(ar).maybe_add(box_sizing_adjustment) *)
  Definition resolve_size_style (s : BSize (LPA T)) (ctx : BSize (option T)) (ar : option T) (bsa : BSize T) : BSize (option T) :=
    let r := maybe_apply_aspect_ratio (size_maybe_resolve s ctx) ar in
    mkSize (o_maybe_add_f (s_w r) (s_w bsa)) (o_maybe_add_f (s_h r) (s_h bsa)).

  (* ---- generate_item_list: one child (already filtered: display != none), `order` = index after filtering *)
  Definition generate_item (st : BStyle T) (node_inner_size : BSize (option T)) (order : Z) : Item T :=
    let ar := st_aspect_ratio st in
    let padding := rect_resolve_or_zero_sz (st_padding st) node_inner_size in
    let border := rect_resolve_or_zero_sz (st_border st) node_inner_size in
    let pb_sum := sum_axes (rect_add padding border) in
    let bsa := if st_content_box st then pb_sum else sz_zero in
    mkItem order (st_is_table st)
      (resolve_size_style (st_size st) node_inner_size ar bsa)
      (resolve_size_style (st_min_size st) node_inner_size ar bsa)
      (resolve_size_style (st_max_size st) node_inner_size ar bsa)
      (st_overflow_x st) (st_overflow_y st) (st_scrollbar_width st) (st_position st) (st_inset st) (st_margin st)
      padding border pb_sum.

  Fixpoint generate_items_from (sts : list (BStyle T)) (node_inner_size : BSize (option T)) (order : Z) : list (Item T) :=
    match sts with
    | [] => []
    | st :: rest =>
        match st_display st with
        | DNone => generate_items_from rest node_inner_size order
        | _ => generate_item st node_inner_size order :: generate_items_from rest node_inner_size (order + 1)%Z
        end
    end.
  Definition generate_item_list (sts : list (BStyle T)) (node_inner_size : BSize (option T)) : list (Item T) :=
    generate_items_from sts node_inner_size 0%Z.

  (* ---- perform_final_layout_on_in_flow_children *)
  Record Params := mkParams {
    p_outer_width : T;                   (* container_outer_width *)
    p_cbi : BRect T;                     (* content_box_inset (padding/border resolved against parent width + gutter) *)
    p_rcbi : BRect T;                    (* resolved_content_box_inset (resolved against the container's own width) *)
    p_text_align : BTextAlign;
    p_own_collapse : BLine bool;         (* own_margins_collapse_with_children *)
  }.

  Definition inner_width (P : Params) : T := sub (p_outer_width P) (h_sum (p_cbi P)).

  Definition item_margin (P : Params) (it : Item T) : BRect (option T) :=
    let f := fun m => lpa_resolve_to_option m (p_outer_width P) in
    mkRect (f (r_left (it_margin it))) (f (r_right (it_margin it))) (f (r_top (it_margin it))) (f (r_bottom (it_margin it))).

  Definition non_auto_x_margin_sum (m : BRect (option T)) : T :=
    add (o_unwrap (r_left m) zero) (o_unwrap (r_right m) zero).

  (* known_dimensions passed to the child *)
  Definition item_known_dims (P : Params) (it : Item T) : BSize (option T) :=
    if it_is_table it then sz_none
    else
      let xsum := non_auto_x_margin_sum (item_margin P it) in
      let w := Some (f_maybe_clamp (o_unwrap (s_w (it_size it)) (sub (inner_width P) xsum))
                                   (s_w (it_min_size it)) (s_w (it_max_size it))) in
      sz_maybe_clamp (mkSize w (s_h (it_size it))) (it_min_size it) (it_max_size it).

  (* available_space.width passed to the child: Definite(container_inner_width).maybe_sub(x margin sum) *)
  Definition item_avail_w (P : Params) (it : Item T) : T :=
    sub (inner_width P) (non_auto_x_margin_sum (item_margin P it)).

  Definition content_size_contribution (x y : T) (size content : BSize T) (ox oy : BOverflow) : BSize T :=
    let cw := if overflow_is_visible ox then fmax (s_w size) (s_w content) else s_w size in
    let ch := if overflow_is_visible oy then fmax (s_h size) (s_h content) else s_h size in
    if andb (ltb zero cw) (ltb zero ch) then mkSize (add x cw) (add y ch) else sz_zero.

  Definition sz_fmax (a b : BSize T) : BSize T := mkSize (fmax (s_w a) (s_w b)) (fmax (s_h a) (s_h b)).

  Record State := mkState {
    s_content : BSize T;                 (* inflow_content_size *)
    s_committed : T;                     (* committed_y_offset *)
    s_abs_y : T;                         (* y_offset_for_absolute *)
    s_first_set : MarginSet T;           (* first_child_top_margin_set *)
    s_active : MarginSet T;              (* active_collapsible_margin_set *)
    s_is_first : bool;                   (* is_collapsing_with_first_margin_set *)
  }.

  Definition init_state (P : Params) : State :=
    mkState sz_zero (r_top (p_rcbi P)) (r_top (p_rcbi P)) ms_ZERO ms_ZERO true.

  Definition scrollbar_size (it : Item T) : BSize T :=
    mkSize (if overflow_is_scroll (it_overflow_y it) then it_scrollbar_width it else zero)
           (if overflow_is_scroll (it_overflow_x it) then it_scrollbar_width it else zero).

  Definition inflow_step (P : Params) (st : State) (it : Item T) (co : ChildOut T) : State * ItemResult T :=
    if position_is_absolute (it_position it) then
      (st, mkRes (it_order it) false zero zero sz_zero rect_zero (scrollbar_size it)
                 (r_left (p_rcbi P)) (s_abs_y st) false sz_none zero ms_ZERO ms_ZERO)
    else
      let ciw := inner_width P in
      let m := item_margin P it in
      let xsum := non_auto_x_margin_sum m in
      let known := item_known_dims P it in
      let final_size := co_size co in
      let top_set := ms_collapse_with_margin (co_top co) (o_unwrap (r_top m) zero) in
      let bottom_set := ms_collapse_with_margin (co_bottom co) (o_unwrap (r_bottom m) zero) in
      let free_x := fmax zero (sub (sub ciw (s_w final_size)) xsum) in
      let auto_count := ((if r_left m then 0 else 1) + (if r_right m then 0 else 1))%Z in
      let x_auto := if (0 <? auto_count)%Z then div free_x (of_Z auto_count) else zero in
      let rm := mkRect (o_unwrap (r_left m) x_auto) (o_unwrap (r_right m) x_auto) (ms_resolve top_set) (ms_resolve bottom_set) in
      let rs := fun (p : LPA T) (s : T) => lpa_maybe_resolve p (Some s) in
      let inset := mkRect (rs (r_left (it_inset it)) ciw) (rs (r_right (it_inset it)) ciw)
                          (rs (r_top (it_inset it)) zero) (rs (r_bottom (it_inset it)) zero) in
      let off_x := o_unwrap (o_or (r_left inset) (option_map neg (r_right inset))) zero in
      let off_y := o_unwrap (o_or (r_top inset) (option_map neg (r_bottom inset))) zero in
      let y_margin_offset :=
        if andb (s_is_first st) (l_start (p_own_collapse P)) then zero
        else ms_resolve (ms_collapse_with_margin (s_active st) (r_top rm)) in
      let ct := co_ct co in
      let static_x := r_left (p_rcbi P) in
      let static_y := add (s_committed st) (ms_resolve (s_active st)) in
      let loc_x0 := add (add (r_left (p_rcbi P)) off_x) (r_left rm) in
      let loc_y := add (add (s_committed st) off_y) y_margin_offset in
      let outer_w := add (s_w final_size) (h_sum rm) in
      let loc_x :=
        if ltb outer_w ciw then
          match p_text_align P with
          | TAAuto | TALeft => loc_x0
          | TARight => add loc_x0 (sub ciw outer_w)
          | TACenter => add loc_x0 (div (sub ciw outer_w) two)
          end
        else loc_x0 in
      let content := sz_fmax (s_content st)
                       (content_size_contribution loc_x loc_y final_size (co_content_size co) (it_overflow_x it) (it_overflow_y it)) in
      let first_set :=
        if s_is_first st then
          if ct then ms_collapse_with_set (ms_collapse_with_set (s_first_set st) top_set) bottom_set
          else ms_collapse_with_set (s_first_set st) top_set
        else s_first_set st in
      let is_first := if s_is_first st then ct else false in
      let st' :=
        if ct then
          mkState content (s_committed st)
                  (add (add (s_committed st) (s_h final_size)) y_margin_offset)
                  first_set
                  (ms_collapse_with_set (ms_collapse_with_set (s_active st) top_set) bottom_set)
                  is_first
        else
          let committed := add (s_committed st) (add (s_h final_size) y_margin_offset) in
          mkState content committed (add committed (ms_resolve bottom_set)) first_set bottom_set is_first in
      (st', mkRes (it_order it) true loc_x loc_y final_size rm (scrollbar_size it) static_x static_y ct
                  known (sub ciw xsum) top_set bottom_set).

  Fixpoint inflow_loop (P : Params) (st : State) (xs : list (Item T * ChildOut T)) : State * list (ItemResult T) :=
    match xs with
    | [] => (st, [])
    | (it, co) :: rest =>
        let '(st1, r) := inflow_step P st it co in
        let '(st2, rs) := inflow_loop P st1 rest in
        (st2, r :: rs)
    end.

  Record InflowOut := mkInflowOut {
    io_results : list (ItemResult T);
    io_content_size : BSize T;           (* inflow_content_size *)
    io_height : T;                       (* intrinsic_outer_height (content_height) *)
    io_first_set : MarginSet T;          (* first_child_top_margin_set *)
    io_last_set : MarginSet T;           (* last_child_bottom_margin_set *)
  }.

  Definition block_inflow (P : Params) (xs : list (Item T * ChildOut T)) : InflowOut :=
    let '(st, rs) := inflow_loop P (init_state P) xs in
    let last := s_active st in
    let bottom_off := if l_end (p_own_collapse P) then zero else ms_resolve last in
    let committed := add (s_committed st) (add (r_bottom (p_rcbi P)) bottom_off) in
    mkInflowOut rs (s_content st) (fmax zero committed) (s_first_set st) last.

  (* ---- compute_inner: the decisions around the loop *)
  Record BInput := mkInput {
    in_known : BSize (option T);
    in_parent : BSize (option T);
    in_collapsible : BLine bool;          (* vertical_margins_are_collapsible *)
  }.

  Definition scrollbar_gutter (st : BStyle T) : BRect T :=
    (* overflow.transpose(): x gutter from overflow.y, y gutter from overflow.x *)
    mkRect zero (if overflow_is_scroll (st_overflow_y st) then st_scrollbar_width st else zero)
           zero (if overflow_is_scroll (st_overflow_x st) then st_scrollbar_width st else zero).

  Record Resolved := mkResolved {
    rs_padding : BRect T; rs_border : BRect T; rs_pb_size : BSize T; rs_cbi : BRect T;
    rs_size : BSize (option T); rs_min : BSize (option T); rs_max : BSize (option T);
  }.
  Definition block_resolve (st : BStyle T) (inp : BInput) : Resolved :=
    let pw := s_w (in_parent inp) in
    let padding := rect_resolve_or_zero (st_padding st) pw in
    let border := rect_resolve_or_zero (st_border st) pw in
    let pb := rect_add padding border in
    let pbs := sum_axes pb in
    let cbi := rect_add pb (scrollbar_gutter st) in
    let bsa := if st_content_box st then pbs else sz_zero in
    let ar := st_aspect_ratio st in
    mkResolved padding border pbs cbi
      (resolve_size_style (st_size st) (in_parent inp) ar bsa)
      (resolve_size_style (st_min_size st) (in_parent inp) ar bsa)
      (resolve_size_style (st_max_size st) (in_parent inp) ar bsa).

  Definition o_gt_zero (o : option T) : bool := match o with Some h => ltb zero h | None => false end.
  Definition o_is_none (o : option T) : bool := match o with Some _ => false | None => true end.

  Definition block_own_collapse (st : BStyle T) (inp : BInput) : BLine bool :=
    let R := block_resolve st inp in
    let common := andb (negb (is_scroll_container (st_overflow_x st)))
                  (andb (negb (is_scroll_container (st_overflow_y st))) (negb (position_is_absolute (st_position st)))) in
    mkLine
      (andb (l_start (in_collapsible inp))
         (andb common (andb (eqb (r_top (rs_padding R)) zero) (eqb (r_top (rs_border R)) zero))))
      (andb (l_end (in_collapsible inp))
         (andb common (andb (eqb (r_bottom (rs_padding R)) zero)
                      (andb (eqb (r_bottom (rs_border R)) zero) (o_is_none (s_h (rs_size R))))))).

  (* has_styles_preventing_being_collapsed_through; note size.height is resolved against parent_size *)
  Definition block_prevent_ct (st : BStyle T) (inp : BInput) : bool :=
    let R := block_resolve st inp in
    orb (negb (match st_display st with DBlock => true | _ => false end))
    (orb (is_scroll_container (st_overflow_x st))
    (orb (is_scroll_container (st_overflow_y st))
    (orb (position_is_absolute (st_position st))
    (orb (ltb zero (r_top (rs_padding R)))
    (orb (ltb zero (r_bottom (rs_padding R)))
    (orb (ltb zero (r_top (rs_border R)))
    (orb (ltb zero (r_bottom (rs_border R)))
    (orb (o_gt_zero (s_h (rs_size R))) (o_gt_zero (s_h (rs_min R))))))))))).

  Definition block_can_collapse_through (st : BStyle T) (inp : BInput) (rs : list (ItemResult T)) : bool :=
    andb (negb (block_prevent_ct st inp))
         (forallb (fun r => orb (negb (ir_inflow r)) (ir_ct r)) rs).

  Definition block_outer_height (st : BStyle T) (inp : BInput) (intrinsic : T) : T :=
    let R := block_resolve st inp in
    fmax (o_unwrap (s_h (in_known inp)) (f_maybe_clamp intrinsic (s_h (rs_min R)) (s_h (rs_max R)))) (s_h (rs_pb_size R)).

  Definition block_output_margins (st : BStyle T) (inp : BInput) (io : InflowOut) : MarginSet T * MarginSet T :=
    let oc := block_own_collapse st inp in
    let pw := s_w (in_parent inp) in
    ((if l_start oc then io_first_set io else ms_from_margin (lpa_resolve_or_zero (r_top (st_margin st)) pw)),
     (if l_end oc then io_last_set io else ms_from_margin (lpa_resolve_or_zero (r_bottom (st_margin st)) pw))).

  (* parameters of the loop as compute_inner derives them, given the container's outer width *)
  Definition block_params (st : BStyle T) (inp : BInput) (outer_width : T) : Params :=
    let R := block_resolve st inp in
    let rp := rect_resolve_or_zero (st_padding st) (Some outer_width) in
    let rb := rect_resolve_or_zero (st_border st) (Some outer_width) in
    mkParams outer_width (rs_cbi R) (rect_add (rect_add rp rb) (scrollbar_gutter st)) (st_text_align st)
             (block_own_collapse st inp).

  (* container_content_box_size = known_dimensions.maybe_sub(content_box_inset.sum_axes()) : node_inner_size of the items *)
  Definition block_node_inner_size (st : BStyle T) (inp : BInput) : BSize (option T) :=
    let R := block_resolve st inp in
    mkSize (o_maybe_sub_f (s_w (in_known inp)) (h_sum (rs_cbi R))) (o_maybe_sub_f (s_h (in_known inp)) (v_sum (rs_cbi R))).
End Block.
Arguments Params : clear implicits.
Arguments State : clear implicits.
Arguments InflowOut : clear implicits.
Arguments BInput : clear implicits.
Arguments Resolved : clear implicits.
