(* The representation equalities of Model/TaffyKey.v are exact, and an exact equality of numbers makes `fin_eqb_with` an exact memo key. *)
From Coq Require Import ZArith QArith Bool List Eqdep_dec.
From Flocq Require Import IEEE754.BinarySingleNaN.
From TV Require Import Num.Num Num.F32 Num.QNum Model.Common Model.Leaf Model.FlexAlgBase Model.TaffyEngine Model.TaffyKey.
From TV Require Model.Engine.

Lemma f32_seqb_eq (x y : f32) : f32_seqb x y = true -> x = y.
Proof.
  destruct x as [s|s| |s m e p], y as [s'|s'| |s' m' e' p']; cbn [f32_seqb]; intros E; try discriminate; try reflexivity.
  - apply eqb_prop in E. subst. reflexivity.
  - apply eqb_prop in E. subst. reflexivity.
  - apply andb_prop in E. destruct E as [E E3]. apply andb_prop in E. destruct E as [E1 E2].
    apply eqb_prop in E1. apply Pos.eqb_eq in E2. apply Z.eqb_eq in E3. subst. f_equal. apply (UIP_dec bool_dec).
Qed.

Lemma xq_seqb_eq (x y : XQ) : xq_seqb x y = true -> x = y.
Proof.
  destruct x as [[n d]| | |], y as [[n' d']| | |]; cbn [xq_seqb Qnum Qden]; intros E; try discriminate; try reflexivity.
  apply andb_prop in E. destruct E as [E1 E2]. apply Z.eqb_eq in E1. apply Pos.eqb_eq in E2. subst. reflexivity.
Qed.

Section Key.
  Context {T : Type} `{Num T}.
  Variable teq : T -> T -> bool.
  Hypothesis teq_eq : forall a b, teq a b = true -> a = b.

  Lemma o_eqb_eq (a b : option T) : o_eqb teq a b = true -> a = b.
  Proof. destruct a, b; cbn; intros E; try discriminate; [f_equal; apply teq_eq; exact E|reflexivity]. Qed.
  Lemma av_eqb_eq (a b : AvailableSpace T) : av_eqb teq a b = true -> a = b.
  Proof. destruct a, b; cbn; intros E; try discriminate; try reflexivity. f_equal. apply teq_eq. exact E. Qed.

  Theorem fin_eqb_with_eq (a b : FIn T) : fin_eqb_with teq a b = true -> a = b.
  Proof.
    destruct a as [m s x [kw kh] [pw ph] [aw ah] [cs ce]], b as [m' s' x' [kw' kh'] [pw' ph'] [aw' ah'] [cs' ce']].
    unfold fin_eqb_with. cbn [qi_mode qi_sizing qi_axis qi_known qi_parent qi_avail qi_collapsible width height l_start l_end].
    intros E. repeat (apply andb_prop in E; destruct E as [E ?]).
    repeat match goal with
           | [ X : o_eqb teq _ _ = true |- _ ] => apply o_eqb_eq in X
           | [ X : av_eqb teq _ _ = true |- _ ] => apply av_eqb_eq in X
           | [ X : Bool.eqb _ _ = true |- _ ] => apply eqb_prop in X
           end.
    subst.
    assert (m = m') by (destruct m, m'; try discriminate; reflexivity).
    assert (s = s') by (destruct s, s'; try discriminate; reflexivity).
    assert (x = x') by (destruct x, x'; try discriminate; reflexivity).
    subst. reflexivity.
  Qed.
End Key.
