(* Concrete MIXED trees of the complete engine over the exact instance XQ, for the computed non-vacuity Examples of Props/C01.v.
   Definitions only.

   ex_tree (every container kind, a display:none child, an absolute child, a measured leaf):
     #0 display:block  width 200
       #1 display:flex (row)            children  #2 leaf 30 x 20   #3 leaf 40 x 10
       #4 display:grid  columns 50px 50px, gap 0   children  #5 leaf 20 x 10   #6 display:none leaf 7 x 7   #7 text leaf (10 glyphs of 4 x 4)
       #8 leaf 10 x 10, position:absolute
   calm_tree (no display:block node, no baseline alignment -- the class of C01_taffy_engine_layouts_equal_fresh_partial):
     #0 display:flex (column)  width 120
       #1 display:grid  columns 50px 50px   children  #2 leaf 20 x 10   #3 display:none leaf   #4 text leaf
       #5 display:flex (row)                 children  #6 leaf 30 x 20   #7 leaf 40 x 10 *)
From Coq Require Import ZArith QArith Bool List.
From TV Require Import Num.Num Num.QNum Model.Common Model.Leaf Gen.GridTracksGen Model.GridTracks.
From TV Require Import Model.FlexAlgBase Model.BlockFlexEngine Model.GridAlgBase Model.TaffyEngine Model.TaffyRoot Model.TaffyKey.
From TV Require Model.Engine Model.Block Model.MeasureFamily.
Import ListNotations.
Close Scope Q_scope.
Close Scope Z_scope.

Definition xq (z : Z) : XQ := Fin (inject_Z z).
Definition len (z : Z) : Dimension XQ := Length (xq z).

Definition ex_core (d : Display) (p : Position) (w h : Dimension XQ) : Style XQ :=
  mkStyle d p BorderBox (mkPoint Visible Visible) zero (mkSize w h) dim_auto_size dim_auto_size None lpa_zero_rect lp_zero_rect lp_zero_rect.

(* Style::DEFAULT except: display, position, size, flex direction (row?), grid-template-columns, the measure data *)
Definition ex_style (d : Display) (p : Position) (w h : Dimension XQ) (row : bool) (cols : list (tsf XQ))
           (m : MeasureFamily.MeasureCtx XQ) : TStyle XQ :=
  mkTS (mkBF (mkFStyle (ex_core d p w h) lpa_auto_rect row false false false None None None None
                       (mkSize (LpLength zero) (LpLength zero)) Auto zero one)
             false Block.TAAuto)
       cols [] [] [] PB.FRow None None auto_ln auto_ln false (MeasureFamily.family_measure m).

Definition px_track (z : Z) : tsf XQ := TSingle (SLength (xq z), SLength (xq z)).
Definition ex_leaf (d : Display) (p : Position) (w h : Z) : Engine.sk (TStyle XQ) :=
  Engine.SNode _ (ex_style d p (len w) (len h) true [] MeasureFamily.MNone) [].
Definition ex_text : Engine.sk (TStyle XQ) :=
  Engine.SNode _ (ex_style DFlex Relative Auto Auto true [] (MeasureFamily.MText 10 (xq 4))) [].

Definition ex_flex_row : Engine.sk (TStyle XQ) :=
  Engine.SNode _ (ex_style DFlex Relative Auto Auto true [] MeasureFamily.MNone) [ex_leaf DFlex Relative 30 20; ex_leaf DFlex Relative 40 10].
Definition ex_grid : Engine.sk (TStyle XQ) :=
  Engine.SNode _ (ex_style DGrid Relative Auto Auto true [px_track 50; px_track 50] MeasureFamily.MNone)
               [ex_leaf DFlex Relative 20 10; ex_leaf DNone Relative 7 7; ex_text].

Definition ex_tree : Engine.sk (TStyle XQ) :=
  Engine.SNode _ (ex_style DBlock Relative (len 200) Auto true [] MeasureFamily.MNone)
               [ex_flex_row; ex_grid; ex_leaf DFlex Absolute 10 10].

Definition ex_avail (w : Z) : Size (AvailableSpace XQ) := mkSize (Types.Definite (xq w)) MaxContent.
Definition ex_input (w : Z) : FIn XQ := taffy_root_input (Engine.sstyle _ ex_tree) (ex_avail w).

Notation xop := (Engine.op (TStyle XQ) (FIn XQ) (LayoutOutput XQ) (FLay XQ)).
(* a history: layout at width 300; the flex row becomes a column (set_style); mark_dirty on the grid's text leaf; layout at width 150 *)
Definition ex_ops : list xop :=
  [Engine.OLayout _ _ _ _ 8 (ex_input 300);
   Engine.OMutate _ _ _ _ [0] (Engine.ESetStyle _ _ _ _ (ex_style DFlex Relative Auto Auto false [] MeasureFamily.MNone));
   Engine.OMutate _ _ _ _ [1; 2] (Engine.ENone _ _ _ _);
   Engine.OLayout _ _ _ _ 8 (ex_input 150)].

Definition x_eqb := fin_eqb_with xq_seqb.
Definition ex_memo := real_memo xq_seqb.
Definition ex_run :=
  Engine.run_ops (TStyle XQ) (FIn XQ) (LayoutOutput XQ) (FLay XQ) qi_mode x_eqb t_is_none output_HIDDEN (f_with_order 0) real_algo
                 (taffy_fresh ex_tree) ex_ops.

(* ---- the calm tree *)
Definition calm (s : TStyle XQ) (H : t_calm s = true) : CalmStyle := exist _ s H.
Definition cleaf (d : Display) (w h : Z) (H : t_calm (ex_style d Relative (len w) (len h) true [] MeasureFamily.MNone) = true)
  : Engine.sk CalmStyle := Engine.SNode _ (calm _ H) [].

Definition calm_tree : Engine.sk (CalmStyle (T := XQ)) :=
  Engine.SNode _ (calm (ex_style DFlex Relative (len 120) Auto false [] MeasureFamily.MNone) eq_refl)
    [Engine.SNode _ (calm (ex_style DGrid Relative Auto Auto true [px_track 50; px_track 50] MeasureFamily.MNone) eq_refl)
       [cleaf DFlex 20 10 eq_refl; cleaf DNone 7 7 eq_refl;
        Engine.SNode _ (calm (ex_style DFlex Relative Auto Auto true [] (MeasureFamily.MText 10 (xq 4))) eq_refl) []];
     Engine.SNode _ (calm (ex_style DFlex Relative Auto Auto true [] MeasureFamily.MNone) eq_refl)
       [cleaf DFlex 30 20 eq_refl; cleaf DFlex 40 10 eq_refl]].

Definition calm_input (w : Z) : FIn XQ := taffy_root_input (calm_style (Engine.sstyle _ calm_tree)) (ex_avail w).
Notation cop := (Engine.op (CalmStyle (T := XQ)) (FIn XQ) (LayoutOutput XQ) (FLay XQ)).
(* layout at width 300; the inner flex row becomes a column; mark_dirty on the grid's text leaf; layout at width 90 *)
Definition calm_ops : list cop :=
  [Engine.OLayout _ _ _ _ 8 (calm_input 300);
   Engine.OMutate _ _ _ _ [1] (Engine.ESetStyle _ _ _ _ (calm (ex_style DFlex Relative Auto Auto false [] MeasureFamily.MNone) eq_refl));
   Engine.OMutate _ _ _ _ [0; 2] (Engine.ENone _ _ _ _);
   Engine.OLayout _ _ _ _ 8 (calm_input 90)].
Definition calm_fresh := Engine.fresh (CalmStyle (T := XQ)) (FIn XQ) (LayoutOutput XQ) (FLay XQ) (f_with_order 0).
Definition calm_memo :=
  Engine.memo (CalmStyle (T := XQ)) (FIn XQ) (LayoutOutput XQ) (FLay XQ) qi_mode x_eqb calm_is_none output_HIDDEN (f_with_order 0) calm_algo.
Definition calm_run :=
  Engine.run_ops (CalmStyle (T := XQ)) (FIn XQ) (LayoutOutput XQ) (FLay XQ) qi_mode x_eqb calm_is_none output_HIDDEN (f_with_order 0) calm_algo
                 (calm_fresh calm_tree) calm_ops.
