(* The combined algorithm of Model/BlockFlexEngine.v (block containers through Model/BlockAlg.v, flex containers through
   Model/FlexAlg.v, leaves) satisfies HiddenBlind and AbsBlind: the premises of the engine-level theorems of C05 / C06 are theorems for
   every engine made of block containers, flex containers and leaves. *)
From Coq Require Import ZArith Bool List.
From TV Require Import Model.Common Model.Leaf Model.FlexAlgBase Model.FlexAlg Model.EngineLift Model.BlockFlexEngine.
From TV Require Import Model.FiltersBase Gen.FiltersGen Model.ItemFilters.
From TV Require Import Model.Engine Proofs.EngineMemo Proofs.EngineBlind Proofs.EngineAbs Proofs.EngineLift.
From TV Require Import Proofs.FlexAlgBlind Proofs.BlockAlgBlind.
From TV Require Gen.BlockGen Model.Block Model.BlockAlg.
Import ListNotations.
Close Scope Z_scope.

Section BlockFlex.
  Context {T : Type} `{Num T}.
  Notation Out := (LayoutOutput T).
  Notation BF := (BFStyle T).

  Lemma to_bstyle_is_none (s : BF) : BlockAlg.bs_is_none (to_bstyle s) = bf_is_none s.
  Proof.
    unfold BlockAlg.bs_is_none, bf_is_none, f_is_none, s_hidden, bs_bgm, f_bgm, f_gdisplay, to_bstyle. cbn [Block.st_display].
    destruct (display (fs_core (bf_flex s))); reflexivity.
  Qed.

  Lemma to_bstyle_visible_absolute (s : BF) : BlockAlg.bs_visible_absolute (to_bstyle s) = bf_visible_absolute s.
  Proof.
    unfold BlockAlg.bs_visible_absolute, bf_visible_absolute, f_visible_absolute, s_visible_absolute, s_hidden, s_absolute,
      bs_bgm, f_bgm, f_gdisplay, bs_position, f_position, to_bstyle. cbn [Block.st_display Block.st_position].
    destruct (display (fs_core (bf_flex s))), (position (fs_core (bf_flex s))); reflexivity.
  Qed.

  Lemma to_bout_eq (o o' : Out) : fout_eq o o' -> BlockAlg.out_eq (to_bout o) (to_bout o').
  Proof.
    intros (A & _ & C & D & E). unfold BlockAlg.out_eq, to_bout. cbn. rewrite A, C, D, E. repeat split.
  Qed.
  Lemma of_bout_eq (o o' : Block.ChildOut T) : BlockAlg.out_eq o o' -> fout_eq (of_bout o) (of_bout o').
  Proof.
    intros (A & B & C & D). unfold fout_eq, of_bout. cbn. rewrite A, B, C, D. repeat split.
  Qed.
  Lemma of_blay_eq (l l' : BlockAlg.BLayout T) : BlockAlg.lay_eq l l' -> flay_eq (of_blay l) (of_blay l').
  Proof.
    intros (A & B & C & D & E & F & G & I). unfold flay_eq, of_blay. cbn. rewrite A, B, C, D, E, F, G, I. repeat split.
  Qed.

  Theorem block_alg_bf_hidden_blind pre abs_child :
    HiddenBlind BF (FIn T) Out (FLay T) bf_is_none (block_alg_bf pre abs_child).
  Proof.
    unfold block_alg_bf. eapply HiddenBlind_comap; [apply to_bstyle_is_none|].
    apply HiddenBlind_lift. apply block_alg_hidden_blind.
  Qed.

  Theorem flex_alg_bf_hidden_blind : HiddenBlind BF (FIn T) Out (FLay T) bf_is_none flex_alg_bf.
  Proof. unfold flex_alg_bf. eapply HiddenBlind_comap; [intros s; reflexivity|apply flex_alg_hidden_blind]. Qed.

  Theorem block_alg_bf_abs_blind pre abs_child : BlockAlg.AbsChildLocal abs_child ->
    AbsBlind BF (FIn T) Out (FLay T) (block_alg_bf pre abs_child) bf_visible_absolute fout_eq flay_eq.
  Proof.
    intros Hloc. unfold block_alg_bf. eapply AbsBlind_comap; [apply to_bstyle_visible_absolute|].
    eapply AbsBlind_lift; [apply to_bout_eq|apply of_bout_eq|apply of_blay_eq|]. apply block_alg_abs_blind. exact Hloc.
  Qed.

  Theorem flex_alg_bf_abs_blind : AbsBlind BF (FIn T) Out (FLay T) flex_alg_bf bf_visible_absolute fout_eq flay_eq.
  Proof. unfold flex_alg_bf. eapply AbsBlind_comap; [intros s; reflexivity|apply flex_alg_abs_blind]. Qed.

  Theorem blockflex_algo_hidden_blind kind pre abs_child leaf :
    HiddenBlind BF (FIn T) Out (FLay T) bf_is_none (blockflex_algo kind pre abs_child leaf).
  Proof.
    unfold blockflex_algo.
    apply (HiddenBlind_dispatch2 BF (FIn T) Out (FLay T) bf_is_none (fun s => match kind s with NKBlock => true | _ => false end));
      [apply block_alg_bf_hidden_blind|].
    apply (HiddenBlind_dispatch2 BF (FIn T) Out (FLay T) bf_is_none (fun s => match kind s with NKFlex => true | _ => false end));
      [apply flex_alg_bf_hidden_blind|].
    apply (HiddenBlind_leaf BF (FIn T) Out (FLay T) bf_is_none leaf).
  Qed.

  Theorem blockflex_algo_abs_blind kind pre abs_child leaf : BlockAlg.AbsChildLocal abs_child ->
    AbsBlind BF (FIn T) Out (FLay T) (blockflex_algo kind pre abs_child leaf) bf_visible_absolute fout_eq flay_eq.
  Proof.
    intros Hloc. unfold blockflex_algo.
    apply (AbsBlind_dispatch2 BF (FIn T) Out (FLay T) (fun s => match kind s with NKBlock => true | _ => false end));
      [apply block_alg_bf_abs_blind; exact Hloc|].
    apply (AbsBlind_dispatch2 BF (FIn T) Out (FLay T) (fun s => match kind s with NKFlex => true | _ => false end));
      [apply flex_alg_bf_abs_blind|].
    apply (AbsBlind_leaf BF (FIn T) Out (FLay T) leaf). apply fout_eq_refl.
  Qed.
End BlockFlex.
