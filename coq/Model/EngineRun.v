(* Runner of the dirty-flag correspondence (C01 / C15): replays a history of TaffyTree API calls, given as integers by
   the harness, on a forest of engine-skeleton trees (Model/Engine.v definitions: mutate = edit + mark_dirty with its
   early exit, memo with compute_hidden_layout) and reports TaffyTree::dirty of every live node after every call.
   The forest layer (which node every call edits and marks dirty) is Model/EngineForest.v, instantiated here with the
   TOY algorithm; Model/EngineReplayRun.v instantiates the same layer with the real algorithms' recorded behaviour. *)
From Coq Require Import List Bool Arith NArith ZArith Lia.
From TV Require Import Model.Engine Model.EngineToy Model.EngineForest.
Import ListNotations.

(* memo consumes one unit of fuel per tree level; the harness's trees are far shallower than 64.  Running out of fuel (or an
   algorithm addressing a child that does not exist) is NOT folded into "the pass changed nothing": the pass returns None and
   the forest layer logs the marker -99, which no implementation result contains -- so exhaustion shows up as a broken
   correspondence instead of a plausible list of dirty flags. *)
Definition fuel_of (t : ttree) : nat := 64.

(* set_style replaces (id, none); set_node_context leaves the toy style alone (the toy algorithm ignores measure data) *)
Definition toy_layout (t : ttree) (tag : N) : option (ttree * list Z) :=
  match t_memo (fuel_of t) t (PerformLayout, tag) with
  | Some (_, t') => Some (t', [])
  | None => None
  end.

Definition toy_new_style (id : N) (none : bool) : TS := (id, none).
Definition toy_restyle (s : TS) (none : bool) : TS := (fst s, none).

(* decode: [nnodes; (parent or -1, none)*nnodes; then ops each prefixed by its length] *)
Definition run_case (c : list Z) : list Z :=
  match c with
  | n :: rest =>
      let '(f0, ops) := build_nodes TS TIn TOut TLay fst toy_new_style 0%N (Z.to_nat n) rest 0%N [] in
      run_ops_out TS TIn TOut TLay fst toy_new_style toy_restyle (fun s => s) 0%N toy_layout f0 ops
  | [] => []
  end.
