(* C04 for WHOLE TREES: engines made of block containers and leaves (Model/BlockEngine.v) are homogeneous.

     leaf_out_homog          compute_leaf_layout behind the adapter: related style / measure function / input give related
                             outputs -- from Proofs/ScaleProofs.v leaf_homog (C04_leaf) through the adapter lemmas
     bl_algo_homog           AlgoRel (bnode_rel k) (bin_rel k) (bout_rel k) (blay_rel k) for the engine's algorithm: the block
                             resumption by Proofs/BlockAlgRel.v (kernel lemmas of Proofs/ScaleBlock.v), the leaf by the above;
                             premises only on the two PARAMETERS of the block resumption (PreRel / AbsChildRel), discharged for
                             block_pre and abs_child_simple
     block_engine_homog      the instance of Proofs/EngineRelProofs.v memo_rel: any pair of related trees (related caches and
                             stored layouts, e.g. both fresh) and related inputs evaluate to related outputs and related
                             trees -- every node's stored unrounded layout of the scaled tree is the scaled layout
     the memo key `bin_eqb` compares numbers as numbers, so it respects the relation (bin_eqb_rel). *)
From Coq Require Import QArith Qabs Lqa Bool List ZArith Lia.
From TV Require Import Num.Num Num.QNum.
From TV Require Model.Types Model.Common Model.Leaf Model.Root Model.Scale Proofs.ScaleProofs.
From TV Require Import Gen.BlockGen Model.Block Model.Engine Model.EngineRel.
From TV Require Import Model.FiltersBase Gen.FiltersGen Model.ItemFilters Model.BlockAlg Model.ScaleBlock Model.BlockEngine Model.BlockEngineRel.
From TV Require Import Proofs.ScaleKit Proofs.ScaleBlock Proofs.EngineRelProofs Proofs.BlockAlgBlind Proofs.BlockAlgRel.
Import ListNotations.
Close Scope Z_scope.

Section Homog.
  Variable k : Q.
  Hypothesis Hk : 0 < k.
  Notation L := (sc k).
  Notation O := (op_rel (sc k)).

  (* ---------------------------------------------------------------------------- the adapter preserves the relations *)
  Lemma cv_dim_rel d d' : blpa_rel k d d' -> Scale.lpa_rel k (cv_dim d) (cv_dim d').
  Proof. destruct d, d'; cbn; auto. Qed.
  Lemma cv_lp_rel d d' : blpa_rel k d d' -> Scale.lp_rel k (cv_lp d) (cv_lp d').
  Proof. destruct d, d'; cbn; try tauto. intros _. apply sc_zero. Qed.
  Lemma cv_size_rel {A B} (R : A -> A -> Prop) (R' : B -> B -> Prop) (f : A -> B) s s' :
    (forall x x', R x x' -> R' (f x) (f x')) -> bsz_rel R s s' -> Scale.sz_rel R' (cv_size f s) (cv_size f s').
  Proof. intros Hf [H1 H2]. split; cbn; apply Hf; assumption. Qed.
  Lemma cv_rect_rel {A B} (R : A -> A -> Prop) (R' : B -> B -> Prop) (f : A -> B) r r' :
    (forall x x', R x x' -> R' (f x) (f x')) -> brc_rel R r r' -> Scale.rc_rel R' (cv_rect f r) (cv_rect f r').
  Proof. intros Hf (H1 & H2 & H3 & H4). repeat split; cbn; apply Hf; assumption. Qed.

  Lemma cv_style_rel s s' : bstyle_rel k s s' -> Scale.style_rel k (cv_style s) (cv_style s').
  Proof.
    intros (Edisp & Etab & Ecb & Eox & Eoy & Hsw & Epos & Hinset & Hsize & Hmin & Hmax & Har & Hmargin & Hpad & Hbor & Eta).
    unfold Scale.style_rel, cv_style.
    cbn [Leaf.display Leaf.position Leaf.box_sizing Leaf.overflow Leaf.scrollbar_width Leaf.size Leaf.min_size Leaf.max_size
         Leaf.aspect_ratio Leaf.margin Leaf.padding Leaf.border].
    rewrite Edisp, Epos, Ecb, Eox, Eoy.
    repeat match goal with |- _ /\ _ => split end; try reflexivity; try assumption.
    - apply (cv_size_rel (blpa_rel k)); [apply cv_dim_rel|assumption].
    - apply (cv_size_rel (blpa_rel k)); [apply cv_dim_rel|assumption].
    - apply (cv_size_rel (blpa_rel k)); [apply cv_dim_rel|assumption].
    - apply (cv_rect_rel (blpa_rel k)); [apply cv_dim_rel|assumption].
    - apply (cv_rect_rel (blpa_rel k)); [apply cv_lp_rel|assumption].
    - apply (cv_rect_rel (blpa_rel k)); [apply cv_lp_rel|assumption].
  Qed.

  Lemma cv_avail_rel a a' : bav_rel k a a' -> Scale.av_rel (sc k) (cv_avail a) (cv_avail a').
  Proof. destruct a, a'; cbn; auto. Qed.

  Lemma cv_input_rel i i' : bin_rel k i i' -> Scale.input_rel k (cv_input i) (cv_input i').
  Proof.
    intros (Em & Ei & Hkn & Hpar & Hav & Ecol). unfold Scale.input_rel, cv_input.
    cbn [Leaf.run_mode Leaf.sizing_mode Leaf.known_dimensions Leaf.parent_size Leaf.available_space].
    rewrite Em, Ei. split; [reflexivity|]. split; [reflexivity|].
    split; [apply (cv_size_rel O); [auto|assumption]|]. split; [apply (cv_size_rel O); [auto|assumption]|].
    apply (cv_size_rel (bav_rel k)); [apply cv_avail_rel|assumption].
  Qed.

  Lemma bk_output_rel o o' : Scale.output_rel k o o' -> bout_rel k (bk_output o) (bk_output o').
  Proof.
    intros ([Hs1 Hs2] & [Hc1 Hc2] & _ & [Ht1 Ht2] & [Hb1 Hb2] & Ect). unfold bout_rel, bk_output.
    cbn [co_size co_content_size co_top co_bottom co_ct].
    split; [split; assumption|]. split; [split; assumption|]. split; [split; assumption|]. split; [split; assumption|exact Ect].
  Qed.

  Lemma rel_hidden_out : bout_rel k hidden_child_out hidden_child_out.
  Proof.
    unfold bout_rel, hidden_child_out. cbn [co_size co_content_size co_top co_bottom co_ct]. repeat split; apply sc_zero.
  Qed.

  (* ---------------------------------------------------------------------------- the leaf *)
  Theorem leaf_out_homog s s' m m' i i' :
    bstyle_rel k s s' -> Scale.measure_homog k m m' -> bin_rel k i i' -> bout_rel k (leaf_out s m i) (leaf_out s' m' i').
  Proof.
    intros Hs Hm Hi. unfold leaf_out.
    pose proof (ScaleProofs.leaf_homog k Hk _ _ _ _ m m' (cv_style_rel _ _ Hs) (cv_input_rel _ _ Hi) Hm) as H.
    unfold Scale.result_rel in H.
    destruct (Leaf.compute_leaf_layout (cv_input i) (cv_style s) m) as [[o c]|],
             (Leaf.compute_leaf_layout (cv_input i') (cv_style s') m') as [[o' c']|]; cbn [op_rel fst snd] in H; try contradiction.
    - apply bk_output_rel. apply H.
    - apply rel_hidden_out.
  Qed.

  (* ---------------------------------------------------------------------------- the memo key *)
  Lemma o_eqb_rel a a' b b' : O a a' -> O b b' -> o_eqb a' b' = o_eqb a b.
  Proof.
    destruct a, a'; cbn [op_rel]; try contradiction; destruct b, b'; cbn [op_rel]; try contradiction; cbn [o_eqb]; auto.
    intros. apply (sc_eqb k); assumption.
  Qed.
  Lemma av_eqb_rel a a' b b' : bav_rel k a a' -> bav_rel k b b' -> av_eqb a' b' = av_eqb a b.
  Proof.
    destruct a, a'; cbn [bav_rel]; try contradiction; destruct b, b'; cbn [bav_rel]; try contradiction; cbn [av_eqb]; auto.
    intros. apply (sc_eqb k); assumption.
  Qed.
  Lemma bin_eqb_rel i1 i1' i2 i2' : bin_rel k i1 i1' -> bin_rel k i2 i2' -> bin_eqb i1' i2' = bin_eqb i1 i2.
  Proof.
    intros (Em & Ei & [Hkw Hkh] & [Hpw Hph] & [Haw Hah] & Ecol) (Em2 & Ei2 & [Hkw2 Hkh2] & [Hpw2 Hph2] & [Haw2 Hah2] & Ecol2).
    unfold bin_eqb. rewrite Em, Ei, Ecol, Em2, Ei2, Ecol2.
    rewrite (o_eqb_rel _ _ _ _ Hkw Hkw2), (o_eqb_rel _ _ _ _ Hkh Hkh2), (o_eqb_rel _ _ _ _ Hpw Hpw2), (o_eqb_rel _ _ _ _ Hph Hph2),
            (av_eqb_rel _ _ _ _ Haw Haw2), (av_eqb_rel _ _ _ _ Hah Hah2).
    reflexivity.
  Qed.

  (* ---------------------------------------------------------------------------- the engine's side conditions *)
  Lemma bi_mode_rel i i' : bin_rel k i i' -> bi_mode i' = bi_mode i.
  Proof. intros (Em & _). exact Em. Qed.
  Lemma bstyle_none_rel s s' : bstyle_wrel k s s' -> bs_is_none s' = bs_is_none s.
  Proof. intros W. unfold bs_is_none. apply (w_hidden k). exact W. Qed.
  Lemma bn_is_none_rel n n' : bnode_rel k n n' -> bn_is_none n' = bn_is_none n.
  Proof. intros [Hs _]. unfold bn_is_none. apply bstyle_none_rel. apply (wrel_of_rel k Hk). exact Hs. Qed.
  Lemma rel_zero_blay : blay_rel k zero_blay zero_blay.
  Proof.
    unfold blay_rel, zero_blay, with_order.
    cbn [bl_order bl_x bl_y bl_size bl_content_size bl_scrollbar bl_padding bl_border bl_margin]. repeat split; apply sc_zero.
  Qed.

  (* ---------------------------------------------------------------------------- the algorithm *)
  Notation BAlgoRel := (AlgoRel (BNode XQ) (BIn XQ) (ChildOut XQ) (BLayout XQ) (bnode_rel k) (bin_rel k) (bout_rel k) (blay_rel k)).

  Lemma bnode_styles_rel st st' : Forall2 (bnode_rel k) st st' -> Forall2 (bstyle_rel k) (map bn_style st) (map bn_style st').
  Proof. induction 1 as [|x y l l' [Hs _] Hl IH]; cbn [map]; constructor; assumption. Qed.

  Theorem bl_algo_homog pre abs_child :
    PreRel k (bstyle_rel k) pre -> AbsChildRel k (bstyle_rel k) abs_child -> BAlgoRel (bl_algo pre abs_child) (bl_algo pre abs_child).
  Proof.
    intros Hpre Habs n n' st st' i i' Hn Hst Hi. unfold bl_algo.
    destruct Hst as [|x y l l' Hxy Hl].
    - apply AR_ret. destruct Hn as [Hs Hm]. apply leaf_out_homog; assumption.
    - apply (block_alg_rel k Hk (bstyle_rel k) (wrel_of_rel k Hk)); try assumption.
      + apply Hn.
      + apply (bnode_styles_rel (x :: l) (y :: l')). constructor; assumption.
  Qed.

  Corollary bl_algo_homog_inst : BAlgoRel (bl_algo block_pre abs_child_simple) (bl_algo block_pre abs_child_simple).
  Proof.
    apply bl_algo_homog.
    - apply (block_pre_rel k Hk (bstyle_rel k) (wrel_of_rel k Hk)).
    - apply (abs_child_simple_rel k Hk).
  Qed.

  (* ---------------------------------------------------------------------------- whole trees *)
  Notation trelk := (trel (BNode XQ) (BIn XQ) (ChildOut XQ) (BLayout XQ) (bnode_rel k) (bin_rel k) (bout_rel k) (blay_rel k)).
  Notation res_relk := (res_rel (BNode XQ) (BIn XQ) (ChildOut XQ) (BLayout XQ) (bnode_rel k) (bin_rel k) (bout_rel k) (blay_rel k)).

  Theorem block_engine_homog pre abs_child :
    PreRel k (bstyle_rel k) pre -> AbsChildRel k (bstyle_rel k) abs_child ->
    forall f t t' i i', trelk t t' -> bin_rel k i i' ->
      oprel res_relk (bl_memo pre abs_child f t i) (bl_memo pre abs_child f t' i').
  Proof.
    intros Hpre Habs f t t' i i' Ht Hi. unfold bl_memo.
    apply (memo_rel (BNode XQ) (BIn XQ) (ChildOut XQ) (BLayout XQ) bi_mode bin_eqb bn_is_none hidden_child_out zero_blay
                    (bl_algo pre abs_child) (bl_algo pre abs_child) (bnode_rel k) (bin_rel k) (bout_rel k) (blay_rel k));
      try assumption.
    - exact bi_mode_rel.
    - exact bn_is_none_rel.
    - exact rel_hidden_out.
    - exact rel_zero_blay.
    - exact bin_eqb_rel.
    - apply bl_algo_homog; assumption.
  Qed.

  Theorem block_engine_plain_homog pre abs_child :
    PreRel k (bstyle_rel k) pre -> AbsChildRel k (bstyle_rel k) abs_child ->
    forall f t t' i i', skrel (BNode XQ) (bnode_rel k) t t' -> bin_rel k i i' ->
      oprel (bout_rel k) (bl_plain pre abs_child f t i) (bl_plain pre abs_child f t' i').
  Proof.
    intros Hpre Habs f t t' i i' Ht Hi. unfold bl_plain.
    apply (plain_rel (BNode XQ) (BIn XQ) (ChildOut XQ) (BLayout XQ) bi_mode bn_is_none hidden_child_out
                     (bl_algo pre abs_child) (bl_algo pre abs_child) (bnode_rel k) (bin_rel k) (bout_rel k) (blay_rel k));
      try assumption.
    - exact bi_mode_rel.
    - exact bn_is_none_rel.
    - exact rel_hidden_out.
    - apply bl_algo_homog; assumption.
  Qed.

  Lemma bl_fresh_rel t t' : skrel (BNode XQ) (bnode_rel k) t t' -> trelk (bl_fresh t) (bl_fresh t').
  Proof. intros H. unfold bl_fresh. apply fresh_rel; [exact rel_zero_blay|exact H]. Qed.
End Homog.

(* ------------------------------------------------------------------------------------------------------------ *)
(** * The scaled inputs are related to the originals *)
Lemma bav_rel_scale k a : bav_rel k a (bav_scale k a).
Proof. destruct a; cbn; auto. apply sc_self. Qed.
Lemma bin_rel_scale k i : bin_rel k i (bin_scale k i).
Proof.
  unfold bin_rel, bin_scale. cbn [bi_mode bi_inherent bi_known bi_parent bi_avail bi_collapsible].
  split; [reflexivity|]. split; [reflexivity|]. split; [apply bsz_rel_scale; apply op_rel_scale|].
  split; [apply bsz_rel_scale; apply op_rel_scale|]. split; [apply bsz_rel_scale; apply bav_rel_scale|reflexivity].
Qed.
Lemma blay_rel_scale k l : blay_rel k l (blay_scale k l).
Proof.
  unfold blay_rel, blay_scale. cbn [bl_order bl_x bl_y bl_size bl_content_size bl_scrollbar bl_padding bl_border bl_margin].
  repeat match goal with |- _ /\ _ => split end; try reflexivity; try apply sc_self;
    first [apply bsz_rel_scale; apply sc_self | apply brc_rel_scale; apply sc_self].
Qed.

(* related = equal (as numbers) to the scaled value: the functional reading of the conclusion *)
Definition blay_dl (a b : BLayout XQ) : Prop := blay_rel 1 a b.
