//! C11: absolutely positioned boxes satisfy the inset / margin / size equation.  Whole API, no hook.
//!
//! One case = a container (block / flex / grid, root of the tree) with padding, border, optional scrollbar gutters,
//! optionally one in-flow sibling, and exactly one absolutely positioned leaf with a Fixed measure size.
//!
//! `C` line (88 integers; f32 = bit pattern, dimension = (tag, bits) with tag 0 auto / 1 length / 2 percent):
//!   0      kind (0 block, 1 flex, 2 grid)
//!   1..5   flex_direction (0 Row 1 Column 2 RowReverse 3 ColumnReverse), flex_wrap (0 NoWrap 1 Wrap 2 WrapReverse),
//!          justify_content (-1 none, 0.. Start End FlexStart FlexEnd Center Stretch SpaceBetween SpaceEvenly SpaceAround),
//!          align_items, justify_items (-1 none, 0.. Start End FlexStart FlexEnd Center Baseline Stretch)
//!   6..9   container size w, h
//!   10..17 container padding l r t b        18..25 container border l r t b
//!   26..28 overflow.x, overflow.y (0 Visible 1 Clip 2 Hidden 3 Scroll), scrollbar_width
//!   29     container box_sizing (0 border-box, 1 content-box)
//!   30..33 available space w, h (tag 0 MinContent 1 MaxContent 2 Definite, bits)
//!   34..36 sibling flag, sibling width, sibling height
//!   37     child box_sizing      38..39 aspect ratio (flag, bits)      40..41 align_self, justify_self (-1 none)
//!   42..49 inset l r t b         50..57 margin l r t b
//!   58..61 size w h              62..65 min_size w h          66..69 max_size w h
//!   70..77 padding l r t b       78..85 border l r t b
//!   86..87 measured (Fixed) width, height
//! `R` line (20 integers): child unrounded location x y, size w h, margin l r t b; container unrounded size w h,
//!   border l r t b, padding l r t b, scrollbar_size w h.
use crate::f32ops::canon;
use crate::rng::Rng;
use crate::treegen::{compute, Ctx};
use taffy::prelude::*;
use taffy::{BoxSizing, Overflow, Point, Rect};

pub const NFIELDS: usize = 88;

#[derive(Clone, Copy, Debug, PartialEq)]
pub struct Dv(pub i64, pub u32); // tag, bits

impl Dv {
    fn auto() -> Dv {
        Dv(0, 0)
    }
    fn len(v: f32) -> Dv {
        Dv(1, v.to_bits())
    }
    fn pct(v: f32) -> Dv {
        Dv(2, v.to_bits())
    }
    fn val(self) -> f32 {
        f32::from_bits(self.1)
    }
    fn dim(self) -> Dimension {
        match self.0 {
            0 => Dimension::auto(),
            1 => Dimension::length(self.val()),
            _ => Dimension::percent(self.val()),
        }
    }
    fn lpa(self) -> LengthPercentageAuto {
        match self.0 {
            0 => LengthPercentageAuto::auto(),
            1 => LengthPercentageAuto::length(self.val()),
            _ => LengthPercentageAuto::percent(self.val()),
        }
    }
    fn lp(self) -> LengthPercentage {
        match self.0 {
            1 => LengthPercentage::length(self.val()),
            2 => LengthPercentage::percent(self.val()),
            _ => LengthPercentage::length(0.0),
        }
    }
    /// resolved value in f64 (None = auto)
    fn resolve(self, basis: f64) -> Option<f64> {
        match self.0 {
            0 => None,
            1 => Some(self.val() as f64),
            _ => Some(basis * self.val() as f64),
        }
    }
}

#[derive(Clone, Debug)]
pub struct Case {
    pub kind: i64,
    pub dir: i64,
    pub wrap: i64,
    pub justify_content: i64,
    pub align_items: i64,
    pub justify_items: i64,
    pub csize: [Dv; 2],
    pub cpad: [Dv; 4],
    pub cborder: [Dv; 4],
    pub overflow: [i64; 2],
    pub scrollbar_width: u32,
    pub cbox: i64,
    pub avail: [(i64, u32); 2],
    pub sibling: i64,
    pub sib: [u32; 2],
    pub bbox: i64,
    pub aspect: (i64, u32),
    pub align_self: i64,
    pub justify_self: i64,
    pub inset: [Dv; 4],
    pub margin: [Dv; 4],
    pub size: [Dv; 2],
    pub min: [Dv; 2],
    pub max: [Dv; 2],
    pub pad: [Dv; 4],
    pub border: [Dv; 4],
    pub measured: [u32; 2],
}

fn ai(i: i64) -> Option<AlignItems> {
    match i {
        0 => Some(AlignItems::Start),
        1 => Some(AlignItems::End),
        2 => Some(AlignItems::FlexStart),
        3 => Some(AlignItems::FlexEnd),
        4 => Some(AlignItems::Center),
        5 => Some(AlignItems::Baseline),
        6 => Some(AlignItems::Stretch),
        _ => None,
    }
}

fn ac(i: i64) -> Option<AlignContent> {
    match i {
        0 => Some(AlignContent::Start),
        1 => Some(AlignContent::End),
        2 => Some(AlignContent::FlexStart),
        3 => Some(AlignContent::FlexEnd),
        4 => Some(AlignContent::Center),
        5 => Some(AlignContent::Stretch),
        6 => Some(AlignContent::SpaceBetween),
        7 => Some(AlignContent::SpaceEvenly),
        8 => Some(AlignContent::SpaceAround),
        _ => None,
    }
}

fn ov(i: i64) -> Overflow {
    match i {
        1 => Overflow::Clip,
        2 => Overflow::Hidden,
        3 => Overflow::Scroll,
        _ => Overflow::Visible,
    }
}

fn rect<T>(a: [Dv; 4], f: impl Fn(Dv) -> T) -> Rect<T> {
    Rect { left: f(a[0]), right: f(a[1]), top: f(a[2]), bottom: f(a[3]) }
}

impl Case {
    pub fn encode(&self) -> Vec<i64> {
        let mut v: Vec<i64> = vec![self.kind, self.dir, self.wrap, self.justify_content, self.align_items, self.justify_items];
        let dv = |v: &mut Vec<i64>, d: &[Dv]| {
            for x in d {
                v.push(x.0);
                v.push(x.1 as i64);
            }
        };
        dv(&mut v, &self.csize);
        dv(&mut v, &self.cpad);
        dv(&mut v, &self.cborder);
        v.extend([self.overflow[0], self.overflow[1], self.scrollbar_width as i64, self.cbox]);
        for a in self.avail {
            v.push(a.0);
            v.push(a.1 as i64);
        }
        v.extend([self.sibling, self.sib[0] as i64, self.sib[1] as i64]);
        v.extend([self.bbox, self.aspect.0, self.aspect.1 as i64, self.align_self, self.justify_self]);
        dv(&mut v, &self.inset);
        dv(&mut v, &self.margin);
        dv(&mut v, &self.size);
        dv(&mut v, &self.min);
        dv(&mut v, &self.max);
        dv(&mut v, &self.pad);
        dv(&mut v, &self.border);
        v.extend([self.measured[0] as i64, self.measured[1] as i64]);
        assert_eq!(v.len(), NFIELDS);
        v
    }

    pub fn decode(v: &[i64]) -> Case {
        assert_eq!(v.len(), NFIELDS);
        let d = |i: usize| Dv(v[i], v[i + 1] as u32);
        let d2 = |i: usize| [d(i), d(i + 2)];
        let d4 = |i: usize| [d(i), d(i + 2), d(i + 4), d(i + 6)];
        Case {
            kind: v[0],
            dir: v[1],
            wrap: v[2],
            justify_content: v[3],
            align_items: v[4],
            justify_items: v[5],
            csize: d2(6),
            cpad: d4(10),
            cborder: d4(18),
            overflow: [v[26], v[27]],
            scrollbar_width: v[28] as u32,
            cbox: v[29],
            avail: [(v[30], v[31] as u32), (v[32], v[33] as u32)],
            sibling: v[34],
            sib: [v[35] as u32, v[36] as u32],
            bbox: v[37],
            aspect: (v[38], v[39] as u32),
            align_self: v[40],
            justify_self: v[41],
            inset: d4(42),
            margin: d4(50),
            size: d2(58),
            min: d2(62),
            max: d2(66),
            pad: d4(70),
            border: d4(78),
            measured: [v[86] as u32, v[87] as u32],
        }
    }

    fn container_style(&self) -> Style {
        let mut s = Style::default();
        s.display = match self.kind {
            0 => Display::Block,
            1 => Display::Flex,
            _ => Display::Grid,
        };
        s.flex_direction = [FlexDirection::Row, FlexDirection::Column, FlexDirection::RowReverse, FlexDirection::ColumnReverse][self.dir as usize];
        s.flex_wrap = [FlexWrap::NoWrap, FlexWrap::Wrap, FlexWrap::WrapReverse][self.wrap as usize];
        s.justify_content = ac(self.justify_content);
        s.align_items = ai(self.align_items);
        s.justify_items = ai(self.justify_items);
        s.size = Size { width: self.csize[0].dim(), height: self.csize[1].dim() };
        s.padding = rect(self.cpad, Dv::lp);
        s.border = rect(self.cborder, Dv::lp);
        s.overflow = Point { x: ov(self.overflow[0]), y: ov(self.overflow[1]) };
        s.scrollbar_width = f32::from_bits(self.scrollbar_width);
        s.box_sizing = if self.cbox == 1 { BoxSizing::ContentBox } else { BoxSizing::BorderBox };
        s
    }

    fn child_style(&self) -> Style {
        let mut s = Style::default();
        s.position = Position::Absolute;
        s.box_sizing = if self.bbox == 1 { BoxSizing::ContentBox } else { BoxSizing::BorderBox };
        s.aspect_ratio = if self.aspect.0 == 1 { Some(f32::from_bits(self.aspect.1)) } else { None };
        s.align_self = ai(self.align_self);
        s.justify_self = ai(self.justify_self);
        s.inset = rect(self.inset, Dv::lpa);
        s.margin = rect(self.margin, Dv::lpa);
        s.size = Size { width: self.size[0].dim(), height: self.size[1].dim() };
        s.min_size = Size { width: self.min[0].dim(), height: self.min[1].dim() };
        s.max_size = Size { width: self.max[0].dim(), height: self.max[1].dim() };
        s.padding = rect(self.pad, Dv::lp);
        s.border = rect(self.border, Dv::lp);
        s
    }

    fn avail(&self) -> Size<AvailableSpace> {
        let f = |a: (i64, u32)| match a.0 {
            0 => AvailableSpace::MinContent,
            1 => AvailableSpace::MaxContent,
            _ => AvailableSpace::Definite(f32::from_bits(a.1)),
        };
        Size { width: f(self.avail[0]), height: f(self.avail[1]) }
    }

    /// Lay the case out with the real implementation; returns (child layout, container layout), unrounded.
    pub fn run(&self) -> (taffy::Layout, taffy::Layout) {
        let mut t: TaffyTree<Ctx> = TaffyTree::new();
        t.disable_rounding();
        let mut kids = vec![];
        if self.sibling == 1 {
            let mut s = Style::default();
            s.size = Size { width: Dimension::length(f32::from_bits(self.sib[0])), height: Dimension::length(f32::from_bits(self.sib[1])) };
            s.flex_shrink = 0.0;
            kids.push(t.new_leaf(s).unwrap());
        }
        let child = t
            .new_leaf_with_context(self.child_style(), Ctx::Fixed(f32::from_bits(self.measured[0]), f32::from_bits(self.measured[1])))
            .unwrap();
        kids.push(child);
        let root = t.new_with_children(self.container_style(), &kids).unwrap();
        compute(&mut t, root, self.avail());
        (*t.unrounded_layout(child), *t.unrounded_layout(root))
    }
}

pub fn result_line(ch: &taffy::Layout, ct: &taffy::Layout) -> Vec<u64> {
    let c = canon;
    vec![
        c(ch.location.x), c(ch.location.y), c(ch.size.width), c(ch.size.height),
        c(ch.margin.left), c(ch.margin.right), c(ch.margin.top), c(ch.margin.bottom),
        c(ct.size.width), c(ct.size.height),
        c(ct.border.left), c(ct.border.right), c(ct.border.top), c(ct.border.bottom),
        c(ct.padding.left), c(ct.padding.right), c(ct.padding.top), c(ct.padding.bottom),
        c(ct.scrollbar_size.width), c(ct.scrollbar_size.height),
    ]
}

// ---------------------------------------------------------------------------------------------- generator

fn num(rng: &mut Rng, fractional: bool, max: u64) -> f32 {
    if fractional {
        (rng.below(max * 10) as f32) / 10.0
    } else {
        (rng.below(max * 4) as f32) / 4.0
    }
}

fn pct(rng: &mut Rng, fractional: bool) -> f32 {
    if fractional {
        *rng.pick(&[0.1, 0.3, 0.33, 0.7, 1.1])
    } else {
        *rng.pick(&[0.0, 0.125, 0.25, 0.5, 0.75, 1.0, 1.5])
    }
}

fn small_pct(rng: &mut Rng, fractional: bool) -> f32 {
    if fractional {
        *rng.pick(&[0.01, 0.05, 0.1, 0.15])
    } else {
        *rng.pick(&[0.0, 0.0625, 0.125, 0.25])
    }
}

pub fn gen_case(seed: u64, idx: u64) -> Case {
    let mut rng = Rng::new(seed.wrapping_mul(0x9E37_79B9_7F4A_7C15).wrapping_add(idx.wrapping_mul(0x632B_E5AB)));
    let r = &mut rng;
    let kind = (idx % 3) as i64;
    let mask = (idx / 3) % 16; // which insets are set: bit 0 left, 1 right, 2 top, 3 bottom
    let fr = (idx / 48) % 2 == 1;
    let neg = |r: &mut Rng| if r.chance(1, 5) { -1.0f32 } else { 1.0 };
    // ---- container
    let csize = |r: &mut Rng| match r.below(6) {
        0 => Dv::auto(),
        1 => Dv::pct(pct(r, fr)),
        2 => Dv::len(num(r, fr, 30)), // small: border/padding/gutter may exceed it
        _ => Dv::len(40.0 + num(r, fr, 260)),
    };
    let percent_box = kind != 0 && r.chance(1, 6); // block resolves its own border against its own width: lengths only there
    let side = |r: &mut Rng, max: u64| {
        if r.chance(1, 4) {
            Dv::len(0.0)
        } else if percent_box && r.chance(1, 2) {
            Dv::pct(small_pct(r, fr))
        } else {
            Dv::len(num(r, fr, max))
        }
    };
    let cpad = [side(r, 12), side(r, 12), side(r, 12), side(r, 12)];
    let cborder = [side(r, 8), side(r, 8), side(r, 8), side(r, 8)];
    let (overflow, scrollbar_width) = if r.chance(1, 2) {
        let o = [0i64, 1, 2, 3, 3, 3];
        ([*r.pick(&o), *r.pick(&o)], num(r, fr, 20).to_bits())
    } else {
        ([0, 0], 0)
    };
    let avail = |r: &mut Rng| match r.below(8) {
        0 => (0i64, 0u32),
        1 => (1, 0),
        _ => (2, (20.0 + num(r, fr, 400)).to_bits()),
    };
    let opt_ai = |r: &mut Rng| if r.chance(1, 2) { -1 } else { r.below(7) as i64 };
    let sibling = r.chance(1, 3) as i64;
    // ---- child
    let mut inset = [Dv::auto(); 4];
    for (i, slot) in inset.iter_mut().enumerate() {
        if mask >> i & 1 == 1 {
            *slot = if r.chance(1, 4) { Dv::pct(neg(r) * small_pct(r, fr)) } else { Dv::len(neg(r) * num(r, fr, 40)) };
        }
    }
    let margin_mode = r.below(4); // 0: all set, 1: none declared (zero), 2: some auto, 3: mostly auto
    let mut margin = [Dv::len(0.0); 4];
    for slot in margin.iter_mut() {
        let auto = match margin_mode {
            2 => r.chance(1, 4),
            3 => r.chance(1, 2),
            _ => false,
        };
        *slot = if auto {
            Dv::auto()
        } else if margin_mode == 1 {
            Dv::len(0.0)
        } else if r.chance(1, 5) {
            Dv::pct(neg(r) * small_pct(r, fr))
        } else {
            Dv::len(neg(r) * num(r, fr, 25))
        };
    }
    let dim3 = |r: &mut Rng, p_auto: u64, max: u64| {
        if r.chance(p_auto, 100) {
            Dv::auto()
        } else if r.chance(1, 3) {
            Dv::pct(pct(r, fr))
        } else {
            Dv::len(num(r, fr, max))
        }
    };
    let size = [dim3(r, 50, 150), dim3(r, 50, 150)];
    let has_min = r.chance(2, 5);
    let has_max = r.chance(2, 5);
    let mut min = [Dv::auto(); 2];
    let mut max = [Dv::auto(); 2];
    for a in 0..2 {
        // in a flex container the leaf resolves percentage min/max against the (possibly indefinite) content box of the
        // container, the abspos code against the padding box; the measured size then depends on the former.  The model
        // takes the measured size of a leaf from known_dimensions, so keep percentages to axes whose size is known.
        let known_axis = size[a].0 != 0 || (mask >> (2 * a) & 3 == 3);
        let mm = |r: &mut Rng, maxv: u64| {
            let d = dim3(r, 30, maxv);
            if kind == 1 && !known_axis && d.0 == 2 {
                Dv::len(num(r, fr, maxv))
            } else {
                d
            }
        };
        if has_min {
            min[a] = mm(r, 80);
        }
        if has_max {
            max[a] = mm(r, 160);
        }
    }
    let child_box = r.chance(1, 3);
    let cside = |r: &mut Rng, max: u64| {
        if !child_box || r.chance(1, 3) {
            Dv::len(0.0)
        } else if kind != 1 && r.chance(1, 4) {
            Dv::pct(small_pct(r, fr))
        } else {
            Dv::len(num(r, fr, max))
        }
    };
    let pad = [cside(r, 10), cside(r, 10), cside(r, 10), cside(r, 10)];
    let border = [cside(r, 5), cside(r, 5), cside(r, 5), cside(r, 5)];
    let aspect = if r.chance(1, 8) { (1i64, (*r.pick(&[0.5f32, 1.0, 2.0, 1.5])).to_bits()) } else { (0, 0) };
    Case {
        kind,
        dir: r.below(4) as i64,
        wrap: *r.pick(&[0i64, 0, 1, 2]),
        justify_content: if r.chance(1, 2) { -1 } else { r.below(9) as i64 },
        align_items: opt_ai(r),
        justify_items: opt_ai(r),
        csize: [csize(r), csize(r)],
        cpad,
        cborder,
        overflow,
        scrollbar_width,
        cbox: r.chance(1, 5) as i64,
        avail: [avail(r), avail(r)],
        sibling,
        sib: [(1.0 + num(r, fr, 60)).to_bits(), (1.0 + num(r, fr, 40)).to_bits()],
        bbox: r.chance(1, 4) as i64,
        aspect,
        align_self: opt_ai(r),
        justify_self: opt_ai(r),
        inset,
        margin,
        size,
        min,
        max,
        pad,
        border,
        measured: [num(r, fr, 90).to_bits(), num(r, fr, 50).to_bits()],
    }
}

fn print_case(c: &Case) {
    let (ch, ct) = c.run();
    let cs: Vec<String> = c.encode().iter().map(|x| x.to_string()).collect();
    let rs: Vec<String> = result_line(&ch, &ct).iter().map(|x| x.to_string()).collect();
    println!("C {}\nR {}", cs.join(" "), rs.join(" "));
}

// ---------------------------------------------------------------------------------------------- direct oracle

fn close(a: f64, b: f64, scale: f64) -> bool {
    (a - b).abs() <= 1e-4 * scale.max(1.0)
}

/// The four equations of the property on one implementation result.  Returns the failure messages and the number of
/// equations that applied (so that coverage of each can be reported): [start, end, size, auto-margin, degenerate].
pub fn oracle(c: &Case) -> (Vec<String>, [u64; 5]) {
    let (ch, ct) = c.run();
    let mut fails = vec![];
    let mut counts = [0u64; 5];
    let f = |x: f32| x as f64;
    let kinds = ["block", "flex", "grid"];
    // per axis: (name, container extent, border start, border end, gutter, indices of start/end sides, loc, size, margins)
    let axes = [
        ("x", f(ct.size.width), f(ct.border.left), f(ct.border.right), f(ct.scrollbar_size.width), 0usize, 1usize, f(ch.location.x), f(ch.size.width), f(ch.margin.left), f(ch.margin.right), 0usize),
        ("y", f(ct.size.height), f(ct.border.top), f(ct.border.bottom), f(ct.scrollbar_size.height), 2, 3, f(ch.location.y), f(ch.size.height), f(ch.margin.top), f(ch.margin.bottom), 1),
    ];
    let pb_w = f(ct.size.width) - f(ct.border.left) - f(ct.border.right) - f(ct.scrollbar_size.width);
    // child's own padding + border (percentages of the padding-box width)
    let cpb = |i: usize| c.pad[i].resolve(pb_w).unwrap_or(0.0) + c.border[i].resolve(pb_w).unwrap_or(0.0);
    for (name, extent, bs, be, gut, si, ei, loc, size, ms, me, ax) in axes {
        let pb = extent - bs - be - gut; // padding-box extent, gutter excluded
        let scale = extent.abs().max(loc.abs()).max(size.abs()).max(pb.abs());
        if c.margin[si].0 == 0 || c.margin[ei].0 == 0 {
            // the auto-margin equation (block only): insets and size all set, exactly one auto margin on this axis
            if c.kind == 0 && (c.margin[si].0 == 0) != (c.margin[ei].0 == 0) && c.inset[si].0 != 0 && c.inset[ei].0 != 0 && c.size[ax].0 != 0 {
                counts[3] += 1;
                let s = c.inset[si].resolve(pb).unwrap();
                let e = c.inset[ei].resolve(pb).unwrap();
                let (auto_m, other) = if c.margin[si].0 == 0 { (ms, me) } else { (me, ms) };
                let want = pb - s - e - size - other;
                if !close(auto_m, want, scale) {
                    fails.push(format!(
                        "{} {}: auto margin {} is {} but the remaining space is {} (padding box {}, insets {} {}, size {}, other margin {})",
                        kinds[c.kind as usize], name, if c.margin[si].0 == 0 { "start" } else { "end" }, auto_m, want, pb, s, e, size, other
                    ));
                }
            }
            continue;
        }
        if pb < 0.0 && c.kind == 2 {
            // border + scrollbar gutter exceed the container: the padding box has negative extent.  The grid code clamps the
            // extent of the area to zero when it positions the item (align_item_within_area), block and flex do not; the
            // equations are only claimed for grid when the padding box is non-degenerate (C11_end_grid_negative_area_refuted).
            counts[4] += 1;
            continue;
        }
        let s = c.inset[si].resolve(pb);
        let e = c.inset[ei].resolve(pb);
        if let Some(s) = s {
            counts[0] += 1;
            let got = (loc - ms) - bs;
            if !close(got, s, scale) {
                fails.push(format!("{} {}: start inset {} but the margin edge is {} from the padding-box start", kinds[c.kind as usize], name, s, got));
            }
        } else if let Some(e) = e {
            counts[1] += 1;
            let got = (extent - be - gut) - (loc + size + me);
            if !close(got, e, scale) {
                fails.push(format!("{} {}: end inset {} but the margin edge is {} from the padding-box end", kinds[c.kind as usize], name, e, got));
            }
        }
        if let (Some(s), Some(e)) = (s, e) {
            if c.size[ax].0 == 0 && c.aspect.0 == 0 {
                counts[2] += 1;
                let other_pb = if ax == 0 { pb } else { pb_w }; // bases of percentage sizes: the padding box in that axis
                let _ = other_pb;
                let own = if ax == 0 { cpb(0) + cpb(1) } else { cpb(2) + cpb(3) };
                let adj = if c.bbox == 1 { own } else { 0.0 };
                let lo = c.min[ax].resolve(pb).map(|m| m + adj).unwrap_or(own).max(own);
                let hi = c.max[ax].resolve(pb).map(|m| m + adj);
                let mut want = (pb - s - e - ms - me).max(0.0);
                if let Some(hi) = hi {
                    want = want.min(hi);
                }
                want = want.max(lo);
                if !close(size, want, scale) {
                    fails.push(format!(
                        "{} {}: both insets set, size auto: size is {} but padding box {} - insets {} {} - margins {} {} clamped to [{}, {:?}] is {}",
                        kinds[c.kind as usize], name, size, pb, s, e, ms, me, lo, hi, want
                    ));
                }
            }
        }
    }
    (fails, counts)
}

pub fn main(args: &[String]) {
    match args[0].as_str() {
        "cases" => {
            let seed: u64 = args[1].parse().unwrap();
            let n: u64 = args[2].parse().unwrap();
            for idx in 0..n {
                print_case(&gen_case(seed, idx));
            }
        }
        "one" => {
            let v: Vec<i64> = args[1..].iter().map(|s| s.parse().unwrap()).collect();
            let c = Case::decode(&v);
            print_case(&c);
            let (fails, _) = oracle(&c);
            for m in fails {
                println!("FAIL 0 {}", m);
            }
        }
        "show" => {
            let v: Vec<i64> = args[1..].iter().map(|s| s.parse().unwrap()).collect();
            let c = Case::decode(&v);
            let (ch, ct) = c.run();
            println!("{:#?}\ncontainer style {:#?}\nchild style {:#?}\nchild {:#?}\ncontainer {:#?}", c, c.container_style(), c.child_style(), ch, ct);
        }
        "witness" => {
            // the witness of C11_end_grid_negative_area_refuted on the implementation, for the three container kinds:
            // container 10 wide, border 4 + 4, overflow-y: scroll with a 15 wide scrollbar; child right: 0, 5 x 5
            for kind in 0..3i64 {
                let mut c = gen_case(0, kind as u64);
                let z = Dv::len(0.0);
                c.kind = kind;
                c.csize = [Dv::len(10.0), Dv::len(50.0)];
                c.cpad = [z; 4];
                c.cborder = [Dv::len(4.0), Dv::len(4.0), z, z];
                c.overflow = [0, 3];
                c.scrollbar_width = 15f32.to_bits();
                c.cbox = 0;
                c.avail = [(2, 100f32.to_bits()), (2, 100f32.to_bits())];
                c.sibling = 0;
                c.bbox = 0;
                c.aspect = (0, 0);
                c.inset = [Dv::auto(), z, z, Dv::auto()];
                c.margin = [z; 4];
                c.size = [Dv::len(5.0), Dv::len(5.0)];
                c.min = [Dv::auto(); 2];
                c.max = [Dv::auto(); 2];
                c.pad = [z; 4];
                c.border = [z; 4];
                let (ch, ct) = c.run();
                let end = ct.size.width - ct.border.right - ct.scrollbar_size.width;
                let residual = end - (ch.location.x + ch.size.width + ch.margin.right);
                println!("WITNESS {} x={} padding_box_end={} residual={} fails={}", ["block", "flex", "grid"][kind as usize], ch.location.x, end, residual, (residual.abs() > 1e-3) as u8);
            }
        }
        "witness2" => {
            // block container 200 wide in a 300 wide containing block, border-left 10%: the Layout reports border.left = 30
            // (resolved against the containing block, like the container's own size computation), the abspos code offsets
            // the child by the border resolved against the container's OWN outer width (20): compute_inner `resolved_border`
            for kind in 0..3i64 {
                let mut c = gen_case(0, kind as u64);
                let z = Dv::len(0.0);
                c.kind = kind;
                c.csize = [Dv::len(200.0), Dv::len(50.0)];
                c.cpad = [z; 4];
                c.cborder = [Dv::pct(0.1), z, z, z];
                c.overflow = [0, 0];
                c.scrollbar_width = 0;
                c.cbox = 0;
                c.avail = [(2, 300f32.to_bits()), (2, 100f32.to_bits())];
                c.sibling = 0;
                c.bbox = 0;
                c.aspect = (0, 0);
                c.inset = [z, Dv::auto(), z, Dv::auto()];
                c.margin = [z; 4];
                c.size = [Dv::len(10.0), Dv::len(10.0)];
                c.min = [Dv::auto(); 2];
                c.max = [Dv::auto(); 2];
                c.pad = [z; 4];
                c.border = [z; 4];
                let (ch, ct) = c.run();
                let residual = (ch.location.x - ch.margin.left) - ct.border.left;
                println!("WITNESS percent_border_{} x={} reported_border_left={} residual={} fails={}", ["block", "flex", "grid"][kind as usize], ch.location.x, ct.border.left, residual, (residual.abs() > 1e-3) as u8);
            }
        }
        "oracle" => {
            let seed: u64 = args[1].parse().unwrap();
            let n: u64 = args[2].parse().unwrap();
            let mut total = [0u64; 5];
            let mut nfail = 0;
            for idx in 0..n {
                let c = gen_case(seed, idx);
                let (fails, counts) = oracle(&c);
                for i in 0..5 {
                    total[i] += counts[i];
                }
                if !fails.is_empty() && nfail < 20 {
                    nfail += 1;
                    let cs: Vec<String> = c.encode().iter().map(|x| x.to_string()).collect();
                    println!("FAIL {} {}", idx, fails[0]);
                    println!("CASE {} {}", idx, cs.join(" "));
                }
            }
            println!("ORACLE {} start={} end={} size={} auto_margin={} negative_padding_box={}", n, total[0], total[1], total[2], total[3], total[4]);
        }
        _ => {
            eprintln!("c11: unknown command");
            std::process::exit(2);
        }
    }
}
