//! C19: a single leaf is sized per the box model.
//!
//! `vh c19 cases <seed> <n>`  correspondence cases.  A case is 62 integers (f32 as bit pattern):
//!   0 kind            0 = one-node TaffyTree (compute_layout_with_measure, unrounded_layout)
//!                     1 = direct call of taffy::compute_leaf_layout with arbitrary LayoutInput
//!   1 display (0 block 1 flex 2 grid 3 none)  2 position (0 relative 1 absolute)  3 box_sizing (0 border 1 content)
//!   4,5 overflow x,y (0 visible 1 clip 2 hidden 3 scroll)  6 scrollbar_width
//!   7..10 size (w kind, w value, h kind, h value; kind 0 auto 1 length 2 percent)  11..14 min_size  15..18 max_size
//!   19,20 aspect ratio (flag, value)
//!   21..28 margin l r t b (kind, value)   29..36 padding (kind 1|2, value)   37..44 border
//!   45..47 measure context (0 none, 1 Fixed(a,b), 2 Text(n = field 46 as integer, unit = b), 3 Echo(a))
//!   48..51 available space (w kind, w value, h kind, h value; kind 0 definite 1 min-content 2 max-content)
//!   52 run_mode (0 PerformLayout 1 ComputeSize 2 PerformHiddenLayout)  53 sizing_mode (0 ContentSize 1 InherentSize)
//!   54..57 known_dimensions (w flag, w, h flag, h)   58..61 parent_size            (52..61 are read by kind 1 only)
//! Result line: kind 0: 1, location x y, size w h, content_size w h, scrollbar_size w h, border l r t b, padding l r t b,
//!   margin l r t b, number of measure calls, first call's known_dimensions (w flag, w, h flag, h) and available space
//!   (w kind, w, h kind, h).  kind 1: status (0 = panic), size, content_size, first_baselines flags, top/bottom margin
//!   (resolved), margins_can_collapse_through, calls, first call.
//! `vh c19 one <62 ints>`     the same for one case, `vh c19 show <62 ints>` prints it readably.
//! `vh c19 oracle <seed> <n>` the property stated directly on the implementation (FAIL lines), see `oracle_one`.
use crate::f32ops::canon;
use crate::rng::Rng;
use crate::treegen::{self, Ctx};
use std::cell::RefCell;
use taffy::prelude::*;
use taffy::{BoxSizing, CollapsibleMarginSet, LayoutInput, Line, Overflow, Point, Rect, RequestedAxis, RunMode, SizingMode};

pub const NF: usize = 62;

thread_local! {
    static LOG: RefCell<Vec<(u64, Size<Option<f32>>, Size<AvailableSpace>)>> = RefCell::new(vec![]);
}

fn f(bits: u64) -> f32 {
    f32::from_bits(bits as u32)
}
fn b(x: f32) -> u64 {
    x.to_bits() as u64
}

pub fn dimension(k: u64, v: u64) -> Dimension {
    match k {
        0 => Dimension::auto(),
        1 => Dimension::length(f(v)),
        _ => Dimension::percent(f(v)),
    }
}
pub fn lpa(k: u64, v: u64) -> LengthPercentageAuto {
    match k {
        0 => LengthPercentageAuto::auto(),
        1 => LengthPercentageAuto::length(f(v)),
        _ => LengthPercentageAuto::percent(f(v)),
    }
}
pub fn lp(k: u64, v: u64) -> LengthPercentage {
    match k {
        1 => LengthPercentage::length(f(v)),
        _ => LengthPercentage::percent(f(v)),
    }
}
fn overflow(k: u64) -> Overflow {
    [Overflow::Visible, Overflow::Clip, Overflow::Hidden, Overflow::Scroll][k as usize]
}
fn avail1(k: u64, v: u64) -> AvailableSpace {
    match k {
        0 => AvailableSpace::Definite(f(v)),
        1 => AvailableSpace::MinContent,
        _ => AvailableSpace::MaxContent,
    }
}
fn opt(flag: u64, v: u64) -> Option<f32> {
    if flag == 1 {
        Some(f(v))
    } else {
        None
    }
}

pub fn style_of(c: &[u64]) -> Style {
    let mut s = Style::default();
    s.display = [Display::Block, Display::Flex, Display::Grid, Display::None][c[1] as usize];
    s.position = if c[2] == 1 { Position::Absolute } else { Position::Relative };
    s.box_sizing = if c[3] == 1 { BoxSizing::ContentBox } else { BoxSizing::BorderBox };
    s.overflow = Point { x: overflow(c[4]), y: overflow(c[5]) };
    s.scrollbar_width = f(c[6]);
    s.size = Size { width: dimension(c[7], c[8]), height: dimension(c[9], c[10]) };
    s.min_size = Size { width: dimension(c[11], c[12]), height: dimension(c[13], c[14]) };
    s.max_size = Size { width: dimension(c[15], c[16]), height: dimension(c[17], c[18]) };
    s.aspect_ratio = opt(c[19], c[20]);
    s.margin = Rect { left: lpa(c[21], c[22]), right: lpa(c[23], c[24]), top: lpa(c[25], c[26]), bottom: lpa(c[27], c[28]) };
    s.padding = Rect { left: lp(c[29], c[30]), right: lp(c[31], c[32]), top: lp(c[33], c[34]), bottom: lp(c[35], c[36]) };
    s.border = Rect { left: lp(c[37], c[38]), right: lp(c[39], c[40]), top: lp(c[41], c[42]), bottom: lp(c[43], c[44]) };
    s
}

pub fn ctx_of(c: &[u64]) -> Option<Ctx> {
    match c[45] {
        0 => None,
        1 => Some(Ctx::Fixed(f(c[46]), f(c[47]))),
        2 => Some(Ctx::Text(c[46] as u32, f(c[47]))),
        _ => Some(Ctx::Echo(f(c[46]))),
    }
}

pub fn avail_of(c: &[u64]) -> Size<AvailableSpace> {
    Size { width: avail1(c[48], c[49]), height: avail1(c[50], c[51]) }
}

fn input_of(c: &[u64]) -> LayoutInput {
    LayoutInput {
        run_mode: [RunMode::PerformLayout, RunMode::ComputeSize, RunMode::PerformHiddenLayout][c[52] as usize],
        sizing_mode: if c[53] == 1 { SizingMode::InherentSize } else { SizingMode::ContentSize },
        axis: RequestedAxis::Both,
        known_dimensions: Size { width: opt(c[54], c[55]), height: opt(c[56], c[57]) },
        parent_size: Size { width: opt(c[58], c[59]), height: opt(c[60], c[61]) },
        available_space: avail_of(c),
        vertical_margins_are_collapsible: Line::FALSE,
    }
}

fn log_call(node: u64, known: Size<Option<f32>>, av: Size<AvailableSpace>) {
    LOG.with(|l| l.borrow_mut().push((node, known, av)));
}

fn call_fields(out: &mut Vec<u64>) {
    LOG.with(|l| {
        let l = l.borrow();
        out.push(l.len() as u64);
        let o = |x: Option<f32>, out: &mut Vec<u64>| match x {
            Some(v) => out.extend([1, canon(v)]),
            None => out.extend([0, 0]),
        };
        let a = |x: AvailableSpace, out: &mut Vec<u64>| match x {
            AvailableSpace::Definite(v) => out.extend([0, canon(v)]),
            AvailableSpace::MinContent => out.extend([1, 0]),
            AvailableSpace::MaxContent => out.extend([2, 0]),
        };
        match l.first() {
            Some((_, k, av)) => {
                o(k.width, out);
                o(k.height, out);
                a(av.width, out);
                a(av.height, out);
            }
            None => out.extend([0u64; 8]),
        }
    });
}

/// Runs the implementation on one case; the `R` fields.
pub fn run_impl(c: &[u64]) -> Vec<u64> {
    LOG.with(|l| l.borrow_mut().clear());
    let style = style_of(c);
    let mut ctx = ctx_of(c);
    let mut out = vec![];
    if c[0] == 0 {
        let mut t: TaffyTree<Ctx> = TaffyTree::new();
        t.disable_rounding();
        let root = match &ctx {
            Some(cx) => t.new_leaf_with_context(style, cx.clone()).unwrap(),
            None => t.new_leaf(style).unwrap(),
        };
        t.compute_layout_with_measure(root, avail_of(c), |known, av, id, cx, _style| {
            log_call(u64::from(id), known, av);
            treegen::measure(known, av, cx)
        })
        .unwrap();
        let l = t.unrounded_layout(root);
        out.push(1);
        out.extend(treegen::layout_bits(l)[1..].iter().map(|x| canon(f32::from_bits(*x))));
        call_fields(&mut out);
    } else {
        let inputs = input_of(c);
        let r = std::panic::catch_unwind(std::panic::AssertUnwindSafe(|| {
            taffy::compute_leaf_layout(
                inputs,
                &style,
                |_, _| 0.0,
                |known, av| {
                    log_call(0, known, av);
                    treegen::measure(known, av, ctx.as_mut())
                },
            )
        }));
        match r {
            Err(_) => out.push(0),
            Ok(o) => {
                out.push(1);
                out.extend([canon(o.size.width), canon(o.size.height), canon(o.content_size.width), canon(o.content_size.height)]);
                out.extend([o.first_baselines.x.is_some() as u64, o.first_baselines.y.is_some() as u64]);
                out.extend([canon(o.top_margin.resolve()), canon(o.bottom_margin.resolve())]);
                let _ = CollapsibleMarginSet::ZERO;
                out.push(o.margins_can_collapse_through as u64);
                call_fields(&mut out);
            }
        }
    }
    out
}

// ------------------------------------------------------------------------------------------------ generation

fn len(rng: &mut Rng, max: u64, frac: bool) -> f32 {
    if frac {
        (rng.below(max * 10) as f32) / 10.0
    } else {
        (rng.below(max * 4) as f32) / 4.0
    }
}

fn pct(rng: &mut Rng, frac: bool) -> f32 {
    if frac {
        *rng.pick(&[0.1, 0.3, 0.33, 0.9, 1.1])
    } else {
        *rng.pick(&[0.0, 0.125, 0.25, 0.5, 0.75, 1.0, 1.5])
    }
}

/// exotic: unusual but legal f32 inputs (only for the bit-exact correspondence, never for the oracle)
fn exotic(rng: &mut Rng) -> f32 {
    *rng.pick(&[0.0, -0.0, -1.0, -7.5, 1.0e7, 1.0e-3, 3.4e38, f32::INFINITY, 0.1, 1.0 / 3.0])
}

fn gen_dim(rng: &mut Rng, p_auto: u64, frac: bool, wild: bool) -> (u64, u64) {
    if rng.chance(p_auto, 100) {
        return (0, 0);
    }
    if wild && rng.chance(1, 12) {
        return (1 + rng.below(2), b(exotic(rng)));
    }
    if rng.chance(1, 3) {
        (2, b(pct(rng, frac)))
    } else {
        (1, b(len(rng, 200, frac)))
    }
}

fn gen_lp(rng: &mut Rng, max: u64, frac: bool, wild: bool) -> (u64, u64) {
    if wild && rng.chance(1, 20) {
        return (1 + rng.below(2), b(exotic(rng)));
    }
    if rng.chance(1, 4) {
        (2, b(*rng.pick(&[0.0, 0.0625, 0.125, 0.25, 0.1])))
    } else {
        (1, b(len(rng, max, frac)))
    }
}

fn gen_lpa(rng: &mut Rng, frac: bool, wild: bool) -> (u64, u64) {
    if rng.chance(1, 5) {
        return (0, 0);
    }
    if wild && rng.chance(1, 20) {
        return (1 + rng.below(2), b(exotic(rng)));
    }
    let sign = if rng.chance(1, 4) { -1.0 } else { 1.0 };
    if rng.chance(1, 4) {
        (2, b(sign * *rng.pick(&[0.0, 0.0625, 0.125, 0.25, 0.1])))
    } else {
        (1, b(sign * len(rng, 20, frac)))
    }
}

fn gen_avail(rng: &mut Rng, frac: bool, wild: bool) -> (u64, u64) {
    match rng.below(6) {
        0 => (1, 0),
        1 => (2, 0),
        _ => {
            if wild && rng.chance(1, 15) {
                (0, b(exotic(rng)))
            } else {
                (0, b(len(rng, 400, frac)))
            }
        }
    }
}

fn gen_opt(rng: &mut Rng, p: u64, max: u64, frac: bool, wild: bool) -> (u64, u64) {
    if !rng.chance(p, 100) {
        return (0, 0);
    }
    if wild && rng.chance(1, 15) {
        (1, b(exotic(rng)))
    } else {
        (1, b(len(rng, max, frac)))
    }
}

/// `wild`: also draw exotic floats (negative, huge, infinite, -0.0) -- correspondence only.
pub fn gen_case(rng: &mut Rng, kind: u64, wild: bool) -> Vec<u64> {
    let mut c = vec![0u64; NF];
    let frac = rng.chance(1, 2);
    c[0] = kind;
    c[1] = if rng.chance(1, 30) { 3 } else { rng.below(3) };
    c[2] = rng.chance(1, 10) as u64;
    c[3] = rng.chance(3, 10) as u64;
    if rng.chance(3, 10) {
        c[4] = rng.below(4);
        c[5] = rng.below(4);
        if rng.chance(1, 2) {
            c[4 + rng.below(2) as usize] = 3;
        }
        c[6] = b(len(rng, 16, frac));
    }
    let p_auto = *rng.pick(&[20, 50, 80]);
    for i in 0..2 {
        let (k, v) = gen_dim(rng, p_auto, frac, wild);
        c[7 + 2 * i] = k;
        c[8 + 2 * i] = v;
    }
    let p_mm = *rng.pick(&[40, 70, 100]);
    for i in 0..4 {
        let (k, v) = gen_dim(rng, p_mm, frac, wild);
        c[11 + 2 * i] = k;
        c[12 + 2 * i] = v;
    }
    if rng.chance(3, 10) {
        c[19] = 1;
        c[20] = b(*rng.pick(&[0.5, 1.0, 2.0, 4.0, 1.5, 0.3]));
        if wild && rng.chance(1, 15) {
            c[20] = b(*rng.pick(&[0.0, -2.0, f32::INFINITY]));
        }
    }
    if rng.chance(4, 10) {
        for i in 0..4 {
            let (k, v) = gen_lpa(rng, frac, wild);
            c[21 + 2 * i] = k;
            c[22 + 2 * i] = v;
        }
    } else {
        for i in 0..4 {
            c[21 + 2 * i] = 1;
        }
    }
    for base in [29usize, 37] {
        if rng.chance(1, 2) {
            for i in 0..4 {
                let (k, v) = gen_lp(rng, if base == 29 { 10 } else { 6 }, frac, wild);
                c[base + 2 * i] = k;
                c[base + 1 + 2 * i] = v;
            }
        } else {
            for i in 0..4 {
                c[base + 2 * i] = 1;
            }
        }
    }
    match rng.below(6) {
        0 => {}
        1 | 2 => {
            c[45] = 1;
            c[46] = b(len(rng, 120, frac));
            c[47] = b(len(rng, 60, frac));
            if rng.chance(1, 6) {
                c[47] = 0;
            }
        }
        3 | 4 => {
            c[45] = 2;
            c[46] = 1 + rng.below(40);
            c[47] = b(*rng.pick(&[4.0, 8.0, 10.0, 2.5]));
        }
        _ => {
            c[45] = 3;
            c[46] = b(len(rng, 100, frac));
        }
    }
    for i in 0..2 {
        let (k, v) = gen_avail(rng, frac, wild);
        c[48 + 2 * i] = k;
        c[49 + 2 * i] = v;
    }
    if kind == 1 {
        c[52] = match rng.below(20) {
            0 => 2,
            1..=9 => 0,
            _ => 1,
        };
        c[53] = rng.chance(7, 10) as u64;
        let pk = *rng.pick(&[0, 40, 90]);
        for i in 0..2 {
            let (k, v) = gen_opt(rng, pk, 200, frac, wild);
            c[54 + 2 * i] = k;
            c[55 + 2 * i] = v;
        }
        for i in 0..2 {
            let (k, v) = gen_opt(rng, 65, 400, frac, wild);
            c[58 + 2 * i] = k;
            c[59 + 2 * i] = v;
        }
    } else {
        c[53] = 1;
    }
    c
}

fn join(v: &[u64]) -> String {
    v.iter().map(|x| x.to_string()).collect::<Vec<_>>().join(" ")
}

fn emit(c: &[u64]) {
    println!("C {}\nR {}", join(c), join(&run_impl(c)));
}

/// Fixed corpus: hand-picked cases replayed first on every run (findings and boundary shapes).
fn corpus() -> Vec<Vec<u64>> {
    let mut v = vec![];
    let base = |kind: u64| {
        let mut c = vec![0u64; NF];
        c[0] = kind;
        c[1] = 1;
        c[53] = 1;
        for i in 0..4 {
            c[21 + 2 * i] = 1;
            c[29 + 2 * i] = 1;
            c[37 + 2 * i] = 1;
        }
        c[48] = 2;
        c[50] = 2;
        c
    };
    // both style sizes definite + aspect ratio (height is overridden by width / ratio)
    let mut c = base(0);
    c[7] = 1;
    c[8] = b(100.0);
    c[9] = 1;
    c[10] = b(10.0);
    c[19] = 1;
    c[20] = b(2.0);
    v.push(c.clone());
    // definite width, aspect ratio, max-height below width / ratio
    let mut d = base(0);
    d[7] = 1;
    d[8] = b(100.0);
    d[17] = 1;
    d[18] = b(20.0);
    d[19] = 1;
    d[20] = b(2.0);
    v.push(d.clone());
    // the same two as display:block roots
    c[1] = 0;
    d[1] = 0;
    v.push(c);
    v.push(d);
    // known dimensions + aspect ratio through the direct entry point, both run modes
    for rm in [0u64, 1] {
        let mut e = base(1);
        e[19] = 1;
        e[20] = b(2.0);
        e[52] = rm;
        e[54] = 1;
        e[55] = b(100.0);
        e[56] = 1;
        e[57] = b(10.0);
        v.push(e);
    }
    // display:none root with padding
    let mut h = base(0);
    h[1] = 3;
    h[30] = b(5.0);
    h[45] = 1;
    h[46] = b(10.0);
    h[47] = b(10.0);
    v.push(h);
    // content-box, percent padding against a definite width, scroll gutters, text measure
    let mut t = base(0);
    t[3] = 1;
    t[4] = 3;
    t[5] = 3;
    t[6] = b(12.0);
    for i in 0..4 {
        t[29 + 2 * i] = 2;
        t[30 + 2 * i] = b(0.1);
    }
    t[45] = 2;
    t[46] = 17;
    t[47] = b(10.0);
    t[48] = 0;
    t[49] = b(93.3);
    v.push(t);
    v
}

// ------------------------------------------------------------------------------------------------ oracle

/// `leaf_spec` of coq/Props/C19.v restated over f32, as a predicate on what the implementation returned.
/// Domain: finite values, padding/border >= 0, ratio > 0 -- and no aspect ratio for the equality clauses
/// (known finding: with an aspect ratio the height is `max(h, w / ratio)` after clamping).
/// Returns the list of violated clauses.
pub fn oracle_one(c: &[u64]) -> Vec<String> {
    let mut fails = vec![];
    let r = run_impl(c);
    let g = |i: usize| f(r[i]);
    let (x, y, w, h) = (g(1), g(2), g(3), g(4));
    let style = style_of(c);
    let av = avail_of(c);
    let p = av.into_options();
    let res_lp = |v: LengthPercentage| -> f32 {
        use taffy::ResolveOrZero;
        v.resolve_or_zero(p.width, |_, _| 0.0)
    };
    let res_lpa = |v: LengthPercentageAuto| -> f32 {
        use taffy::ResolveOrZero;
        v.resolve_or_zero(p.width, |_, _| 0.0)
    };
    let res_dim = |k: u64, v: u64, basis: Option<f32>| -> Option<f32> {
        match k {
            0 => None,
            1 => Some(f(v)),
            _ => basis.map(|bb| bb * f(v)),
        }
    };
    let pad = [res_lp(style.padding.left), res_lp(style.padding.right), res_lp(style.padding.top), res_lp(style.padding.bottom)];
    let bor = [res_lp(style.border.left), res_lp(style.border.right), res_lp(style.border.top), res_lp(style.border.bottom)];
    let mar = [res_lpa(style.margin.left), res_lpa(style.margin.right), res_lpa(style.margin.top), res_lpa(style.margin.bottom)];
    let pb = [pad[0] + pad[1] + bor[0] + bor[1], pad[2] + pad[3] + bor[2] + bor[3]];
    let gut = [if c[5] == 3 { f(c[6]) } else { 0.0 }, if c[4] == 3 { f(c[6]) } else { 0.0 }];
    let bsa = if c[3] == 1 { pb } else { [0.0, 0.0] };
    let basis = [p.width, p.height];
    let tol = |a: f32, bb: f32| (a - bb).abs() <= 1e-3 * (1.0 + a.abs().max(bb.abs()));
    if c[1] == 3 {
        // display:none root: no box, no measurement
        if w != 0.0 || h != 0.0 || x != 0.0 || y != 0.0 {
            fails.push(format!("display:none root has size {w}x{h} at ({x},{y})"));
        }
        if r[21] != 0 {
            fails.push("measure function invoked for a display:none node".into());
        }
        return fails;
    }
    if x != 0.0 || y != 0.0 {
        fails.push(format!("location ({x},{y}) is not (0,0)"));
    }
    if r[21] > 1 {
        fails.push(format!("measure function invoked {} times", r[21]));
    }
    let size = [w, h];
    let ratio = style.aspect_ratio;
    let mut s = [res_dim(c[7], c[8], basis[0]), res_dim(c[9], c[10], basis[1])];
    let mut mn = [res_dim(c[11], c[12], basis[0]), res_dim(c[13], c[14], basis[1])];
    let mx = [res_dim(c[15], c[16], basis[0]), res_dim(c[17], c[18], basis[1])];
    let s0 = s;
    if let Some(rt) = ratio {
        // where the property is explicit about the ratio (C19_ratio_transfer): border-box, no min/max, exactly one axis of
        // the style size definite and not below padding+border -> the other axis is transferred
        let no_minmax = (11..19).step_by(2).all(|i| c[i] == 0);
        if no_minmax && rt > 0.0 {
            let exp = if c[3] == 0 {
                match (s0[0], s0[1]) {
                    (Some(a), None) if a >= pb[0] => Some((a, (a / rt).max(pb[1]))),
                    (None, Some(bb)) if bb * rt >= pb[0] => Some((bb * rt, bb.max(pb[1]))),
                    _ => None,
                }
            } else {
                // content-box: the style size and the ratio describe the content box; padding+border are added on both axes
                // (only where the known finding -- height = max(height, border-box width / ratio) after clamping -- does not
                // override the transferred height)
                match (s0[0], s0[1]) {
                    (Some(a), None) if a >= 0.0 && (a + pb[0]) / rt <= a / rt + pb[1] - 1e-3 => Some((a + pb[0], a / rt + pb[1])),
                    (None, Some(bb)) if bb >= 0.0 && (bb * rt + pb[0]) / rt <= bb + pb[1] - 1e-3 => Some((bb * rt + pb[0], bb + pb[1])),
                    _ => None,
                }
            };
            if let Some((ew, eh)) = exp {
                if !(tol(w, ew) && tol(h, eh)) {
                    fails.push(format!("aspect ratio {rt}: size {w}x{h} but the transferred size is {ew}x{eh}"));
                }
            }
        }
        for v in [&mut s, &mut mn] {
            match (v[0], v[1]) {
                (Some(a), None) => v[1] = Some(a / rt),
                (None, Some(bb)) => v[0] = Some(bb * rt),
                _ => {}
            }
        }
        // "clamped by min size", with the ratio transferring a min-size given on one axis to the other (the ratio relates the
        // sides of the box that box-sizing designates: transfer first, then padding+border for content-box): whatever else
        // happens (the known finding only ever enlarges the height), the box is never smaller than that on either axis
        if rt > 0.0 && rt.is_finite() {
            for ax in 0..2 {
                if let Some(l) = mn[ax].map(|v| v + bsa[ax]) {
                    if l.is_finite() && size[ax] < l - 1e-3 * (1.0 + l.abs()) {
                        fails.push(format!(
                            "aspect ratio {rt}: {} {} is below the min size {l} (min-size with the ratio transferring the given axis)",
                            ["width", "height"][ax],
                            size[ax]
                        ));
                    }
                }
            }
        }
    }
    // what the measure function was given / returned
    let known = Size { width: opt(r[22], r[23]), height: opt(r[24], r[25]) };
    let given = Size { width: avail1(r[26], r[27]), height: avail1(r[28], r[29]) };
    let measured = if r[21] >= 1 { treegen::measure(known, given, ctx_of(c).as_mut()) } else { Size::ZERO };
    let m = [measured.width, measured.height];
    let giv = [given.width, given.height];
    let avs = [av.width, av.height];
    let clamp = |v: f32, lo: Option<f32>, hi: Option<f32>| {
        let v = match hi {
            Some(hh) => v.min(hh),
            None => v,
        };
        match lo {
            Some(l) => v.max(l),
            None => v,
        }
    };
    for ax in 0..2 {
        let name = ["width", "height"][ax];
        let sd = s[ax].map(|v| v + bsa[ax]);
        let lo = mn[ax].map(|v| v + bsa[ax]);
        let hi = mx[ax].map(|v| v + bsa[ax]);
        // never below padding + border
        if size[ax] < pb[ax] - 1e-3 {
            fails.push(format!("{name} {} is below padding+border {}", size[ax], pb[ax]));
        }
        let margin_sum = if ax == 0 { mar[0] + mar[1] } else { mar[2] + mar[3] };
        // block stretch-fit: a block root with auto width fills a definite available width
        let stretch = if c[1] == 0 && ax == 0 { p.width.map(|a| a - margin_sum) } else { None };
        let outer = sd.or(stretch);
        if r[21] == 1 && ratio.is_none() {
            // the measure function receives the available content-box space (leaf_spec_measure_avail)
            let inset = pb[ax] + gut[ax];
            let avm = avs[ax].into_option().map(|a| a - margin_sum);
            let assumed = if c[1] == 0 {
                let forced = match (lo, hi) {
                    (Some(l), Some(hh)) if hh <= l => Some(l),
                    _ => None,
                };
                forced.or(sd.map(|v| clamp(v, lo, hi))).or(stretch).map(|v| v.max(pb[ax])).or(avm)
            } else {
                sd.or(avm)
            };
            match (assumed, giv[ax]) {
                (Some(bx), AvailableSpace::Definite(gv)) => {
                    let e = clamp(bx, lo, hi) - inset;
                    if !tol(gv, e) {
                        fails.push(format!("measure got available {name} {gv}, the content box is {e}"));
                    }
                }
                (None, g2) if g2 == avs[ax] => {}
                (e, g2) => fails.push(format!("measure got available {name} {g2:?}, expected {e:?} (content box) / {:?}", avs[ax])),
            }
        }
        if r[21] == 1 && ax == 0 && (known.width.is_some() || known.height.is_some()) {
            fails.push("root leaf measured with known dimensions".into());
        }
        if ratio.is_some() {
            continue; // equality and clamping clauses: known finding with aspect ratio, checked separately
        }
        let base = outer.unwrap_or(m[ax] + pb[ax] + gut[ax]);
        let exp = clamp(base, lo, hi).max(pb[ax]);
        if !tol(size[ax], exp) {
            fails.push(format!("{name} {} but the box model gives {exp}", size[ax]));
        }
        if let (Some(l), Some(hh)) = (lo, hi) {
            if l <= hh && pb[ax] <= hh && !(size[ax] >= l - 1e-3 && size[ax] <= hh + 1e-3) {
                fails.push(format!("{name} {} outside [min {l}, max {hh}]", size[ax]));
            }
        }
    }
    // content size = measured + padding; layout's own padding/border/margin/scrollbar fields
    if r[21] == 1 && !(tol(g(5), m[0] + pad[0] + pad[1]) && tol(g(6), m[1] + pad[2] + pad[3])) {
        fails.push(format!("content_size {}x{} is not measured+padding", g(5), g(6)));
    }
    if g(7) != gut[0] || g(8) != gut[1] {
        fails.push("scrollbar_size".into());
    }
    for i in 0..4 {
        if g(9 + i) != bor[i] || g(13 + i) != pad[i] || g(17 + i) != mar[i] {
            fails.push("border/padding/margin of the layout".into());
            break;
        }
    }
    fails
}

/// aspect-ratio clauses of the property; violations of these are the known finding (reported as `RATIO` lines)
pub fn ratio_deviation(c: &[u64]) -> Option<String> {
    let style = style_of(c);
    let rt = style.aspect_ratio?;
    if c[1] == 3 {
        return None;
    }
    let r = run_impl(c);
    let p = avail_of(c).into_options();
    let (w, h) = (f(r[3]), f(r[4]));
    let pbh = f(r[11]) + f(r[12]) + f(r[15]) + f(r[16]);
    let bsa_h = if c[3] == 1 { pbh } else { 0.0 };
    let res = |k: u64, v: u64, basis: Option<f32>| match k {
        0 => None,
        1 => Some(f(v)),
        _ => basis.map(|bb| bb * f(v)),
    };
    let sh = res(c[9], c[10], p.height).map(|v| v + bsa_h);
    let mxh = res(c[17], c[18], p.height).map(|v| v + bsa_h);
    let mnh = res(c[13], c[14], p.height).map(|v| v + bsa_h);
    let _ = (w, rt);
    if let Some(hh) = mxh {
        if mnh.map_or(true, |l| l <= hh) && pbh <= hh && h > hh + 1e-3 {
            return Some(format!("height {h} exceeds max-height {hh}"));
        }
    }
    if let Some(s) = sh {
        if mxh.is_none() && mnh.is_none() && s >= pbh && (h - s).abs() > 1e-3 {
            return Some(format!("height {h} differs from the definite style height {s}"));
        }
    }
    None
}

/// `measure` is only ever invoked for childless, box-generating nodes (random multi-node trees).
fn oracle_tree(seed: u64, idx: u64) -> Option<String> {
    let mut rng = Rng::new(seed.wrapping_mul(0x9E37_79B9).wrapping_add(idx) ^ 0xC19);
    let mut cfg = treegen::GenCfg::default();
    cfg.p_hidden = 150;
    cfg.max_nodes = 14;
    let spec = treegen::tree(&mut rng, &cfg);
    let av = treegen::avail(&mut rng, &cfg);
    let mut t: TaffyTree<Ctx> = TaffyTree::new();
    let mut ids = vec![];
    let root = treegen::build(&mut t, &spec, &mut ids);
    // give every node a context so that a wrongly dispatched measure call is observable on containers as well
    for id in &ids {
        if t.get_node_context(*id).is_none() {
            t.set_node_context(*id, Some(Ctx::Fixed(7.0, 3.0))).unwrap();
        }
    }
    LOG.with(|l| l.borrow_mut().clear());
    t.compute_layout_with_measure(root, av, |known, a, id, cx, _| {
        log_call(u64::from(id), known, a);
        treegen::measure(known, a, cx)
    })
    .unwrap();
    // hidden = display:none on the node or an ancestor
    fn walk(t: &TaffyTree<Ctx>, n: NodeId, hidden: bool, out: &mut Vec<(u64, bool, usize)>) {
        let h = hidden || t.style(n).unwrap().display == Display::None;
        let kids = t.children(n).unwrap();
        out.push((u64::from(n), h, kids.len()));
        for k in kids {
            walk(t, k, h, out);
        }
    }
    let mut info = vec![];
    walk(&t, root, false, &mut info);
    let calls: Vec<u64> = LOG.with(|l| l.borrow().iter().map(|x| x.0).collect());
    for (id, hidden, nk) in info {
        let n = calls.iter().filter(|x| **x == id).count();
        if n > 0 && nk > 0 {
            return Some(format!("measure invoked {n} times for a node with {nk} children"));
        }
        if n > 0 && hidden {
            return Some(format!("measure invoked {n} times for a display:none node"));
        }
    }
    None
}

pub fn main(args: &[String]) {
    if std::env::var("VH_PANIC_MSG").is_err() {
        std::panic::set_hook(Box::new(|_| {}));
    }
    match args[0].as_str() {
        "cases" => {
            let seed: u64 = args[1].parse().unwrap();
            let n: u64 = args[2].parse().unwrap();
            for c in corpus() {
                emit(&c);
            }
            let mut rng = Rng::new(seed ^ 0xC19C19);
            for i in 0..n {
                let kind = (i % 2 == 1) as u64;
                let wild = i % 5 == 4;
                let c = gen_case(&mut rng, kind, wild);
                emit(&c);
            }
        }
        "one" | "show" => {
            let c: Vec<u64> = args[1..].iter().map(|s| s.parse().unwrap()).collect();
            assert_eq!(c.len(), NF);
            if args[0] == "show" {
                println!("{:#?}\nctx={:?} avail={:?}", style_of(&c), ctx_of(&c), avail_of(&c));
                if c[0] == 1 {
                    println!("{:#?}", input_of(&c));
                }
                for l in oracle_one(&c) {
                    println!("FAIL {l}");
                }
                if let Some(d) = ratio_deviation(&c) {
                    println!("RATIO {d}");
                }
            }
            emit(&c);
        }
        "tree" => {
            // debugging aid: `vh c19 tree <seed> <idx>` prints the generated tree of the measure-dispatch oracle
            let seed: u64 = args[1].parse().unwrap();
            let idx: u64 = args[2].parse().unwrap();
            let mut rng = Rng::new(seed.wrapping_mul(0x9E37_79B9).wrapping_add(idx) ^ 0xC19);
            let mut cfg = treegen::GenCfg::default();
            cfg.p_hidden = 150;
            cfg.max_nodes = 14;
            let spec = treegen::tree(&mut rng, &cfg);
            let av = treegen::avail(&mut rng, &cfg);
            println!("{:#?}\navail={:?}", spec, av);
            println!("{:?}", oracle_tree(seed, idx));
        }
        "oracle" => {
            let seed: u64 = args[1].parse().unwrap();
            let n: u64 = args[2].parse().unwrap();
            let mut rng = Rng::new(seed ^ 0x0C19);
            let (mut nfail, mut nratio, mut nr) = (0, 0, 0);
            for c in corpus().into_iter().filter(|c| c[0] == 0) {
                if let Some(d) = ratio_deviation(&c) {
                    println!("RATIO corpus {} :: {}", d, join(&c));
                    nratio += 1;
                }
            }
            for i in 0..n {
                let c = gen_case(&mut rng, 0, false);
                if c[19] == 1 {
                    nr += 1;
                }
                for l in oracle_one(&c) {
                    if nfail < 5 {
                        println!("FAIL {} {} :: {}", i, l, join(&c));
                    }
                    nfail += 1;
                }
                if let Some(d) = ratio_deviation(&c) {
                    if nratio < 6 {
                        println!("RATIO {} {} :: {}", i, d, join(&c));
                    }
                    nratio += 1;
                }
            }
            let nt = n / 4;
            let mut ntf = 0;
            let mut npanic = 0;
            for i in 0..nt {
                // a panic inside the engine on a multi-node tree is property C03's business, not this one's: counted, not failed
                match std::panic::catch_unwind(|| oracle_tree(seed, i)) {
                    Ok(Some(m)) => {
                        if ntf < 3 {
                            println!("FAIL tree {} {} :: {} {}", i, m, seed, i);
                        }
                        ntf += 1;
                    }
                    Ok(None) => {}
                    Err(_) => {
                        if npanic < 3 {
                            println!("PANIC tree {} {}", seed, i);
                        }
                        npanic += 1;
                    }
                }
            }
            println!(
                "ORACLE leaf={} with_ratio={} fails={} ratio_deviations={} trees={} tree_fails={} tree_panics={}",
                n, nr, nfail, nratio, nt, ntf, npanic
            );
        }
        _ => {
            eprintln!("c19: unknown command");
            std::process::exit(2);
        }
    }
}
