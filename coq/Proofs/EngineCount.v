(* Accounting facts behind C16: a cache hit evaluates nothing; an evaluated query is answered from the cache afterwards;
   with the exact-key memo a measure entry is never displaced, a final-layout entry only by a later PerformLayout store.
   (These are ingredients only: no evaluation counter is defined and no "at most once" theorem is stated.) *)
From Coq Require Import List Bool Arith Lia.
From TV Require Import Model.Engine.
Import ListNotations.

Section Count.
  Variables (S In Out Lay : Type).
  Variable mode : In -> RunMode.
  Variable in_eqb : In -> In -> bool.
  Variable is_none : S -> bool.
  Variable hidden_out : Out.
  Variable zero_lay : Lay.
  Variable algo : S -> list S -> In -> Alg In Out Lay.
  Hypothesis in_eqb_refl : forall a, in_eqb a a = true.

  Notation memo := (memo S In Out Lay mode in_eqb is_none hidden_out zero_lay algo).
  Notation cget := (cget In Out mode in_eqb).
  Notation cstore := (cstore In Out mode).
  Notation Node := (Node S In Out Lay).

  Lemma hit_is_free f s c l kids i o :
    mode i <> PerformHiddenLayout -> cget c i = Some o ->
    memo (Datatypes.S f) (Node s c l kids) i = Some (o, Node s c l kids).
  Proof. intros Hm Hg. cbn [Engine.memo]. destruct (mode i); try congruence; rewrite Hg; reflexivity. Qed.

  Lemma cget_cstore_same c i o : mode i <> PerformHiddenLayout -> cget (cstore c i o) i = Some o.
  Proof.
    intros Hm. unfold Engine.cget, Engine.cstore. destruct (mode i) eqn:E; try congruence; cbn; rewrite ?E; cbn.
    - rewrite in_eqb_refl. reflexivity.
    - rewrite in_eqb_refl. reflexivity.
  Qed.

  (* after an evaluation, the same query is a hit *)
  Lemma evaluated_then_hit f t i o t' :
    mode i <> PerformHiddenLayout -> memo f t i = Some (o, t') ->
    cget (cache_of S In Out Lay t') i = Some o.
  Proof.
    intros Hm H. destruct f as [|f]; [discriminate|]. destruct t as [s c l kids]. cbn [Engine.memo] in H.
    assert (Hb : match cget c i with
                 | Some o0 => Some (o0, Node s c l kids)
                 | None => if is_none s then Some (hidden_out, Node s (cstore (cempty In Out) i hidden_out) zero_lay (map (hide S In Out Lay zero_lay) kids))
                           else match run_memo S In Out Lay (memo f) kids (algo s (map (style_of S In Out Lay) kids) i) with
                                | Some (o0, kids') => Some (o0, Node s (cstore c i o0) l kids') | None => None end
                 end = Some (o, t')) by (destruct (mode i); try exact H; congruence).
    clear H. destruct (cget c i) as [o1|] eqn:Eg.
    - injection Hb as <- <-. exact Eg.
    - destruct (is_none s).
      + injection Hb as <- <-. apply cget_cstore_same. exact Hm.
      + destruct (run_memo _ _ _ _ _ _ _) as [[o1 k1]|]; [|discriminate]. injection Hb as <- <-.
        apply cget_cstore_same. exact Hm.
  Qed.

  (* the exact memo never displaces a measure entry: a later store of any other query keeps the hit *)
  Lemma compute_size_hit_persists c i o j o' :
    mode i = ComputeSize -> cget c i = Some o -> exists o2, cget (cstore c j o') i = Some o2.
  Proof.
    intros Hm Hg. unfold Engine.cget in *. rewrite Hm in *. unfold Engine.cstore.
    destruct (mode j); cbn; try (eexists; exact Hg).
    destruct (in_eqb j i); eexists; [reflexivity|exact Hg].
  Qed.
End Count.
