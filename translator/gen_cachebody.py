"""Translate the BODIES of the cache functions into Gallina (coq/Gen/CacheBodyGen.v), generic in `Num`:

  src/tree/cache.rs            Cache::new, Cache::get, Cache::store, Cache::clear, Cache::is_empty
  src/style/available_space.rs AvailableSpace::is_roughly_equal

as  gen_new / gen_get / gen_store / gen_clear / gen_is_empty / gen_is_roughly_equal  over the record types of
coq/Model/Cache.v (avail, size, output, key, entry, cache).  Proofs/CacheBodyProofs.v proves each of them extensionally equal to
the hand-written function of Model/Cache.v, so the theorems of Props/C02.v are theorems about the translated code.

The generated text may only use the TYPE vocabulary of Model/Cache.v (types, constructors, projections, and the four
representation helpers is_some / kind_of / set_nth / from_outer_size), Num operations and Gen/CacheGen.v (slot, CACHE_SIZE,
run_mode); `check_vocabulary` refuses any other identifier, in particular the hand-written get / store / clear / compat / ... .

Representation (the same as the hand model, see Model/Cache.v):
  * the two arguments `known_dimensions: Size<Option<f32>>, available_space: Size<AvailableSpace>` are ONE `k : key T`
    (`known_dimensions.width` = kd_w k, `available_space.height` = av_h k, ...); a CacheEntry's two fields likewise are its e_key;
  * LayoutOutput = size + opaque payload; `LayoutOutput::from_outer_size(s)` = from_outer_size s (payload 0);
  * `&mut self` methods thread the three fields of the cache as a symbolic state; the result is the final record (`store`) or
    the pair (record, returned ClearState) (`clear`); a state that was not assigned to is `self` itself;
  * `arr[i] = x` = set_nth (N.to_nat i) x arr;  `[x; CACHE_SIZE]` = repeat x (N.to_nat CACHE_SIZE);
  * `for x in arr.iter().flatten() { body }` = a local `fix loop` over the list skipping None (the body may `return`);
  * `==` on Option<f32> = Num.opt_eqb (the derived PartialEq), `abs` = fabs, `f32::EPSILON` = epsilon, `<` = ltb, `-` = sub;
  * `entry.m(args)` for a `fn m(&self, ..)` of an `impl<T> CacheEntry<T>` block with a side-effect free body is inlined;
  * early `return`s and `if` / `match` statements are translated by continuation (the rest of the body is copied into each branch).

The #[cfg(taffy_verif)] exact-key test hook (statements `if crate::verif_hooks::exact_key() .. { .. }`, `self.exact.<m>(..)`, the
`exact` field of `Self { .. }`) is recognised SYNTACTICALLY and dropped (exact-key mode is never switched on in the checks that use
this model; trusted, as before); any other attribute on a statement is refused.

The generator REFUSES (raises) on any statement / expression / pattern / type it does not recognise; every statement of each body
is consumed by `seq` (there is no default case that skips)."""
import re
from rustparse import *
from gen_cache import Refuse, enum_variants

SRC = 'src/tree/cache.rs'
SRC_AVAIL = 'src/style/available_space.rs'

BOOL, F32, USIZE, RUNMODE, CLEARSTATE, AVAIL, SIZEF, SIZEOPT, SIZEAV, OUTPUT, CACHE, UNIT_T = (
    'bool', 'f32', 'usize', 'run_mode', 'clear_state', 'avail', 'size_f32', 'size_opt', 'size_avail', 'output', 'cache', 'unit')


def OPT(t):
    return ('opt', t)


def ENTRY(c):
    return ('entry', c)


def ARR(t):
    return ('array', t)


FIELD_TY = {'final_layout_entry': OPT(ENTRY(OUTPUT)), 'measure_entries': ARR(OPT(ENTRY(SIZEF))), 'is_empty': BOOL}
FIELD_COQ = {'final_layout_entry': 'final', 'measure_entries': 'meas', 'is_empty': 'is_empty_flag'}
RUNMODES = ('PerformLayout', 'ComputeSize', 'PerformHiddenLayout')
AVAILS = ('MinContent', 'MaxContent', 'Definite')
HOOK = 'cfg ( taffy_verif )'
NOT_HOOK = 'cfg ( not ( taffy_verif ) )'


def same(a, b):
    """type equality with '?' as a wildcard (the element type of a bare `None`)"""
    if a == '?' or b == '?':
        return True
    if isinstance(a, tuple) and isinstance(b, tuple):
        return a[0] == b[0] and same(a[1], b[1])
    return a == b


def coq_ty(t):
    if t == BOOL:
        return 'bool'
    if t == F32:
        return 'T'
    if t == AVAIL:
        return '(avail T)'
    if t == SIZEF:
        return '(size T)'
    if t == OUTPUT:
        return '(output T)'
    if t == CACHE:
        return '(cache T)'
    if t == CLEARSTATE:
        return 'clear_state'
    if t == RUNMODE:
        return 'run_mode'
    if isinstance(t, tuple) and t[1] != '?':
        if t[0] == 'opt':
            return '(option %s)' % coq_ty(t[1])
        if t[0] == 'entry':
            return '(entry T %s)' % coq_ty(t[1])
        if t[0] == 'array':
            return '(list %s)' % coq_ty(t[1])
    raise Refuse('no Coq type for %r' % (t,))


class V:
    def __init__(self, ty, tm):
        self.ty, self.tm = ty, tm


UNIT = V(UNIT_T, 'tt')


def rtype(txt):
    """Rust parameter type text -> model type"""
    t = txt.replace(' ', '').replace('&mut', '').replace('&', '')
    m = {'Size<Option<f32>>': SIZEOPT, 'Size<AvailableSpace>': SIZEAV, 'RunMode': RUNMODE, 'LayoutOutput': OUTPUT,
         'AvailableSpace': AVAIL, 'Size<f32>': SIZEF, 'f32': F32, 'bool': BOOL}
    if t not in m:
        raise Refuse('parameter type %s' % txt)
    return m[t]


def params_of(params):
    """[(name, type text)]; `self` forms give ('self', '&self' | '&mutself' | 'self')"""
    out, depth, cur = [], 0, []
    for t in list(params) + [('op', ',')]:
        if t[1] in ('(', '[', '{', '<'):
            depth += 1
        elif t[1] in (')', ']', '}', '>'):
            depth -= 1
        elif t[1] == '>>':
            depth -= 2
        if t[1] == ',' and depth == 0:
            if cur:
                ws = [x[1] for x in cur]
                if ws[-1] == 'self' and all(w in ('&', 'mut') for w in ws[:-1]):
                    out.append(('self', ''.join(ws)))
                elif len(ws) >= 3 and ws[1] == ':' and cur[0][0] == 'id':
                    out.append((ws[0], ' '.join(ws[2:])))
                else:
                    raise Refuse('parameter form %r' % ' '.join(ws))
            cur = []
        else:
            cur.append(t)
    return out


def var(name):
    return 'r_' + name


class Body:
    """One function body.  kind: 'pure' (value = result), 'store' (result = final state), 'clear' (result = (state, value))."""

    def __init__(self, fname, kind, ret_ty, self_cache, is_new=False):
        self.fname, self.kind, self.ret_ty, self.is_new = fname, kind, ret_ty, is_new
        self.self_cache = self_cache
        self.st0 = None
        if self_cache:
            s = var('self')
            self.st0 = {f: '(%s %s)' % (c, s) for f, c in FIELD_COQ.items()}
        self.hooks = []
        self.loops = 0
        self.helpers = None     # tokens of cache.rs: where helper methods of CacheEntry are looked up
        self.inlined = {}

    # ------------------------------------------------------------------ results
    def record(self, st):
        if st == self.st0:
            return var('self')
        return '{| final := %s; meas := %s; is_empty_flag := %s |}' % (st['final_layout_entry'], st['measure_entries'], st['is_empty'])

    def finish(self, st, v):
        if self.kind == 'pure':
            if self.st0 is not None and st != self.st0:
                raise Refuse('%s: a &self method assigns to a field' % self.fname)
            if not same(v.ty, self.ret_ty):
                raise Refuse('%s returns %r, expected %r' % (self.fname, v.ty, self.ret_ty))
            return v.tm
        if self.kind == 'store':
            if v.ty != UNIT_T:
                raise Refuse('%s returns a value' % self.fname)
            return self.record(st)
        if self.kind == 'clear':
            if not same(v.ty, self.ret_ty):
                raise Refuse('%s returns %r, expected %r' % (self.fname, v.ty, self.ret_ty))
            return '(%s, %s)' % (self.record(st), v.tm)
        raise Refuse('kind')

    # ------------------------------------------------------------------ expressions (pure)
    def key_term(self, kd, av):
        m = re.match(r'^\(kd_w (.+)\)$', kd.tm['width'])
        if m:
            x = m.group(1)
            if (kd.tm['height'], av.tm['width'], av.tm['height']) == ('(kd_h %s)' % x, '(av_w %s)' % x, '(av_h %s)' % x):
                return x          # the two Size values of one key, passed on whole
        return '{| kd_w := %s; kd_h := %s; av_w := %s; av_h := %s |}' % (kd.tm['width'], kd.tm['height'], av.tm['width'], av.tm['height'])

    def closure(self, c, argty, env, st, want=None):
        """(binder name, body value) of a one-parameter closure applied to a value of type argty"""
        if c[0] != 'closure' or len(c[1]) != 1 or c[1][0][0] != 'pident':
            raise Refuse('closure form')
        nm = c[1][0][1]
        env2 = dict(env)
        env2[nm] = V(argty, var(nm))
        v = self.pure(c[2], env2, st)
        if want is not None and not same(v.ty, want):
            raise Refuse('closure returns %r, expected %r' % (v.ty, want))
        return var(nm), v

    def pure(self, e, env, st):
        """expression or side-effect free block (lets + tail)"""
        if e[0] == 'block':
            env2 = dict(env)
            for s in e[1]:
                if s[0] == 'item' and re.match(r'^use [A-Za-z_: ]+(\* )?;$', s[1]):
                    continue
                if s[0] != 'let' or s[3] or s[1][0] != 'pident' or s[2] is None:
                    raise Refuse('statement %s in a value block' % s[0])
                env2[s[1][1]] = self.pure(s[2], env2, st)
            if e[2] is None or e[3]:
                raise Refuse('value block without tail / with attribute')
            return self.pure(e[2], env2, st)
        return self.ex(e, env, st)

    def ex(self, e, env, st):
        k = e[0]
        if k == 'path':
            p = e[1]
            if len(p) == 1 and p[0] in env:
                return env[p[0]]
            if p in (['true'], ['false']):
                return V(BOOL, p[0])
            if p == ['None']:
                return V(OPT('?'), 'None')
            if p == ['f32', 'EPSILON']:
                return V(F32, 'epsilon')
            if p == ['CACHE_SIZE']:
                return V(USIZE, 'CACHE_SIZE')
            if len(p) == 2 and p[0] == 'ClearState' and p[1] in self.clear_states:
                return V(CLEARSTATE, p[1])
            if p[-1] in RUNMODES and p[:-1] in ([], ['RunMode']):
                return V(RUNMODE, p[-1])
            if p[-1] in ('MinContent', 'MaxContent') and p[:-1] in ([], ['AvailableSpace']):
                return V(AVAIL, p[-1])
            raise Refuse('%s: path %s' % (self.fname, '::'.join(p)))
        if k == 'field':
            if e[1] == ('path', ['self']) and self.self_cache:
                if e[2] not in FIELD_TY:
                    raise Refuse('%s: field self.%s' % (self.fname, e[2]))
                return V(FIELD_TY[e[2]], st[e[2]])
            b = self.ex(e[1], env, st)
            f = e[2]
            if b.ty in (SIZEOPT, SIZEAV) and f in ('width', 'height'):
                return V(OPT(F32) if b.ty == SIZEOPT else AVAIL, b.tm[f])
            if b.ty == SIZEF and f in ('width', 'height'):
                return V(F32, '(%s %s)' % (f, b.tm))
            if b.ty == OUTPUT and f == 'size':
                return V(SIZEF, '(o_size %s)' % b.tm)
            if isinstance(b.ty, tuple) and b.ty[0] == 'entry':
                if f == 'known_dimensions':
                    return V(SIZEOPT, {'width': '(kd_w (e_key %s))' % b.tm, 'height': '(kd_h (e_key %s))' % b.tm})
                if f == 'available_space':
                    return V(SIZEAV, {'width': '(av_w (e_key %s))' % b.tm, 'height': '(av_h (e_key %s))' % b.tm})
                if f == 'content':
                    return V(b.ty[1], '(e_content %s)' % b.tm)
            raise Refuse('%s: field .%s of a value of type %r' % (self.fname, f, b.ty))
        if k == 'call':
            f = e[1]
            if f[0] != 'path':
                raise Refuse('call of a non-path')
            args = [self.ex(a, env, st) for a in e[2]]
            tys = [a.ty for a in args]
            if f[1] == ['Some'] and len(args) == 1 and not isinstance(args[0].tm, dict):
                return V(OPT(args[0].ty), '(Some %s)' % args[0].tm)
            if f[1] == ['LayoutOutput', 'from_outer_size'] and tys == [SIZEF]:
                return V(OUTPUT, '(from_outer_size %s)' % args[0].tm)
            if f[1] == ['Self', 'compute_cache_slot'] and tys == [SIZEOPT, SIZEAV]:
                a, b = args
                return V(USIZE, '(slot (is_some %s) (is_some %s) (kind_of %s) (kind_of %s))'
                         % (a.tm['width'], a.tm['height'], b.tm['width'], b.tm['height']))
            if f[1] == ['abs'] and tys == [F32]:
                return V(F32, '(fabs %s)' % args[0].tm)
            raise Refuse('%s: call of %s on %r' % (self.fname, '::'.join(f[1]), tys))
        if k == 'bin':
            op = e[1]
            l, r = self.ex(e[2], env, st), self.ex(e[3], env, st)
            if op in ('&&', '||') and l.ty == BOOL and r.ty == BOOL:
                # Rust's && / || are lazy; the operands here are pure and total, so andb / orb agree
                return V(BOOL, '(%s %s %s)' % (l.tm, op, r.tm))
            if op in ('==', '!=') and same(l.ty, OPT(F32)) and same(r.ty, OPT(F32)) and (l.ty, r.ty) != (OPT('?'), OPT('?')):
                t = '(opt_eqb %s %s)' % (l.tm, r.tm)         # derived PartialEq of Option<f32>
                return V(BOOL, t if op == '==' else '(negb %s)' % t)
            if op == '<' and l.ty == F32 and r.ty == F32:
                return V(BOOL, '(ltb %s %s)' % (l.tm, r.tm))
            if op == '<=' and l.ty == F32 and r.ty == F32:
                return V(BOOL, '(leb %s %s)' % (l.tm, r.tm))
            if op in ('-', '+') and l.ty == F32 and r.ty == F32:
                return V(F32, '(%s %s %s)' % ('sub' if op == '-' else 'add', l.tm, r.tm))
            raise Refuse('%s: operator %s on %r, %r' % (self.fname, op, l.ty, r.ty))
        if k == 'un' and e[1] == '!':
            x = self.ex(e[2], env, st)
            if x.ty != BOOL:
                raise Refuse('! on %r' % (x.ty,))
            return V(BOOL, '(negb %s)' % x.tm)
        if k == 'mcall':
            name, rargs = e[2], e[3]
            x = self.ex(e[1], env, st)
            t = x.ty
            if name in ('is_some', 'is_none') and not rargs and isinstance(t, tuple) and t[0] == 'opt':
                return V(BOOL, '(is_some %s)' % x.tm if name == 'is_some' else '(negb (is_some %s))' % x.tm)
            if name == 'is_roughly_equal' and t == AVAIL and len(rargs) == 1:
                o = self.ex(rargs[0], env, st)
                if o.ty != AVAIL:
                    raise Refuse('is_roughly_equal argument')
                return V(BOOL, '(gen_is_roughly_equal %s %s)' % (x.tm, o.tm))
            if name == 'iter' and not rargs and isinstance(t, tuple) and t[0] == 'array':
                return V(('iter', t[1]), x.tm)
            if name == 'flatten' and not rargs and isinstance(t, tuple) and t[0] == 'iter' and isinstance(t[1], tuple) and t[1][0] == 'opt':
                return V(('iterflat', t[1][1]), x.tm)
            if name in ('any', 'all') and len(rargs) == 1 and isinstance(t, tuple) and t[0] == 'iter':
                b, body = self.closure(rargs[0], t[1], env, st, BOOL)
                return V(BOOL, '(%s (fun %s => %s) %s)' % ('existsb' if name == 'any' else 'forallb', b, body.tm, x.tm))
            if name == 'find' and len(rargs) == 1 and isinstance(t, tuple) and t[0] == 'iterflat':
                # first Some element satisfying the predicate
                b, body = self.closure(rargs[0], t[1], env, st, BOOL)
                self.loops += 1
                return V(OPT(t[1]), '((fix find%d (l : %s) := match l with [] => None | None :: l\' => find%d l\' '
                                    '| Some %s :: l\' => if %s then Some %s else find%d l\' end) %s)'
                         % (self.loops, coq_ty(ARR(OPT(t[1]))), self.loops, b, body.tm, b, self.loops, x.tm))
            if name == 'filter' and len(rargs) == 1 and isinstance(t, tuple) and t[0] == 'opt' and t[1] != '?':
                b, body = self.closure(rargs[0], t[1], env, st, BOOL)
                return V(t, '(match %s with Some %s => if %s then Some %s else None | None => None end)' % (x.tm, b, body.tm, b))
            if name == 'map' and len(rargs) == 1 and isinstance(t, tuple) and t[0] == 'opt' and t[1] != '?':
                b, body = self.closure(rargs[0], t[1], env, st)
                if isinstance(body.tm, dict):
                    raise Refuse('map to a Size pair')
                return V(OPT(body.ty), '(match %s with Some %s => Some %s | None => None end)' % (x.tm, b, body.tm))
            if isinstance(t, tuple) and t[0] == 'entry' and self.helpers is not None:
                return self.inline_entry_method(x, name, [self.ex(a, env, st) for a in rargs])
            raise Refuse('%s: method .%s on a value of type %r' % (self.fname, name, t))
        if k == 'struct':
            segs, fs, base = e[1], e[2], e[3]
            if base is not None:
                raise Refuse('struct update syntax')
            d = {}
            for f, x in fs:
                if f in d:
                    raise Refuse('duplicate field')
                d[f] = x
            if segs == ['CacheEntry'] and sorted(d) == ['available_space', 'content', 'known_dimensions']:
                kd, av, c = (self.ex(d[f], env, st) for f in ('known_dimensions', 'available_space', 'content'))
                if kd.ty != SIZEOPT or av.ty != SIZEAV or c.ty not in (OUTPUT, SIZEF):
                    raise Refuse('CacheEntry field types %r %r %r' % (kd.ty, av.ty, c.ty))
                return V(ENTRY(c.ty), '{| e_key := %s; e_content := %s |}' % (self.key_term(kd, av), c.tm))
            if segs == ['Self'] and self.is_new:
                if HOOK in self.cur_attrs and 'exact' in d:
                    self.hooks.append('field `exact` of Self { .. } under #[cfg(taffy_verif)]')
                    del d['exact']
                if sorted(d) != sorted(FIELD_TY):
                    raise Refuse('Self { .. } fields %r' % sorted(d))
                vs = {f: self.ex(d[f], env, st) for f in d}
                for f in d:
                    if not same(vs[f].ty, FIELD_TY[f]):
                        raise Refuse('Self { %s: %r }' % (f, vs[f].ty))
                return V(CACHE, '{| final := %s; meas := %s; is_empty_flag := %s |}'
                         % (vs['final_layout_entry'].tm, vs['measure_entries'].tm, vs['is_empty'].tm))
            raise Refuse('%s: struct literal %s' % (self.fname, '::'.join(segs)))
        if k == 'arrayrep':
            x, n = self.ex(e[1], env, st), self.ex(e[2], env, st)
            if n.ty != USIZE or isinstance(x.tm, dict):
                raise Refuse('array repeat length')
            return V(ARR(x.ty), '(repeat %s (N.to_nat %s))' % (x.tm, n.tm))
        if k == 'macro' and e[1] == 'matches':
            x, pat, guard = e[2]
            if guard is not None:
                raise Refuse('matches! with guard')
            v = self.ex(x, env, st)
            ps, binds = self.pattern(pat, v.ty)
            if binds:
                raise Refuse('matches! binding variables')
            return V(BOOL, '(match %s with %s => true | _ => false end)' % (v.tm, ps))
        raise Refuse('%s: expression of kind %s' % (self.fname, k))

    def inline_entry_method(self, recv, name, args):
        """`entry.name(args)` where `fn name(&self, ..)` is defined in an `impl<T> CacheEntry<T> { .. }` block of cache.rs and
        its body is a side-effect free value block: the body, with self := the entry and the parameters := the arguments"""
        toks = self.helpers
        blocks = [i for i in range(len(toks)) if seq_at(toks, i, ['impl', '<', 'T', '>', 'CacheEntry', '<', 'T', '>', '{'])]
        for i in blocks:
            blk = toks[i + 8:match_brace(toks, i + 8) + 1]
            try:
                params, body, _ = find_fn(blk, name)
            except ParseError:
                continue
            ps = params_of(params)
            if not ps or ps[0] != ('self', '&self') or len(ps) != len(args) + 1:
                raise Refuse('helper CacheEntry::%s: parameter list' % name)
            env = {'self': recv}
            for (n, ty), a in zip(ps[1:], args):
                if rtype(ty) != a.ty:
                    raise Refuse('helper CacheEntry::%s: argument %s has type %r' % (name, n, a.ty))
                env[n] = a
            self.inlined[name] = norm_tokens(params) + ' => ' + norm_tokens(body)
            saved = self.self_cache
            self.self_cache = False           # inside the helper `self` is the entry, not the cache
            try:
                return self.pure(parse_block(body), env, None)
            finally:
                self.self_cache = saved
        raise Refuse('%s: method .%s on a cache entry (no such fn in an `impl<T> CacheEntry<T>` block)' % (self.fname, name))

    # ------------------------------------------------------------------ patterns
    def pattern(self, p, ty):
        """(coq pattern, {rust name: V})"""
        if p[0] == 'pwild':
            return '_', {}
        if p[0] == 'por':
            out = []
            for q in p[1]:
                s, b = self.pattern(q, ty)
                if b:
                    raise Refuse('or-pattern with bindings')
                out.append(s)
            return '(%s)' % ' | '.join(out), {}
        if ty == RUNMODE and p[0] == 'ppath' and p[1][-1] in RUNMODES and p[1][:-1] in ([], ['RunMode']):
            return p[1][-1], {}
        if ty == AVAIL:
            if p[0] == 'ppath' and p[1][-1] in ('MinContent', 'MaxContent') and p[1][:-1] in ([], ['AvailableSpace']):
                return p[1][-1], {}
            if p[0] == 'pts' and p[1][-1] == 'Definite' and p[1][:-1] in ([], ['AvailableSpace']) and len(p[2]) == 1:
                q = p[2][0]
                if q[0] == 'pwild':
                    return '(Definite _)', {}
                if q[0] == 'pident':
                    return '(Definite %s)' % var(q[1]), {q[1]: V(F32, var(q[1]))}
        if isinstance(ty, tuple) and ty[0] == 'opt' and ty[1] != '?':
            if p[0] == 'ppath' and p[1] == ['None']:
                return 'None', {}
            if p[0] == 'pts' and p[1] == ['Some'] and len(p[2]) == 1 and p[2][0][0] in ('pident', 'pwild'):
                q = p[2][0]
                if q[0] == 'pwild':
                    return '(Some _)', {}
                return '(Some %s)' % var(q[1]), {q[1]: V(ty[1], var(q[1]))}
        raise Refuse('%s: pattern %r for a value of type %r' % (self.fname, p, ty))

    # ------------------------------------------------------------------ statements, by continuation
    def block(self, b, env, st, k):
        if b[0] != 'block':
            raise Refuse('expected a block')
        items = [('stmt', s) for s in b[1]]
        if b[2] is not None:
            items.append(('tail', b[2], b[3]))
        return self.seq(items, env, st, k)

    def is_hook_if(self, e):
        if e[0] != 'if' or e[3] is not None:
            return False
        c = e[1]
        while c[0] == 'bin' and c[1] == '&&':
            c = c[2]
        return c == ('call', ('path', ['crate', 'verif_hooks', 'exact_key']), [])

    def seq(self, items, env, st, k):
        """items: the remaining statements of a block; k(st, value) continues after the block"""
        if not items:
            return k(st, UNIT)
        it, rest = items[0], items[1:]
        if it[0] == 'tail':
            if rest:
                raise Refuse('tail not last')
            e, attrs, tail = it[1], it[2], True
        else:
            s = it[1]
            tail = False
            if s[0] == 'item':
                if not re.match(r'^use AvailableSpace :: (\* |\{[A-Za-z, ]+\} )?;$', s[1]):
                    raise Refuse('%s: item statement %r' % (self.fname, s[1][:50]))
                return self.seq(rest, env, st, k)
            if s[0] == 'let':
                if s[3]:
                    raise Refuse('attribute on let')
                if s[1][0] != 'pident' or s[2] is None:
                    raise Refuse('let pattern')
                env2 = dict(env)
                env2[s[1][1]] = self.pure(s[2], env, st)
                return self.seq(rest, env2, st, k)
            if s[0] != 'expr':
                raise Refuse('%s: statement kind %s' % (self.fname, s[0]))
            e, attrs = s[1], s[2]
        self.cur_attrs = attrs
        if attrs:
            if attrs == [HOOK]:
                if self.is_hook_if(e) and not tail:
                    self.hooks.append('`if crate::verif_hooks::exact_key() ..` statement under #[cfg(taffy_verif)]')
                    return self.seq(rest, env, st, k)
                if (e[0] == 'mcall' and e[1] == ('field', ('path', ['self']), 'exact') and e[2] in ('clear', 'push', 'retain')
                        and not tail and self.self_cache):
                    self.hooks.append('`self.exact.%s(..)` under #[cfg(taffy_verif)]' % e[2])
                    return self.seq(rest, env, st, k)
                if self.is_new and e[0] == 'return' and e[1] is not None and e[1][0] == 'struct' and not tail:
                    # #[cfg(taffy_verif)] return Self { .., exact: .. };  #[cfg(not(taffy_verif))] Self { .. }
                    a = self.finish(st, self.ex(e[1], env, st))
                    if len(rest) != 1 or rest[0][0] != 'tail' or rest[0][2] != [NOT_HOOK]:
                        raise Refuse('new: the cfg(taffy_verif) return is not followed by exactly the cfg(not(taffy_verif)) value')
                    self.cur_attrs = []
                    b = self.finish(st, self.ex(rest[0][1], env, st))
                    if a != b:
                        raise Refuse('new: the two cfg variants differ in more than the hook field')
                    return a
            raise Refuse('%s: attribute %r on a statement that is not the exact-key hook' % (self.fname, attrs))

        def after(st2, v):
            if rest:
                return self.seq(rest, env, st2, k)
            return k(st2, v if tail else UNIT)
        return self.stmt(e, env, st, after, tail)

    def stmt(self, e, env, st, after, value_used):
        kd = e[0]
        if kd == 'return':
            return self.finish(st, self.pure(e[1], env, st) if e[1] is not None else UNIT)
        if kd == 'assign':
            if e[1] != '=' or not self.self_cache or self.kind == 'pure':
                raise Refuse('%s: assignment %s' % (self.fname, e[1]))
            lhs, v = e[2], self.pure(e[3], env, st)
            st2 = dict(st)
            if lhs[0] == 'field' and lhs[1] == ('path', ['self']) and lhs[2] in FIELD_TY:
                if not same(v.ty, FIELD_TY[lhs[2]]):
                    raise Refuse('self.%s = value of type %r' % (lhs[2], v.ty))
                st2[lhs[2]] = v.tm
            elif lhs[0] == 'index' and lhs[1][0] == 'field' and lhs[1][1] == ('path', ['self']) and lhs[1][2] in FIELD_TY:
                f = lhs[1][2]
                i = self.pure(lhs[2], env, st)
                if FIELD_TY[f][0] != 'array' or i.ty != USIZE or not same(v.ty, FIELD_TY[f][1]):
                    raise Refuse('indexed assignment types')
                st2[f] = '(set_nth (N.to_nat %s) %s %s)' % (i.tm, v.tm, st[f])
            else:
                raise Refuse('%s: assignment target' % self.fname)
            return after(st2, UNIT)
        if kd == 'if':
            c = self.pure(e[1], env, st)
            if c.ty != BOOL:
                raise Refuse('if condition')
            a = self.block(e[2], env, st, after)
            if e[3] is None:
                b = after(st, UNIT)
            elif e[3][0] == 'block':
                b = self.block(e[3], env, st, after)
            else:
                b = self.stmt(e[3], env, st, after, value_used)
            return '(if %s then %s else %s)' % (c.tm, a, b)
        if kd == 'match':
            scrut = e[1][1] if e[1][0] == 'tuple' else [e[1]]
            vs = [self.pure(s, env, st) for s in scrut]
            for v in vs:
                if isinstance(v.tm, dict):
                    raise Refuse('match on a Size pair')
            arms = []
            for pat, guard, body, attrs in e[2]:
                if guard is not None or attrs:
                    raise Refuse('%s: match arm with guard / attribute' % self.fname)
                ps = pat[1] if (pat[0] == 'ptuple' and len(vs) > 1) else [pat]
                if pat[0] == 'pwild' and len(vs) > 1:
                    ps = [('pwild',)] * len(vs)
                if len(ps) != len(vs):
                    raise Refuse('match arm arity')
                env2 = dict(env)
                cps = []
                for p, v in zip(ps, vs):
                    s, b = self.pattern(p, v.ty)
                    cps.append(s)
                    env2.update(b)
                if body[0] == 'block':
                    t = self.block(body, env2, st, after)
                else:
                    t = self.stmt(body, env2, st, after, value_used)
                arms.append('| %s => %s' % (', '.join(cps), t))
            return '(match %s with %s end)' % (', '.join(v.tm for v in vs), ' '.join(arms))
        if kd == 'for':
            pat, it, body = e[1], e[2], e[3]
            if pat[0] != 'pident':
                raise Refuse('for pattern')
            iv = self.pure(it, env, st)
            if not (isinstance(iv.ty, tuple) and iv.ty[0] in ('iterflat', 'iter')):
                raise Refuse('%s: for over a value of type %r' % (self.fname, iv.ty))
            self.loops += 1
            loop = 'loop%d' % self.loops
            elt = iv.ty[1]
            env2 = dict(env)
            env2[pat[1]] = V(elt, var(pat[1]))

            def again(st2, v):
                if st2 != st:
                    raise Refuse('%s: the loop body assigns to self' % self.fname)
                return "%s l'" % loop
            b = self.block(body, env2, st, again)
            done = after(st, UNIT)
            if iv.ty[0] == 'iterflat':
                return ("((fix %s (l : %s) := match l with [] => %s | None :: l' => %s l' | Some %s :: l' => %s end) %s)"
                        % (loop, coq_ty(ARR(OPT(elt))), done, loop, var(pat[1]), b, iv.tm))
            return ("((fix %s (l : %s) := match l with [] => %s | %s :: l' => %s end) %s)"
                    % (loop, coq_ty(ARR(elt)), done, var(pat[1]), b, iv.tm))
        if kd == 'block':
            return self.block(e, env, st, after)
        if not value_used:
            raise Refuse('%s: expression statement of kind %s whose value is dropped' % (self.fname, kd))
        return after(st, self.pure(e, env, st))


# identifiers the generated text may contain
VOCAB = set('''
_ Definition Section End CacheBodyGen Context Type Num T From Coq TV Require Import NArith Bool List ListNotations Gen CacheGen Model Cache
fun fix match with end if then else let in l bool option list Some None true false negb existsb forallb repeat N to_nat tt
avail size output key entry cache clear_state run_mode MinContent MaxContent Definite Cleared AlreadyEmpty
PerformLayout ComputeSize PerformHiddenLayout
width height o_size o_payload kd_w kd_h av_w av_h e_key e_content final meas is_empty_flag
is_some kind_of set_nth from_outer_size slot CACHE_SIZE
opt_eqb ltb leb sub add fabs epsilon
gen_new gen_get gen_store gen_clear gen_is_empty gen_is_roughly_equal k
'''.split())


def check_vocabulary(text):
    code = re.sub(r'\(\*.*?\*\)', ' ', text, flags=re.S)
    for w in set(re.findall(r"[A-Za-z_][A-Za-z0-9_']*", code)):
        if w in VOCAB or re.match(r"^(r_[A-Za-z0-9_]+|loop[0-9]+|find[0-9]+|l')$", w):
            continue
        raise Refuse('generated text uses the identifier %r outside the allowed vocabulary' % w)


def struct_fields(toks, name):
    """[(field, cfg attrs)] of `struct <name> [<..>] { .. }`"""
    for i in range(len(toks) - 1):
        if toks[i] == ('id', 'struct') and toks[i + 1] == ('id', name):
            j = i + 2
            while toks[j][1] != '{':
                if toks[j][1] == ';':
                    raise Refuse('struct %s has no body' % name)
                j += 1
            e = match_brace(toks, j)
            body = toks[j + 1:e]
            out, attrs, n = [], [], 0
            while n < len(body):
                if body[n][1] == '#':
                    c = match_brace(body, n + 1)
                    attrs.append(' '.join(x[1] for x in body[n + 2:c]))
                    n = c + 1
                    continue
                while body[n][1] in ('pub', ) or (body[n][1] == '(' and body[n - 1][1] == 'pub'):
                    n = match_brace(body, n) + 1 if body[n][1] == '(' else n + 1
                if body[n][0] != 'id' or body[n + 1][1] != ':':
                    raise Refuse('struct %s: field syntax at %r' % (name, body[n][1]))
                f = body[n][1]
                m, depth = n + 2, 0
                while m < len(body) and not (body[m][1] == ',' and depth == 0):
                    if body[m][1] in ('(', '[', '<'):
                        depth += 1
                    elif body[m][1] in (')', ']', '>'):
                        depth -= 1
                    elif body[m][1] == '>>':
                        depth -= 2
                    m += 1
                out.append((f, ''.join(x[1] for x in body[n + 2:m]), [a for a in attrs if a.startswith('cfg ') and 'feature' not in a]))
                attrs = []
                n = m + 1
            return out
    raise Refuse('struct %s not found' % name)


def generate(repo):
    toks = tokenize(open(repo + '/' + SRC).read())
    av_toks = tokenize(open(repo + '/' + SRC_AVAIL).read())
    fps = {}

    # ---- the data the representation relies on
    cf = struct_fields(toks, 'Cache')
    want = [('final_layout_entry', 'Option<CacheEntry<LayoutOutput>>', []),
            ('measure_entries', '[Option<CacheEntry<Size<f32>>>;CACHE_SIZE]', []), ('is_empty', 'bool', []),
            ('exact', 'std::vec::Vec<(std::string::String,RunMode,LayoutOutput)>', [HOOK])]
    if cf != want and cf != want[:3]:
        raise Refuse('struct Cache fields changed: %r' % (cf,))
    ef = struct_fields(toks, 'CacheEntry')
    if ef != [('known_dimensions', 'Size<Option<f32>>', []), ('available_space', 'Size<AvailableSpace>', []), ('content', 'T', [])]:
        raise Refuse('struct CacheEntry fields changed: %r' % (ef,))
    cs = enum_variants(toks, 'ClearState')
    if sorted(cs) != [('AlreadyEmpty', False), ('Cleared', False)]:
        raise Refuse('ClearState variants changed: %r' % (cs,))
    av = enum_variants(av_toks, 'AvailableSpace')
    if sorted(av) != sorted([('Definite', True), ('MinContent', False), ('MaxContent', False)]):
        raise Refuse('AvailableSpace variants changed: %r' % av)

    impl = [i for i in range(len(toks)) if seq_at(toks, i, ['impl', 'Cache', '{'])]
    if len(impl) != 1:
        raise Refuse('expected exactly one `impl Cache {`')
    meth = toks[impl[0] + 2:match_brace(toks, impl[0] + 2) + 1]

    out = []
    w = out.append
    w('(* GENERATED on every run by /verif/translator/gen_cachebody.py from %s and %s -- do not edit.' % (SRC, SRC_AVAIL))
    w('   The bodies of Cache::new / get / store / clear / is_empty and AvailableSpace::is_roughly_equal, statement by statement, over')
    w('   the types of Model/Cache.v (only its type vocabulary is used; the generator checks that).  Proofs/CacheBodyProofs.v proves')
    w('   each gen_* equal to the hand-written function of Model/Cache.v. *)')
    w('From Coq Require Import NArith Bool List.')
    w('From TV Require Import Num.Num Gen.CacheGen Model.Cache.')
    w('Import ListNotations.')
    w('Section CacheBodyGen.')
    w('  Context {T : Type} `{Num T}.')
    hooks = []

    def emit(name, coqname, toks_, sig, kind, ret_ty, ptypes, is_new=False):
        params, body, _ = find_fn(toks_, name)
        ps = params_of(params)
        fps[sig] = norm_tokens(params) + ' => ' + norm_tokens(body)
        got = [('self', t.replace(' ', '')) if n == 'self' else rtype(t) for n, t in ps]
        if got != ptypes:
            raise Refuse('%s: parameters %r, expected %r' % (sig, got, ptypes))
        b = Body(sig, kind, ret_ty, self_cache=(ptypes[:1] in ([('self', '&self')], [('self', '&mutself')])), is_new=is_new)
        b.clear_states = [v for v, _ in cs]
        b.helpers = toks if toks_ is meth else None
        b.cur_attrs = []
        env = {}
        binders = []
        names = [n for n, _ in ps]
        tys = ptypes
        i = 0
        while i < len(names):
            n, t = names[i], tys[i]
            if n == 'self':
                if t[1] == 'self':          # by value: AvailableSpace
                    env['self'] = V(AVAIL, var('self'))
                    binders.append('(%s : avail T)' % var('self'))
                else:
                    binders.append('(%s : cache T)' % var('self'))
            elif t == SIZEOPT:
                if i + 1 >= len(names) or tys[i + 1] != SIZEAV:
                    raise Refuse('%s: Size<Option<f32>> parameter not followed by Size<AvailableSpace>' % sig)
                env[n] = V(SIZEOPT, {'width': '(kd_w k)', 'height': '(kd_h k)'})
                env[names[i + 1]] = V(SIZEAV, {'width': '(av_w k)', 'height': '(av_h k)'})
                binders.append('(k : key T)')
                i += 1
            elif t == SIZEAV:
                raise Refuse('%s: lone Size<AvailableSpace> parameter' % sig)
            else:
                env[n] = V(t, var(n))
                binders.append('(%s : %s)' % (var(n), coq_ty(t)))
            i += 1
        term = b.block(parse_block(body), env, b.st0, b.finish)
        res = {'pure': coq_ty(ret_ty) if kind == 'pure' else None, 'store': '(cache T)', 'clear': '(cache T * clear_state)'}[kind]
        w('  (* %s *)' % sig)
        w('  Definition %s %s : %s :=\n    %s.' % (coqname, ' '.join(binders), res, term))
        hooks.extend('%s: %s' % (sig, h) for h in b.hooks)
        for hn, ht in b.inlined.items():
            fps['CacheEntry::%s (inlined)' % hn] = ht

    emit('is_roughly_equal', 'gen_is_roughly_equal', av_toks, 'AvailableSpace::is_roughly_equal', 'pure', BOOL,
         [('self', 'self'), AVAIL])
    emit('new', 'gen_new', meth, 'Cache::new', 'pure', CACHE, [], is_new=True)
    emit('get', 'gen_get', meth, 'Cache::get', 'pure', OPT(OUTPUT), [('self', '&self'), SIZEOPT, SIZEAV, RUNMODE])
    emit('store', 'gen_store', meth, 'Cache::store', 'store', UNIT_T, [('self', '&mutself'), SIZEOPT, SIZEAV, RUNMODE, OUTPUT])
    emit('clear', 'gen_clear', meth, 'Cache::clear', 'clear', CLEARSTATE, [('self', '&mutself')])
    emit('is_empty', 'gen_is_empty', meth, 'Cache::is_empty', 'pure', BOOL, [('self', '&self')])
    w('End CacheBodyGen.')
    w('(* dropped, recognised syntactically as the inactive exact-key test hook:')
    for h in hooks:
        w('   - ' + h.replace('*)', '* )'))
    w('*)')
    text = '\n'.join(out) + '\n'
    check_vocabulary(text)
    fps['dropped hook statements'] = '\n'.join(hooks)
    return text, fps


TARGETS = {'CacheBodyGen.v': generate}
