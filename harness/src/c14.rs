//! C14: tree structure stays consistent under any sequence of structural edits.
//!
//! `vh c14 cases <seed> <n>`   random structural histories run on the real `TaffyTree<u32>`; per history a line
//!                             `C <nops> (<code> <flag> <a> <b> <c> <n> <x1..xn>)*` (operations, NodeIds raw) and a line
//!                             `R (<status> <a> <b> <c> [<total> <npool> <node record>*])*` (what the implementation did
//!                             and what it shows afterwards); a panic (status 3) ends the history.
//! `vh c14 oracle <seed> <n>`  the same histories checked against an independent Vec-based reference forest;
//!                             `FAIL <idx> <opidx> <msg>` + `MIN <idx> | <ops>` (greedily minimised) for histories that
//!                             respect the precondition up to the failing operation.
//! `vh c14 one <seed> <idx>`   one history: C/R lines, a readable trace on stderr, FAIL/MIN lines if the oracle objects.
//! `vh c14 replay <ops...>`    run an abstract history written as tokens (`nl:0 nl:1 add:0:1 rm:1 ...`, see `Op::token`).
//!
//! The generator is driven by the reference forest only (abstract ids = creation index), so the histories of a seed do
//! not depend on what the implementation under test returns.
//!
//! Op codes: 0 new_leaf, 1 new_leaf_with_context(a=ctx), 2 new_with_children(xs), 3 add_child(a=parent,b=child),
//! 4 insert_child_at_index(a=parent,b=index,c=child), 5 set_children(a=parent,xs), 6 remove_child(a=parent,b=child),
//! 7 remove_child_at_index(a=parent,b=index), 8 remove_children_range(a=parent,b..c), 9 replace_child_at_index(a=parent,
//! b=index,c=child), 10 remove(a), 11 clear, 12 set_node_context(a, b=0 none | v+1), 13 get_node_context(a),
//! 14 child_at_index(a,b), 15 parent(a), 16 child_count(a).
//! flag: 0 respects the precondition, 1 violates it (attaches an attached node, duplicate children, dead key,
//! remove_child of a non-child, bad range), 2 comes after a violation (the state is outside the property's domain).
//! status: 0 Ok(()), 1 Ok(id a), 2 Err(ChildIndexOutOfBounds a=parent b=index c=count), 3 panic, 4 other Err,
//! 5 query value a (context: 0 none | v+1; parent: 0 none | id; count).
//! node record: id parent(0|id) child_count k children[k] child_at_index(0..k-1)[k] child_at_index(k):(a b c) ctx(0|v+1);
//! an observation that panics prints 1 (ids are >= 2^32, so 0/1/2 cannot be ids).
use crate::rng::Rng;
use std::panic::{catch_unwind, AssertUnwindSafe};
use taffy::{NodeId, Style, TaffyError, TaffyResult, TaffyTree, TraversePartialTree};

type Aid = usize;
const MAX_POOL: usize = 10;

#[derive(Clone, Debug, PartialEq)]
pub enum Op {
    NewLeaf(Aid),
    NewLeafCtx(Aid, u32),
    NewWithChildren(Aid, Vec<Aid>),
    AddChild(Aid, Aid),
    InsertChild(Aid, u64, Aid),
    SetChildren(Aid, Vec<Aid>),
    RemoveChild(Aid, Aid),
    RemoveChildAt(Aid, u64),
    RemoveRange(Aid, u64, u64),
    ReplaceChildAt(Aid, u64, Aid),
    Remove(Aid),
    Clear,
    SetCtx(Aid, Option<u32>),
    GetCtx(Aid),
    ChildAtIndex(Aid, u64),
    ParentOf(Aid),
    ChildCountOf(Aid),
}

fn list_token(xs: &[Aid]) -> String {
    if xs.is_empty() {
        "-".to_string()
    } else {
        xs.iter().map(|x| x.to_string()).collect::<Vec<_>>().join(",")
    }
}

impl Op {
    pub fn code(&self) -> u64 {
        match self {
            Op::NewLeaf(_) => 0,
            Op::NewLeafCtx(..) => 1,
            Op::NewWithChildren(..) => 2,
            Op::AddChild(..) => 3,
            Op::InsertChild(..) => 4,
            Op::SetChildren(..) => 5,
            Op::RemoveChild(..) => 6,
            Op::RemoveChildAt(..) => 7,
            Op::RemoveRange(..) => 8,
            Op::ReplaceChildAt(..) => 9,
            Op::Remove(_) => 10,
            Op::Clear => 11,
            Op::SetCtx(..) => 12,
            Op::GetCtx(_) => 13,
            Op::ChildAtIndex(..) => 14,
            Op::ParentOf(_) => 15,
            Op::ChildCountOf(_) => 16,
        }
    }
    /// textual form accepted by `vh c14 replay`
    pub fn token(&self) -> String {
        match self {
            Op::NewLeaf(a) => format!("nl:{a}"),
            Op::NewLeafCtx(a, v) => format!("nlc:{a}:{v}"),
            Op::NewWithChildren(a, cs) => format!("nwc:{a}:{}", list_token(cs)),
            Op::AddChild(p, c) => format!("add:{p}:{c}"),
            Op::InsertChild(p, i, c) => format!("ins:{p}:{i}:{c}"),
            Op::SetChildren(p, cs) => format!("set:{p}:{}", list_token(cs)),
            Op::RemoveChild(p, c) => format!("rmc:{p}:{c}"),
            Op::RemoveChildAt(p, i) => format!("rma:{p}:{i}"),
            Op::RemoveRange(p, a, b) => format!("rng:{p}:{a}:{b}"),
            Op::ReplaceChildAt(p, i, c) => format!("rep:{p}:{i}:{c}"),
            Op::Remove(n) => format!("rm:{n}"),
            Op::Clear => "clr".to_string(),
            Op::SetCtx(n, Some(v)) => format!("ctx:{n}:{v}"),
            Op::SetCtx(n, None) => format!("ctx:{n}:-"),
            Op::GetCtx(n) => format!("getctx:{n}"),
            Op::ChildAtIndex(p, i) => format!("cai:{p}:{i}"),
            Op::ParentOf(n) => format!("parent:{n}"),
            Op::ChildCountOf(n) => format!("count:{n}"),
        }
    }
    pub fn parse(tok: &str) -> Option<Op> {
        let f: Vec<&str> = tok.split(':').collect();
        let n = |i: usize| -> Option<u64> { f.get(i)?.parse().ok() };
        let a = |i: usize| -> Option<usize> { f.get(i)?.parse().ok() };
        let l = |i: usize| -> Option<Vec<Aid>> {
            let s = f.get(i)?;
            if *s == "-" {
                Some(vec![])
            } else {
                s.split(',').map(|x| x.parse().ok()).collect()
            }
        };
        Some(match f[0] {
            "nl" => Op::NewLeaf(a(1)?),
            "nlc" => Op::NewLeafCtx(a(1)?, n(2)? as u32),
            "nwc" => Op::NewWithChildren(a(1)?, l(2)?),
            "add" => Op::AddChild(a(1)?, a(2)?),
            "ins" => Op::InsertChild(a(1)?, n(2)?, a(3)?),
            "set" => Op::SetChildren(a(1)?, l(2)?),
            "rmc" => Op::RemoveChild(a(1)?, a(2)?),
            "rma" => Op::RemoveChildAt(a(1)?, n(2)?),
            "rng" => Op::RemoveRange(a(1)?, n(2)?, n(3)?),
            "rep" => Op::ReplaceChildAt(a(1)?, n(2)?, a(3)?),
            "rm" => Op::Remove(a(1)?),
            "clr" => Op::Clear,
            "ctx" => Op::SetCtx(a(1)?, if f.get(2)? == &"-" { None } else { Some(n(2)? as u32) }),
            "getctx" => Op::GetCtx(a(1)?),
            "cai" => Op::ChildAtIndex(a(1)?, n(2)?),
            "parent" => Op::ParentOf(a(1)?),
            "count" => Op::ChildCountOf(a(1)?),
            _ => return None,
        })
    }
    /// the abstract id this operation creates
    fn creates(&self) -> Option<Aid> {
        match self {
            Op::NewLeaf(a) | Op::NewLeafCtx(a, _) | Op::NewWithChildren(a, _) => Some(*a),
            _ => None,
        }
    }
    /// every abstract id this operation mentions (other than the one it creates)
    fn mentions(&self) -> Vec<Aid> {
        match self {
            Op::NewLeaf(_) | Op::NewLeafCtx(..) | Op::Clear => vec![],
            Op::NewWithChildren(_, cs) => cs.clone(),
            Op::AddChild(p, c) | Op::RemoveChild(p, c) => vec![*p, *c],
            Op::InsertChild(p, _, c) | Op::ReplaceChildAt(p, _, c) => vec![*p, *c],
            Op::SetChildren(p, cs) => {
                let mut v = vec![*p];
                v.extend(cs);
                v
            }
            Op::RemoveChildAt(p, _) | Op::RemoveRange(p, _, _) | Op::ChildAtIndex(p, _) => vec![*p],
            Op::Remove(n) | Op::SetCtx(n, _) | Op::GetCtx(n) | Op::ParentOf(n) | Op::ChildCountOf(n) => vec![*n],
        }
    }
}

/// The half-open index range `a..b` written in one of the equivalent `RangeBounds` forms (`a..b`, `a..=b-1`, `..b`, `a..`,
/// excluded start bounds), chosen deterministically from (a, b): every form denotes the same set of indices, so the
/// reference and the Coq model (which see only a and b) are unaffected.  Invalid ranges keep the plain form.
fn range_form(a: usize, b: usize, len: usize) -> (core::ops::Bound<usize>, core::ops::Bound<usize>) {
    use core::ops::Bound::*;
    if a > b || b > len {
        return (Included(a), Excluded(b));
    }
    let start = match (a + 2 * b) % 3 {
        0 if a == 0 => Unbounded,
        1 if a > 0 => Excluded(a - 1),
        _ => Included(a),
    };
    let end = match (2 * a + b) % 3 {
        0 if b == len => Unbounded,
        1 if b > 0 => Included(b - 1),
        _ => Excluded(b),
    };
    (start, end)
}

// ----------------------------------------------------------------------------- reference forest

/// What the reference expects an operation to return.
#[derive(Clone, Debug, PartialEq)]
pub enum Exp {
    Unit,
    Id(Aid),
    NewId,
    Err(Aid, u64, u64),
    Panic,
    Ctx(Option<u32>),
    OptId(Option<Aid>),
    Count(u64),
    Unspecified,
}

/// Independent reference: live ids, an ordered child list per id; the parent is derived (the live node listing it).
#[derive(Clone, Default)]
pub struct RefForest {
    created: Vec<bool>,
    alive: Vec<bool>,
    kids: Vec<Vec<Aid>>,
    ctx: Vec<Option<u32>>,
    order: Vec<Aid>,
}

impl RefForest {
    fn ensure(&mut self, a: Aid) {
        while self.created.len() <= a {
            self.created.push(false);
            self.alive.push(false);
            self.kids.push(vec![]);
            self.ctx.push(None);
        }
    }
    fn is_alive(&self, a: Aid) -> bool {
        self.alive.get(a).copied().unwrap_or(false)
    }
    fn was_created(&self, a: Aid) -> bool {
        self.created.get(a).copied().unwrap_or(false)
    }
    pub fn parent(&self, c: Aid) -> Option<Aid> {
        self.order.iter().copied().find(|p| self.kids[*p].contains(&c))
    }
    fn detached(&self, c: Aid) -> bool {
        self.parent(c).is_none()
    }
    fn distinct(cs: &[Aid]) -> bool {
        (0..cs.len()).all(|i| !cs[..i].contains(&cs[i]))
    }
    fn create(&mut self, a: Aid, kids: Vec<Aid>, ctx: Option<u32>) {
        self.ensure(a);
        self.created[a] = true;
        self.alive[a] = true;
        self.kids[a] = kids;
        self.ctx[a] = ctx;
        self.order.push(a);
    }

    /// does the operation respect the precondition of the property in this state?
    pub fn respects_pre(&self, op: &Op) -> bool {
        match op {
            Op::NewLeaf(_) | Op::NewLeafCtx(..) | Op::Clear => true,
            Op::NewWithChildren(_, cs) => Self::distinct(cs) && cs.iter().all(|c| self.is_alive(*c) && self.detached(*c)),
            Op::AddChild(p, c) | Op::InsertChild(p, _, c) | Op::ReplaceChildAt(p, _, c) => {
                self.is_alive(*p) && self.is_alive(*c) && self.detached(*c)
            }
            Op::SetChildren(p, cs) => self.is_alive(*p) && Self::distinct(cs) && cs.iter().all(|c| self.is_alive(*c)),
            Op::RemoveChild(p, c) => self.is_alive(*p) && self.kids[*p].contains(c),
            Op::RemoveChildAt(p, _) | Op::ChildAtIndex(p, _) => self.is_alive(*p),
            Op::RemoveRange(p, a, b) => self.is_alive(*p) && a <= b && *b <= self.kids[*p].len() as u64,
            Op::Remove(n) | Op::SetCtx(n, _) | Op::ParentOf(n) | Op::ChildCountOf(n) => self.is_alive(*n),
            Op::GetCtx(_) => true,
        }
    }

    /// reference semantics.  Only meaningful when `respects_pre`; otherwise applied naively so that the generator
    /// still has a state to draw arguments from (such histories are not judged by the oracle any more).
    pub fn apply(&mut self, op: &Op) -> Exp {
        match op {
            Op::NewLeaf(a) => {
                self.create(*a, vec![], None);
                Exp::NewId
            }
            Op::NewLeafCtx(a, v) => {
                self.create(*a, vec![], Some(*v));
                Exp::NewId
            }
            Op::NewWithChildren(a, cs) => {
                self.create(*a, cs.clone(), None);
                Exp::NewId
            }
            Op::AddChild(p, c) => {
                if !self.is_alive(*p) || !self.is_alive(*c) {
                    return Exp::Panic;
                }
                self.kids[*p].push(*c);
                Exp::Unit
            }
            Op::InsertChild(p, i, c) => {
                if !self.is_alive(*p) {
                    return Exp::Panic;
                }
                let n = self.kids[*p].len() as u64;
                if *i > n {
                    return Exp::Err(*p, *i, n);
                }
                if !self.is_alive(*c) {
                    return Exp::Panic;
                }
                self.kids[*p].insert(*i as usize, *c);
                Exp::Unit
            }
            Op::SetChildren(p, cs) => {
                if !self.is_alive(*p) || cs.iter().any(|c| !self.is_alive(*c)) {
                    return Exp::Panic;
                }
                for q in self.order.clone() {
                    if q != *p {
                        self.kids[q].retain(|x| !cs.contains(x));
                    }
                }
                self.kids[*p] = cs.clone();
                Exp::Unit
            }
            Op::RemoveChild(p, c) => {
                if !self.is_alive(*p) {
                    return Exp::Panic;
                }
                match self.kids[*p].iter().position(|x| x == c) {
                    Some(i) => {
                        self.kids[*p].remove(i);
                        Exp::Id(*c)
                    }
                    None => Exp::Panic,
                }
            }
            Op::RemoveChildAt(p, i) => {
                if !self.is_alive(*p) {
                    return Exp::Panic;
                }
                let n = self.kids[*p].len() as u64;
                if *i >= n {
                    return Exp::Err(*p, *i, n);
                }
                Exp::Id(self.kids[*p].remove(*i as usize))
            }
            Op::RemoveRange(p, a, b) => {
                if !self.is_alive(*p) || a > b || *b > self.kids[*p].len() as u64 {
                    return Exp::Panic;
                }
                self.kids[*p].drain(*a as usize..*b as usize);
                Exp::Unit
            }
            Op::ReplaceChildAt(p, i, c) => {
                if !self.is_alive(*p) {
                    return Exp::Panic;
                }
                let n = self.kids[*p].len() as u64;
                if *i >= n {
                    return Exp::Err(*p, *i, n);
                }
                if !self.is_alive(*c) {
                    return Exp::Panic;
                }
                let old = std::mem::replace(&mut self.kids[*p][*i as usize], *c);
                Exp::Id(old)
            }
            Op::Remove(n) => {
                if !self.is_alive(*n) {
                    return Exp::Panic;
                }
                for q in self.order.clone() {
                    self.kids[q].retain(|x| x != n);
                }
                self.alive[*n] = false;
                self.order.retain(|x| x != n);
                Exp::Id(*n)
            }
            Op::Clear => {
                for q in self.order.clone() {
                    self.alive[q] = false;
                }
                self.order.clear();
                Exp::Unit
            }
            Op::SetCtx(n, v) => {
                if !self.is_alive(*n) {
                    return Exp::Panic;
                }
                self.ctx[*n] = *v;
                Exp::Unit
            }
            Op::GetCtx(n) => {
                if self.is_alive(*n) {
                    Exp::Ctx(self.ctx[*n])
                } else {
                    Exp::Unspecified
                }
            }
            Op::ChildAtIndex(p, i) => {
                if !self.is_alive(*p) {
                    return Exp::Panic;
                }
                let n = self.kids[*p].len() as u64;
                if *i >= n {
                    Exp::Err(*p, *i, n)
                } else {
                    Exp::Id(self.kids[*p][*i as usize])
                }
            }
            Op::ParentOf(n) => {
                if self.is_alive(*n) {
                    Exp::OptId(self.parent(*n))
                } else {
                    Exp::Panic
                }
            }
            Op::ChildCountOf(n) => {
                if self.is_alive(*n) {
                    Exp::Count(self.kids[*n].len() as u64)
                } else {
                    Exp::Panic
                }
            }
        }
    }
}

// ----------------------------------------------------------------------------- running on the implementation

fn raw(n: NodeId) -> u64 {
    u64::from(n)
}

fn enc_err(e: TaffyError) -> [u64; 4] {
    match e {
        TaffyError::ChildIndexOutOfBounds { parent, child_index, child_count } => [2, raw(parent), child_index as u64, child_count as u64],
        TaffyError::InvalidParentNode(n) => [4, 1, raw(n), 0],
        TaffyError::InvalidChildNode(n) => [4, 2, raw(n), 0],
        TaffyError::InvalidInputNode(n) => [4, 3, raw(n), 0],
    }
}
fn enc_unit(r: TaffyResult<()>) -> [u64; 4] {
    match r {
        Ok(()) => [0, 0, 0, 0],
        Err(e) => enc_err(e),
    }
}
fn enc_id(r: TaffyResult<NodeId>) -> [u64; 4] {
    match r {
        Ok(n) => [1, raw(n), 0, 0],
        Err(e) => enc_err(e),
    }
}
fn enc_ctx(c: Option<&u32>) -> u64 {
    match c {
        None => 0,
        Some(v) => *v as u64 + 1,
    }
}

/// run one operation on the real tree; `ids[aid]` is the NodeId the implementation returned for abstract id `aid`
fn exec(t: &mut TaffyTree<u32>, op: &Op, ids: &[NodeId]) -> [u64; 4] {
    let id = |a: &Aid| ids[*a];
    let r = catch_unwind(AssertUnwindSafe(|| match op {
        Op::NewLeaf(_) => enc_id(t.new_leaf(Style::DEFAULT)),
        Op::NewLeafCtx(_, v) => enc_id(t.new_leaf_with_context(Style::DEFAULT, *v)),
        Op::NewWithChildren(_, cs) => {
            let cs: Vec<NodeId> = cs.iter().map(id).collect();
            enc_id(t.new_with_children(Style::DEFAULT, &cs))
        }
        Op::AddChild(p, c) => enc_unit(t.add_child(id(p), id(c))),
        Op::InsertChild(p, i, c) => enc_unit(t.insert_child_at_index(id(p), *i as usize, id(c))),
        Op::SetChildren(p, cs) => {
            let cs: Vec<NodeId> = cs.iter().map(id).collect();
            enc_unit(t.set_children(id(p), &cs))
        }
        Op::RemoveChild(p, c) => enc_id(t.remove_child(id(p), id(c))),
        Op::RemoveChildAt(p, i) => enc_id(t.remove_child_at_index(id(p), *i as usize)),
        Op::RemoveRange(p, a, b) => enc_unit(t.remove_children_range(id(p), range_form(*a as usize, *b as usize, t.child_count(id(p))))),
        Op::ReplaceChildAt(p, i, c) => enc_id(t.replace_child_at_index(id(p), *i as usize, id(c))),
        Op::Remove(n) => enc_id(t.remove(id(n))),
        Op::Clear => {
            t.clear();
            [0, 0, 0, 0]
        }
        Op::SetCtx(n, v) => enc_unit(t.set_node_context(id(n), *v)),
        Op::GetCtx(n) => [5, enc_ctx(t.get_node_context(id(n))), 0, 0],
        Op::ChildAtIndex(p, i) => enc_id(t.child_at_index(id(p), *i as usize)),
        Op::ParentOf(n) => [5, t.parent(id(n)).map(raw).unwrap_or(0), 0, 0],
        Op::ChildCountOf(n) => [5, t.child_count(id(n)) as u64, 0, 0],
    }));
    r.unwrap_or([3, 0, 0, 0])
}

/// everything the structural accessors show for the pool (sorted by slot index), as integers
fn observe(t: &TaffyTree<u32>, pool: &[NodeId], out: &mut Vec<u64>) {
    let mut pool: Vec<NodeId> = pool.to_vec();
    pool.sort_by_key(|n| raw(*n) & 0xffff_ffff);
    out.push(t.total_node_count() as u64);
    out.push(pool.len() as u64);
    for &n in &pool {
        out.push(raw(n));
        out.push(catch_unwind(AssertUnwindSafe(|| t.parent(n).map(raw).unwrap_or(0))).unwrap_or(1));
        out.push(catch_unwind(AssertUnwindSafe(|| t.child_count(n) as u64)).unwrap_or(1));
        match catch_unwind(AssertUnwindSafe(|| t.children(n))) {
            Ok(Ok(cs)) => {
                out.push(cs.len() as u64);
                out.extend(cs.iter().map(|c| raw(*c)));
                for i in 0..cs.len() {
                    out.push(match catch_unwind(AssertUnwindSafe(|| t.child_at_index(n, i))) {
                        Ok(Ok(c)) => raw(c),
                        Ok(Err(_)) => 2,
                        Err(_) => 1,
                    });
                }
                match catch_unwind(AssertUnwindSafe(|| t.child_at_index(n, cs.len()))) {
                    Ok(Ok(c)) => out.extend([raw(c), 0, 0]),
                    Ok(Err(TaffyError::ChildIndexOutOfBounds { parent, child_index, child_count })) => {
                        out.extend([raw(parent), child_index as u64, child_count as u64])
                    }
                    Ok(Err(_)) => out.extend([2, 0, 0]),
                    Err(_) => out.extend([1, 0, 0]),
                }
            }
            _ => out.extend([1, 1, 0, 0]),
        }
        out.push(enc_ctx(t.get_node_context(n)));
    }
}

/// compare what the implementation shows with the reference (for all live nodes); None = equal
fn check_obs(t: &TaffyTree<u32>, f: &RefForest, ids: &[NodeId]) -> Option<String> {
    if t.total_node_count() != f.order.len() {
        return Some(format!("total_node_count = {} but {} nodes are live", t.total_node_count(), f.order.len()));
    }
    for &a in &f.order {
        let n = ids[a];
        let want: Vec<NodeId> = f.kids[a].iter().map(|c| ids[*c]).collect();
        let r = catch_unwind(AssertUnwindSafe(|| -> Option<String> {
            let got = match t.children(n) {
                Ok(v) => v,
                Err(e) => return Some(format!("children(#{a}) = Err({e:?})")),
            };
            if got != want {
                let name = |v: &Vec<NodeId>| -> String {
                    let names: Vec<String> =
                        v.iter().map(|x| ids.iter().rposition(|y| y == x).map(|i| format!("#{i}")).unwrap_or(format!("{:#x}", raw(*x)))).collect();
                    format!("[{}]", names.join(", "))
                };
                return Some(format!("children(#{a}) = {}, expected {}", name(&got), name(&want)));
            }
            if t.child_count(n) != want.len() {
                return Some(format!("child_count(#{a}) = {}, expected {}", t.child_count(n), want.len()));
            }
            for (i, w) in want.iter().enumerate() {
                if t.child_at_index(n, i) != Ok(*w) {
                    return Some(format!("child_at_index(#{a}, {i}) = {:?}", t.child_at_index(n, i)));
                }
            }
            let oob = t.child_at_index(n, want.len());
            if oob != Err(TaffyError::ChildIndexOutOfBounds { parent: n, child_index: want.len(), child_count: want.len() }) {
                return Some(format!("child_at_index(#{a}, {}) = {:?}, expected ChildIndexOutOfBounds", want.len(), oob));
            }
            let wp = f.parent(a).map(|p| ids[p]);
            if t.parent(n) != wp {
                let show = |p: Option<usize>| p.map(|i| format!("#{i}")).unwrap_or("None".to_string());
                let got = match t.parent(n) {
                    Some(x) => ids.iter().rposition(|y| *y == x).map(|i| format!("#{i}")).unwrap_or(format!("{:#x}", raw(x))),
                    None => "None".to_string(),
                };
                return Some(format!("parent(#{a}) = {}, expected {}", got, show(f.parent(a))));
            }
            if t.get_node_context(n).copied() != f.ctx[a] {
                return Some(format!("get_node_context(#{a}) = {:?}, expected {:?}", t.get_node_context(n), f.ctx[a]));
            }
            None
        }));
        match r {
            Ok(None) => {}
            Ok(Some(m)) => return Some(m),
            Err(_) => return Some(format!("an accessor panicked on live node #{a}")),
        }
    }
    None
}

/// compare the result of one operation with the reference's expectation
fn check_result(op: &Op, exp: &Exp, got: [u64; 4], ids: &[NodeId], earlier: &[NodeId]) -> Option<String> {
    let ok = match exp {
        Exp::Unit => got == [0, 0, 0, 0],
        Exp::Id(a) => got == [1, raw(ids[*a]), 0, 0],
        Exp::NewId => {
            if got[0] != 1 {
                false
            } else if earlier.iter().any(|e| raw(*e) == got[1]) {
                return Some(format!("{} returned the id {:#x} that was already handed out earlier", op.token(), got[1]));
            } else {
                true
            }
        }
        Exp::Err(p, i, n) => got == [2, raw(ids[*p]), *i, *n],
        Exp::Panic => got[0] == 3,
        Exp::Ctx(c) => got == [5, c.map(|v| v as u64 + 1).unwrap_or(0), 0, 0],
        Exp::OptId(p) => got == [5, p.map(|a| raw(ids[a])).unwrap_or(0), 0, 0],
        Exp::Count(n) => got == [5, *n, 0, 0],
        Exp::Unspecified => true,
    };
    if ok {
        None
    } else {
        Some(format!("{} returned {} but the reference expects {:?}", op.token(), show_result(got), exp))
    }
}

fn show_result(r: [u64; 4]) -> String {
    match r[0] {
        0 => "Ok(())".into(),
        1 => format!("Ok({:#x})", r[1]),
        2 => format!("Err(ChildIndexOutOfBounds{{parent:{:#x}, child_index:{}, child_count:{}}})", r[1], r[2], r[3]),
        3 => "a panic".into(),
        4 => format!("Err(variant {})", r[1]),
        _ => format!("{}", r[1]),
    }
}

// ----------------------------------------------------------------------------- generator

fn pick<T: Copy>(rng: &mut Rng, xs: &[T]) -> T {
    xs[rng.below(xs.len() as u64) as usize]
}

fn gen_index(rng: &mut Rng, count: u64, inclusive: bool) -> u64 {
    // valid indices are 0..count (or 0..=count for insert); ~1 in 5 is out of range
    let hi = if inclusive { count + 1 } else { count };
    match rng.below(10) {
        0 => hi,                    // first invalid index
        1 => hi + 1 + rng.below(4), // further out
        2 if rng.chance(1, 3) => u64::MAX,
        3 => 0,
        4 => hi.saturating_sub(1), // last valid one (or 0 on an empty list: invalid unless inclusive)
        _ => {
            if hi == 0 {
                0
            } else {
                rng.below(hi)
            }
        }
    }
}

fn subset(rng: &mut Rng, xs: &[Aid], max: usize) -> Vec<Aid> {
    let mut v: Vec<Aid> = xs.to_vec();
    // Fisher-Yates
    for i in (1..v.len()).rev() {
        let j = rng.below(i as u64 + 1) as usize;
        v.swap(i, j);
    }
    let k = rng.below(max.min(v.len()) as u64 + 1) as usize;
    v.truncate(k);
    v
}

/// choose the next operation from the reference state only
fn gen_op(rng: &mut Rng, f: &RefForest, next_aid: Aid, dead: &[Aid], just_removed: bool) -> Op {
    let live = &f.order;
    let n = live.len();
    let create = |rng: &mut Rng| -> Op {
        match rng.below(5) {
            0 | 1 => Op::NewLeaf(next_aid),
            2 => Op::NewLeafCtx(next_aid, rng.below(1000) as u32),
            _ => {
                let roots: Vec<Aid> = live.iter().copied().filter(|c| f.detached(*c)).collect();
                let mut cs = subset(rng, &roots, 3);
                if rng.chance(1, 12) && n > 0 {
                    // precondition violation: an attached node or a duplicate
                    let extra = if !cs.is_empty() && rng.chance(1, 2) { cs[0] } else { pick(rng, live) };
                    cs.push(extra);
                }
                Op::NewWithChildren(next_aid, cs)
            }
        }
    };
    if n == 0 {
        if !dead.is_empty() && rng.chance(1, 8) {
            return Op::GetCtx(pick(rng, dead));
        }
        return create(rng);
    }
    if just_removed && n < MAX_POOL && rng.chance(1, 2) {
        return create(rng); // reuse the slot that was just freed
    }
    if n < 4 && rng.chance(1, 2) {
        return create(rng); // keep the pool populated
    }
    let roots: Vec<Aid> = live.iter().copied().filter(|c| f.detached(*c)).collect();
    let attached: Vec<Aid> = live.iter().copied().filter(|c| !f.detached(*c)).collect();
    let with_kids: Vec<Aid> = live.iter().copied().filter(|p| !f.kids[*p].is_empty()).collect();
    // a child to attach: normally detached and different from the parent; sometimes the parent itself (still
    // detached, hence inside the precondition); sometimes an attached node (violation)
    let attachable = |rng: &mut Rng, p: Aid| -> Option<Aid> {
        if !attached.is_empty() && rng.chance(1, 14) {
            return Some(pick(rng, &attached));
        }
        let cands: Vec<Aid> = roots.iter().copied().filter(|c| *c != p).collect();
        if cands.is_empty() || rng.chance(1, 25) {
            if f.detached(p) && rng.chance(1, 3) {
                Some(p)
            } else {
                cands.first().copied()
            }
        } else {
            Some(pick(rng, &cands))
        }
    };
    for _ in 0..8 {
        let roll = rng.below(100);
        let op = match roll {
            0..=13 => {
                if n >= MAX_POOL {
                    Some(Op::Remove(pick(rng, live)))
                } else {
                    Some(create(rng))
                }
            }
            14..=29 => {
                let p = pick(rng, live);
                attachable(rng, p).map(|c| Op::AddChild(p, c))
            }
            30..=41 => {
                let p = pick(rng, live);
                let i = gen_index(rng, f.kids[p].len() as u64, true);
                attachable(rng, p).map(|c| Op::InsertChild(p, i, c))
            }
            42..=54 => {
                let p = pick(rng, live);
                let cs = match rng.below(6) {
                    0 => vec![],
                    1 => {
                        // permutation / sub-list of its own children
                        let own = f.kids[p].clone();
                        subset(rng, &own, own.len())
                    }
                    2 => {
                        // its own children plus somebody else's
                        let mut cs = f.kids[p].clone();
                        let others: Vec<Aid> = live.iter().copied().filter(|c| !cs.contains(c) && *c != p).collect();
                        cs.extend(subset(rng, &others, 2));
                        cs
                    }
                    3 if !attached.is_empty() => subset(rng, &attached, 3), // steal attached nodes
                    _ => {
                        let others: Vec<Aid> = live.iter().copied().filter(|c| *c != p || rng.chance(1, 10)).collect();
                        subset(rng, &others, 4)
                    }
                };
                let mut cs = cs;
                if !cs.is_empty() && rng.chance(1, 16) {
                    cs.push(cs[0]); // duplicate: violation
                }
                Some(Op::SetChildren(p, cs))
            }
            55..=60 => {
                if with_kids.is_empty() {
                    None
                } else {
                    let p = pick(rng, &with_kids);
                    if rng.chance(1, 30) {
                        // not a child: the unwrap panics (violation)
                        let non: Vec<Aid> = live.iter().copied().filter(|c| !f.kids[p].contains(c)).collect();
                        if non.is_empty() {
                            None
                        } else {
                            Some(Op::RemoveChild(p, pick(rng, &non)))
                        }
                    } else {
                        Some(Op::RemoveChild(p, pick(rng, &f.kids[p])))
                    }
                }
            }
            61..=68 => {
                let p = if !with_kids.is_empty() && rng.chance(3, 4) { pick(rng, &with_kids) } else { pick(rng, live) };
                Some(Op::RemoveChildAt(p, gen_index(rng, f.kids[p].len() as u64, false)))
            }
            69..=74 => {
                let p = if !with_kids.is_empty() && rng.chance(3, 4) { pick(rng, &with_kids) } else { pick(rng, live) };
                let len = f.kids[p].len() as u64;
                if rng.chance(1, 40) {
                    // invalid range: panics (violation)
                    if rng.chance(1, 2) {
                        Some(Op::RemoveRange(p, len + 1, len + 1))
                    } else {
                        Some(Op::RemoveRange(p, 1, 0))
                    }
                } else {
                    let a = rng.below(len + 1);
                    let b = match rng.below(4) {
                        0 => a,
                        1 => len,
                        _ => a + rng.below(len - a + 1),
                    };
                    Some(Op::RemoveRange(p, a, b))
                }
            }
            75..=82 => {
                let p = if !with_kids.is_empty() && rng.chance(4, 5) { pick(rng, &with_kids) } else { pick(rng, live) };
                let i = gen_index(rng, f.kids[p].len() as u64, false);
                attachable(rng, p).map(|c| Op::ReplaceChildAt(p, i, c))
            }
            83..=91 => {
                // removing a node that has both a parent and children is the interesting case
                let inner: Vec<Aid> = with_kids.iter().copied().filter(|c| !f.detached(*c)).collect();
                if !inner.is_empty() && rng.chance(1, 2) {
                    Some(Op::Remove(pick(rng, &inner)))
                } else {
                    Some(Op::Remove(pick(rng, live)))
                }
            }
            92 => {
                if rng.chance(1, 3) {
                    Some(Op::Clear)
                } else {
                    None
                }
            }
            93..=95 => Some(Op::SetCtx(pick(rng, live), if rng.chance(2, 3) { Some(rng.below(1000) as u32) } else { None })),
            96 | 97 => {
                // queries, also on keys of removed nodes
                if !dead.is_empty() && rng.chance(2, 3) {
                    Some(Op::GetCtx(pick(rng, dead)))
                } else {
                    let p = pick(rng, live);
                    Some(Op::ChildAtIndex(p, gen_index(rng, f.kids[p].len() as u64, false)))
                }
            }
            _ => {
                // a stale key handed to a method that indexes with it: panics (violation); rare, it ends the history
                if !dead.is_empty() && rng.chance(1, 3) {
                    let d = pick(rng, dead);
                    Some(match rng.below(5) {
                        0 => Op::ParentOf(d),
                        1 => Op::AddChild(pick(rng, live), d),
                        2 => Op::Remove(d),
                        3 => Op::ChildCountOf(d),
                        _ => Op::SetChildren(pick(rng, live), vec![d]),
                    })
                } else {
                    let p = pick(rng, live);
                    Some(if rng.chance(1, 2) { Op::ParentOf(p) } else { Op::ChildCountOf(p) })
                }
            }
        };
        if let Some(op) = op {
            return op;
        }
    }
    create(rng)
}

// ----------------------------------------------------------------------------- histories

pub struct Outcome {
    pub ops: Vec<Op>,
    pub c_line: Vec<u64>,
    pub r_line: Vec<u64>,
    /// first disagreement with the reference inside the precondition: (operation index, message)
    pub fail: Option<(usize, String)>,
    /// index of the first operation violating the precondition, if any
    pub tainted_at: Option<usize>,
    pub trace: Vec<String>,
}

fn encode_op(op: &Op, flag: u64, ids: &[NodeId], out: &mut Vec<u64>) {
    let id = |a: &Aid| raw(ids[*a]);
    let (a, b, c, xs): (u64, u64, u64, Vec<u64>) = match op {
        Op::NewLeaf(_) | Op::Clear => (0, 0, 0, vec![]),
        Op::NewLeafCtx(_, v) => (*v as u64, 0, 0, vec![]),
        Op::NewWithChildren(_, cs) => (0, 0, 0, cs.iter().map(id).collect()),
        Op::AddChild(p, c) | Op::RemoveChild(p, c) => (id(p), id(c), 0, vec![]),
        Op::InsertChild(p, i, c) | Op::ReplaceChildAt(p, i, c) => (id(p), *i, id(c), vec![]),
        Op::SetChildren(p, cs) => (id(p), 0, 0, cs.iter().map(id).collect()),
        Op::RemoveChildAt(p, i) | Op::ChildAtIndex(p, i) => (id(p), *i, 0, vec![]),
        Op::RemoveRange(p, a, b) => (id(p), *a, *b, vec![]),
        Op::Remove(n) | Op::GetCtx(n) | Op::ParentOf(n) | Op::ChildCountOf(n) => (id(n), 0, 0, vec![]),
        Op::SetCtx(n, v) => (id(n), v.map(|x| x as u64 + 1).unwrap_or(0), 0, vec![]),
    };
    out.extend([op.code(), flag, a, b, c, xs.len() as u64]);
    out.extend(xs);
}

/// Run a history on a fresh TaffyTree and on the reference.  `next` yields the next operation given the reference state
/// (generator) or the next element of a fixed list (replay); returning None ends the history.
/// Returns None if a fixed operation mentions an abstract id that was never created (ill-formed replay).
fn run_history(mut next: impl FnMut(&RefForest, Aid, &[Aid], bool) -> Option<Op>) -> Option<Outcome> {
    let mut t: TaffyTree<u32> = TaffyTree::new();
    let mut f = RefForest::default();
    let mut ids: Vec<NodeId> = vec![];
    let mut dead: Vec<Aid> = vec![];
    let mut o = Outcome { ops: vec![], c_line: vec![0], r_line: vec![], fail: None, tainted_at: None, trace: vec![] };
    let mut just_removed = false;
    loop {
        let op = match next(&f, ids.len(), &dead, just_removed) {
            Some(op) => op,
            None => break,
        };
        if op.mentions().iter().any(|a| !f.was_created(*a)) {
            return None;
        }
        if let Some(a) = op.creates() {
            if a != ids.len() {
                return None;
            }
        }
        let idx = o.ops.len();
        let respects = f.respects_pre(&op);
        let flag = if o.tainted_at.is_some() {
            2
        } else if respects {
            0
        } else {
            1
        };
        if flag == 1 {
            o.tainted_at = Some(idx);
        }
        encode_op(&op, flag, &ids, &mut o.c_line);
        o.c_line[0] += 1;
        let live_before: Vec<Aid> = f.order.clone();
        let exp = f.apply(&op);
        let got = exec(&mut t, &op, &ids);
        o.r_line.extend(got);
        o.trace.push(format!("{:<18} flag {} -> {}", op.token(), flag, show_result(got)));
        o.ops.push(op.clone());
        // the implementation's id for a created node (a placeholder if the creation failed: the history ends below)
        if op.creates().is_some() {
            ids.push(if got[0] == 1 { NodeId::from(got[1]) } else { NodeId::from(u64::MAX) });
        }
        if flag == 0 && o.fail.is_none() {
            let earlier = &ids[..ids.len() - if op.creates().is_some() { 1 } else { 0 }];
            if let Some(m) = check_result(&op, &exp, got, &ids, earlier) {
                o.fail = Some((idx, m));
            }
        }
        if got[0] == 3 || (op.creates().is_some() && got[0] != 1) {
            break; // a panic ends the history (the tree may be half updated)
        }
        match &op {
            Op::Remove(n) if !f.is_alive(*n) => {
                dead.push(*n);
                just_removed = true;
            }
            Op::Clear => {
                dead.extend(live_before);
                just_removed = true;
            }
            _ => just_removed = false,
        }
        let pool: Vec<NodeId> = f.order.iter().map(|a| ids[*a]).collect();
        observe(&t, &pool, &mut o.r_line);
        if flag == 0 && o.fail.is_none() {
            if let Some(m) = check_obs(&t, &f, &ids) {
                o.fail = Some((idx, format!("after {}: {}", o.ops[idx].token(), m)));
            }
        }
    }
    Some(o)
}

fn history_rng(seed: u64, idx: u64) -> Rng {
    Rng::new(seed.wrapping_mul(0x9E37_79B9_7F4A_7C15).wrapping_add(idx.wrapping_mul(0xD1B5_4A32_D192_ED03)))
}

pub fn generate(seed: u64, idx: u64) -> Outcome {
    let mut rng = history_rng(seed, idx);
    let len = 4 + rng.below(37) as usize;
    let mut count = 0usize;
    run_history(|f, next_aid, dead, jr| {
        if count >= len {
            return None;
        }
        count += 1;
        Some(gen_op(&mut rng, f, next_aid, dead, jr))
    })
    .expect("generated histories are well formed")
}

pub fn replay(ops: &[Op]) -> Option<Outcome> {
    let mut i = 0usize;
    run_history(|_, _, _, _| {
        let op = ops.get(i).cloned();
        i += 1;
        op
    })
}

/// renumber creations 0,1,2,.. after deleting operations; None if a deleted node is still mentioned
fn renumber(ops: &[Op]) -> Option<Vec<Op>> {
    let mut map: std::collections::HashMap<Aid, Aid> = Default::default();
    let mut out = vec![];
    for op in ops {
        let m = |a: &Aid, map: &std::collections::HashMap<Aid, Aid>| map.get(a).copied();
        let ml = |cs: &Vec<Aid>, map: &std::collections::HashMap<Aid, Aid>| -> Option<Vec<Aid>> { cs.iter().map(|a| map.get(a).copied()).collect() };
        let new = match op {
            Op::NewLeaf(a) => {
                let k = map.len();
                map.insert(*a, k);
                Op::NewLeaf(k)
            }
            Op::NewLeafCtx(a, v) => {
                let k = map.len();
                map.insert(*a, k);
                Op::NewLeafCtx(k, *v)
            }
            Op::NewWithChildren(a, cs) => {
                let cs = ml(cs, &map)?;
                let k = map.len();
                map.insert(*a, k);
                Op::NewWithChildren(k, cs)
            }
            Op::AddChild(p, c) => Op::AddChild(m(p, &map)?, m(c, &map)?),
            Op::InsertChild(p, i, c) => Op::InsertChild(m(p, &map)?, *i, m(c, &map)?),
            Op::SetChildren(p, cs) => Op::SetChildren(m(p, &map)?, ml(cs, &map)?),
            Op::RemoveChild(p, c) => Op::RemoveChild(m(p, &map)?, m(c, &map)?),
            Op::RemoveChildAt(p, i) => Op::RemoveChildAt(m(p, &map)?, *i),
            Op::RemoveRange(p, a, b) => Op::RemoveRange(m(p, &map)?, *a, *b),
            Op::ReplaceChildAt(p, i, c) => Op::ReplaceChildAt(m(p, &map)?, *i, m(c, &map)?),
            Op::Remove(n) => Op::Remove(m(n, &map)?),
            Op::Clear => Op::Clear,
            Op::SetCtx(n, v) => Op::SetCtx(m(n, &map)?, *v),
            Op::GetCtx(n) => Op::GetCtx(m(n, &map)?),
            Op::ChildAtIndex(p, i) => Op::ChildAtIndex(m(p, &map)?, *i),
            Op::ParentOf(n) => Op::ParentOf(m(n, &map)?),
            Op::ChildCountOf(n) => Op::ChildCountOf(m(n, &map)?),
        };
        out.push(new);
    }
    Some(out)
}

fn still_fails(ops: &[Op]) -> bool {
    match replay(ops) {
        Some(o) => o.fail.is_some(),
        None => false,
    }
}

/// greedy minimisation: cut after the failing operation, then delete operations one by one while the history still
/// fails inside the precondition
pub fn minimise(ops: &[Op], fail_at: usize) -> Vec<Op> {
    let mut cur: Vec<Op> = ops[..=fail_at].to_vec();
    let mut changed = true;
    while changed {
        changed = false;
        let mut i = cur.len();
        while i > 0 {
            i -= 1;
            let mut cand = cur.clone();
            cand.remove(i);
            if let Some(cand) = renumber(&cand) {
                if still_fails(&cand) {
                    // keep only the prefix up to the (new) failing operation
                    let at = replay(&cand).and_then(|o| o.fail.map(|f| f.0)).unwrap_or(cand.len() - 1);
                    cur = cand[..=at].to_vec();
                    changed = true;
                    i = i.min(cur.len());
                }
            }
        }
    }
    cur
}

fn join(xs: &[u64]) -> String {
    xs.iter().map(|x| x.to_string()).collect::<Vec<_>>().join(" ")
}

fn report_fail(idx: u64, o: &Outcome) {
    if let Some((at, msg)) = &o.fail {
        println!("FAIL {idx} {at} {msg}");
        let min = minimise(&o.ops, *at);
        let m = replay(&min).and_then(|r| r.fail).map(|f| f.1).unwrap_or_default();
        println!("MIN {idx} | {} | {}", min.iter().map(|o| o.token()).collect::<Vec<_>>().join(" "), m);
    }
}

pub fn main(args: &[String]) {
    std::panic::set_hook(Box::new(|_| {}));
    let num = |i: usize| -> u64 { args.get(i).and_then(|s| s.parse().ok()).unwrap_or(0) };
    match args.first().map(|s| s.as_str()).unwrap_or("") {
        "cases" => {
            let (seed, n) = (num(1), num(2));
            for idx in 0..n {
                let o = generate(seed, idx);
                println!("C {}\nR {}", join(&o.c_line), join(&o.r_line));
            }
        }
        "oracle" => {
            let (seed, n) = (num(1), num(2));
            let start = num(3);
            let mut judged_ops = 0u64;
            let mut fails = 0u64;
            for idx in start..start + n {
                let o = generate(seed, idx);
                judged_ops += o.tainted_at.unwrap_or(o.ops.len()) as u64;
                if o.fail.is_some() {
                    fails += 1;
                    if fails <= 5 {
                        report_fail(idx, &o);
                    }
                }
            }
            println!("ORACLE histories {n} judged_ops {judged_ops} fails {fails}");
        }
        "one" => {
            let (seed, idx) = (num(1), num(2));
            let o = generate(seed, idx);
            println!("C {}\nR {}", join(&o.c_line), join(&o.r_line));
            println!("OPS {}", o.ops.iter().map(|o| o.token()).collect::<Vec<_>>().join(" "));
            for l in &o.trace {
                eprintln!("  {l}");
            }
            report_fail(idx, &o);
        }
        "replay" => {
            let ops: Option<Vec<Op>> = args[1..].iter().map(|s| Op::parse(s)).collect();
            let ops = match ops {
                Some(o) => o,
                None => {
                    eprintln!("c14 replay: cannot parse the operation list");
                    std::process::exit(2);
                }
            };
            match replay(&ops) {
                Some(o) => {
                    println!("C {}\nR {}", join(&o.c_line), join(&o.r_line));
                    for l in &o.trace {
                        eprintln!("  {l}");
                    }
                    if let Some((at, msg)) = &o.fail {
                        println!("FAIL 0 {at} {msg}");
                    }
                }
                None => {
                    eprintln!("c14 replay: an operation mentions a node that was never created / creation ids must be 0,1,2,..");
                    std::process::exit(2);
                }
            }
        }
        _ => {
            eprintln!("c14: unknown command (cases | oracle | one | replay)");
            std::process::exit(2);
        }
    }
}
