(* Executable driver of the C09 correspondence check: the definitions of Model/GridTracks.v (the ones the theorems of
   Props/C09.v are about) instantiated at F32 and evaluated on the harness's cases (`vh c09 cases`).

   case   = W H  pad(l r t b)  border(l r t b)  gap_w(kind bits) gap_h(kind bits)  justify_content align_content
            <template columns> <template rows> <auto columns> <auto rows> n_items (col_line row_line w h)*
   result = for columns then rows: negative_implicit explicit positive_implicit n sizes.. n+1 gutters.. ;
            container width height; for every item x y.
   The container is a border-box grid of definite size W x H (length padding and border), its children are leaves of
   fixed size w x h placed on CSS line `col_line` / `row_line` (span 1).  compute_grid_layout's glue (available space,
   track counts of definitely placed span-1 items, container size, item position for `start` alignment) is mirrored here. *)
From Coq Require Import ZArith NArith Bool List.
From TV Require Import Num.Num Num.F32 Gen.GridTracksGen Model.GridTracks.
Import ListNotations.
Open Scope Z_scope.

Definition dec_sfn (k v : Z) : sfn f32 :=
  match k with
  | 0 => SLength (f_of_bits v) | 1 => SPercent (f_of_bits v) | 2 => SFr (f_of_bits v)
  | 3 => SFitPx (f_of_bits v) | 4 => SFitPct (f_of_bits v) | 5 => SAuto | 6 => SMinContent | _ => SMaxContent
  end.

Fixpoint take_tracks (n : nat) (xs : list Z) : list (nrt f32) * list Z :=
  match n with
  | O => ([], xs)
  | S n' =>
      match xs with
      | a :: b :: c :: d :: r => let '(ts, r') := take_tracks n' r in ((dec_sfn a b, dec_sfn c d) :: ts, r')
      | _ => ([], [])
      end
  end.

Fixpoint take_template (n : nat) (xs : list Z) : list (tsf f32) * list Z :=
  match n with
  | O => ([], xs)
  | S n' =>
      match xs with
      | 0 :: r =>
          let '(ts, r1) := take_tracks 1 r in
          let '(es, r2) := take_template n' r1 in
          (TSingle (hd (SAuto, SAuto) ts) :: es, r2)
      | 1 :: c :: nt :: r =>
          let '(ts, r1) := take_tracks (Z.to_nat nt) r in
          let '(es, r2) := take_template n' r1 in
          (TRepeat (RCount (Z.to_N c)) ts :: es, r2)
      | 2 :: nt :: r =>
          let '(ts, r1) := take_tracks (Z.to_nat nt) r in
          let '(es, r2) := take_template n' r1 in
          (TRepeat RAutoFill ts :: es, r2)
      | 3 :: nt :: r =>
          let '(ts, r1) := take_tracks (Z.to_nat nt) r in
          let '(es, r2) := take_template n' r1 in
          (TRepeat RAutoFit ts :: es, r2)
      | _ => ([], [])
      end
  end.

(* (col_line, row_line, w, h) *)
Fixpoint take_items (n : nat) (xs : list Z) : list (Z * Z * f32 * f32) :=
  match n with
  | O => []
  | S n' => match xs with
            | c :: r :: w :: h :: rest => (c, r, f_of_bits w, f_of_bits h) :: take_items n' rest
            | _ => []
            end
  end.

Definition dec_align (a : Z) : align_content :=   (* 0 = unset: Stretch *)
  match a with
  | 1 => AStart | 2 => AEnd | 3 => AFlexStart | 4 => AFlexEnd | 5 => ACenter | 6 => AStretch
  | 7 => ASpaceBetween | 8 => ASpaceEvenly | 9 => ASpaceAround | _ => AStretch
  end.
Definition is_stretch (a : align_content) : bool := match a with AStretch => true | _ => false end.

(* GridLine::into_origin_zero_line *)
Definition origin_zero (explicit : N) (line : Z) : Z :=
  if 0 <? line then line - 1 else line + Z.of_N explicit + 1.

Record axis_result := { ar_counts : track_counts; ar_tracks : list (track f32) }.

(* one axis: counts from the (definite, span 1) placements, initialise, size, align *)
Definition run_axis (template : list (tsf f32)) (autos : list (nrt f32)) (gap : sfn f32) (inner content_box : f32)
           (pad_start bor_start : f32) (align : align_content) (lines : list Z) (contribs : list f32) : axis_result :=
  let explicit := explicit_grid_size template (Some inner) gap true in
  let oz := map (origin_zero explicit) lines in
  let neg := fold_left (fun acc s => Z.max acc (- s)) oz 0 in
  let pos := fold_left (fun acc s => Z.max acc (s + 1 - Z.of_N explicit)) oz 0 in
  let counts := mk_counts (Z.to_N neg) explicit (Z.to_N pos) in
  let has_items := fun i : N => existsb (fun s => Z.eqb (s + neg) (Z.of_N i)) oz in
  let tracks0 := initialize_grid_tracks counts template autos gap has_items in
  let items := map (fun '(s, c) => (Z.to_nat (2 * (s + neg) + 1), c)) (combine oz contribs) in
  let sized := track_sizing_algorithm None None (is_stretch align) (Definite inner) (Some inner)
                 (resolve_intrinsic_span1 (Some inner) items) [] tracks0 in
  Build_axis_result counts (align_tracks content_box pad_start bor_start sized align).

Definition enc_axis (r : axis_result) : list Z :=
  let c := ar_counts r in
  let sizes := map (fun t => f_to_bits (base_size t)) (filter (fun t => match kind t with KTrack => true | _ => false end) (ar_tracks r)) in
  let gutters := map (fun t => f_to_bits (base_size t)) (filter (fun t => match kind t with KGutter => true | _ => false end) (ar_tracks r)) in
  [Z.of_N (negative_implicit c); Z.of_N (explicit c); Z.of_N (positive_implicit c)]
    ++ [Z.of_nat (length sizes)] ++ sizes ++ [Z.of_nat (length gutters)] ++ gutters.

Definition track_offset (r : axis_result) (explicit_line : Z) : f32 :=
  let c := ar_counts r in
  let s := origin_zero (explicit c) explicit_line + Z.of_N (negative_implicit c) in
  match nth_error (ar_tracks r) (Z.to_nat (2 * s + 1)) with
  | Some t => f_add (f_add (offset t) zero) zero
  | None => zero
  end.

Definition run_case (c : list Z) : list Z :=
  match c with
  | w :: h :: pl :: pr :: pt :: pb :: bl :: br :: bt :: bb :: gwk :: gwv :: ghk :: ghv :: jc :: ac :: ncols :: r0 =>
      let '(cols, r1) := take_template (Z.to_nat ncols) r0 in
      match r1 with
      | nrows :: r1' =>
          let '(rows, r2) := take_template (Z.to_nat nrows) r1' in
          match r2 with
          | nac :: r2' =>
              let '(acols, r3) := take_tracks (Z.to_nat nac) r2' in
              match r3 with
              | nar :: r3' =>
                  let '(arows, r4) := take_tracks (Z.to_nat nar) r3' in
                  match r4 with
                  | ni :: r4' =>
                      let items := take_items (Z.to_nat ni) r4' in
                      let f := f_of_bits in
                      (* padding + border per side, content_box_inset (scrollbar gutter 0.0 added on right / bottom) *)
                      let il := f_add (f pl) (f bl) in
                      let ir := f_add (f_add (f pr) (f br)) zero in
                      let it := f_add (f pt) (f bt) in
                      let ib := f_add (f_add (f pb) (f bb)) zero in
                      let pbw := f_add (f_add (f pl) (f bl)) (f_add (f pr) (f br)) in
                      let pbh := f_add (f_add (f pt) (f bt)) (f_add (f pb) (f bb)) in
                      let outer_w := fmax (f w) pbw in
                      let outer_h := fmax (f h) pbh in
                      let inner_w := f_sub outer_w (f_add il ir) in
                      let inner_h := f_sub outer_h (f_add it ib) in
                      let content_w := fmax zero (f_sub outer_w (f_add il ir)) in
                      let content_h := fmax zero (f_sub outer_h (f_add it ib)) in
                      let colr := run_axis cols acols (dec_sfn gwk gwv) inner_w content_w (f pl) (f bl) (dec_align jc)
                                    (map (fun '(c, _, _, _) => c) items) (map (fun '(_, _, w, _) => w) items) in
                      let rowr := run_axis rows arows (dec_sfn ghk ghv) inner_h content_h (f pt) (f bt) (dec_align ac)
                                    (map (fun '(_, r, _, _) => r) items) (map (fun '(_, _, _, h) => h) items) in
                      enc_axis colr ++ enc_axis rowr ++ [f_to_bits outer_w; f_to_bits outer_h]
                        ++ flat_map (fun '(c, r, _, _) => [f_to_bits (track_offset colr c); f_to_bits (track_offset rowr r)]) items
                  | _ => []
                  end
              | _ => []
              end
          | _ => []
          end
      | _ => []
      end
  | _ => []
  end.
